import OnetVerif.Model.C05
import OnetVerif.Shapes
/-! Property C05 — one instance's handlers run one at a time, in acceptance order; a blocked
handler delays only its own instance.  All statements are for arbitrary schedules (`List Act`),
hence unboundedly many feeders, messages and interleavings. -/
namespace C05

/-- the message whose handler is running, if any -/
def cur (s : St) : List Nat := match s.pc with | .handling m => [m] | _ => []

structure Inv (s : St) : Prop where
  order  : s.accepted = s.finished ++ cur s ++ s.queue
  start  : s.started = s.finished ++ cur s
  wake   : s.pc = .waiting → s.queue ≠ [] → s.token = true

theorem inv_init : Inv {} := by constructor <;> simp [cur]

theorem inv_step (s s' : St) (a : Act) (h : Inv s) (hs : step s a = some s') : Inv s' := by
  obtain ⟨ho, hst, hw⟩ := h
  cases a with
  | accept m =>
    simp only [step] at hs
    split at hs <;> simp at hs <;> subst hs
    · exact ⟨ho, hst, hw⟩
    · constructor <;> simp_all [cur]
  | close => simp [step] at hs; subst hs; constructor <;> simp_all [cur]
  | reader =>
    simp only [step] at hs
    split at hs
    · split at hs
      · simp at hs; subst hs; constructor <;> simp_all [cur]
      · split at hs <;> simp at hs <;> subst hs <;> constructor <;> simp_all [cur]
    · simp at hs; subst hs; constructor <;> simp_all [cur]
    · split at hs <;> simp at hs; subst hs; constructor <;> simp_all [cur]
    · simp at hs

theorem inv_run (as : List Act) (s s' : St) (h : Inv s) (hr : run s as = some s') : Inv s' := by
  induction as generalizing s with
  | nil => simp [run] at hr; subst hr; exact h
  | cons a as ih =>
    simp only [run] at hr
    split at hr
    · exact ih _ (inv_step _ _ _ h ‹_›) hr
    · exact ih _ h hr

/-- **acceptance order**: under every schedule, the handlers that have started are exactly a
prefix of the messages accepted for the instance, in acceptance order (nothing skipped,
nothing reordered, nothing duplicated). -/
theorem c05_fifo (as : List Act) (s : St) (hr : run {} as = some s) :
    s.started <+: s.accepted := by
  have h := inv_run as {} s inv_init hr
  rw [h.start, h.order]; simp [List.append_assoc]

/-- **one at a time**: a handler starts only after the previous one returned — the started
handlers are the finished ones plus at most one running. -/
theorem c05_serial (as : List Act) (s : St) (hr : run {} as = some s) :
    ∃ running, s.started = s.finished ++ running ∧ running.length ≤ 1 := by
  have h := inv_run as {} s inv_init hr
  refine ⟨cur s, h.start, ?_⟩
  unfold cur; split <;> simp

/-- **no lost wake-up**: whenever the reader sleeps while a message is queued, the wake-up token is
there; hence a reader with pending work and no running handler can always take a step. -/
theorem c05_no_lost_wakeup (as : List Act) (s : St) (hr : run {} as = some s)
    (hq : s.queue ≠ []) (hp : ∀ m, s.pc ≠ .handling m) (hst : s.pc ≠ .stopped) :
    step s .reader ≠ none := by
  have h := inv_run as {} s inv_init hr
  cases hpc : s.pc with
  | top =>
    simp only [step, hpc]
    split
    · simp
    · cases hq' : s.queue with
      | nil => exact absurd hq' hq
      | cons m q => simp
  | handling m => exact absurd hpc (hp m)
  | waiting =>
    have := h.wake hpc hq
    simp [step, hpc, this]
  | stopped => exact absurd hpc hst

/-- **everything accepted is handled**: in a state where the reader is blocked (no step enabled)
and the instance was not closed, every accepted message has been handled to the end. -/
theorem c05_quiescent_all_handled (as : List Act) (s : St) (hr : run {} as = some s)
    (hblocked : step s .reader = none) (hc : s.closing = false) :
    s.finished = s.accepted ∧ s.queue = [] := by
  have h := inv_run as {} s inv_init hr
  cases hpc : s.pc with
  | top =>
    simp only [step, hpc, hc] at hblocked
    cases hq : s.queue <;> simp [hq] at hblocked
  | handling m => simp [step, hpc] at hblocked
  | waiting =>
    simp only [step, hpc] at hblocked
    have ht : s.token = false := by
      cases ht : s.token <;> simp [ht] at hblocked ⊢
    have hq : s.queue = [] := by
      cases hq : s.queue with
      | nil => rfl
      | cons m q =>
        have := h.wake hpc (by simp [hq])
        simp [ht] at this
    refine ⟨?_, hq⟩
    have := h.order
    simp [cur, hpc, hq] at this
    exact this.symm
  | stopped =>
    -- the reader only stops after `close`
    exfalso
    have : ∀ (as : List Act) (s0 s : St), (s0.pc = .stopped → s0.closing = true) →
        run s0 as = some s → s.pc = .stopped → s.closing = true := by
      intro as
      induction as with
      | nil => intro s0 s h0 hr hp; simp [run] at hr; subst hr; exact h0 hp
      | cons a as ih =>
        intro s0 s h0 hr hp
        simp only [run] at hr
        split at hr
        · rename_i s1 hs
          refine ih s1 s ?_ hr hp
          intro hp1
          cases a with
          | accept m =>
            simp only [step] at hs
            split at hs <;> simp at hs <;> subst hs
            · exact h0 hp1
            · simp at hp1; simpa using h0 hp1
          | close => simp [step] at hs; subst hs; rfl
          | reader =>
            simp only [step] at hs
            split at hs
            · split at hs
              · rename_i hcl; simp at hs; subst hs; exact hcl
              · split at hs <;> simp at hs <;> subst hs <;> simp at hp1
            · simp at hs; subst hs; simp at hp1
            · split at hs <;> simp at hs; subst hs; simp at hp1
            · simp at hs
        · exact ih s0 s h0 hr hp
    have := this as {} s (by simp) hr hpc
    simp [hc] at this

/-- **handing a message over never waits for a handler**: `accept` is enabled in every state,
in particular while the instance's handler is blocked for ever. -/
theorem c05_handover_nonblocking (s : St) (m : Nat) : step s (.accept m) ≠ none := by
  simp only [step]; split <;> simp

/-- **a blocked handler delays only its own instance**: on a server with any number of
instances, (1) a step of instance `i` leaves every other instance untouched, and (2) whatever
instance `i` is doing — including sitting in a handler that never returns — a message for another
instance `j` can be handed over and `j`'s reader can start its handler. -/
theorem c05_instances_independent (s s' : Server) (i j : Nat) (a : Act) (hij : j ≠ i)
    (hs : sstep s (.at i a) = some s') : s' j = s j := by
  simp only [sstep, Option.map_eq_some_iff] at hs
  obtain ⟨t, _, ht⟩ := hs
  subst ht; simp [hij]

theorem c05_other_instance_progresses (s : Server) (i j : Nat) (m k : Nat) (hij : j ≠ i)
    (hblocked : (s i).pc = .handling k) (hidle : (s j).pc = .top) (hq : (s j).queue = [])
    (hc : (s j).closing = false) :
    ∃ s1 s2, sstep s (.at j (.accept m)) = some s1 ∧ sstep s1 (.at j .reader) = some s2 ∧
      (s2 j).pc = .handling m ∧ (s2 i).pc = .handling k := by
  have hji : i ≠ j := fun e => hij e.symm
  let t1 : St := { (s j) with queue := (s j).queue ++ [m], token := true, accepted := (s j).accepted ++ [m] }
  let s1 : Server := fun x => if x = j then t1 else s x
  let t2 : St := { t1 with queue := [], pc := .handling m, started := t1.started ++ [m] }
  let s2 : Server := fun x => if x = j then t2 else s1 x
  have e1 : sstep s (.at j (.accept m)) = some s1 := by
    simp [sstep, step, hc, s1, t1]
  have e2 : sstep s1 (.at j .reader) = some s2 := by
    simp [sstep, step, hc, hidle, hq, s1, s2, t1, t2]
  refine ⟨s1, s2, e1, e2, ?_, ?_⟩
  · simp [s2, t2]
  · simp [s2, s1, hji, hblocked]

/-! ### refinement: the instance is a FIFO work queue with one worker
The abstract specification a protocol author has in mind: messages are enqueued, one worker takes the
oldest one, works on it, finishes it, takes the next; shutting the queue stops the worker from
taking more.  Every step of the implementation model (mutex regions, wake-up token, sleeping and
waking reader) is one step of this specification or no step at all. -/
structure Spec where
  pending : List Nat := []
  working : Option Nat := none
  done : List Nat := []
  isOpen : Bool := true
  deriving DecidableEq, Repr

inductive SpecAct where | enq (m : Nat) | start | finish | shut
  deriving Repr

def specStep (q : Spec) : SpecAct → Option Spec
  | .enq m => if q.isOpen then some { q with pending := q.pending ++ [m] } else none
  | .start =>
      match q.working, q.pending, q.isOpen with
      | none, m :: rest, true => some { q with pending := rest, working := some m }
      | _, _, _ => none
  | .finish =>
      match q.working with
      | some m => some { q with working := none, done := q.done ++ [m] }
      | none => none
  | .shut => some { q with isOpen := false }

/-- the abstraction function: the wake-up token and where exactly the idle reader is are invisible -/
def abs (s : St) : Spec :=
  { pending := s.queue, working := (match s.pc with | .handling m => some m | _ => none),
    done := s.finished, isOpen := !s.closing }

/-- **refinement**: every implementation step is a specification step or a stutter. -/
theorem c05_refines_queue (s s' : St) (a : Act) (hs : step s a = some s') :
    abs s' = abs s ∨ ∃ b, specStep (abs s) b = some (abs s') := by
  cases a with
  | accept m =>
    simp only [step] at hs
    split at hs <;> simp at hs <;> subst hs
    · left; rfl
    · rename_i hc
      right; refine ⟨.enq m, ?_⟩
      simp [specStep, abs, hc]
  | close =>
    simp [step] at hs; subst hs
    right; exact ⟨.shut, by simp [specStep, abs]⟩
  | reader =>
    simp only [step] at hs
    split at hs
    · rename_i hpc
      split at hs
      · simp at hs; subst hs; left; simp [abs, hpc]
      · rename_i hc
        split at hs
        · rename_i m q hq
          simp at hs; subst hs
          right; refine ⟨.start, ?_⟩
          simp [specStep, abs, hpc, hq, hc]
        · simp at hs; subst hs; left; simp [abs, hpc]
    · rename_i m hpc
      simp at hs; subst hs
      right; refine ⟨.finish, ?_⟩
      simp [specStep, abs, hpc]
    · rename_i hpc
      split at hs <;> simp at hs
      subst hs; left; simp [abs, hpc]
    · simp at hs

/-- the initial states correspond -/
theorem c05_refines_queue_init : abs {} = {} := rfl

/-- what the specification guarantees by construction (stated so that the refinement has a content):
the messages enqueued while the queue was open are always `done ++ working ++ pending` — work is
taken in enqueueing order, one piece at a time, nothing is skipped -/
theorem c05_spec_order (q q' : Spec) (b : SpecAct) (enq : List Nat) (hb : specStep q b = some q')
    (h : enq = q.done ++ q.working.toList ++ q.pending) :
    (match b with | .enq m => enq ++ [m] | _ => enq) = q'.done ++ q'.working.toList ++ q'.pending := by
  cases b with
  | enq m =>
    simp only [specStep] at hb
    split at hb <;> simp at hb
    subst hb; simp [h, List.append_assoc]
  | start =>
    simp only [specStep] at hb
    split at hb <;> simp at hb
    rename_i m rest hw hp _
    subst hb; simp [h, hw, hp]
  | finish =>
    simp only [specStep] at hb
    split at hb <;> simp at hb
    rename_i m hw
    subst hb; simp [h, hw]
  | shut => simp [specStep] at hb; subst hb; exact h

/-! ### the server: any number of instances, arbitrary schedules
`c05_instances_independent` is about one step and `c05_other_instance_progresses` about one particular
state; the statements below are for whole schedules over a server with any number of instances. -/

/-- a server schedule: disabled actions are skipped -/
def srun (s : Server) : List SAct → Server
  | [] => s
  | a :: as => match sstep s a with
      | some s' => srun s' as
      | none => srun s as

/-- the actions of a server schedule that concern instance `j` -/
def proj (j : Nat) : List SAct → List Act
  | [] => []
  | .at i a :: as => if i = j then a :: proj j as else proj j as

/-- `run` never fails (a disabled action is skipped) -/
def runT (s : St) : List Act → St
  | [] => s
  | a :: as => match step s a with
      | some s' => runT s' as
      | none => runT s as

theorem run_eq_runT (as : List Act) (s : St) : run s as = some (runT s as) := by
  induction as generalizing s with
  | nil => rfl
  | cons a as ih =>
    simp only [run, runT]
    cases step s a with
    | none => exact ih s
    | some s' => exact ih s'

/-- **instances are independent, for whole schedules**: what instance `j` does under a server
schedule is exactly what it does on its own under the sub-schedule of its own actions — whatever
the other instances do in between, including one whose handler never returns (its reader simply
has no further action in the schedule). -/
theorem c05_server_projection (as : List SAct) (s : Server) (j : Nat) :
    srun s as j = runT (s j) (proj j as) := by
  induction as generalizing s with
  | nil => rfl
  | cons a as ih =>
    obtain ⟨i, a⟩ := a
    simp only [srun, proj]
    by_cases hij : i = j
    · subst hij
      simp only [if_true, runT]
      cases hs : step (s i) a with
      | none => simp [sstep, hs]; exact ih s
      | some t =>
        have : sstep s (.at i a) = some (fun x => if x = i then t else s x) := by simp [sstep, hs]
        rw [this]; simp only
        rw [ih]; simp
    · simp only [hij, if_false]
      cases hs : sstep s (.at i a) with
      | none => exact ih s
      | some s' =>
        simp only
        rw [ih]
        have := c05_instances_independent s s' i j a (fun e => hij e.symm) hs
        rw [this]

/-- **order, one at a time, nothing lost — for every instance of a server, under every server
schedule**: the handlers instance `j` has started are a prefix of what was accepted for `j`, at most
one of them is running, and when `j`'s reader can do nothing more (and `j` was not closed) every
message accepted for `j` has been handled to the end — no matter what state any other instance is
in. -/
theorem c05_server_each_instance (as : List SAct) (j : Nat) :
    let t := srun (fun _ => {}) as j
    t.started <+: t.accepted ∧
    (∃ running, t.started = t.finished ++ running ∧ running.length ≤ 1) ∧
    (step t .reader = none → t.closing = false → t.finished = t.accepted ∧ t.queue = []) := by
  have h := c05_server_projection as (fun _ => {}) j
  have hr := run_eq_runT (proj j as) {}
  intro t
  have ht : t = runT {} (proj j as) := h
  rw [← ht] at hr
  exact ⟨c05_fifo _ t hr, c05_serial _ t hr, fun hb hc => c05_quiescent_all_handled _ t hr hb hc⟩

/-- non-vacuity: instance 0 sits in the handler of message 1 for the rest of the schedule; instance 1,
fed in between, handles 7 and 8 to the end -/
example : (srun (fun _ => {}) [.at 0 (.accept 1), .at 0 .reader, .at 0 (.accept 2), .at 1 (.accept 7), .at 1 .reader,
      .at 0 (.accept 3), .at 1 (.accept 8), .at 1 .reader, .at 1 .reader, .at 1 .reader] 1).finished = [7, 8] := by decide
example : (srun (fun _ => {}) [.at 0 (.accept 1), .at 0 .reader, .at 0 (.accept 2), .at 1 (.accept 7), .at 1 .reader,
      .at 0 (.accept 3), .at 1 (.accept 8), .at 1 .reader, .at 1 .reader, .at 1 .reader] 0).pc = .handling 1 := by decide

/-! ### non-vacuity: a concrete schedule with two feeders and a slow handler -/
example : ∃ s, run {} [.accept 1, .reader, .accept 2, .accept 3, .reader, .reader, .reader, .reader] = some s ∧
    s.started = [1, 2, 3] ∧ s.finished = [1, 2] ∧ s.accepted = [1, 2, 3] := by
  refine ⟨_, rfl, ?_⟩; decide
example : step { pc := .handling 7 } (.accept 9) ≠ none := c05_handover_nonblocking _ _

/-! ### from the connection to the queue (`Model/C05Conn.lean`)
The receive loop of every connection, the two dispatchers, the overlay's hand-over under `transmitMux`,
all instances of the server and the service processors in one transition system. -/

/-- a stopped reader belongs to a closed instance (the reader only returns after `closeDispatch`) -/
theorem stop_step (s s' : St) (a : Act) (h : s.pc = .stopped → s.closing = true) (hs : step s a = some s') :
    s'.pc = .stopped → s'.closing = true := by
  intro hp1
  cases a with
  | accept m =>
    simp only [step] at hs
    split at hs <;> simp at hs <;> subst hs
    · exact h hp1
    · simp at hp1; simpa using h hp1
  | close => simp [step] at hs; subst hs; rfl
  | reader =>
    simp only [step] at hs
    split at hs
    · split at hs
      · rename_i hcl; simp at hs; subst hs; exact hcl
      · split at hs <;> simp at hs <;> subst hs <;> simp at hp1
    · simp at hs; subst hs; simp at hp1
    · split at hs <;> simp at hs; subst hs; simp at hp1
    · simp at hs

/-- `c05_quiescent_all_handled` from the invariants alone -/
theorem quiescent_of_inv (s : St) (h : Inv s) (hstop : s.pc = .stopped → s.closing = true)
    (hblocked : step s .reader = none) (hc : s.closing = false) :
    s.finished = s.accepted ∧ s.queue = [] := by
  cases hpc : s.pc with
  | top =>
    simp only [step, hpc, hc] at hblocked
    cases hq : s.queue <;> simp [hq] at hblocked
  | handling m => simp [step, hpc] at hblocked
  | waiting =>
    simp only [step, hpc] at hblocked
    have ht : s.token = false := by
      cases ht : s.token <;> simp [ht] at hblocked ⊢
    have hq : s.queue = [] := by
      cases hq : s.queue with
      | nil => rfl
      | cons m q =>
        have := h.wake hpc (by simp [hq])
        simp [ht] at this
    refine ⟨?_, hq⟩
    have := h.order
    simp [cur, hpc, hq] at this
    exact this.symm
  | stopped => have := hstop hpc; simp [hc] at this

namespace Conn

/-- the envelopes of connection `c` in a (connection, envelope) log -/
def onConn (c : Nat) (l : List (Nat × Env)) : List Env := (l.filter (fun p => p.1 == c)).map (·.2)

/-- the protocol messages among some envelopes, as (instance, message) -/
def protos : List Env → List (Nat × Nat)
  | [] => []
  | .proto i m :: l => (i, m) :: protos l
  | .svc _ _ :: l => protos l

/-- the protocol message a connection's goroutine holds between `Receive` and the hand-over -/
def inHand : LPc → List (Nat × Nat)
  | .disp (.proto i m) => [(i, m)]
  | .ctor i m => [(i, m)]
  | _ => []

/-- the hand-overs of messages that came over connection `c`, as (instance, message) -/
def handsOn (c : Nat) (l : List Hand) : List (Nat × Nat) := (l.filter (fun h => h.c == c)).map fun h => (h.i, h.m)

/-- the messages instance `i` took, in the order of the server's hand-overs -/
def takenBy (i : Nat) (l : List Hand) : List Nat := (l.filter (fun h => h.i == i && h.ok)).map (·.m)

theorem protos_append (a b : List Env) : protos (a ++ b) = protos a ++ protos b := by
  induction a with
  | nil => rfl
  | cons e a ih => cases e <;> simp [protos, ih]

theorem onConn_snoc (c c' : Nat) (e : Env) (l : List (Nat × Env)) :
    onConn c (l ++ [(c', e)]) = onConn c l ++ (if c' = c then [e] else []) := by
  by_cases h : c' = c <;> simp [onConn, List.filter_append, h]

theorem handsOn_snoc (c : Nat) (x : Hand) (l : List Hand) :
    handsOn c (l ++ [x]) = handsOn c l ++ (if x.c = c then [(x.i, x.m)] else []) := by
  by_cases h : x.c = c <;> simp [handsOn, List.filter_append, h]

theorem takenBy_snoc (i : Nat) (x : Hand) (l : List Hand) :
    takenBy i (l ++ [x]) = takenBy i l ++ (if x.i = i ∧ x.ok = true then [x.m] else []) := by
  by_cases h : x.i = i ∧ x.ok = true
  · simp [takenBy, List.filter_append, h]
  · have : (x.i == i && x.ok) = false := by
      cases hb : (x.i == i && x.ok)
      · rfl
      · exfalso; apply h; simpa using hb
    simp [takenBy, List.filter_append, h, this]

theorem upd_same {α : Type} (f : Nat → α) (k : Nat) (v : α) : upd f k v k = v := by simp [upd]
theorem upd_other {α : Type} (f : Nat → α) (k j : Nat) (v : α) (h : j ≠ k) : upd f k v j = f j := by simp [upd, h]

structure Inv (s : St) : Prop where
  /-- a connection is a FIFO: what was written = what `Receive` returned ++ what is still on the wire -/
  fifo : ∀ c, onConn c s.sent = onConn c s.got ++ s.wire c
  /-- every protocol message `Receive` returned was handed over, in that order, or is in the goroutine's hand -/
  hand : ∀ c, protos (onConn c s.got) = handsOn c s.hand ++ inHand (s.loop c)
  /-- an instance's acceptance order is the order of the server's hand-overs to it -/
  acc : ∀ i, (s.inst i).accepted = takenBy i s.hand
  inst : ∀ i, C05.Inv (s.inst i)
  stop : ∀ i, (s.inst i).pc = .stopped → (s.inst i).closing = true

theorem inv_init : Inv {} :=
  ⟨fun _ => rfl, fun _ => rfl, fun _ => rfl, fun _ => C05.inv_init, fun _ h => by simp at h⟩

/-- what `handOver` does, spelled out -/
theorem handOver_eq (s : St) (c i m : Nat) :
    ∃ t, C05.step (s.inst i) (.accept m) = some t ∧
      handOver s c i m = { s with inst := upd s.inst i t, hand := s.hand ++ [⟨c, i, m, !(s.inst i).closing⟩] } ∧
      t.accepted = (s.inst i).accepted ++ (if (s.inst i).closing = false then [m] else []) := by
  unfold handOver
  simp only [C05.step]
  cases hcl : (s.inst i).closing <;> simp

theorem inv_handOver (s : St) (c i m : Nat) (lp : LPc) (hI : Inv s) (hl : inHand (s.loop c) = [(i, m)])
    (hlp : inHand lp = []) (mx : Bool) (lv : List Nat) :
    Inv { handOver s c i m with mux := mx, live := lv, loop := upd s.loop c lp } := by
  obtain ⟨t, hst, heq, hacc⟩ := handOver_eq s c i m
  rw [heq]
  obtain ⟨hf, hh, ha, hi, hs⟩ := hI
  refine ⟨hf, fun c' => ?_, fun j => ?_, fun j => ?_, fun j => ?_⟩
  · show protos (onConn c' s.got) = handsOn c' (s.hand ++ [_]) ++ inHand (upd s.loop c lp c')
    rw [handsOn_snoc]
    by_cases e : c' = c
    · subst e; rw [upd_same, hlp, hh, hl]; simp
    · have e' : ¬ c = c' := fun x => e x.symm
      rw [upd_other _ _ _ _ e]; simp [e', hh]
  · show (upd s.inst i t j).accepted = takenBy j (s.hand ++ [_])
    rw [takenBy_snoc]
    by_cases e : j = i
    · subst e; rw [upd_same, hacc, ha]
      cases (s.inst j).closing <;> simp
    · have e' : ¬ i = j := fun x => e x.symm
      rw [upd_other _ _ _ _ e]; simp [e', ha]
  · show C05.Inv (upd s.inst i t j)
    by_cases e : j = i
    · subst e; rw [upd_same]; exact C05.inv_step _ _ _ (hi j) hst
    · rw [upd_other _ _ _ _ e]; exact hi j
  · show (upd s.inst i t j).pc = .stopped → (upd s.inst i t j).closing = true
    by_cases e : j = i
    · subst e; rw [upd_same]; exact C05.stop_step _ _ _ (hs j) hst
    · rw [upd_other _ _ _ _ e]; exact hs j

/-- a step of one instance that leaves its acceptance log alone -/
theorem inv_inst_step (s : St) (i : Nat) (a : C05.Act) (t : C05.St) (hI : Inv s)
    (hst : C05.step (s.inst i) a = some t) (hacc : t.accepted = (s.inst i).accepted) :
    Inv { s with inst := upd s.inst i t } := by
  obtain ⟨hf, hh, ha, hi, hs⟩ := hI
  refine ⟨hf, hh, fun j => ?_, fun j => ?_, fun j => ?_⟩
  · show (upd s.inst i t j).accepted = takenBy j s.hand
    by_cases e : j = i
    · subst e; rw [upd_same, hacc]; exact ha j
    · rw [upd_other _ _ _ _ e]; exact ha j
  · show C05.Inv (upd s.inst i t j)
    by_cases e : j = i
    · subst e; rw [upd_same]; exact C05.inv_step _ _ _ (hi j) hst
    · rw [upd_other _ _ _ _ e]; exact hi j
  · show (upd s.inst i t j).pc = .stopped → (upd s.inst i t j).closing = true
    by_cases e : j = i
    · subst e; rw [upd_same]; exact C05.stop_step _ _ _ (hs j) hst
    · rw [upd_other _ _ _ _ e]; exact hs j

theorem reader_accepted (s t : C05.St) (h : C05.step s .reader = some t) : t.accepted = s.accepted := by
  simp only [C05.step] at h
  split at h
  · split at h
    · simp at h; subst h; rfl
    · split at h <;> simp at h <;> subst h <;> rfl
  · simp at h; subst h; rfl
  · split at h <;> simp at h; subst h; rfl
  · simp at h

theorem inv_step (s s' : St) (a : Act) (hI : Inv s) (hs : step s a = some s') : Inv s' := by
  cases a with
  | send c e =>
    simp only [step] at hs; simp at hs; subst hs
    obtain ⟨hf, hh, ha, hi, hst⟩ := hI
    refine ⟨fun c' => ?_, hh, ha, hi, hst⟩
    show onConn c' (s.sent ++ [(c, e)]) = onConn c' s.got ++ upd s.wire c (s.wire c ++ [e]) c'
    rw [onConn_snoc]
    by_cases h : c' = c
    · subst h; rw [upd_same, hf]; simp
    · have h' : ¬ c = c' := fun x => h x.symm
      rw [upd_other _ _ _ _ h]; simp [h', hf]
  | loop c =>
    simp only [step] at hs
    split at hs
    · -- recv
      rename_i hl
      split at hs
      · simp at hs
      · rename_i e rest hw
        simp at hs; subst hs
        obtain ⟨hf, hh, ha, hi, hst⟩ := hI
        refine ⟨fun c' => ?_, fun c' => ?_, ha, hi, hst⟩
        · show onConn c' s.sent = onConn c' (s.got ++ [(c, e)]) ++ upd s.wire c rest c'
          rw [onConn_snoc]
          by_cases h : c' = c
          · subst h; rw [upd_same, hf, hw]; simp
          · have h' : ¬ c = c' := fun x => h x.symm
            rw [upd_other _ _ _ _ h]; simp [h', hf]
        · show protos (onConn c' (s.got ++ [(c, e)])) = handsOn c' s.hand ++ inHand (upd s.loop c (.disp e) c')
          rw [onConn_snoc]
          by_cases h : c' = c
          · subst h; rw [upd_same, protos_append, hh, hl]
            cases e <;> simp [inHand, protos]
          · have h' : ¬ c = c' := fun x => h x.symm
            rw [upd_other _ _ _ _ h]; simp [h', hh]
    · -- a service message gets its own goroutine
      rename_i p m hl
      simp at hs; subst hs
      obtain ⟨hf, hh, ha, hi, hst⟩ := hI
      refine ⟨hf, fun c' => ?_, ha, hi, hst⟩
      show protos (onConn c' s.got) = handsOn c' s.hand ++ inHand (upd s.loop c .recv c')
      by_cases h : c' = c
      · subst h; rw [upd_same, hh, hl]; rfl
      · rw [upd_other _ _ _ _ h]; exact hh c'
    · rename_i i m hl
      split at hs
      · simp at hs
      · split at hs
        · simp at hs; subst hs
          have := inv_handOver s c i m .recv hI (by rw [hl]; rfl) rfl (handOver s c i m).mux (handOver s c i m).live
          exact this
        · simp at hs; subst hs
          obtain ⟨hf, hh, ha, hi, hst⟩ := hI
          refine ⟨hf, fun c' => ?_, ha, hi, hst⟩
          show protos (onConn c' s.got) = handsOn c' s.hand ++ inHand (upd s.loop c (.ctor i m) c')
          by_cases h : c' = c
          · subst h; rw [upd_same, hh, hl]; rfl
          · rw [upd_other _ _ _ _ h]; exact hh c'
    · simp at hs
  | ctorRet c =>
    simp only [step] at hs
    split at hs
    · rename_i i m hl
      simp at hs; subst hs
      exact inv_handOver s c i m .recv hI (by rw [hl]; rfl) rfl false (s.live ++ [i])
    · simp at hs
  | reader i =>
    simp only [step, Option.map_eq_some_iff] at hs
    obtain ⟨t, ht, rfl⟩ := hs
    exact inv_inst_step s i .reader t hI ht (reader_accepted _ _ ht)
  | close i =>
    simp only [step, Option.map_eq_some_iff] at hs
    obtain ⟨t, ht, rfl⟩ := hs
    refine inv_inst_step s i .close t hI ht ?_
    simp [C05.step] at ht; subst ht; rfl
  | svcRet k =>
    simp only [step] at hs
    split at hs
    · simp at hs; subst hs
      obtain ⟨hf, hh, ha, hi, hst⟩ := hI
      exact ⟨hf, hh, ha, hi, hst⟩
    · simp at hs

theorem inv_run (as : List Act) (s : St) (h : Inv s) : Inv (run s as) := by
  induction as generalizing s with
  | nil => exact h
  | cons a as ih =>
    simp only [run]
    split
    · exact ih _ (inv_step _ _ _ h ‹_›)
    · exact ih _ h

/-- **the connection's goroutine never waits for a handler**: whether connection `c`'s goroutine can
take its next step is decided by the wire, by where the goroutine is and by `transmitMux` — no
instance's queue, wake-up token or reader state occurs in `loopReady`.  So a connection with input
proceeds while any number of handlers (and service processors) are blocked for ever; the only thing
it ever waits for is a protocol constructor running inside `transmitMux`. -/
theorem c05_conn_loop_never_waits_for_handler (s : St) (c : Nat) :
    (step s (.loop c)).isSome = loopReady s c := by
  simp only [step, loopReady]
  cases hl : s.loop c with
  | recv => cases hw : s.wire c <;> simp
  | disp e =>
    cases e with
    | svc p m => simp
    | proto i m =>
      cases hm : s.mux
      · by_cases hlive : i ∈ s.live <;> simp [hlive]
      · simp
  | ctor i m => simp

/-- the same, as the frame statement it is: two server states that differ only in what their
instances are doing (queues, tokens, readers, running handlers, running processors) enable
exactly the same connection steps -/
theorem c05_conn_loop_frame (s s' : St) (c : Nat) (hw : s.wire c = s'.wire c) (hl : s.loop c = s'.loop c)
    (hm : s.mux = s'.mux) : (step s (.loop c)).isSome = (step s' (.loop c)).isSome := by
  rw [c05_conn_loop_never_waits_for_handler, c05_conn_loop_never_waits_for_handler]
  simp [loopReady, hw, hl, hm]

/-- **service messages never hold a connection**: with a service envelope in hand the goroutine's
next step is always enabled and brings it back to `Receive` (the processor runs in a goroutine of its
own, `RoutineDispatcher`) -/
theorem c05_conn_service_message_returns (s : St) (c p m : Nat) (hl : s.loop c = .disp (.svc p m)) :
    ∃ s', step s (.loop c) = some s' ∧ s'.loop c = .recv ∧ s'.running = s.running ++ [(p, m)] := by
  refine ⟨{ s with running := s.running ++ [(p, m)], loop := upd s.loop c .recv }, by simp only [step, hl], ?_, rfl⟩
  simp [upd]

/-- **acceptance order = hand-over order = connection order**: under every schedule (any number of
connections, local senders, instances, blocked handlers, constructors, processors)
(1) the messages handed over from connection `c` are a prefix of the protocol messages written on
`c`, in writing order (nothing overtakes on a connection, nothing is skipped or duplicated);
(2) the messages instance `i` accepted are the server's hand-overs to `i`, in that order;
(3) the handlers `i` started are a prefix of that, and at most one is running. -/
theorem c05_conn_order (as : List Act) (c i : Nat) :
    let s := run {} as
    handsOn c s.hand <+: protos (onConn c s.sent) ∧
    (s.inst i).accepted = takenBy i s.hand ∧
    (s.inst i).started <+: takenBy i s.hand ∧
    (∃ running, (s.inst i).started = (s.inst i).finished ++ running ∧ running.length ≤ 1) := by
  intro s
  have hI : Inv s := inv_run as {} inv_init
  refine ⟨?_, hI.acc i, ?_, ?_⟩
  · rw [hI.fifo c, protos_append, hI.hand c]
    exact ⟨inHand (s.loop c) ++ protos (s.wire c), by simp [List.append_assoc]⟩
  · rw [← hI.acc i, (hI.inst i).start, (hI.inst i).order]; simp [List.append_assoc]
  · refine ⟨C05.cur (s.inst i), (hI.inst i).start, ?_⟩
    unfold C05.cur; split <;> simp

/-- every wire is empty and every connection's goroutine is back in `Receive` -/
def Drained (s : St) : Prop := ∀ c, s.wire c = [] ∧ s.loop c = .recv

/-- **nothing is stuck on the way**: once the connections are drained, every protocol message written
on connection `c` has been handed over (in writing order), and every instance that was not closed
and whose reader can do nothing more has handled everything that was handed to it — whatever any
other instance is doing (in particular: sitting in a handler that never returns). -/
theorem c05_conn_drained_all_handled (as : List Act) (hd : Drained (run {} as)) (c i : Nat) :
    let s := run {} as
    handsOn c s.hand = protos (onConn c s.sent) ∧
    (C05.step (s.inst i) .reader = none → (s.inst i).closing = false →
      (s.inst i).finished = takenBy i s.hand ∧ (s.inst i).queue = []) := by
  intro s
  have hI : Inv s := inv_run as {} inv_init
  obtain ⟨hw, hl⟩ := hd c
  refine ⟨?_, fun hb hc => ?_⟩
  · rw [hI.fifo c, protos_append, hI.hand c]
    show handsOn c s.hand = handsOn c s.hand ++ inHand (s.loop c) ++ protos (s.wire c)
    rw [hw, hl]; simp [inHand, protos]
  · have := C05.quiescent_of_inv (s.inst i) (hI.inst i) (hI.stop i) hb hc
    rw [← hI.acc i]; exact this

/-- two server states that are the same except for what the instances of the set `B` are doing (their
closing flags included in "the same": only `close` changes them) -/
structure SameBut (B : Nat → Bool) (s s' : St) : Prop where
  wire : s.wire = s'.wire
  loop : s.loop = s'.loop
  mux : s.mux = s'.mux
  live : s.live = s'.live
  running : s.running = s'.running
  sent : s.sent = s'.sent
  got : s.got = s'.got
  hand : s.hand = s'.hand
  inst : ∀ j, B j = false → s.inst j = s'.inst j
  closing : ∀ j, (s.inst j).closing = (s'.inst j).closing

theorem accept_closing (t t' : C05.St) (a : C05.Act) (h : C05.step t a = some t') (ha : a ≠ .close) :
    t'.closing = t.closing := by
  cases a with
  | accept m => simp only [C05.step] at h; split at h <;> simp at h <;> subst h <;> rfl
  | close => exact absurd rfl ha
  | reader =>
    simp only [C05.step] at h
    split at h
    · split at h
      · simp at h; subst h; rfl
      · split at h <;> simp at h <;> subst h <;> rfl
    · simp at h; subst h; rfl
    · split at h <;> simp at h; subst h; rfl
    · simp at h

theorem sameBut_handOver (B : Nat → Bool) (s s' : St) (c i m : Nat) (h : SameBut B s s') (lp : LPc) (mx : Bool) (lv : List Nat) :
    SameBut B { handOver s c i m with mux := mx, live := lv, loop := upd s.loop c lp }
              { handOver s' c i m with mux := mx, live := lv, loop := upd s'.loop c lp } := by
  obtain ⟨t, hst, heq, _⟩ := handOver_eq s c i m
  obtain ⟨t', hst', heq', _⟩ := handOver_eq s' c i m
  rw [heq, heq']
  have hcl : (s.inst i).closing = (s'.inst i).closing := h.closing i
  refine ⟨h.wire, by simp [h.loop], rfl, rfl, h.running, h.sent, h.got, by simp [h.hand, hcl], fun j hj => ?_, fun j => ?_⟩
  · show upd s.inst i t j = upd s'.inst i t' j
    by_cases e : j = i
    · subst e
      have : s.inst j = s'.inst j := h.inst j hj
      rw [this] at hst; rw [hst] at hst'; cases hst'
      simp [upd]
    · simp [upd, e, h.inst j hj]
  · show (upd s.inst i t j).closing = (upd s'.inst i t' j).closing
    by_cases e : j = i
    · subst e
      rw [upd_same, upd_same, accept_closing _ _ _ hst (by simp), accept_closing _ _ _ hst' (by simp)]
      exact hcl
    · rw [upd_other _ _ _ _ e, upd_other _ _ _ _ e]; exact h.closing j

/-- one step of anything but the reader of an instance in `B`: enabled in both states or in neither, and the
states stay the same but for `B` -/
theorem sameBut_step (B : Nat → Bool) (s s' : St) (a : Act) (h : SameBut B s s') (ha : ∀ i, a = .reader i → B i = false) :
    (step s a = none ∧ step s' a = none) ∨ ∃ t t', step s a = some t ∧ step s' a = some t' ∧ SameBut B t t' := by
  obtain ⟨w, l, mx, lv, ins, rn, sn, gt, hd⟩ := s
  obtain ⟨w', l', mx', lv', ins', rn', sn', gt', hd'⟩ := s'
  obtain ⟨h1, h2, h3, h4, h5, h6, h7, h8, hinst, hcl⟩ := h
  simp only at h1 h2 h3 h4 h5 h6 h7 h8 hinst hcl
  subst h1 h2 h3 h4 h5 h6 h7 h8
  have hsame : SameBut B ⟨w, l, mx, lv, ins, rn, sn, gt, hd⟩ ⟨w, l, mx, lv, ins', rn, sn, gt, hd⟩ :=
    ⟨rfl, rfl, rfl, rfl, rfl, rfl, rfl, rfl, hinst, hcl⟩
  cases a with
  | send c e =>
    right
    exact ⟨_, _, rfl, rfl, ⟨rfl, rfl, rfl, rfl, rfl, rfl, rfl, rfl, hinst, hcl⟩⟩
  | loop c =>
    simp only [step]
    cases hl : l c with
    | recv =>
      cases hw : w c with
      | nil => left; simp
      | cons e rest =>
        right
        exact ⟨_, _, rfl, rfl, ⟨rfl, rfl, rfl, rfl, rfl, rfl, rfl, rfl, hinst, hcl⟩⟩
    | disp e =>
      cases e with
      | svc p m =>
        right
        exact ⟨_, _, rfl, rfl, ⟨rfl, rfl, rfl, rfl, rfl, rfl, rfl, rfl, hinst, hcl⟩⟩
      | proto i m =>
        cases mx
        · by_cases hlive : i ∈ lv
          · right
            simp only [hlive, if_true, Bool.false_eq_true, if_false]
            refine ⟨_, _, rfl, rfl, ?_⟩
            exact sameBut_handOver B _ _ c i m hsame .recv false lv
          · right
            simp only [hlive, if_false, Bool.false_eq_true]
            exact ⟨_, _, rfl, rfl, ⟨rfl, rfl, rfl, rfl, rfl, rfl, rfl, rfl, hinst, hcl⟩⟩
        · left; simp
    | ctor i m => left; simp
  | ctorRet c =>
    simp only [step]
    cases hl : l c with
    | recv => left; simp
    | disp e => left; simp
    | ctor i m =>
      right
      refine ⟨_, _, rfl, rfl, ?_⟩
      exact sameBut_handOver B _ _ c i m hsame .recv false (lv ++ [i])
  | reader i =>
    have hib : B i = false := ha i rfl
    simp only [step]
    rw [← hinst i hib]
    cases hst : C05.step (ins i) .reader with
    | none => left; simp
    | some t =>
      right
      refine ⟨_, _, rfl, rfl, ?_⟩
      refine ⟨rfl, rfl, rfl, rfl, rfl, rfl, rfl, rfl, fun j hj => ?_, fun j => ?_⟩
      · show upd ins i t j = upd ins' i t j
        by_cases e : j = i
        · simp [upd, e]
        · simp [upd, e, hinst j hj]
      · show (upd ins i t j).closing = (upd ins' i t j).closing
        by_cases e : j = i
        · simp [upd, e]
        · rw [upd_other _ _ _ _ e, upd_other _ _ _ _ e]; exact hcl j
  | close i =>
    right
    simp only [step, C05.step, Option.map_some]
    refine ⟨_, _, rfl, rfl, ?_⟩
    refine ⟨rfl, rfl, rfl, rfl, rfl, rfl, rfl, rfl, fun j hj => ?_, fun j => ?_⟩
    · show upd ins i _ j = upd ins' i _ j
      by_cases e : j = i
      · subst e; simp [upd, hinst j hj]
      · simp [upd, e, hinst j hj]
    · show (upd ins i _ j).closing = (upd ins' i _ j).closing
      by_cases e : j = i
      · subst e; simp [upd]
      · rw [upd_other _ _ _ _ e, upd_other _ _ _ _ e]; exact hcl j
  | svcRet k =>
    simp only [step]
    by_cases hk : k < rn.length
    · right
      simp only [hk, if_true]
      exact ⟨_, _, rfl, rfl, ⟨rfl, rfl, rfl, rfl, rfl, rfl, rfl, rfl, hinst, hcl⟩⟩
    · left; simp [hk]

theorem sameBut_reader (B : Nat → Bool) (b : Nat) (hb : B b = true) (s s' t : St) (h : SameBut B s s')
    (hs : step s (.reader b) = some t) : SameBut B t s' := by
  simp only [step, Option.map_eq_some_iff] at hs
  obtain ⟨u, hu, rfl⟩ := hs
  refine ⟨h.wire, h.loop, h.mux, h.live, h.running, h.sent, h.got, h.hand, fun j hj => ?_, fun j => ?_⟩
  · show upd s.inst b u j = s'.inst j
    have : j ≠ b := fun e => by rw [e, hb] at hj; simp at hj
    rw [upd_other _ _ _ _ this]; exact h.inst j hj
  · show (upd s.inst b u j).closing = (s'.inst j).closing
    by_cases e : j = b
    · subst e; rw [upd_same, accept_closing _ _ _ hu (by simp)]; exact h.closing j
    · rw [upd_other _ _ _ _ e]; exact h.closing j

/-- the schedule without the reader steps of the instances in `B`: whatever handlers they are in never
return, and nothing more of their backlogs is handled -/
def freeze (B : Nat → Bool) : List Act → List Act
  | [] => []
  | .reader i :: as => if B i then freeze B as else .reader i :: freeze B as
  | a :: as => a :: freeze B as

theorem sameBut_run (B : Nat → Bool) (as : List Act) (s s' : St) (h : SameBut B s s') :
    SameBut B (run s as) (run s' (freeze B as)) := by
  induction as generalizing s s' with
  | nil => exact h
  | cons a as ih =>
    by_cases hb : ∃ i, a = .reader i ∧ B i = true
    · obtain ⟨i, rfl, hi⟩ := hb
      simp only [freeze, hi, if_true, run]
      cases hs : step s (.reader i) with
      | none => exact ih s s' h
      | some t => exact ih t s' (sameBut_reader B i hi s s' t h hs)
    · have hnb : ∀ i, a = .reader i → B i = false := by
        intro i e
        cases hB : B i
        · rfl
        · exact absurd ⟨i, e, hB⟩ hb
      have hfr : freeze B (a :: as) = a :: freeze B as := by
        cases a with
        | reader i => simp [freeze, hnb i rfl]
        | _ => rfl
      rw [hfr]
      simp only [run]
      rcases sameBut_step B s s' a h hnb with ⟨h1, h2⟩ | ⟨t, t', h1, h2, h3⟩
      · rw [h1, h2]; exact ih s s' h
      · rw [h1, h2]; exact ih t t' h3

theorem sameBut_refl (B : Nat → Bool) (s : St) : SameBut B s s :=
  ⟨rfl, rfl, rfl, rfl, rfl, rfl, rfl, rfl, fun _ _ => rfl, fun _ => rfl⟩

/-- **slow or blocked handlers delay only their own instances — any number of them**: take any
schedule and the same schedule in which the readers of an arbitrary set `B` of instances never move
again from the start (so whatever handlers they are in never return and nothing more of their
backlogs is handled; `B` may be all instances of the server but one, thirty-two of them, or one).
Everything else on the server is identical in the two runs: every wire, every connection's goroutine
— including the connections that carry the messages of `B` —, `transmitMux`, the order of all
hand-overs, the running service processors, and the complete state (queue, handlers started and
finished) of every instance outside `B`. -/
theorem c05_conn_blocked_handler_delays_only_its_instance (as : List Act) (B : Nat → Bool) :
    let s := run {} as
    let s' := run {} (freeze B as)
    s.wire = s'.wire ∧ s.loop = s'.loop ∧ s.mux = s'.mux ∧ s.hand = s'.hand ∧ s.got = s'.got ∧
    s.running = s'.running ∧ ∀ j, B j = false → s.inst j = s'.inst j := by
  have h := sameBut_run B as {} {} (sameBut_refl B {})
  exact ⟨h.wire, h.loop, h.mux, h.hand, h.got, h.running, h.inst⟩

/-- with everybody else frozen, an instance outside `B` still handles everything handed to it: the
previous theorem composed with `c05_conn_drained_all_handled` (stated for the frozen schedule itself,
which is a schedule like any other) -/
theorem c05_conn_progress_among_blocked (as : List Act) (B : Nat → Bool) (j : Nat)
    (hd : Drained (run {} (freeze B as))) :
    let s' := run {} (freeze B as)
    C05.step (s'.inst j) .reader = none → (s'.inst j).closing = false →
      (s'.inst j).finished = takenBy j s'.hand ∧ (s'.inst j).queue = [] :=
  (c05_conn_drained_all_handled (freeze B as) hd 0 j).2

/-- non-vacuity: connection 0 carries, in this order, message 1 for instance 0, a service message, 2
for instance 0, 7 and 8 for instance 1.  Instance 0 enters the handler of 1 and never leaves it, the
service processor never returns; instance 1 (same connection) handles 7 and 8, 2 waits in 0's queue. -/
def demo : List Act :=
  [.send 0 (.proto 0 1), .send 0 (.svc 5 9), .send 0 (.proto 0 2), .send 0 (.proto 1 7), .send 0 (.proto 1 8),
   .loop 0, .loop 0, .ctorRet 0, .reader 0, .loop 0, .loop 0, .loop 0, .loop 0, .loop 0, .loop 0, .ctorRet 0,
   .reader 1, .loop 0, .loop 0, .reader 1, .reader 1, .reader 1]

example : ((run {} demo).inst 1).finished = [7, 8] ∧ ((run {} demo).inst 0).pc = .handling 1 ∧
    ((run {} demo).inst 0).queue = [2] ∧ (run {} demo).running = [(5, 9)] ∧
    (run {} demo).hand = [⟨0, 0, 1, true⟩, ⟨0, 0, 2, true⟩, ⟨0, 1, 7, true⟩, ⟨0, 1, 8, true⟩] := by decide

example : (run {} demo).wire 0 = [] ∧ (run {} demo).loop 0 = .recv := by decide

/-- the one thing a connection does wait for: a constructor inside `transmitMux` (connection 1's
message for the existing instance 0 waits while connection 0 constructs instance 3) -/
example : (step (run {} [.send 0 (.proto 0 1), .loop 0, .loop 0, .ctorRet 0, .send 0 (.proto 3 1), .loop 0, .loop 0,
    .send 1 (.proto 0 2), .loop 1]) (.loop 1)).isSome = false := by decide

/-- non-vacuity for many blocked instances: thirty-three instances each enter a handler that never
returns (their readers are frozen), the thirty-fourth, fed over the same connection, handles its message -/
def manyBlocked (n : Nat) : List Act :=
  ((List.range n).flatMap fun i => [.send 0 (.proto i 1), .loop 0, .loop 0, .ctorRet 0, .reader i]) ++
  [.send 0 (.proto n 7), .loop 0, .loop 0, .ctorRet 0, .reader n, .reader n, .reader n]

set_option maxRecDepth 8000 in
example : ((run {} (freeze (fun i => decide (i < 33)) (manyBlocked 33))).inst 33).finished = [7] ∧
    ((run {} (manyBlocked 33)).inst 33).finished = [7] ∧
    ((run {} (manyBlocked 33)).inst 32).pc = .handling 1 ∧ ((run {} (manyBlocked 33)).inst 0).pc = .handling 1 := by
  decide

end Conn

/-! ### a type received through a bounded channel (`Model/C05Chan.lean`)  -/
namespace Chan

/-- the message the reader is carrying to the channel, if any -/
def carrying (s : St) : List Nat := match s.pc with | .sending m => [m] | _ => []
/-- the message whose handler is running, if any -/
def cur (s : St) : List Nat := match s.pc with | .handling m => [m] | _ => []

theorem cmsgs_append (a b : List (Bool × Nat)) : cmsgs (a ++ b) = cmsgs a ++ cmsgs b := by simp [cmsgs]
theorem hmsgs_append (a b : List (Bool × Nat)) : hmsgs (a ++ b) = hmsgs a ++ hmsgs b := by simp [hmsgs]
theorem fated_append (f : Fate) (a b : List (Nat × Fate)) : fated f (a ++ b) = fated f a ++ fated f b := by simp [fated]

structure Inv (s : St) : Prop where
  order : s.accepted = s.popped ++ s.queue
  hstart : s.started = hmsgs s.popped
  serial : s.started = s.finished ++ cur s
  clog : (s.log.map (·.1)) ++ carrying s = cmsgs s.popped
  chan : s.taken ++ s.chan = put s

theorem inv_init (c : Nat) : Inv { cap := c } := by
  constructor <;> simp [cur, carrying, cmsgs, hmsgs, put, fated]

theorem inv_step (s s' : St) (a : Act) (h : Inv s) (hs : step s a = some s') : Inv s' := by
  obtain ⟨ho, hh, hse, hc, hch⟩ := h
  cases a with
  | accept c m =>
    simp only [step] at hs
    split at hs <;> simp at hs <;> subst hs
    · exact ⟨ho, hh, hse, hc, hch⟩
    · constructor <;> simp_all [cur, carrying, put]
  | close => simp [step] at hs; subst hs; constructor <;> simp_all [cur, carrying, put]
  | take =>
    simp only [step] at hs
    split at hs <;> simp at hs
    subst hs; constructor <;> simp_all [cur, carrying, put]
  | reader =>
    simp only [step] at hs
    split at hs
    · split at hs
      · simp at hs; subst hs; constructor <;> simp_all [cur, carrying, put]
      · split at hs <;> simp at hs <;> subst hs <;> constructor <;>
          simp_all [cur, carrying, put, cmsgs, hmsgs]
    · simp at hs; subst hs; constructor <;> simp_all [cur, carrying, put]
    · split at hs
      · split at hs
        · simp at hs; subst hs; constructor <;> simp_all [cur, carrying, put, fated]
        · simp at hs; subst hs
          refine ⟨ho, hh, ?_, ?_, ?_⟩
          · simp_all [cur]
          · simp_all [carrying]
          · simp only [put, fated_append]
            have : fated Fate.put [(‹Nat›, Fate.put)] = [‹Nat›] := by simp [fated]
            rw [this, ← List.append_assoc]; simp only [put] at hch; rw [hch]
      · simp at hs; subst hs; constructor <;> simp_all [cur, carrying, put, fated]
    · split at hs <;> simp at hs; subst hs; constructor <;> simp_all [cur, carrying, put]
    · simp at hs

theorem inv_run (as : List Act) (s : St) (h : Inv s) : Inv (run s as) := by
  induction as generalizing s with
  | nil => exact h
  | cons a as ih =>
    simp only [run]
    split
    · exact ih _ (inv_step _ _ _ h ‹_›)
    · exact ih _ h

theorem fated_sublist (f : Fate) (l : List (Nat × Fate)) : (fated f l).Sublist (l.map (·.1)) :=
  (List.filter_sublist).map _

/-- **order through a channel**: under every schedule, what the protocol has read from its channel followed
by what still sits in the channel is exactly the sequence of messages the reader put there, and that is a
subsequence of the channel-type messages in the order in which the instance accepted them — a message may
be missing (the channel was full, or the instance was closing), but no message ever overtakes one that was
accepted before it, and none shows up twice or out of nowhere. -/
theorem c05_chan_order (c : Nat) (as : List Act) :
    let s := run { cap := c } as
    s.taken ++ s.chan = put s ∧ (put s).Sublist (cmsgs s.accepted) := by
  intro s
  have h : Inv s := inv_run as _ (inv_init c)
  refine ⟨h.chan, ?_⟩
  have h1 : (put s).Sublist (s.log.map (·.1)) := fated_sublist _ _
  have h2 : (s.log.map (·.1)).Sublist (cmsgs s.popped) := by
    rw [← h.clog]; exact List.sublist_append_left _ _
  have h3 : (cmsgs s.popped).Sublist (cmsgs s.accepted) := by
    rw [h.order, cmsgs_append]; exact List.sublist_append_left _ _
  exact (h1.trans h2).trans h3

/-- **handlers of such an instance**: the handler-type messages are still handled one at a time and in
acceptance order, whatever happens to the channel-type messages in between. -/
theorem c05_chan_handlers_in_order (c : Nat) (as : List Act) :
    let s := run { cap := c } as
    s.started <+: hmsgs s.accepted ∧ ∃ running, s.started = s.finished ++ running ∧ running.length ≤ 1 := by
  intro s
  have h : Inv s := inv_run as _ (inv_init c)
  refine ⟨?_, cur s, h.serial, ?_⟩
  · rw [h.hstart, h.order, hmsgs_append]; exact List.prefix_append _ _
  · unfold cur; split <;> simp

/-- two entries of a log without repeated messages that speak about the same message are the same entry -/
theorem fate_unique (l : List (Nat × Fate)) (hn : (l.map (·.1)).Nodup) (m : Nat) (f g : Fate)
    (hf : (m, f) ∈ l) (hg : (m, g) ∈ l) : f = g := by
  induction l with
  | nil => simp at hf
  | cons x l ih =>
    simp only [List.map_cons, List.nodup_cons] at hn
    simp only [List.mem_cons] at hf hg
    rcases hf with hf | hf <;> rcases hg with hg | hg
    · rw [← hf] at hg; simpa using hg.symm
    · exfalso; apply hn.1; subst hf; exact List.mem_map.mpr ⟨_, hg, rfl⟩
    · exfalso; apply hn.1; subst hg; exact List.mem_map.mpr ⟨_, hf, rfl⟩
    · exact ih hn.2 hf hg

theorem mem_fated (f : Fate) (l : List (Nat × Fate)) (m : Nat) : m ∈ fated f l ↔ (m, f) ∈ l := by
  simp only [fated, List.mem_map, List.mem_filter]
  constructor
  · rintro ⟨⟨a, g⟩, ⟨hm, hg⟩, rfl⟩
    have : g = f := by simpa using hg
    subst this; exact hm
  · intro h; exact ⟨(m, f), ⟨h, by simp⟩, rfl⟩

/-- **a rejected message is gone**: when the messages are distinguishable (no repeated number among the
channel-type messages accepted), a message that found the channel full is never delivered afterwards: under
every continuation of the schedule it has not been read by the protocol, does not sit in the channel, is not
carried by the reader and is not back in the queue. -/
theorem c05_chan_rejected_gone (c : Nat) (as : List Act) (m : Nat) :
    let s := run { cap := c } as
    (cmsgs s.accepted).Nodup → m ∈ rejected s →
      m ∉ s.taken ∧ m ∉ s.chan ∧ m ∉ carrying s ∧ (true, m) ∉ s.queue := by
  intro s hn hm
  have h : Inv s := inv_run as _ (inv_init c)
  have hacc : cmsgs s.accepted = (s.log.map (·.1) ++ carrying s) ++ cmsgs s.queue := by
    rw [h.order, cmsgs_append, h.clog]
  rw [hacc] at hn
  have hfull : (m, Fate.full) ∈ s.log := (mem_fated _ _ _).mp hm
  have hlog : m ∈ s.log.map (·.1) := List.mem_map.mpr ⟨_, hfull, rfl⟩
  have hn1 := List.nodup_append.mp hn
  have hn2 := List.nodup_append.mp hn1.1
  have hput : m ∉ put s := by
    intro hp
    have := fate_unique s.log hn2.1 m _ _ ((mem_fated _ _ _).mp hp) hfull
    exact absurd this (by decide)
  have hput' : m ∉ s.taken ++ s.chan := by rw [h.chan]; exact hput
  refine ⟨fun x => hput' (List.mem_append_left _ x), fun x => hput' (List.mem_append_right _ x), ?_, ?_⟩
  · intro x; exact hn2.2.2 m hlog m x rfl
  · intro x
    have : m ∈ cmsgs s.queue := by
      simp only [cmsgs, List.mem_map, List.mem_filter]; exact ⟨(true, m), ⟨x, rfl⟩, rfl⟩
    exact hn1.2.2 m (List.mem_append_left _ hlog) m this rfl

/-- **with free capacity nothing is lost**: as long as no message found the channel full and the instance
is not closed, what the protocol read, what sits in the channel, what the reader carries and the channel-type
messages still queued are, in this order, exactly the channel-type messages in acceptance order. -/
theorem c05_chan_lossless_with_capacity (c : Nat) (as : List Act) :
    let s := run { cap := c } as
    rejected s = [] → s.closing = false →
      s.taken ++ s.chan ++ carrying s ++ cmsgs s.queue = cmsgs s.accepted := by
  intro s hr hc
  have h : Inv s := inv_run as _ (inv_init c)
  -- the reader never saw `closing` while carrying: no entry is `late`
  have hlate : ∀ (as : List Act) (s0 : St), (s0.closing = false → fated .late s0.log = []) →
      ((run s0 as).closing = false → fated .late (run s0 as).log = []) := by
    intro as
    induction as with
    | nil => intro s0 h0; exact h0
    | cons a as ih =>
      intro s0 h0
      simp only [run]
      split
      · rename_i s1 hs
        refine ih s1 ?_
        intro hc1
        cases a with
        | accept c m =>
          simp only [step] at hs
          split at hs <;> simp at hs <;> subst hs
          · exact h0 hc1
          · exact h0 (by simpa using hc1)
        | close => simp [step] at hs; subst hs; simp at hc1
        | take =>
          simp only [step] at hs
          split at hs <;> simp at hs
          subst hs; exact h0 hc1
        | reader =>
          simp only [step] at hs
          split at hs
          · split at hs
            · simp at hs; subst hs; exact h0 hc1
            · split at hs <;> simp at hs <;> subst hs <;> exact h0 hc1
          · simp at hs; subst hs; exact h0 hc1
          · split at hs
            · split at hs
              · rename_i hcl; simp at hs; subst hs; simp at hc1; simp [hcl] at hc1
              · simp at hs; subst hs
                simp only [fated_append]; simp at hc1
                rw [h0 hc1]; simp [fated]
            · simp at hs; subst hs
              simp only [fated_append]; simp at hc1
              rw [h0 hc1]; simp [fated]
          · split at hs <;> simp at hs; subst hs; exact h0 hc1
          · simp at hs
      · exact ih s0 h0
  have hl : fated .late s.log = [] := hlate as { cap := c } (by simp [fated]) hc
  have hall : put s = s.log.map (·.1) := by
    have : ∀ (l : List (Nat × Fate)), fated .full l = [] → fated .late l = [] → fated .put l = l.map (·.1) := by
      intro l
      induction l with
      | nil => intro _ _; rfl
      | cons x l ih =>
        obtain ⟨m, f⟩ := x
        intro h1 h2
        cases f
        · have e1 : fated .full ((m, Fate.put) :: l) = fated .full l := by simp [fated]
          have e2 : fated .late ((m, Fate.put) :: l) = fated .late l := by simp [fated]
          rw [e1] at h1; rw [e2] at h2
          have := ih h1 h2
          simp [fated] at this ⊢; exact this
        · simp [fated] at h1
        · simp [fated] at h2
    exact this s.log hr hl
  rw [h.chan, hall, h.clog, h.order, cmsgs_append]

/-- **a full channel never holds the reader**: the reader's step on a channel message is enabled whether
the channel has room or not (a full channel is an error return, not a wait) — so a protocol that is late
reading its channel delays nobody, not even its own instance's handlers. -/
theorem c05_chan_full_never_blocks_reader (s : St) (m : Nat) (hp : s.pc = .sending m) :
    ∃ s', step s .reader = some s' ∧ s'.pc = .top ∧ s'.queue = s.queue := by
  simp only [step, hp]
  split
  · split <;> exact ⟨_, rfl, rfl, rfl⟩
  · exact ⟨_, rfl, rfl, rfl⟩

/-- the documented overflow: with the channel full the message is recorded as rejected and the channel,
the queue and everything the protocol has read stay as they are -/
theorem c05_chan_full_rejects (s s' : St) (m : Nat) (hp : s.pc = .sending m) (hfull : s.cap ≤ s.chan.length)
    (hs : step s .reader = some s') :
    rejected s' = rejected s ++ [m] ∧ s'.chan = s.chan ∧ s'.queue = s.queue ∧ s'.taken = s.taken ∧ put s' = put s := by
  simp only [step, hp] at hs
  have : ¬ s.chan.length < s.cap := by omega
  simp [this] at hs; subst hs
  simp [rejected, put, fated]

/-- non-vacuity (the schedule of the seeded change C05r5-A: channel of one place; 0 fills it, 1 finds it
full, the protocol reads 0, 2 finds room): the protocol reads 0 and 2, message 1 is rejected and gone -/
example :
    let s := run { cap := 1 } [.accept true 0, .reader, .reader, .accept true 1, .reader, .reader, .take,
      .accept true 2, .reader, .reader, .take, .reader, .reader, .reader]
    s.taken = [0, 2] ∧ rejected s = [1] ∧ s.chan = [] ∧ s.queue = [] ∧ s.pc = .waiting ∧
      (cmsgs s.accepted).Nodup := by decide
/-- … and with handler messages in between: the handler of 10 runs while 0 and 1 wait in the queue behind it -/
example :
    let s := run { cap := 1 } [.accept false 10, .reader, .accept true 0, .accept true 1, .reader, .reader,
      .reader, .reader, .reader, .reader]
    s.finished = [10] ∧ s.chan = [0] ∧ rejected s = [1] ∧ s.taken = [] := by decide

/-! #### the `late` fate: a close between the pop and `dispatchChannel`'s tests (driven by the ops `chhold` / `chrel`:
the harness holds the reader in `createValueAndVerify` → `Tree()` through the tree store's lock) -/

/-- `closing` is never taken back -/
theorem closing_stable_step (s s' : St) (a : Act) (hs : step s a = some s') (hc : s.closing = true) :
    s'.closing = true := by
  cases a with
  | accept c m => simp [step, hc] at hs; subst hs; first | exact hc | rfl
  | close => simp [step] at hs; subst hs; rfl
  | take =>
    simp only [step] at hs
    split at hs <;> simp at hs
    subst hs; first | exact hc | rfl
  | reader =>
    simp only [step] at hs
    split at hs
    · simp [hc] at hs; subst hs; first | exact hc | rfl
    · simp at hs; subst hs; first | exact hc | rfl
    · simp [hc] at hs
      split at hs <;> simp at hs <;> subst hs <;> first | exact hc | rfl
    · split at hs <;> simp at hs; subst hs; first | exact hc | rfl
    · simp at hs

/-- once the instance is closing no step sends into the protocol's channel -/
theorem put_closing_step (s s' : St) (a : Act) (hs : step s a = some s') (hc : s.closing = true) :
    put s' = put s := by
  cases a with
  | accept c m => simp [step, hc] at hs; subst hs; rfl
  | close => simp [step] at hs; subst hs; rfl
  | take =>
    simp only [step] at hs
    split at hs <;> simp at hs
    subst hs; rfl
  | reader =>
    simp only [step] at hs
    split at hs
    · simp [hc] at hs; subst hs; rfl
    · simp at hs; subst hs; rfl
    · simp [hc] at hs
      split at hs <;> simp at hs <;> subst hs <;> simp [put, fated]
    · split at hs <;> simp at hs; subst hs; rfl
    · simp at hs

/-- **nothing reaches the protocol's channel after the close**: from a state in which `closeDispatch` has
happened, under every continuation (hand-overs, reader steps — among them the step of a reader that popped
its message *before* the close —, reads of the channel) the sequence of messages ever sent into the channel
stays what it was; what the protocol can still read is what sat in the channel at the close. -/
theorem c05_chan_nothing_put_after_close (c : Nat) (as bs : List Act) :
    let s := run { cap := c } as
    s.closing = true →
      put (run s bs) = put s ∧ (run s bs).taken ++ (run s bs).chan = s.taken ++ s.chan ∧
      (run s bs).closing = true := by
  intro s hc
  have key : ∀ (bs : List Act) (t : St), t.closing = true → put (run t bs) = put t ∧ (run t bs).closing = true := by
    intro bs
    induction bs with
    | nil => intro t ht; exact ⟨rfl, ht⟩
    | cons a bs ih =>
      intro t ht
      simp only [run]
      split
      · rename_i t' hst
        have h1 := put_closing_step t t' a hst ht
        have h2 := closing_stable_step t t' a hst ht
        have := ih t' h2
        exact ⟨this.1.trans h1, this.2⟩
      · exact ih t ht
  have hI : Inv s := inv_run as _ (inv_init c)
  have hI' : Inv (run s bs) := inv_run bs _ hI
  obtain ⟨k1, k2⟩ := key bs s hc
  exact ⟨k1, by rw [hI'.chan, hI.chan, k1], k2⟩

/-- **a message the close overtook is gone**: with distinguishable messages, a message the reader had popped
when the instance was closed (fate `late`) is, under every continuation, not read by the protocol, not in
the channel, not carried and not back in the queue. -/
theorem c05_chan_late_gone (c : Nat) (as : List Act) (m : Nat) :
    let s := run { cap := c } as
    (cmsgs s.accepted).Nodup → m ∈ fated .late s.log →
      m ∉ s.taken ∧ m ∉ s.chan ∧ m ∉ carrying s ∧ (true, m) ∉ s.queue := by
  intro s hn hm
  have h : Inv s := inv_run as _ (inv_init c)
  have hacc : cmsgs s.accepted = (s.log.map (·.1) ++ carrying s) ++ cmsgs s.queue := by
    rw [h.order, cmsgs_append, h.clog]
  rw [hacc] at hn
  have hlate : (m, Fate.late) ∈ s.log := (mem_fated _ _ _).mp hm
  have hlog : m ∈ s.log.map (·.1) := List.mem_map.mpr ⟨_, hlate, rfl⟩
  have hn1 := List.nodup_append.mp hn
  have hn2 := List.nodup_append.mp hn1.1
  have hput : m ∉ put s := by
    intro hp
    have := fate_unique s.log hn2.1 m _ _ ((mem_fated _ _ _).mp hp) hlate
    exact absurd this (by decide)
  have hput' : m ∉ s.taken ++ s.chan := by rw [h.chan]; exact hput
  refine ⟨fun x => hput' (List.mem_append_left _ x), fun x => hput' (List.mem_append_right _ x), ?_, ?_⟩
  · intro x; exact hn2.2.2 m hlog m x rfl
  · intro x
    have : m ∈ cmsgs s.queue := by
      simp only [cmsgs, List.mem_map, List.mem_filter]; exact ⟨(true, m), ⟨x, rfl⟩, rfl⟩
    exact hn1.2.2 m (List.mem_append_left _ hlog) m this rfl

/-- **the tests are made when the message is dispatched, not when it is popped**: whatever happened between
the pop and the reader's next step, that step looks at the channel and at `closing` as they are *then* —
room and open: the message goes into the channel; room and closing: it does not. -/
theorem c05_chan_tests_at_dispatch (s : St) (m : Nat) (hp : s.pc = .sending m) (hroom : s.chan.length < s.cap) :
    step s .reader = some (if s.closing
      then { s with pc := .top, log := s.log ++ [(m, .late)] }
      else { s with pc := .top, chan := s.chan ++ [m], log := s.log ++ [(m, .put)] }) := by
  simp only [step, hp, hroom, if_true]
  split <;> rfl

/-- non-vacuity (the schedule of the ops `chhold 1, chclose, chrel`): popped, then closed, then the reader's
step: message 1 is `late`, the channel stays empty, the reader stops; and (`chhold 2` on a full channel of one
place, the protocol reads, `chrel`) the message popped while the channel was full finds room at its dispatch -/
example :
    let s := run { cap := 1 } [.accept true 1, .reader, .close, .reader, .reader]
    fated .late s.log = [1] ∧ s.chan = [] ∧ put s = [] ∧ s.closing = true ∧ s.pc = .stopped ∧ (cmsgs s.accepted).Nodup := by
  decide
example :
    let s := run { cap := 1 } [.accept true 1, .reader, .reader, .accept true 2, .reader, .take, .reader]
    s.taken = [1] ∧ s.chan = [2] ∧ rejected s = [] := by decide

/-- the variant without the look at `closing` (`if out.Len() < out.Cap() { out.Send(m) }`): the reader's step on a
channel message sends whenever there is room -/
def stepUnchecked (s : St) : Act → Option St
  | .reader => match s.pc with
      | .sending m =>
          if s.chan.length < s.cap then some { s with pc := .top, chan := s.chan ++ [m], log := s.log ++ [(m, .put)] }
          else some { s with pc := .top, log := s.log ++ [(m, .full)] }
      | _ => step s .reader
  | a => step s a

def runUnchecked (s : St) : List Act → St
  | [] => s
  | a :: as => match stepUnchecked s a with
      | some s' => runUnchecked s' as
      | none => runUnchecked s as

/-- negation witness: in that variant a message arrives in the protocol's channel **after** the close
(the protocol has shut down and may have closed the channel: `send on closed channel`) -/
theorem c05_chan_unchecked_variant_sends_after_close :
    let s0 := runUnchecked { cap := 1 } [.accept true 1, .reader, .close]
    let s := runUnchecked s0 [.reader]
    s0.closing = true ∧ put s0 = [] ∧ put s = [1] ∧ s.chan = [1] := by decide

end Chan

/-! ### aggregated types: the buffer of `aggregate` between the reader's pop and the handler (`Model/C05Agg.lean`) -/
namespace Agg

/-- the invocation that is running, if any -/
def cur (s : St) : List (Bool × List Nat) := match s.pc with | .handling a ms => [(a, ms)] | _ => []

theorem aggs_append (a b : List Msg) : aggs (a ++ b) = aggs a ++ aggs b := by simp [aggs]
theorem directs_append (a b : List Msg) : directs (a ++ b) = directs a ++ directs b := by simp [directs]

theorem aggs_of_all (l : List Msg) (h : ∀ x ∈ l, direct x = false) : aggs l = l ∧ directs l = [] := by
  constructor
  · simp only [aggs]; apply List.filter_eq_self.mpr; intro x hx; simp [h x hx]
  · simp only [directs]; apply List.filter_eq_nil_iff.mpr; intro x hx; simp [h x hx]

structure Inv (s : St) : Prop where
  order  : s.accepted = s.popped ++ s.queue
  serial : s.started = s.finished ++ cur s
  aggf   : aggs s.given ++ s.buf = aggs s.popped
  dirf   : directs s.given = directs s.popped
  bufagg : ∀ x ∈ s.buf, direct x = false
  vals   : (s.started.map (·.2)).flatten = s.given.map (·.m)
  size   : ∀ b ∈ s.started, b.1 = true → b.2.length = s.nch
  small  : s.nch ≠ 0 → s.buf.length < s.nch

theorem inv_init (k : Nat) : Inv { nch := k } := by
  constructor <;> simp [cur, aggs, directs]
  omega

theorem step_nch (s s' : St) (a : Act) (hs : step s a = some s') : s'.nch = s.nch := by
  cases a with
  | accept x => simp only [step] at hs; split at hs <;> simp at hs <;> subst hs <;> rfl
  | close => simp [step] at hs; subst hs; rfl
  | reader =>
    simp only [step] at hs
    split at hs
    · split at hs
      · simp at hs; subst hs; rfl
      · split at hs
        · simp at hs; subst hs; rfl
        · split at hs
          · simp at hs; subst hs; rfl
          · split at hs <;> simp at hs <;> subst hs <;> rfl
    · simp at hs; subst hs; rfl
    · split at hs <;> simp at hs; subst hs; rfl
    · simp at hs

theorem inv_step (s s' : St) (a : Act) (h : Inv s) (hs : step s a = some s') : Inv s' := by
  obtain ⟨ho, hse, haf, hdf, hb, hv, hsz, hsm⟩ := h
  cases a with
  | accept x =>
    simp only [step] at hs
    split at hs <;> simp at hs <;> subst hs
    · exact ⟨ho, hse, haf, hdf, hb, hv, hsz, hsm⟩
    · exact ⟨by simp [ho], hse, haf, hdf, hb, hv, hsz, hsm⟩
  | close => simp [step] at hs; subst hs; exact ⟨ho, hse, haf, hdf, hb, hv, hsz, hsm⟩
  | reader =>
    simp only [step] at hs
    split at hs
    · -- top
      rename_i hpc
      have hcur : cur s = [] := by simp [cur, hpc]
      split at hs
      · simp at hs; subst hs
        exact ⟨ho, by simpa [cur, hpc] using hse, haf, hdf, hb, hv, hsz, hsm⟩
      · split at hs
        · simp at hs; subst hs
          exact ⟨ho, by simpa [cur, hpc] using hse, haf, hdf, hb, hv, hsz, hsm⟩
        · rename_i x q hq
          split at hs
          · -- dispatched at once
            rename_i hd
            simp at hs; subst hs
            refine ⟨by simp [ho, hq], by simp [cur, hse, hpc], ?_, ?_, hb, ?_, ?_, hsm⟩
            · simp only [aggs_append]
              have : aggs [x] = [] := by simp [aggs, hd]
              rw [this]; simpa using haf
            · simp only [directs_append, hdf]
            · simp [hv]
            · intro b hb'
              simp only [List.mem_append, List.mem_singleton] at hb'
              rcases hb' with hb' | hb'
              · exact hsz b hb'
              · subst hb'; simp
          · rename_i hd
            have hd' : direct x = false := by simpa using hd
            have hall : ∀ y ∈ s.buf ++ [x], direct y = false := by
              intro y hy
              simp only [List.mem_append, List.mem_singleton] at hy
              rcases hy with hy | hy
              · exact hb y hy
              · subst hy; exact hd'
            obtain ⟨ha1, ha2⟩ := aggs_of_all _ hall
            split at hs
            · -- the buffer is complete: handed over as it is
              rename_i hfull
              simp at hs; subst hs
              refine ⟨by simp [ho, hq], by simp [cur, hse, hpc], ?_, ?_, by simp, ?_, ?_, ?_⟩
              · simp only [aggs_append, List.append_nil]
                have hx : aggs [x] = [x] := by simp [aggs, hd']
                have hbf : aggs s.buf = s.buf := (aggs_of_all _ hb).1
                rw [hx, hbf, ← haf]; simp
              · simp only [directs_append, hdf]
                have hx : directs [x] = [] := by simp [directs, hd']
                have hbf : directs s.buf = [] := (aggs_of_all _ hb).2
                rw [hx, hbf]; simp
              · simp [hv]
              · intro b hb'
                simp only [List.mem_append, List.mem_singleton] at hb'
                rcases hb' with hb' | hb'
                · exact hsz b hb'
                · subst hb'; intro _; simpa using hfull
              · intro hn; exact Nat.pos_of_ne_zero hn
            · rename_i hnf
              simp at hs; subst hs
              refine ⟨by simp [ho, hq], by simpa [cur, hpc] using hse, ?_, ?_, hall, hv, hsz, ?_⟩
              · simp only [aggs_append]
                have hx : aggs [x] = [x] := by simp [aggs, hd']
                rw [hx, ← haf]; simp
              · simp only [directs_append, hdf]
                have hx : directs [x] = [] := by simp [directs, hd']
                rw [hx]; simp
              · intro hn
                have := hsm hn
                simp at hnf ⊢
                omega
    · -- handling
      rename_i a ms hpc
      simp at hs; subst hs
      exact ⟨ho, by simp [cur, hse, hpc], haf, hdf, hb, hv, hsz, hsm⟩
    · rename_i hpc
      split at hs <;> simp at hs
      subst hs
      exact ⟨ho, by simpa [cur, hpc] using hse, haf, hdf, hb, hv, hsz, hsm⟩
    · simp at hs

theorem inv_run (as : List Act) (s : St) (h : Inv s) : Inv (run s as) := by
  induction as generalizing s with
  | nil => exact h
  | cons a as ih =>
    simp only [run]
    split
    · exact ih _ (inv_step _ _ _ h ‹_›)
    · exact ih _ h

theorem run_nch (as : List Act) (s : St) : (run s as).nch = s.nch := by
  induction as generalizing s with
  | nil => rfl
  | cons a as ih =>
    simp only [run]
    split
    · rw [ih, step_nch _ _ _ ‹_›]
    · exact ih _

/-- **order through the aggregation buffer**: under every schedule (any number of children, any senders, any
interleaving of hand-overs with the reader), the children's messages of the aggregated type that were handed to
the handler so far, followed by the ones waiting in the buffer, are exactly the ones the reader has taken, in the
order in which the instance accepted them — no message of that type is given to the handler before one that was
accepted earlier (inside a batch or across batches), none twice, none lost; and the messages dispatched one by one
(from the parent, of plain types) keep their acceptance order among themselves. -/
theorem c05_agg_order (k : Nat) (as : List Act) :
    let s := run { nch := k } as
    aggs s.given ++ s.buf = aggs s.popped ∧ aggs s.popped <+: aggs s.accepted ∧
    directs s.given = directs s.popped ∧ directs s.popped <+: directs s.accepted := by
  intro s
  have h : Inv s := inv_run as _ (inv_init k)
  refine ⟨h.aggf, ?_, h.dirf, ?_⟩
  · rw [h.order, aggs_append]; exact List.prefix_append _ _
  · rw [h.order, directs_append]; exact List.prefix_append _ _

/-- **what the handlers are given, and one at a time**: the values of the invocations, one after the other, are the
messages handed over in that order; every invocation for the aggregated type gets exactly as many messages as the
node has children; and the invocations (batches and single messages alike) never overlap. -/
theorem c05_agg_batches (k : Nat) (as : List Act) :
    let s := run { nch := k } as
    (s.started.map (·.2)).flatten = s.given.map (·.m) ∧ (∀ b ∈ s.started, b.1 = true → b.2.length = k) ∧
    ∃ running, s.started = s.finished ++ running ∧ running.length ≤ 1 := by
  intro s
  have h : Inv s := inv_run as _ (inv_init k)
  have hk : s.nch = k := run_nch as _
  refine ⟨h.vals, ?_, cur s, h.serial, ?_⟩
  · intro b hb ht; rw [← hk]; exact h.size b hb ht
  · unfold cur; split <;> simp

/-- **a complete round is never withheld**: on a node with children the buffer always holds fewer messages than the
node has children — as soon as the reader has taken that many, they are with the handler. -/
theorem c05_agg_complete_round_delivered (k : Nat) (hk : k ≠ 0) (as : List Act) :
    (run { nch := k } as).buf.length < k := by
  have h : Inv (run { nch := k } as) := inv_run as _ (inv_init k)
  have hn : (run ({ nch := k } : St) as).nch = k := run_nch as _
  have := h.small (by rw [hn]; exact hk)
  rw [hn] at this; exact this

/-- no lost wake-up: a reader that sleeps while messages are queued has its token -/
def Wake (s : St) : Prop := s.queue ≠ [] → (s.token = true ∨ s.pc ≠ .waiting)

theorem wake_step (s s' : St) (a : Act) (h : Wake s) (hs : step s a = some s') : Wake s' := by
  unfold Wake at *
  cases a with
  | accept x =>
    simp only [step] at hs
    split at hs <;> simp at hs <;> subst hs
    · exact h
    · intro _; exact Or.inl rfl
  | close => simp [step] at hs; subst hs; intro _; exact Or.inl rfl
  | reader =>
    simp only [step] at hs
    split at hs
    · rename_i hpc0
      split at hs
      · simp at hs; subst hs; intro _; exact Or.inr (by simp)
      · split at hs
        · rename_i hq
          simp at hs; subst hs; intro hne; exact absurd hq hne
        · split at hs
          · simp at hs; subst hs; intro _; exact Or.inr (by simp)
          · split at hs <;> simp at hs <;> subst hs <;> intro _
            · exact Or.inr (by simp)
            · exact Or.inr (by simp [hpc0])
    · simp at hs; subst hs; intro _; exact Or.inr (by simp)
    · split at hs <;> simp at hs; subst hs; intro _; exact Or.inr (by simp)
    · simp at hs

theorem wake_run (as : List Act) (s : St) (h : Wake s) : Wake (run s as) := by
  induction as generalizing s with
  | nil => exact h
  | cons a as ih =>
    simp only [run]
    split
    · exact ih _ (wake_step _ _ _ h ‹_›)
    · exact ih _ h

/-- **liveness at quiescence**: when the reader sleeps without a token (no step of it is enabled) nothing accepted
is left in the queue and no handler is running — so, by `c05_agg_order`, everything accepted was either given to a
handler in acceptance order or sits in the buffer, which holds less than a full round. -/
theorem c05_agg_quiescent_all_taken (k : Nat) (as : List Act) :
    let s := run { nch := k } as
    s.pc = .waiting → s.token = false →
      s.queue = [] ∧ s.started = s.finished ∧ aggs s.given ++ s.buf = aggs s.accepted ∧
      directs s.given = directs s.accepted ∧ (k ≠ 0 → s.buf.length < k) := by
  intro s hp ht
  have h : Inv s := inv_run as _ (inv_init k)
  have hw : Wake s := wake_run as _ (by intro hq; simp at hq)
  have hq : s.queue = [] := by
    apply Classical.byContradiction
    intro hne
    rcases hw hne with h1 | h1
    · rw [ht] at h1; exact absurd h1 (by decide)
    · exact h1 hp
  have hacc : s.accepted = s.popped := by rw [h.order, hq]; simp
  refine ⟨hq, ?_, ?_, ?_, ?_⟩
  · have := h.serial; simpa [cur, hp] using this
  · rw [hacc]; exact h.aggf
  · rw [hacc]; exact h.dirf
  · intro hk; exact c05_agg_complete_round_delivered k hk as

/-- non-vacuity: three messages of a two-children node, everything taken, one in the buffer, the reader asleep -/
example :
    let s := run { nch := 2 } [.accept ⟨true, some 0, 1⟩, .accept ⟨true, some 1, 2⟩, .accept ⟨true, some 1, 3⟩,
      .reader, .reader, .reader, .reader, .reader, .reader, .reader]
    s.pc = .waiting ∧ s.token = false ∧ s.buf.map (·.m) = [3] ∧ s.started = [(true, [1, 2])] := by decide

/-- non-vacuity: two children, the second answers first, then a fast first child — batches [0 1] and [2 3] in the
order of acceptance; a message from the parent in between is dispatched at once -/
example :
    let s := run { nch := 2 } [.accept ⟨true, some 1, 0⟩, .accept ⟨true, some 0, 1⟩, .reader, .reader, .accept ⟨true, some 0, 2⟩,
      .accept ⟨true, none, 9⟩, .accept ⟨true, some 0, 3⟩, .reader, .reader, .reader, .reader, .reader, .reader, .reader]
    s.started = [(true, [0, 1]), (false, [9]), (true, [2, 3])] ∧ s.buf = [] ∧ s.finished.length = 3 := by decide

/-- the variant that completes a round "per child" (one message of every child, in the order of `Children()`, the
surplus stays buffered): `aggregate` as the seeded change C05r7-A writes it -/
def roundOf (k : Nat) (msgs : List Msg) : List Msg :=
  (List.range k).filterMap fun c => msgs.find? (fun x => x.src == some c)

def stepPerChild (s : St) : Act → Option St
  | .reader => match s.pc, s.closing, s.queue with
      | .top, false, x :: q =>
        if direct x then step s .reader
        else
          let msgs := s.buf ++ [x]
          let round := roundOf s.nch msgs
          if round.length < s.nch then some { s with queue := q, popped := s.popped ++ [x], buf := msgs }
          else some { s with queue := q, popped := s.popped ++ [x], buf := msgs.filter (fun y => !round.contains y),
                             given := s.given ++ round, pc := .handling true (round.map (·.m)),
                             started := s.started ++ [(true, round.map (·.m))] }
      | _, _, _ => step s .reader
  | a => step s a

def runPerChild (s : St) : List Act → St
  | [] => s
  | a :: as => match stepPerChild s a with
      | some s' => runPerChild s' as
      | none => runPerChild s as

/-- negation witness: in that variant the handler is given message 1 before message 0 (second child first), and with a
fast child (c0, c0, c1, c1) message 2 is handled before message 1, which was accepted earlier -/
theorem c05_agg_per_child_variant_reorders :
    (runPerChild { nch := 2 } [.accept ⟨true, some 1, 0⟩, .accept ⟨true, some 0, 1⟩, .reader, .reader]).started = [(true, [1, 0])] ∧
    (runPerChild { nch := 2 } [.accept ⟨true, some 0, 0⟩, .accept ⟨true, some 0, 1⟩, .accept ⟨true, some 1, 2⟩,
      .accept ⟨true, some 1, 3⟩, .reader, .reader, .reader, .reader, .reader, .reader]).started = [(true, [0, 2]), (true, [1, 3])] := by
  decide

end Agg

/-! ### who starts the reader, and registering an instance twice (`Model/C05Reg.lean`) -/
namespace Reg

theorem step_pcs_length (s s' : St) (a : Act) (hs : step s a = some s') : s'.pcs.length = s.pcs.length := by
  cases a with
  | accept m =>
    simp only [step, Option.map_eq_some_iff] at hs
    obtain ⟨t, _, rfl⟩ := hs; rfl
  | close =>
    simp only [step, Option.map_eq_some_iff] at hs
    obtain ⟨t, _, rfl⟩ := hs; rfl
  | register =>
    simp only [step, register] at hs
    split at hs
    · simp at hs; subst hs; rfl
    · split at hs <;> simp at hs <;> subst hs <;> rfl
  | reader k =>
    simp only [step] at hs
    split at hs
    · simp at hs
    · split at hs
      · simp at hs
      · simp at hs; subst hs; simp

/-- **exactly one reader**: the constructor starts one reader goroutine and nothing else ever starts another —
under every schedule of hand-overs, reader steps, `close` and any number of registrations there is one. -/
theorem c05_reg_one_reader (as : List Act) : (run {} as).pcs.length = 1 := by
  have : ∀ (as : List Act) (s : St), (run s as).pcs.length = s.pcs.length := by
    intro as
    induction as with
    | nil => intro s; rfl
    | cons a as ih =>
      intro s
      simp only [run]
      split
      · rename_i s1 hs; rw [ih s1]; exact step_pcs_length _ _ _ hs
      · exact ih s
  rw [this]; rfl

theorem step_bound (s s' : St) (a : Act) (hs : step s a = some s') (hb : s.bound = true) : s'.bound = true := by
  cases a with
  | accept m =>
    simp only [step, Option.map_eq_some_iff] at hs
    obtain ⟨t, _, rfl⟩ := hs; exact hb
  | close =>
    simp only [step, Option.map_eq_some_iff] at hs
    obtain ⟨t, _, rfl⟩ := hs; exact hb
  | register =>
    simp only [step, register, hb] at hs
    split at hs <;> simp at hs <;> subst hs <;> exact hb
  | reader k =>
    simp only [step] at hs
    split at hs
    · simp at hs
    · split at hs
      · simp at hs
      · simp at hs; subst hs; exact hb

theorem run_bound (as : List Act) (s : St) (hb : s.bound = true) : (run s as).bound = true := by
  induction as generalizing s with
  | nil => exact hb
  | cons a as ih =>
    simp only [run]
    split
    · exact ih _ (step_bound _ _ _ ‹_› hb)
    · exact ih _ hb

theorem step_bound_or_closing (s s' : St) (a : Act) (hs : step s a = some s')
    (hb : s.bound = true ∨ s.core.closing = true) : s'.bound = true ∨ s'.core.closing = true := by
  rcases hb with hb | hc
  · exact Or.inl (step_bound _ _ _ hs hb)
  · right
    cases a with
    | accept m =>
      simp only [step, Option.map_eq_some_iff] at hs
      obtain ⟨t, ht, rfl⟩ := hs
      simp [C05.step, hc] at ht; subst ht; exact hc
    | close =>
      simp only [step, Option.map_eq_some_iff] at hs
      obtain ⟨t, ht, rfl⟩ := hs
      simp [C05.step] at ht; subst ht; rfl
    | register =>
      simp only [step, register, hc] at hs
      simp at hs; subst hs; exact hc
    | reader k =>
      simp only [step] at hs
      split at hs
      · simp at hs
      · split at hs
        · simp at hs
        · rename_i pc _ t ht
          simp at hs; subst hs
          simp only [C05.step] at ht
          split at ht
          · split at ht
            · simp at ht; subst ht; exact hc
            · simp [hc] at *
          · simp at ht; subst ht; exact hc
          · split at ht <;> simp at ht; subst ht; exact hc
          · simp at ht

/-- **a second registration changes nothing**: once the node's instance has been registered, every later
registration — whatever happened in between: hand-overs, handlers, `close` — is refused (`ErrProtocolRegistered`,
or `ErrWrongTreeNodeInstance` once the node is closed) and leaves the whole state as it is: queue, wake-up
token, ghosts, and in particular the reader goroutines. -/
theorem c05_reg_second_registration_changes_nothing (as bs : List Act) :
    let s := run {} (as ++ [.register] ++ bs)
    (register s).1 = s ∧ (register s).2 ≠ .ok := by
  intro s
  have hrun : ∀ (xs ys : List Act) (t : St), run t (xs ++ ys) = run (run t xs) ys := by
    intro xs
    induction xs with
    | nil => intro ys t; rfl
    | cons x xs ih =>
      intro ys t
      simp only [List.cons_append, run]
      split <;> exact ih _ _
  have hboc : ∀ (xs : List Act) (t : St), (t.bound = true ∨ t.core.closing = true) →
      ((run t xs).bound = true ∨ (run t xs).core.closing = true) := by
    intro xs
    induction xs with
    | nil => intro t h; exact h
    | cons x xs ih =>
      intro t h
      simp only [run]
      split
      · exact ih _ (step_bound_or_closing _ _ _ ‹_› h)
      · exact ih _ h
  have h1 : s = run (run (run {} as) [.register]) bs := by
    show run {} (as ++ [.register] ++ bs) = _
    rw [hrun, hrun]
  have h2 : (run (run {} as) [.register]).bound = true ∨ (run (run {} as) [.register]).core.closing = true := by
    simp only [run, step, register]
    split
    · right; assumption
    · split
      · left; assumption
      · left; rfl
  have h3 := hboc bs _ h2
  rw [← h1] at h3
  simp only [register]
  split
  · exact ⟨rfl, by simp⟩
  · rcases h3 with hb | hc
    · simp [hb]
    · rename_i hn; exact absurd hc hn

theorem step_accept_pc (c : C05.St) (p : RPc) (m : Nat) :
    C05.step { c with pc := p } (.accept m) = (C05.step c (.accept m)).map fun t => { t with pc := p } := by
  simp only [C05.step]; split <;> rfl
theorem step_close_pc (c : C05.St) (p : RPc) :
    C05.step { c with pc := p } .close = (C05.step c .close).map fun t => { t with pc := p } := by
  simp [C05.step]

/-- **registrations are invisible to the instance**: with its one reader, the instance under a schedule that
contains any number of registrations (and steps of reader goroutines that do not exist) is the instance of
`Model/C05Inst.lean` under the schedule without them — so `c05_fifo`, `c05_serial`, `c05_no_lost_wakeup`,
`c05_quiescent_all_handled` hold whatever is registered when and how often. -/
theorem c05_reg_registrations_are_stutters (as : List Act) :
    view (run {} as) = runT {} (erase as) := by
  have : ∀ (as : List Act) (s : St) (p : RPc), s.pcs = [p] → view (run s as) = runT (view s) (erase as) := by
    intro as
    induction as with
    | nil => intro s p _; rfl
    | cons a as ih =>
      intro s p hp
      have hv : view s = { s.core with pc := p } := by simp [view, hp]
      cases a with
      | accept m =>
        simp only [run, erase, runT, step, hv, step_accept_pc]
        cases hc : C05.step s.core (.accept m) with
        | none => simp [C05.step] at hc; split at hc <;> simp at hc
        | some t =>
          simp only [Option.map_some]
          rw [ih _ p (by simpa using hp)]; simp [view, hp]
      | close =>
        simp only [run, erase, runT, step, hv, step_close_pc]
        cases hc : C05.step s.core .close with
        | none => simp [C05.step] at hc
        | some t =>
          simp only [Option.map_some]
          rw [ih _ p (by simpa using hp)]; simp [view, hp]
      | register =>
        simp only [run, erase, step]
        have hp' : (register s).1.pcs = [p] := by
          simp only [register]; split
          · exact hp
          · split <;> exact hp
        rw [ih _ p hp']
        congr 1
        simp only [view, register]; split
        · rfl
        · split <;> rfl
      | reader k =>
        cases k with
        | zero =>
          simp only [run, erase, runT, step, hp, hv]
          simp only [List.getElem?_cons_zero]
          cases hc : C05.step { s.core with pc := p } .reader with
          | none => simp only; rw [ih s p hp, hv]
          | some t =>
            simp only
            rw [ih _ t.pc (by simp)]; simp [view]
        | succ k =>
          simp only [run, erase, step, hp]
          simp only [List.getElem?_cons_succ, List.getElem?_nil]
          exact ih s p hp
  exact this as {} .top rfl

/-- what `c05_reg_registrations_are_stutters` is for: order and mutual exclusion with registrations in
the schedule -/
theorem c05_reg_order_and_exclusion (as : List Act) :
    let s := run {} as
    s.core.started <+: s.core.accepted ∧
    (∃ running, s.core.started = s.core.finished ++ running ∧ running.length ≤ 1) ∧
    (inHandler s).length ≤ 1 := by
  intro s
  have hv := c05_reg_registrations_are_stutters as
  have hr := run_eq_runT (erase as) {}
  rw [← hv] at hr
  have h1 := c05_fifo _ _ hr
  have h2 := c05_serial _ _ hr
  refine ⟨h1, h2, ?_⟩
  have hl := c05_reg_one_reader as
  show (inHandler (run {} as)).length ≤ 1
  unfold inHandler
  exact Nat.le_trans (List.length_filterMap_le _ _) (Nat.le_of_eq hl)

/-- **why it matters (negation witness for a node with two readers)**: in the state a second `bind` that
started a reader would produce — two reader goroutines on one queue — two hand-overs are enough for two
handlers of the instance to run at the same time. -/
theorem c05_reg_two_readers_overlap :
    ∃ as, inHandler (run { pcs := [.top, .top] } as) = [1, 2] :=
  ⟨[.accept 1, .accept 2, .reader 0, .reader 1], by decide⟩

/-- non-vacuity: a handler is blocked, the instance is registered again twice, two more messages arrive, the
handler returns: refused both times, one reader, handlers 1 2 3 in order -/
example :
    let s := run {} [.register, .accept 1, .reader 0, .register, .accept 2, .register, .accept 3, .reader 1,
      .reader 0, .reader 0, .reader 0, .reader 0]
    s.core.started = [1, 2, 3] ∧ s.core.finished = [1, 2] ∧ inHandler s = [3] ∧ s.pcs.length = 1 ∧
      (register s).2 = .registered := by decide

end Reg

/-! ### the code regions the model stands for
Regenerated from /repo's source on every run (`harness/cmd/astfacts` → `OnetVerif/Shapes.lean`): the
calls that matter for synchronisation and data flow, the lock regions and (for decision logic) the
conditions, in source order.  A re-ordering, a dropped call or a changed condition breaks these
obligations even when no sampled input or schedule shows a difference; the check then searches for
a failing input. -/
theorem c05_shape_TreeNodeInstance_ProcessProtocolMsg :
    Shapes.treenode_TreeNodeInstance_ProcessProtocolMsg =
   ["msgDispatchQueueMutex.Lock", "defer:msgDispatchQueueMutex.Unlock", "if:n.closing",
     "return:", "n.notifyDispatch"] := rfl

theorem c05_shape_TreeNodeInstance_notifyDispatch :
    Shapes.treenode_TreeNodeInstance_notifyDispatch =
   ["send:msgDispatchQueueWait"] := rfl

theorem c05_shape_TreeNodeInstance_dispatchMsgReader :
    Shapes.treenode_TreeNodeInstance_dispatchMsgReader =
   ["msgDispatchQueueMutex.Lock", "msgDispatchQueueMutex.Unlock", "msgDispatchQueueMutex.Unlock",
     "n.dispatchMsgToProtocol", "msgDispatchQueueMutex.Unlock", "recv:msgDispatchQueueWait"] := rfl

theorem c05_shape_TreeNodeInstance_closeDispatch :
    Shapes.treenode_TreeNodeInstance_closeDispatch =
   ["defer{", "}", "msgDispatchQueueMutex.Lock", "close:msgDispatchQueueWait",
     "msgDispatchQueueMutex.Unlock", "n.ProtocolInstance", "pni.Shutdown"] := rfl

theorem c05_shape_dispatch_BlockingDispatcher_Dispatch :
    Shapes.network_dispatch_BlockingDispatcher_Dispatch =
   ["d.Lock", "d.Unlock", "d.Unlock", "p.Process"] := rfl

theorem c05_shape_dispatch_RoutineDispatcher_Dispatch :
    Shapes.network_dispatch_RoutineDispatcher_Dispatch =
   ["d.Lock", "defer:d.Unlock", "go{", "routinesMutex.Lock", "routinesMutex.Unlock", "p.Process",
     "routinesMutex.Lock", "routinesMutex.Unlock", "}"] := rfl

theorem c05_shape_serviceManager_Process :
    Shapes.service_serviceManager_Process =
   ["s.Dispatch"] := rfl

theorem c05_shape_router_Router_handleConn :
    Shapes.network_router_Router_handleConn =
   ["defer{", "c.Close", "c.Rx", "c.Tx", "traffic.updateRx", "traffic.updateTx", "wg.Done",
     "r.removeConnection", "verifC10Point", "}", "verifC10Point", "c.Remote", "c.Receive",
     "verifC10Point", "r.Lock", "r.Unlock", "recv:paused", "r.Closed",
     "r.triggerConnectionErrorHandlers", "r.triggerConnectionErrorHandlers",
     "r.triggerConnectionErrorHandlers", "verifC10Point", "msgTraffic.updateRx", "r.Dispatch"] := rfl

theorem c05_shape_Overlay_Process :
    Shapes.overlay_Overlay_Process =
   ["MsgType.Equal", "o.handleConfigMessage", "protoIO.getByPacketType", "io.Unwrap",
     "o.handleRequestTree", "o.handleSendTree", "o.handleSendTreeMarshal",
     "o.handleRequestRoster", "o.handleSendRoster", "network.MessageType", "o.TransmitMsg"] := rfl

theorem c05_shape_Overlay_TransmitMsg :
    Shapes.overlay_Overlay_TransmitMsg =
   ["treeStorage.getAndRefresh", "verifPoint:tm.miss", "o.requestTree", "verifPoint:tm.found",
     "transmitMux.Lock", "defer:transmitMux.Unlock", "instancesLock.Lock", "To.ID", "To.ID",
     "o.cleanTreeStorage", "instancesLock.Unlock", "o.TreeNodeFromTree",
     "instancesLock.Lock", "o.cleanTreeStorage", "instancesLock.Unlock",
     "o.newTreeNodeInstanceFromToken", "treeStorage.Set", "o.hasPendingMsg",
     "o.checkPendingMessages", "To.ID", "o.getConfig",
     "serviceManager.newProtocol", "instancesLock.Lock", "o.nodeDelete", "instancesLock.Unlock",
     "instancesLock.Lock", "o.nodeDelete", "instancesLock.Unlock",
     "go{", "defer{", "tni.Token", "ServiceFactory.Name", "}", "pi.Dispatch", "tni.Token",
     "ServiceFactory.Name", "}", "o.RegisterProtocolInstance", "pi.ProcessProtocolMsg"] := rfl


end C05
