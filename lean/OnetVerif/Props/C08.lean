import OnetVerif.Model.C08
import OnetVerif.Shapes
/-! Property C08 — TLS links exist only between peers that proved the keys they claim.
Only property theorems, negation witnesses, non-vacuity examples and the lemmas they need. -/
namespace C08

/-! ### what acceptance by the verifier implies -/

/-- everything `makeVerifier` has established when it returns `nil` -/
theorem verify_ok {s : Suite} {them : Option Key} {n : Nonce} {raw : List Cert}
    (h : verifyPeer s them n raw = none) :
    ∃ c pub, raw = [c] ∧ c.parses = true ∧ c.count = 1 ∧ x509ok c = true ∧
      pubFromCN s c.cn = some pub ∧ c.ext = some (.sig pub n c.cn) ∧
      (∀ t, them = some t → pub = t ∧ expectedOk t c = true) := by
  unfold verifyPeer verifyPeerG at h
  cases raw with
  | nil => simp at h
  | cons c rest =>
    simp only [Bool.true_and] at h
    by_cases h1 : rest.isEmpty = true
    case neg => simp [h1] at h
    by_cases h2 : c.parses = true
    case neg => simp [h1, h2] at h
    by_cases h3 : c.count = 1
    case neg => simp [h1, h2, h3] at h; split at h <;> simp at h
    by_cases h4 : x509ok c = true
    case neg => simp [h1, h2, h3, h4] at h
    simp [h1, h2, h3, h4] at h
    have hr : c :: rest = [c] := by simpa using h1
    cases them <;> cases hext : c.ext <;> cases hpub : pubFromCN s c.cn <;>
      simp [hext, hpub, schnorrVerify] at h <;> try (split at h <;> simp at h)
    · rename_i sg pub
      exact ⟨c, pub, hr, h2, h3, h4, hpub, by rw [hext, h], by simp⟩
    · rename_i t sg pub
      by_cases e1 : expectedOk t c = true
      case neg => simp [e1] at h
      by_cases e2 : pub = t
      case neg => simp [e1, e2] at h
      by_cases e3 : sg = Sig.sig pub n c.cn
      case neg => subst e2; simp [e1, e3] at h
      exact ⟨c, pub, hr, h2, h3, h4, hpub, by rw [hext, e3], by simp [e1, e2]⟩

/-! ### the decision table -/

/-- the certificate the current code makes (`certMaker.get`): new-style name, one URI -/
def honestCert (k : Key) (t : TlsKey) (n : Nonce) : Cert :=
  { parses := true, count := 1, tlsKey := t, signedBy := t, validity := .ok,
    uris := [⟨true, 0, pubToCN k⟩], cn := .new k, ext := some (.sig k n (.new k)) }

theorem certFor_new (k : Key) (t : TlsKey) (n : Nonce) (hn : n ≠ .badSize) :
    certFor .new k t n = some (honestCert k t n) := by
  simp [certFor, hn, honestCert, Style.name]

/-- the property's list of deviations of a peer from the honest handshake, as edits of the
certificate an honest holder of `k` would present for nonce `n` -/
inductive Deviation
  | noCertificate
  | severalCertificates (extra : Cert)
  | unparsable
  | twoInOneBlob
  | expired
  | notYetValid
  | proofMissing
  | proofGarbled (i : Nat)
  | proofByOtherKey (k' : Key)
  | proofOverOtherNonce (n' : Nonce)      -- stale (replayed) or foreign nonce
  | proofOverOtherName (cn' : Name)       -- e.g. a signature made for the old-style name
  | nameUndecodable (i : Nat)
  | oldNameUnderNewSuite                  -- old-style name where the suite cannot parse it
  | namesOtherKey (k' : Key)              -- CN (and URI) name another server's key, proof kept
  | cnNamesOtherKeyWithOwnProof (k' : Key) -- CN names k' with k'-signed proof, URI still names k

/-- the deviation really deviates -/
def Deviation.real (k : Key) (_t : TlsKey) (n : Nonce) (s : Suite) : Deviation → Prop
  | .proofByOtherKey k' => k' ≠ k
  | .proofOverOtherNonce n' => n' ≠ n
  | .proofOverOtherName cn' => cn' ≠ .new k
  | .oldNameUnderNewSuite => s.oldParses = false
  | .namesOtherKey k' => k' ≠ k
  | .cnNamesOtherKeyWithOwnProof k' => k' ≠ k
  | _ => True

def Deviation.apply (k : Key) (n : Nonce) (c : Cert) : Deviation → List Cert
  | .noCertificate => []
  | .severalCertificates extra => [c, extra]
  | .unparsable => [{ c with parses := false }]
  | .twoInOneBlob => [{ c with count := 2 }]
  | .expired => [{ c with validity := .expired }]
  | .notYetValid => [{ c with validity := .notYet }]
  | .proofMissing => [{ c with ext := none }]
  | .proofGarbled i => [{ c with ext := some (.junk i) }]
  | .proofByOtherKey k' => [{ c with ext := some (.sig k' n c.cn) }]
  | .proofOverOtherNonce n' => [{ c with ext := some (.sig k n' c.cn) }]
  | .proofOverOtherName cn' => [{ c with ext := some (.sig k n cn') }]
  | .nameUndecodable i => [{ c with cn := .junk i, uris := [], ext := some (.sig k n (.junk i)) }]
  | .oldNameUnderNewSuite => [{ c with cn := .old k, ext := some (.sig k n (.old k)) }]
  | .namesOtherKey k' =>
      [{ c with cn := .new k', uris := [⟨true, 0, .new k'⟩], ext := some (.sig k n (.new k')) }]
  | .cnNamesOtherKeyWithOwnProof k' =>
      [{ c with cn := .new k', ext := some (.sig k' n (.new k')) }]

/-- which test of `makeVerifier` stops it, when the honest node dialled `k` -/
def Deviation.caughtDial : Deviation → Check
  | .noCertificate | .severalCertificates _ => .oneRaw
  | .unparsable => .parse
  | .twoInOneBlob => .oneCert
  | .expired | .notYetValid => .x509
  | .proofMissing => .sigPresent
  | .proofGarbled _ | .proofByOtherKey _ | .proofOverOtherNonce _ | .proofOverOtherName _ => .signature
  | .nameUndecodable _ => .expected
  | .oldNameUnderNewSuite => .cnDecodes
  | .namesOtherKey _ => .expected
  | .cnNamesOtherKeyWithOwnProof _ => .cnIsExpected

/-- … and when the honest node accepted the connection (no expected key) -/
def Deviation.caughtAccept : Deviation → Check
  | .nameUndecodable _ => .cnDecodes
  | .namesOtherKey _ => .signature
  | d => d.caughtDial

/-- **decision table, verifier part**: the honest certificate is accepted in both roles, and
every deviation of the list, for every key, TLS key, nonce and suite, is rejected in both roles —
by the named test.  (`cnNamesOtherKeyWithOwnProof` in the accepting role is not a deviation: the
peer then simply *is* `k'`; that row is claimed for the dialling role only.) -/
theorem c08_each_check_necessary (s : Suite) (k : Key) (t : TlsKey) (n : Nonce) :
    verifyPeer s (some k) n [honestCert k t n] = none ∧
    verifyPeer s none n [honestCert k t n] = none ∧
    ∀ d : Deviation, d.real k t n s →
      verifyPeer s (some k) n (d.apply k n (honestCert k t n)) = some d.caughtDial ∧
      ((∀ k', d ≠ .cnNamesOtherKeyWithOwnProof k') →
        verifyPeer s none n (d.apply k n (honestCert k t n)) = some d.caughtAccept) := by
  refine ⟨?_, ?_, ?_⟩
  · simp [verifyPeer, verifyPeerG, honestCert, x509ok, expectedOk, pubToCN, pubFromCN, schnorrVerify]
  · simp [verifyPeer, verifyPeerG, honestCert, x509ok, pubFromCN, schnorrVerify]
  · intro d hd
    cases d <;>
      simp_all [Deviation.real, Deviation.apply, Deviation.caughtDial, Deviation.caughtAccept,
        verifyPeer, verifyPeerG, honestCert, x509ok, expectedOk, pubToCN, pubFromCN, schnorrVerify]
    all_goals (first | omega | (intro h; exact hd h.symm) | (exact fun h => hd h.symm) | skip)

/-- what the table does *not* contain: a certificate signed by another key than its own is
not refused (crypto/x509 trusts a certificate found in the root pool without checking its
signature).  Who signed the certificate plays no role at all — the proof is the DEDIS signature. -/
theorem c08_certificate_signer_irrelevant (s : Suite) (them : Option Key) (n : Nonce) (c : Cert)
    (rest : List Cert) (x : TlsKey) :
    verifyPeer s them n ({ c with signedBy := x } :: rest) = verifyPeer s them n (c :: rest) := by
  simp [verifyPeer, verifyPeerG, x509ok, expectedOk]

/-- **decision table, necessity part**: each of the load-bearing tests is the only thing that
stands between some forged certificate and acceptance — switch that single test off
(`verifyPeerG`) and the forgery passes; with all tests on it is rejected by exactly that test.
Keys: 1 = the honest server that was dialled / is claimed, 2 = the forger's own key. -/
theorem c08_check_load_bearing :
    -- several certificates
    (verifyPeerG (· != .oneRaw) ⟨true⟩ (some 1) (.hon 0) [honestCert 1 10 (.hon 0), honestCert 2 11 (.hon 0)] = none ∧
     verifyPeer ⟨true⟩ (some 1) (.hon 0) [honestCert 1 10 (.hon 0), honestCert 2 11 (.hon 0)] = some .oneRaw) ∧
    -- several certificates in one blob
    (verifyPeerG (· != .oneCert) ⟨true⟩ (some 1) (.hon 0) [{ honestCert 1 10 (.hon 0) with count := 2 }] = none ∧
     verifyPeer ⟨true⟩ (some 1) (.hon 0) [{ honestCert 1 10 (.hon 0) with count := 2 }] = some .oneCert) ∧
    -- expired
    (verifyPeerG (· != .x509) ⟨true⟩ (some 1) (.hon 0) [{ honestCert 1 10 (.hon 0) with validity := .expired }] = none ∧
     verifyPeer ⟨true⟩ (some 1) (.hon 0) [{ honestCert 1 10 (.hon 0) with validity := .expired }] = some .x509) ∧
    -- replayed proof (nonce of an earlier handshake)
    (verifyPeerG (· != .signature) ⟨true⟩ (some 1) (.hon 1) [honestCert 1 12 (.hon 0)] = none ∧
     verifyPeer ⟨true⟩ (some 1) (.hon 1) [honestCert 1 12 (.hon 0)] = some .signature) ∧
    -- the forger's own key and proof under a URI that names the dialled server
    (verifyPeerG (· != .cnIsExpected) ⟨true⟩ (some 1) (.hon 0)
        [{ honestCert 2 12 (.hon 0) with uris := [⟨true, 0, .new 1⟩] }] = none ∧
     verifyPeer ⟨true⟩ (some 1) (.hon 0)
        [{ honestCert 2 12 (.hon 0) with uris := [⟨true, 0, .new 1⟩] }] = some .cnIsExpected) ∧
    -- the forger's own, perfectly honest certificate when somebody else was dialled
    (verifyPeerG (fun c => c != .expected && c != .cnIsExpected) ⟨true⟩ (some 1) (.hon 0) [honestCert 2 12 (.hon 0)] = none ∧
     verifyPeer ⟨true⟩ (some 1) (.hon 0) [honestCert 2 12 (.hon 0)] = some .expected) := by
  decide

/-! ### the router's identity test -/

/-- **the identity attached to every dispatched message carries the proven key**: whatever the
peer presents and sends, on an accepted connection every envelope handed to the dispatcher
carries the identity the peer declared, the TLS handshake succeeded, and that identity's public
key is the key named (and proven) by the certificate; on a dialled connection it carries the
identity that was dialled, and the certificate names and proves exactly that key. -/
theorem c08_identity_matches_key (s : Suite) (n : Nonce) (raw : List Cert) (msgs : List Nat)
    (closed : Bool) :
    (∀ validPeer first e, e ∈ acceptConn s n validPeer closed raw first msgs →
      first = .identity e.1 ∧ verifyPeer s none n raw = none ∧ peerKey s raw = some e.1.pub) ∧
    (∀ them e, e ∈ dialConn s n them closed raw msgs →
      e.1 = them ∧ verifyPeer s (some them.pub) n raw = none ∧ peerKey s raw = some them.pub) := by
  constructor
  · intro validPeer first e he
    unfold acceptConn at he
    split at he; · simp at he
    rename_i hv
    split at he; · simp at he
    rename_i dst hr
    split at he
    · simp only [List.mem_map] at he
      obtain ⟨m, _, rfl⟩ := he
      refine ⟨?_, hv, ?_⟩
      all_goals
        unfold receiveServerIdentity at hr
        split at hr <;> try simp at hr
        split at hr <;> try simp at hr
        split at hr <;> try simp at hr
        split at hr <;> simp at hr
        subst hr
        simp_all [peerKey]
    · simp at he
  · intro them e he
    unfold dialConn at he
    split at he; · simp at he
    rename_i hv
    split at he; · simp at he
    simp only [List.mem_map] at he
    obtain ⟨m, _, rfl⟩ := he
    refine ⟨rfl, hv, ?_⟩
    obtain ⟨c, pub, rfl, _, _, _, hpub, _, ht⟩ := verify_ok hv
    simp [peerKey, hpub, (ht them.pub rfl).1]

/-- **a peer whose self-declared identity differs from the proven key is dropped before any of
its messages is dispatched** (and so is one that sends anything but an identity first) -/
theorem c08_mismatch_dropped (s : Suite) (n : Nonce) (validPeer : Identity → Bool) (closed : Bool)
    (raw : List Cert) (msgs : List Nat) :
    (∀ dst, peerKey s raw ≠ some dst.pub →
      acceptConn s n validPeer closed raw (.identity dst) msgs = []) ∧
    acceptConn s n validPeer closed raw .other msgs = [] ∧
    acceptConn s n validPeer closed raw .error msgs = [] := by
  refine ⟨?_, ?_, ?_⟩
  · intro dst hne
    unfold acceptConn
    split; · rfl
    cases raw with
    | nil => simp [receiveServerIdentity]
    | cons c rest =>
      simp only [peerKey] at hne
      cases hpub : pubFromCN s c.cn with
      | none => simp [receiveServerIdentity, hpub]
      | some pub =>
        have : pub ≠ dst.pub := fun h => hne (by rw [hpub, h])
        simp [receiveServerIdentity, hpub, this]
  · unfold acceptConn; split <;> simp [receiveServerIdentity]
  · unfold acceptConn; split <;> simp [receiveServerIdentity]

/-! ### the dialling side reaches the key it intended -/

/-- **the dialling side accepts only the key it intended**: if the verifier made for `them`
returns `nil` then the key named by the certificate's common name — the one the signature was
verified against, and the one the router will read — is `them`. (Before the fix a certificate
whose URI named `them` and whose common name and proof named the presenter's own key passed;
the witness is the fifth row of `c08_check_load_bearing`.) -/
theorem c08_dialer_reaches_intended (s : Suite) (them : Key) (n : Nonce) (raw : List Cert)
    (h : verifyPeer s (some them) n raw = none) :
    peerKey s raw = some them ∧
    ∃ c, raw = [c] ∧ c.ext = some (.sig them n c.cn) := by
  obtain ⟨c, pub, rfl, _, _, _, hpub, hext, ht⟩ := verify_ok h
  have := (ht them rfl).1
  subst this
  exact ⟨by simp [peerKey, hpub], c, rfl, hext⟩

/-! ### freshness, over arbitrary traces -/

theorem run_append (S : Setting) (w : World) (l₁ l₂ : List Ev) :
    run S w (l₁ ++ l₂) = (run S w l₁).bind fun w' => run S w' l₂ := by
  induction l₁ generalizing w with
  | nil => simp [run]
  | cons e l ih =>
    simp only [List.cons_append, run]
    cases step S w e with
    | none => simp
    | some w' => simp [ih]

/-- an event in which the honest holder of `k` signs `n` naming itself `cn` -/
def Signs (k : Key) (n : Nonce) (cn : Name) (e : Ev) : Prop :=
  ∃ st, cn = st.name k ∧ (e = .certFor k st n ∨ ∃ i, n = .hon i ∧ e = .honest i k st)

theorem verifyAt_log {S : Setting} {w w' : World} {i : Nat} {raw : List Cert}
    (h : verifyAt S w i raw = some w') : w'.log = w.log ∧ w'.hs = w.hs := by
  unfold verifyAt at h
  split at h; · simp at h
  split at h <;> (simp at h; subst h; simp)

theorem signFor_spec {S : Setting} {w w' : World} {k : Key} {st : Style} {n : Nonce}
    (h : signFor S w k st n = some w') :
    S.adv k = false ∧ knownNonce w n = true ∧ w'.hs = w.hs ∧ w'.acc = w.acc ∧
    (w'.log = w.log ∨ w'.log = (k, n, st.name k) :: w.log) := by
  unfold signFor at h
  split at h; · simp at h
  rename_i hc
  simp at hc
  split at h <;> (simp at h; subst h; simp [hc])

/-- one step: handshakes are only ever added; a new log entry comes from a signing event of an
honest key holder over a nonce that was already drawn -/
theorem step_log {S : Setting} {w w' : World} {e : Ev} (h : step S w e = some w') :
    w.hs.length ≤ w'.hs.length ∧
    ∀ x, x ∈ w'.log → x ∈ w.log ∨
      (S.adv x.1 = false ∧ Signs x.1 x.2.1 x.2.2 e ∧ knownNonce w x.2.1 = true) := by
  cases e with
  | mkVerifier them =>
    simp [step] at h; subst h
    exact ⟨by simp, fun x hx => Or.inl hx⟩
  | certFor k st n =>
    simp only [step] at h
    obtain ⟨hadv, hkn, hhs, _, hlog⟩ := signFor_spec h
    refine ⟨by rw [hhs]; exact Nat.le_refl _, ?_⟩
    intro x hx
    rcases hlog with hlog | hlog
    · left; rw [hlog] at hx; exact hx
    · rw [hlog] at hx
      rcases List.mem_cons.mp hx with rfl | hx
      · right; exact ⟨hadv, ⟨st, rfl, Or.inl rfl⟩, hkn⟩
      · left; exact hx
  | present i raw =>
    simp only [step] at h
    split at h
    · obtain ⟨hl, hh⟩ := verifyAt_log h
      rw [hl, hh]; exact ⟨Nat.le_refl _, fun x hx => Or.inl hx⟩
    · simp at h
  | honest i k st =>
    simp only [step] at h
    split at h
    · rename_i w1 c hs1 _
      obtain ⟨hl, hh⟩ := verifyAt_log h
      obtain ⟨hadv, hkn, hhs, _, hlog⟩ := signFor_spec hs1
      refine ⟨by rw [hh, hhs]; exact Nat.le_refl _, ?_⟩
      intro x hx
      rw [hl] at hx
      rcases hlog with hlog | hlog
      · left; rw [hlog] at hx; exact hx
      · rw [hlog] at hx
        rcases List.mem_cons.mp hx with rfl | hx
        · right; exact ⟨hadv, ⟨st, rfl, Or.inr ⟨i, rfl, rfl⟩⟩, hkn⟩
        · left; exact hx
    · simp at h

/-- every log entry of a run was produced by a signing event of the run, at a moment when the
signed nonce was already known -/
theorem log_origin (S : Setting) (evs : List Ev) (w₀ w : World) (h : run S w₀ evs = some w)
    (x : Key × Nonce × Name) (hx : x ∈ w.log) (hx₀ : x ∉ w₀.log) :
    S.adv x.1 = false ∧
    ∃ pre e post w₁, evs = pre ++ e :: post ∧ Signs x.1 x.2.1 x.2.2 e ∧
      run S w₀ pre = some w₁ ∧ knownNonce w₁ x.2.1 = true := by
  induction evs generalizing w₀ with
  | nil => simp [run] at h; subst h; exact absurd hx hx₀
  | cons e es ih =>
    simp only [run] at h
    cases hs : step S w₀ e with
    | none => simp [hs] at h
    | some w' =>
      simp only [hs] at h
      by_cases hx' : x ∈ w'.log
      · rcases (step_log hs).2 x hx' with h0 | ⟨hadv, hsig, hkn⟩
        · exact absurd h0 hx₀
        · exact ⟨hadv, [], e, es, w₀, rfl, hsig, rfl, hkn⟩
      · obtain ⟨hadv, pre, e', post, w₁, he, hsig, hr, hkn⟩ := ih w' h hx'
        refine ⟨hadv, e :: pre, e', post, w₁, by simp [he], hsig, ?_, hkn⟩
        simp [run, hs, hr]

/-- one step: a new accepted handshake was verified in this step against the log as it is
after the step -/
theorem step_acc {S : Setting} {w w' : World} {e : Ev} (h : step S w e = some w') :
    (∀ x, x ∈ w.log → x ∈ w'.log) ∧
    ∀ i c, (i, c) ∈ w'.acc → (i, c) ∈ w.acc ∨
      (∃ hs, w.hs[i]? = some hs ∧ verifyPeer S.suite hs.them (.hon i) [c] = none ∧
        ∀ sg, c.ext = some sg → presentable S.adv w'.log sg = true) := by
  have verifyAt_acc : ∀ {w w' : World} {i : Nat} {raw : List Cert},
      verifyAt S w i raw = some w' →
      ∀ j c, (j, c) ∈ w'.acc → (j, c) ∈ w.acc ∨
        (j = i ∧ ∃ hs, w.hs[i]? = some hs ∧ raw = [c] ∧ verifyPeer S.suite hs.them (.hon i) [c] = none) := by
    intro w w' i raw h j c hjc
    unfold verifyAt at h
    split at h; · simp at h
    rename_i hs hhs
    split at h
    · rename_i c' rest hv
      simp at h; subst h
      rcases List.mem_cons.mp hjc with heq | hjc
      · right
        obtain ⟨c'', _, hraw, _⟩ := verify_ok hv
        simp at heq hraw
        obtain ⟨rfl, rfl⟩ := heq
        obtain ⟨rfl, rfl⟩ := hraw
        exact ⟨rfl, hs, hhs, rfl, hv⟩
      · left; exact hjc
    · simp at h; subst h; left; exact hjc
  cases e with
  | mkVerifier them =>
    simp [step] at h; subst h
    exact ⟨fun x hx => hx, fun i c h => Or.inl h⟩
  | certFor k st n =>
    simp only [step] at h
    obtain ⟨_, _, _, hacc, hlog⟩ := signFor_spec h
    constructor
    · intro x hx; rcases hlog with hl | hl <;> rw [hl] <;> simp [hx]
    · intro i c hic; left; rw [hacc] at hic; exact hic
  | present i raw =>
    simp only [step] at h
    split at h
    · rename_i hcond
      obtain ⟨hl, _⟩ := verifyAt_log h
      refine ⟨fun x hx => by rw [hl]; exact hx, ?_⟩
      intro j c hjc
      rcases verifyAt_acc h j c hjc with h0 | ⟨rfl, hs, hhs, hraw, hv⟩
      · left; exact h0
      · right
        refine ⟨hs, hhs, hv, ?_⟩
        intro sg hsg
        subst hraw
        simp [canPresent, hsg] at hcond
        rw [hl]; exact hcond.2
    · simp at h
  | honest i k st =>
    simp only [step] at h
    split at h
    · rename_i w1 c hs1 hc
      obtain ⟨hl, _⟩ := verifyAt_log h
      obtain ⟨_, hkn, hhs, hacc, hlog⟩ := signFor_spec hs1
      have hne : (Nonce.hon i) ≠ .badSize := by simp
      have hlog' : w1.log = (k, .hon i, st.name k) :: w.log := by
        unfold signFor at hs1
        split at hs1; · simp at hs1
        simp at hs1; subst hs1; rfl
      constructor
      · intro x hx; rw [hl, hlog']; simp [hx]
      · intro j c' hjc
        rcases verifyAt_acc h j c' hjc with h0 | ⟨rfl, hs, hhs', hraw, hv⟩
        · left; rw [hacc] at h0; exact h0
        · right
          rw [hhs] at hhs'
          refine ⟨hs, hhs', hv, ?_⟩
          intro sg hsg
          simp at hraw; subst hraw
          simp [certFor] at hc
          subst hc
          simp at hsg; subst hsg
          simp [presentable, hl, hlog']
    · simp at h

theorem presentable_mono {adv : Key → Bool} {l l' : List (Key × Nonce × Name)}
    (h : ∀ x, x ∈ l → x ∈ l') {sg : Sig} (hp : presentable adv l sg = true) :
    presentable adv l' sg = true := by
  cases sg with
  | junk i => rfl
  | sig k n cn =>
    simp only [presentable, Bool.or_eq_true, List.contains_iff_mem] at hp ⊢
    rcases hp with hp | hp
    · left; exact hp
    · right; exact h _ hp

/-- invariant of every run: an accepted handshake `i` accepted its certificate with the
verifier of handshake `i`, and the proof in it was presentable from the final log -/
theorem acc_inv (S : Setting) (evs : List Ev) (w₀ w : World) (h : run S w₀ evs = some w)
    (hinv₀ : ∀ i c, (i, c) ∈ w₀.acc → ∃ hs, w₀.hs[i]? = some hs ∧
      verifyPeer S.suite hs.them (.hon i) [c] = none ∧
      ∀ sg, c.ext = some sg → presentable S.adv w₀.log sg = true) :
    ∀ i c, (i, c) ∈ w.acc → ∃ hs, w.hs[i]? = some hs ∧
      verifyPeer S.suite hs.them (.hon i) [c] = none ∧
      ∀ sg, c.ext = some sg → presentable S.adv w.log sg = true := by
  induction evs generalizing w₀ with
  | nil => simp [run] at h; subst h; exact hinv₀
  | cons e es ih =>
    simp only [run] at h
    cases hs : step S w₀ e with
    | none => simp [hs] at h
    | some w' =>
      simp only [hs] at h
      apply ih w' h
      intro i c hic
      have hmono := (step_acc hs).1
      have hhs : ∀ (i : Nat) (hs : Hs), w₀.hs[i]? = some hs → w'.hs[i]? = some hs := by
        intro i hsv hi
        cases e with
        | mkVerifier them =>
          simp [step] at hs; subst hs
          simp only
          rw [List.getElem?_append_left]
          · exact hi
          · exact (List.getElem?_eq_some_iff.mp hi).1
        | certFor k st n =>
          simp only [step] at hs
          rw [(signFor_spec hs).2.2.1]; exact hi
        | present j raw =>
          simp only [step] at hs
          split at hs
          · rw [(verifyAt_log hs).2]; exact hi
          · simp at hs
        | honest j k st =>
          simp only [step] at hs
          split at hs
          · rename_i w1 c hs1 _
            rw [(verifyAt_log hs).2, (signFor_spec hs1).2.2.1]; exact hi
          · simp at hs
      rcases (step_acc hs).2 i c hic with h0 | ⟨hsv, hi, hv, hp⟩
      · obtain ⟨hsv, hi, hv, hp⟩ := hinv₀ i c h0
        exact ⟨hsv, hhs i hsv hi, hv, fun sg hsg => presentable_mono hmono (hp sg hsg)⟩
      · exact ⟨hsv, hhs i hsv hi, hv, hp⟩

/-- **the proof is fresh**: in every run of the world — any number of honest nodes and
handshakes, an adversary who owns the network, holds keys of its own, sees every signature ever
made and may ask honest nodes for certificates over any nonce it knows — if honest handshake `i`
accepts a certificate naming a key `k` the adversary does not hold, then the holder of `k` made
a certificate for *this handshake's* nonce, and did so after handshake `i` was opened.  No
signature that existed before the nonce was drawn (a replay) can be accepted. -/
theorem c08_fresh_signature (S : Setting) (evs : List Ev) (w : World)
    (hrun : run S {} evs = some w) (i : Nat) (c : Cert) (k : Key)
    (hacc : (i, c) ∈ w.acc) (hk : pubFromCN S.suite c.cn = some k) (hhon : S.adv k = false) :
    ∃ pre e post w₁, evs = pre ++ e :: post ∧ Signs k (.hon i) c.cn e ∧
      run S {} pre = some w₁ ∧ i < w₁.hs.length := by
  obtain ⟨hsv, _, hv, hp⟩ := acc_inv S evs {} w hrun (by simp) i c hacc
  obtain ⟨c', pub, hraw, _, _, _, hpub, hext, _⟩ := verify_ok hv
  simp at hraw; subst hraw
  rw [hk] at hpub; simp at hpub; subst hpub
  have hpres := hp _ hext
  simp only [presentable, hhon, Bool.false_or, List.contains_iff_mem] at hpres
  obtain ⟨_, pre, e, post, w₁, he, hsig, hr, hkn⟩ :=
    log_origin S evs {} w hrun (k, .hon i, c.cn) hpres (by simp)
  exact ⟨pre, e, post, w₁, he, hsig, hr, by simpa [knownNonce] using hkn⟩

/-- the same at the level of one verifier: a certificate whose proof is a signature over any
other nonce — stale or foreign — is rejected, whoever signed it -/
theorem c08_replay_rejected (s : Suite) (them : Option Key) (n n' : Nonce) (c : Cert)
    (k : Key) (cn : Name) (hext : c.ext = some (.sig k n' cn)) (hne : n' ≠ n) :
    verifyPeer s them n [c] ≠ none := by
  intro h
  obtain ⟨c', pub, hraw, _, _, _, _, hext', _⟩ := verify_ok h
  simp at hraw; subst hraw
  rw [hext] at hext'
  simp at hext'
  exact hne hext'.2.1

/-! ### the full statement, and why it fails -/

/-- the full property additionally wants the accepted *connection* to end at the holder of the
proven key: the TLS key of the accepted certificate (whose private part crypto/tls has made sure
the peer holds) is the TLS key of the honest holder of the key named in it -/
def C08_full : Prop :=
  ∀ (S : Setting) (evs : List Ev) (w : World),
    (∀ k, S.adv k = false → S.advTls (S.tlsOf k) = false) →
    run S {} evs = some w →
    ∀ i c k, (i, c) ∈ w.acc → pubFromCN S.suite c.cn = some k → S.adv k = false →
      c.tlsKey = S.tlsOf k

/-- the relay: keys 1 (honest server S) and 2 (adversary M); TLS keys 101 (S's) and 20 (M's) -/
def relaySetting : Setting :=
  { suite := ⟨true⟩, adv := fun k => k == 2, advTls := fun t => t == 20, tlsOf := fun k => 100 + k }

/-- M's certificate: S's name, URI and proof under M's own TLS key -/
def relayCert : Cert := { honestCert 1 20 (.hon 0) with tlsKey := 20, signedBy := 20 }

/-- dialling role: honest C dials what it believes is S; M passes C's nonce on to S (by dialling
S with it as server name), lifts S's signature into a certificate for its own TLS key -/
def relayDial : List Ev := [.mkVerifier (some 1), .certFor 1 .new (.hon 0), .present 0 [relayCert]]

/-- accepting role: M connects to honest R, gets R's nonce, has honest C dial M (M is a
legitimate peer of C) and hands C that nonce as its own; C's client certificate carries C's
signature over R's nonce; M lifts it -/
def relayAccept : List Ev := [.mkVerifier none, .certFor 1 .new (.hon 0), .present 0 [relayCert]]

/-- **known finding**: the DEDIS signature covers nonce ‖ CN but not the certificate's TLS key,
so a relay that holds neither S's onet key nor S's TLS key ends up as the accepted peer `S`, in
both roles.  (`c08_tls_relay_probe_test.go` shows it on the real code.) -/
theorem c08_full_fails : ¬ C08_full := by
  intro h
  have := h relaySetting relayDial
    { hs := [⟨some 1⟩], log := [(1, .hon 0, .new 1)], acc := [(0, relayCert)] }
    (by intro k _; simp only [relaySetting, beq_eq_false_iff_ne]; intro e; exact absurd (e ▸ Nat.le_add_right 100 k : 100 ≤ 20) (by decide)) (by decide) 0 relayCert 1 (by simp) (by decide) (by decide)
  revert this
  decide

/-- the same relay against the accepting role is a run of the world too, and is accepted -/
theorem c08_relay_accept_role :
    run relaySetting {} relayAccept =
      some { hs := [⟨none⟩], log := [(1, .hon 0, .new 1)], acc := [(0, relayCert)] } ∧
    acceptConn ⟨true⟩ (.hon 0) (fun _ => true) false [relayCert] (.identity ⟨1, 0⟩) [7] = [(⟨1, 0⟩, 7)] := by
  decide

/-! ### non-vacuity -/

/-- honest handshakes exist in the world, in both roles, and are accepted -/
example : run relaySetting {} [.mkVerifier (some 1), .honest 0 1 .new, .mkVerifier none, .honest 1 1 .old] =
    some { hs := [⟨some 1⟩, ⟨none⟩],
           log := [(1, .hon 1, .old 1), (1, .hon 0, .new 1)],
           acc := [(1, { parses := true, count := 1, tlsKey := 101, signedBy := 101, validity := .ok,
                         uris := [], cn := .old 1, ext := some (.sig 1 (.hon 1) (.old 1)) }),
                   (0, honestCert 1 101 (.hon 0))] } := by decide

/-- an accepted connection dispatches, with the proven key attached -/
example : acceptConn ⟨true⟩ (.hon 0) (fun _ => true) false [honestCert 1 11 (.hon 0)]
    (.identity ⟨1, 5⟩) [7, 8] = [(⟨1, 5⟩, 7), (⟨1, 5⟩, 8)] := by decide

example : dialConn ⟨false⟩ (.hon 0) ⟨1, 5⟩ false [honestCert 1 11 (.hon 0)] [7] = [(⟨1, 5⟩, 7)] := by decide

/-- a replay is refused in the world: the adversary re-presents S's certificate from handshake 0
(it holds neither key, so it could not even finish TLS with it — here it is allowed to) to
handshake 1 -/
example : (run { relaySetting with advTls := fun _ => true } {}
    [.mkVerifier (some 1), .honest 0 1 .new, .mkVerifier (some 1), .present 1 [honestCert 1 101 (.hon 0)]]).map
      (fun w => w.acc.map (·.1)) = some [0] := by decide

/-! ### every path through the verifier, both roles -/

/-- **exactly the conjunction**: the verifier returns `nil` if and only if there is exactly one
certificate, it parses to exactly one, it is inside its validity period, its common name decodes to a
key, the extension is the signature of *that* key over *this* verifier's nonce and that name — and,
when the verifier was made for a dialled identity, the URIs (or, without URIs, the name string) and
the decoded key are the dialled key.  Nothing else lets a chain through, in either role. -/
theorem c08_verify_iff (s : Suite) (them : Option Key) (n : Nonce) (raw : List Cert) :
    verifyPeer s them n raw = none ↔
    ∃ c pub, raw = [c] ∧ c.parses = true ∧ c.count = 1 ∧ x509ok c = true ∧
      pubFromCN s c.cn = some pub ∧ c.ext = some (.sig pub n c.cn) ∧
      (∀ t, them = some t → pub = t ∧ expectedOk t c = true) := by
  constructor
  · exact verify_ok
  · rintro ⟨c, pub, rfl, h1, h2, h3, h4, h5, h6⟩
    cases them with
    | none => simp [verifyPeer, verifyPeerG, h1, h2, h3, h4, h5, schnorrVerify]
    | some t =>
      obtain ⟨rfl, he⟩ := h6 t rfl
      simp [verifyPeer, verifyPeerG, h1, h2, h3, h4, h5, he, schnorrVerify]

/-- **the dialling role checks everything the accepting role checks, and more**: what the verifier
made for a dialled identity lets through, the verifier made without one lets through as well -/
theorem c08_dial_checks_superset (s : Suite) (t : Key) (n : Nonce) (raw : List Cert)
    (h : verifyPeer s (some t) n raw = none) : verifyPeer s none n raw = none := by
  obtain ⟨c, pub, hr, h1, h2, h3, h4, h5, _⟩ := (c08_verify_iff s (some t) n raw).mp h
  exact (c08_verify_iff s none n raw).mpr ⟨c, pub, hr, h1, h2, h3, h4, h5, by intro t' ht; cases ht⟩

/-- **tests only ever refuse**: with any subset of the switchable tests turned off, everything the
full verifier accepts is still accepted (no test is needed to *enable* another one) -/
theorem c08_checks_monotone (en : Check → Bool) (s : Suite) (them : Option Key) (n : Nonce) (raw : List Cert)
    (h : verifyPeer s them n raw = none) : verifyPeerG en s them n raw = none := by
  obtain ⟨c, pub, rfl, h1, h2, h3, h4, h5, h6⟩ := (c08_verify_iff s them n raw).mp h
  cases them with
  | none => simp [verifyPeerG, h1, h2, h3, h4, h5, schnorrVerify]
  | some t =>
    obtain ⟨rfl, he⟩ := h6 t rfl
    simp [verifyPeerG, h1, h2, h3, h4, h5, he, schnorrVerify]

/-- after a successful handshake the router's two certificate-related refusals cannot happen (there
is a peer certificate, and its name decodes — the verifier has just decoded it): on a TLS connection
`receiveServerIdentity` can only fail on what the peer *sends* -/
theorem c08_identity_errors_unreachable (s : Suite) (them : Option Key) (n : Nonce) (raw : List Cert)
    (first : First) (h : verifyPeer s them n raw = none) :
    receiveServerIdentity s raw first ≠ .error .noPeerCert ∧
    receiveServerIdentity s raw first ≠ .error .cnDecodes := by
  obtain ⟨c, pub, rfl, _, _, _, h4, _, _⟩ := (c08_verify_iff s them n raw).mp h
  cases first with
  | error => simp [receiveServerIdentity]
  | other => simp [receiveServerIdentity]
  | identity dst =>
    simp only [receiveServerIdentity, h4]
    split <;> simp

/-- the router compares the declared **key** with the proven one; everything else the peer declares
(address, the deprecated `ID` field, description) plays no part in the decision -/
theorem c08_declared_rest_irrelevant (s : Suite) (raw : List Cert) (k : Key) (r r' : Nat) :
    (receiveServerIdentity s raw (.identity ⟨k, r⟩)).isOk = (receiveServerIdentity s raw (.identity ⟨k, r'⟩)).isOk := by
  simp only [receiveServerIdentity]
  cases raw with
  | nil => rfl
  | cons c rest =>
    simp only
    cases pubFromCN s c.cn with
    | none => rfl
    | some pub => simp only; split <;> rfl

/-- **names are compared as keys, not as strings, where the proof is concerned**: a certificate whose
common name is another spelling of `k` (upper-case hex digits, bytes after the key) is accepted by a
listener, and by a dialler of `k` when a URI names `k` — but only with `k`'s signature over this
nonce and *that very spelling*; a dialler that has to go by the name string alone refuses it. -/
theorem c08_noncanonical_name (s : Suite) (k : Key) (t : TlsKey) (n : Nonce) (i : Nat) :
    let c : Cert := { honestCert k t n with cn := .alt k i, ext := some (.sig k n (.alt k i)) }
    verifyPeer s none n [c] = none ∧ verifyPeer s (some k) n [c] = none ∧
    verifyPeer s (some k) n [{ c with uris := [] }] = some .expected ∧
    (∀ them sg, verifyPeer s them n [{ c with ext := some sg }] = none → sg = .sig k n (.alt k i)) := by
  refine ⟨?_, ?_, ?_, ?_⟩
  · simp [verifyPeer, verifyPeerG, honestCert, x509ok, pubFromCN, schnorrVerify]
  · simp [verifyPeer, verifyPeerG, honestCert, x509ok, expectedOk, pubToCN, pubFromCN, schnorrVerify]
  · simp [verifyPeer, verifyPeerG, honestCert, x509ok, expectedOk, pubToCN]
  · intro them sg h
    obtain ⟨c', pub, hr, _, _, _, h4, h5, _⟩ := verify_ok h
    simp at hr; subst hr
    simp [pubFromCN] at h4; subst h4
    simpa using h5

/-! ### the validity window and clock differences -/

theorem validityAt_ok (nb na now : Int) : validityAt nb na now = .ok ↔ nb ≤ now ∧ now ≤ na := by
  unfold validityAt
  by_cases h1 : now < nb
  · simp [h1] <;> omega
  · by_cases h2 : na < now
    · simp [h1, h2] <;> omega
    · simp [h1, h2] <;> omega

/-- **`certMaker.get`'s window**: a certificate made when the maker's clock shows `made` is inside its
validity period on the verifier's clock `now` exactly when `made - 5 min ≤ now ≤ made + 2 h`: the
verifier's clock may be behind the maker's by up to five minutes and ahead by up to two hours; and
that is also exactly when the honest certificate is accepted, in both roles. -/
theorem c08_honest_window (s : Suite) (k : Key) (t : TlsKey) (n : Nonce) (made now : Int) (hn : n ≠ .badSize) :
    ∃ c, certForAt .new k t n made now = some c ∧
      (x509ok c = true ↔ made - 300 ≤ now ∧ now ≤ made + 7200) ∧
      (verifyPeer s (some k) n [c] = none ↔ made - 300 ≤ now ∧ now ≤ made + 7200) ∧
      (verifyPeer s none n [c] = none ↔ made - 300 ≤ now ∧ now ≤ made + 7200) := by
  have hw : validityAt (certWindow made).1 (certWindow made).2 now = .ok ↔ made - 300 ≤ now ∧ now ≤ made + 7200 := by
    have := validityAt_ok (made - 300) (made + 7200) now
    exact this
  refine ⟨{ honestCert k t n with validity := validityAt (certWindow made).1 (certWindow made).2 now },
    by simp [certForAt, certFor, hn, honestCert, Style.name], ?_, ?_, ?_⟩
  · simp only [x509ok, beq_iff_eq]; exact hw
  · rw [← hw]
    constructor
    · intro h
      obtain ⟨c', _, hr, _, _, h3, _⟩ := verify_ok h
      simp at hr; subst hr
      simpa [x509ok] using h3
    · intro h
      simp [verifyPeer, verifyPeerG, x509ok, h, honestCert, expectedOk, pubToCN, pubFromCN, schnorrVerify]
  · rw [← hw]
    constructor
    · intro h
      obtain ⟨c', _, hr, _, _, h3, _⟩ := verify_ok h
      simp at hr; subst hr
      simpa [x509ok] using h3
    · intro h
      simp [verifyPeer, verifyPeerG, x509ok, h, honestCert, pubFromCN, schnorrVerify]

/-! ### the nonce tunnels: a whole handshake between two honest nodes -/

/-- **two honest nodes**: with the network delivering the server name and the acceptable CAs as they
were sent, the handshake between the holder of `a` dialling `b` and the holder of `b` succeeds on both
sides — the nonce of each side's verifier is the nonce the other side signs — for every suite and all
keys and nonces of the right size. -/
theorem c08_pair_honest (s : Suite) (a b : Key) (ta tb : TlsKey) (na nb : Nonce)
    (ha : na ≠ .badSize) (hb : nb ≠ .badSize) :
    pairHandshake s a b b ta tb na nb Tunnel.id = (none, none) := by
  simp [pairHandshake, Tunnel.id, clientCertFor, certFor, ha, hb, verifyPeer, verifyPeerG, x509ok, expectedOk,
    pubToCN, pubFromCN, schnorrVerify, Style.name]

/-- **the tunnels carry exactly the nonce**: whatever the network does to the two strings — if the
listener finds another string in the server name than the dialler's nonce, the dialler's verifier
refuses the listener's certificate; if the dialler finds another string (or none) in the acceptable
CAs than the listener's nonce, the listener's verifier refuses the dialler's; and a dialler that meant
to reach another key than the listener's refuses in any case. -/
theorem c08_pair_tunnel (s : Suite) (a b them : Key) (ta tb : TlsKey) (na nb : Nonce) (tun : Tunnel) :
    (tun.serverName na ≠ na → (pairHandshake s a b them ta tb na nb tun).1 ≠ none) ∧
    (tun.acceptableCA nb ≠ some nb → (pairHandshake s a b them ta tb na nb tun).2 ≠ none) ∧
    (them ≠ b → (pairHandshake s a b them ta tb na nb tun).1 ≠ none) := by
  refine ⟨?_, ?_, ?_⟩
  · intro hne
    simp only [pairHandshake]
    cases hc : certFor .new b tb (tun.serverName na) with
    | none => simp
    | some c =>
      simp only
      have hext : c.ext = some (.sig b (tun.serverName na) (.new b)) := by
        simp only [certFor] at hc
        split at hc
        · cases hc
        · simp at hc; subst hc; rfl
      exact c08_replay_rejected s (some them) na (tun.serverName na) c b (.new b) hext hne
  · intro hne
    simp only [pairHandshake]
    cases hca : tun.acceptableCA nb with
    | none => simp [clientCertFor]
    | some n' =>
      have hn' : n' ≠ nb := fun e => hne (by rw [hca, e])
      simp only [clientCertFor]
      cases hc : certFor .new a ta n' with
      | none => simp
      | some c =>
        simp only
        have hext : c.ext = some (.sig a n' (.new a)) := by
          simp only [certFor] at hc
          split at hc
          · cases hc
          · simp at hc; subst hc; rfl
        exact c08_replay_rejected s none nb n' c a (.new a) hext hn'
  · intro hne
    simp only [pairHandshake]
    cases hc : certFor .new b tb (tun.serverName na) with
    | none => simp
    | some c =>
      simp only
      intro h
      have hcn : c.cn = .new b := by
        simp only [certFor] at hc
        split at hc
        · cases hc
        · simp at hc; subst hc; rfl
      obtain ⟨hk, _⟩ := c08_dialer_reaches_intended s them na [c] h
      simp [peerKey, hcn, pubFromCN] at hk
      exact hne hk.symm

/-- an empty list of acceptable CAs, or a string of the wrong size in either tunnel: the node asked
for a certificate makes none (`getClientCertificate`, `certMaker.get`) and the handshake fails -/
example : pairHandshake ⟨true⟩ 1 2 2 11 12 (.hon 0) (.hon 1) ⟨fun n => n, fun _ => none⟩ = (none, some .oneRaw) ∧
    pairHandshake ⟨true⟩ 1 2 2 11 12 (.hon 0) (.hon 1) ⟨fun _ => .badSize, fun n => some n⟩ = (some .oneRaw, none) := by
  decide

example : ∃ c, certForAt .new 1 11 (.hon 0) 1000 1000 = some c ∧ verifyPeer ⟨true⟩ (some 1) (.hon 0) [c] = none := by
  obtain ⟨c, hc, _, h, _⟩ := c08_honest_window ⟨true⟩ 1 11 (.hon 0) 1000 1000 (by simp)
  exact ⟨c, hc, h.mpr (by omega)⟩

/-! ### fault sequences: the dialler's retry loop -/

/-- **whatever failed before, the attempt that becomes the connection passed the whole verifier**: for
every number of allowed attempts and every sequence of answers at the dialled address (refusals,
resets, aborted handshakes, any certificate chains), if `NewTLSConn` returns a connection then it is
attempt `i < maxRetry`, every earlier attempt failed, and the chain presented at attempt `i` passed the
verifier of *this* call — this nonce, this expected key: it names and proves the dialled key. -/
theorem c08_retry_sound (maxRetry : Nat) (s : Suite) (them : Key) (n : Nonce)
    (attempts : List (Option (List Cert))) (i : Nat)
    (h : newTLSConn maxRetry s them n attempts = some i) :
    i < maxRetry ∧ ∃ raw, attempts[i]? = some (some raw) ∧ verifyPeer s (some them) n raw = none ∧
      peerKey s raw = some them ∧ ∃ c, raw = [c] ∧ c.ext = some (.sig them n c.cn) := by
  unfold newTLSConn at h
  rw [List.findIdx?_eq_some_iff_getElem] at h
  obtain ⟨hlt, hp, _⟩ := h
  have hlt' : i < maxRetry ∧ i < attempts.length := by
    simp [List.length_take] at hlt; omega
  rw [List.getElem_take] at hp
  refine ⟨hlt'.1, ?_⟩
  cases ha : attempts[i] with
  | none => rw [ha] at hp; simp at hp
  | some raw =>
    rw [ha] at hp
    have hv : verifyPeer s (some them) n raw = none := by simpa using hp
    refine ⟨raw, ?_, hv, (c08_dialer_reaches_intended s them n raw hv).1, (c08_dialer_reaches_intended s them n raw hv).2⟩
    rw [List.getElem?_eq_getElem hlt'.2, ha]

/-- … and when none of the first `maxRetry` answers passes, there is no connection (later answers are
never looked at) -/
theorem c08_retry_exhausted (maxRetry : Nat) (s : Suite) (them : Key) (n : Nonce)
    (attempts : List (Option (List Cert)))
    (h : ∀ i raw, i < maxRetry → attempts[i]? = some (some raw) → verifyPeer s (some them) n raw ≠ none) :
    newTLSConn maxRetry s them n attempts = none := by
  unfold newTLSConn
  rw [List.findIdx?_eq_none_iff]
  intro a ha
  obtain ⟨i, hi, rfl⟩ := List.getElem_of_mem ha
  have hlt : i < maxRetry ∧ i < attempts.length := by
    simp [List.length_take] at hi; omega
  rw [List.getElem_take]
  cases hai : attempts[i] with
  | none => rfl
  | some raw =>
    have := h i raw hlt.1 (by rw [List.getElem?_eq_getElem hlt.2, hai])
    simp only
    cases hv : verifyPeer s (some them) n raw with
    | none => exact absurd hv this
    | some c => rfl

/-- an impostor that is refused at the first attempt is refused at the second; the real server
answering the third attempt is reached -/
example : newTLSConn 5 ⟨true⟩ 1 (.hon 1)
    [some [honestCert 2 12 (.hon 1)], some [{ honestCert 1 12 (.hon 1) with ext := some (.sig 2 (.hon 1) (.new 1)) }],
     some [honestCert 1 11 (.hon 1)]] = some 2 := by decide

/-! ### round 5: the verifier is the first objecting test of a list; an honest key holder is never locked out -/

/-- **refinement to a list of tests**: `makeVerifier`'s closure answers with the first test, in source
order, that objects to what was presented, each test looked at on its own; `nil` iff none objects.
(The correspondence run compares the *name* of the refusing test with the error the real closure returns,
operation `vrf`.) -/
theorem c08_first_objecting_test (s : Suite) (them : Option Key) (n : Nonce) (raw : List Cert) :
    verifyPeer s them n raw = Check.order.find? (objects s them n raw) := by
  unfold verifyPeer verifyPeerG Check.order
  cases raw with
  | nil => simp [objects, List.find?]
  | cons c rest =>
    cases rest with
    | cons d rest' => simp [objects, List.find?]
    | nil =>
      simp only [List.find?, objects, List.head?, List.length_cons, List.length_nil, List.isEmpty_nil,
        Bool.true_and, Bool.not_true, Bool.false_eq_true, if_false]
      cases hp : c.parses
      · simp
      by_cases h0 : c.count = 0
      · simp [h0]
      have e0 : (c.count == 0) = false := by simp [h0]
      by_cases h1 : c.count = 1
      case neg =>
        have e1 : (c.count != 1) = true := by simp [h1]
        simp [*]
      have e1 : (c.count != 1) = false := by simp [h1]
      cases hx : x509ok c
      · simp [*]
      cases them with
      | none =>
        cases he : c.ext
        · simp [*]
        cases hk : pubFromCN s c.cn
        · simp [*]
        rename_i sg pub
        cases hv : schnorrVerify pub n c.cn sg <;> simp [*]
      | some t =>
        cases hex : expectedOk t c
        · simp [*]
        cases he : c.ext
        · simp [*]
        cases hk : pubFromCN s c.cn
        · simp [*]
        rename_i sg pub
        by_cases hpt : pub = t
        · subst hpt
          cases hv : schnorrVerify pub n c.cn sg <;> simp [*]
        · have ept : (pub != t) = true := by simp [hpt]
          simp [*]

/-- every test of the list is reachable: for each of the nine there is a presentation it is the first to
object to (non-vacuity of `c08_first_objecting_test`; the harness rows of the same names drive them) -/
example : ∀ ch ∈ Check.order, ∃ them raw, verifyPeer ⟨false⟩ them (.hon 1) raw = some ch := by
  intro ch hch
  simp only [Check.order, List.mem_cons, List.mem_nil_iff, or_false] at hch
  rcases hch with h | h | h | h | h | h | h | h | h <;> subst h
  · exact ⟨none, [], by decide⟩
  · exact ⟨none, [{ honestCert 1 11 (.hon 1) with parses := false }], by decide⟩
  · exact ⟨none, [{ honestCert 1 11 (.hon 1) with count := 2 }], by decide⟩
  · exact ⟨none, [{ honestCert 1 11 (.hon 1) with validity := .expired }], by decide⟩
  · exact ⟨some 2, [honestCert 1 11 (.hon 1)], by decide⟩
  · exact ⟨none, [{ honestCert 1 11 (.hon 1) with ext := none }], by decide⟩
  · exact ⟨none, [{ honestCert 1 11 (.hon 1) with cn := .old 1 }], by decide⟩
  · exact ⟨some 1, [{ honestCert 1 11 (.hon 1) with cn := .new 2 }], by decide⟩
  · exact ⟨none, [{ honestCert 1 11 (.hon 1) with ext := some (.sig 1 (.hon 0) (.new 1)) }], by decide⟩

/-- **nothing the adversary does locks an honest key holder out** (liveness next to `c08_fresh_signature`):
in *every* state of the world — whatever was signed, presented, accepted or refused before — the honest
holder of `k` can still complete an open handshake `i` that expects `k` (dialling role) or anybody
(accepting role): the event is enabled and handshake `i` accepts the holder's certificate. -/
theorem c08_honest_never_locked_out (S : Setting) (w : World) (i : Nat) (k : Key) (h : Hs)
    (hi : w.hs[i]? = some h) (hk : S.adv k = false) (hthem : h.them = none ∨ h.them = some k) :
    ∃ w', step S w (.honest i k .new) = some w' ∧
      (i, honestCert k (S.tlsOf k) (.hon i)) ∈ w'.acc ∧ (k, .hon i, .new k) ∈ w'.log := by
  have hlt : i < w.hs.length := by
    rcases Nat.lt_or_ge i w.hs.length with hl | hl
    · exact hl
    · rw [List.getElem?_eq_none hl] at hi; cases hi
  have hcert := certFor_new k (S.tlsOf k) (.hon i) (by simp)
  have hacc : verifyPeer S.suite h.them (.hon i) [honestCert k (S.tlsOf k) (.hon i)] = none := by
    have t := c08_each_check_necessary S.suite k (S.tlsOf k) (.hon i)
    rcases hthem with e | e <;> rw [e]
    · exact t.2.1
    · exact t.1
  refine ⟨{ w with log := (k, .hon i, .new k) :: w.log,
                   acc := (i, honestCert k (S.tlsOf k) (.hon i)) :: w.acc }, ?_, by simp, by simp⟩
  have hget : w.hs[i] = h := by
    obtain ⟨_, e⟩ := List.getElem?_eq_some_iff.mp hi
    exact e
  simp [step, signFor, hk, knownNonce, hlt, hcert, verifyAt, Style.name, hget, hacc]

/-- the hypotheses are met in a world the adversary has already worked on: after the relay of the known
finding was accepted at handshake 0, the real server still completes handshake 1 -/
example : ∃ w w', run relaySetting {} (relayDial ++ [.mkVerifier (some 1)]) = some w ∧
    step relaySetting w (.honest 1 1 .new) = some w' ∧ (1, honestCert 1 101 (.hon 1)) ∈ w'.acc := by
  refine ⟨_, _, rfl, rfl, ?_⟩
  decide

/-- **key naming round trip** (`pubFromCN ∘ pubToCN`, tls.go:409-445): the name the certificate maker
writes decodes to the key it was made from, under every suite, and names of different keys differ -/
theorem c08_cn_roundtrip (s : Suite) (k k' : Key) :
    pubFromCN s (pubToCN k) = some k ∧ (pubToCN k = pubToCN k' → k = k') := by
  constructor
  · rfl
  · intro h; cases h; rfl

/-- **end to end, over arbitrary traces** (the property's "consequently"): whatever the network and the
adversary did, if the router of honest handshake `i` dispatches an envelope — on the accepted connection
under the identity the peer declared, on the dialled connection under the identity that was dialled —
and the key attached to it is one the adversary does not hold, then the holder of that key made a
certificate for *this* handshake's nonce, after the nonce was drawn.  Identity test, verifier and
freshness in one statement. -/
theorem c08_dispatched_key_proved_fresh (S : Setting) (evs : List Ev) (w : World)
    (hrun : run S {} evs = some w) (i : Nat) (c : Cert) (hacc : (i, c) ∈ w.acc) (e : Envelope)
    (hhon : S.adv e.1.pub = false)
    (hdisp : (∃ validPeer closed first msgs, e ∈ acceptConn S.suite (.hon i) validPeer closed [c] first msgs) ∨
             (∃ them closed msgs, e ∈ dialConn S.suite (.hon i) them closed [c] msgs)) :
    ∃ pre ev post w₁, evs = pre ++ ev :: post ∧ Signs e.1.pub (.hon i) c.cn ev ∧
      run S {} pre = some w₁ ∧ i < w₁.hs.length := by
  have hkey : pubFromCN S.suite c.cn = some e.1.pub := by
    rcases hdisp with ⟨vp, closed, first, msgs, he⟩ | ⟨them, closed, msgs, he⟩
    · have := ((c08_identity_matches_key S.suite (.hon i) [c] msgs closed).1 vp first e he).2.2
      simpa [peerKey] using this
    · have := (c08_identity_matches_key S.suite (.hon i) [c] msgs closed).2 them e he
      have h1 := this.1
      have h2 := this.2.2
      rw [h1]
      simpa [peerKey] using h2
  exact c08_fresh_signature S evs w hrun i c e.1.pub hacc hkey hhon

/-- met by an honest run: handshake 0 (dialling role) accepts the real server's certificate, a message
read from the connection is dispatched under the dialled identity -/
example : ∃ w, run relaySetting {} [.mkVerifier (some 1), .honest 0 1 .new] = some w ∧
    (0, honestCert 1 101 (.hon 0)) ∈ w.acc ∧
    ((⟨1, 0⟩, 7) : Envelope) ∈ dialConn relaySetting.suite (.hon 0) ⟨1, 0⟩ false [honestCert 1 101 (.hon 0)] [7] := by
  refine ⟨_, rfl, ?_, ?_⟩ <;> decide

/-! ### round 5: the message phase — the identity proven at set-up stays attached, whatever is sent afterwards -/

/-- the loop treats the stream frame by frame: what it does with a sequence is what it does with its
parts, one after the other (no frame changes how a later one is handled) -/
theorem handleConn_append (remote : Identity) (l₁ l₂ : List Frame) :
    handleConn remote (l₁ ++ l₂) = handleConn remote l₁ ++ handleConn remote l₂ := by
  induction l₁ with
  | nil => rfl
  | cons f l ih => cases f <;> simp [handleConn, ih]

theorem handleConn_sender (remote : Identity) (frames : List Frame) :
    ∀ d ∈ handleConn remote frames, d.1 = remote := by
  induction frames with
  | nil => simp [handleConn]
  | cons f l ih =>
    cases f with
    | none => simpa [handleConn] using ih
    | some p =>
      intro d hd
      simp only [handleConn, List.mem_cons] at hd
      rcases hd with rfl | hd
      · rfl
      · exact ih d hd

/-- **the identity attached to every message of a TLS connection is the one proven at set-up — for every
sequence of frames the peer sends afterwards**: refused frames, ordinary messages, `ServerIdentity`
messages naming any key and carrying any id field.  Accepting role: it is the identity the peer declared
first, the handshake succeeded and the declared key is the key named and proven by the certificate;
dialling role: it is the dialled identity and the certificate names and proves exactly that key. -/
theorem c08_session_identity_fixed (s : Suite) (n : Nonce) (raw : List Cert) (frames : List Frame)
    (closed : Bool) :
    (∀ validPeer first d, d ∈ acceptSession s n validPeer closed raw first frames →
      first = .identity d.1 ∧ verifyPeer s none n raw = none ∧ peerKey s raw = some d.1.pub) ∧
    (∀ them d, d ∈ dialSession s n them closed raw frames →
      d.1 = them ∧ verifyPeer s (some them.pub) n raw = none ∧ peerKey s raw = some them.pub) := by
  have key := c08_identity_matches_key s n raw [0] closed
  constructor
  · intro validPeer first d hd
    unfold acceptSession at hd
    split at hd; · simp at hd
    rename_i hv
    split at hd; · simp at hd
    rename_i dst hr
    split at hd
    · rename_i hvp
      have hs := handleConn_sender dst frames d hd
      have : (dst, 0) ∈ acceptConn s n validPeer closed raw first [0] := by
        simp [acceptConn, hv, hr, hvp]
      have := key.1 validPeer first (dst, 0) this
      rw [hs]; exact this
    · simp at hd
  · intro them d hd
    unfold dialSession at hd
    split at hd; · simp at hd
    rename_i hv
    split at hd; · simp at hd
    rename_i hc
    have hs := handleConn_sender them frames d hd
    have : (them, 0) ∈ dialConn s n them closed raw [0] := by
      simp [dialConn, hv, hc]
    have := key.2 them (them, 0) this
    rw [hs]; exact this

/-- **an identity announced again changes nothing**: a `ServerIdentity` message in the middle of the
stream — whatever key and id field it carries — reaches the dispatcher as a message of its type under
the established identity, and everything after it is handled exactly as if it had not been sent -/
theorem c08_reannouncement_ignored (remote id' : Identity) (pre post : List Frame) :
    handleConn remote (pre ++ some (.identity id') :: post) =
      handleConn remote pre ++ (remote, .identity id') :: handleConn remote post := by
  rw [handleConn_append]; rfl

/-- a peer that proved key 2 and then announces key 1 (with its own id field): its later messages are
still dispatched under key 2 -/
example : acceptSession ⟨true⟩ (.hon 1) (fun _ => true) false [honestCert 2 12 (.hon 1)] (.identity ⟨2, 0⟩)
      [some (.data 7), some (.identity ⟨1, 3⟩), none, some (.data 8)] =
    [(⟨2, 0⟩, .data 7), (⟨2, 0⟩, .identity ⟨1, 3⟩), (⟨2, 0⟩, .data 8)] := by decide

/-- … and end to end over arbitrary traces: whatever sequence of frames follows the set-up of honest
handshake `i`, every envelope that reaches the dispatcher with a key the adversary does not hold attached
implies that the holder of that key made a certificate for this handshake's nonce after it was drawn -/
theorem c08_session_key_proved_fresh (S : Setting) (evs : List Ev) (w : World)
    (hrun : run S {} evs = some w) (i : Nat) (c : Cert) (hacc : (i, c) ∈ w.acc) (d : Dispatch)
    (hhon : S.adv d.1.pub = false)
    (hdisp : (∃ validPeer closed first frames, d ∈ acceptSession S.suite (.hon i) validPeer closed [c] first frames) ∨
             (∃ them closed frames, d ∈ dialSession S.suite (.hon i) them closed [c] frames)) :
    ∃ pre ev post w₁, evs = pre ++ ev :: post ∧ Signs d.1.pub (.hon i) c.cn ev ∧
      run S {} pre = some w₁ ∧ i < w₁.hs.length := by
  have hkey : pubFromCN S.suite c.cn = some d.1.pub := by
    rcases hdisp with ⟨vp, closed, first, frames, he⟩ | ⟨them, closed, frames, he⟩
    · have := ((c08_session_identity_fixed S.suite (.hon i) [c] frames closed).1 vp first d he).2.2
      simpa [peerKey] using this
    · have := (c08_session_identity_fixed S.suite (.hon i) [c] frames closed).2 them d he
      have h1 := this.1
      have h2 := this.2.2
      rw [h1]
      simpa [peerKey] using h2
  exact c08_fresh_signature S evs w hrun i c d.1.pub hacc hkey hhon

/-- **no dial without the means to prove**: `NewTLSConn` goes on to a handshake exactly when the address is
a TLS address and the node holds its private key; otherwise nothing is sent at all -/
theorem c08_dial_preconditions (addrIsTLS hasPrivate : Bool) :
    dialPre addrIsTLS hasPrivate = none ↔ addrIsTLS = true ∧ hasPrivate = true := by
  cases addrIsTLS <;> cases hasPrivate <;> simp [dialPre]

/-! ### the bytes of a key name (`Model/C08Name.lean`): `pubToCN` / `pubFromCN` down to the characters -/
namespace NameBytes

theorem fromHexChar_hexDigit (n : Nat) (h : n < 16) : fromHexChar (hexDigit n) = some n := by
  have : n = 0 ∨ n = 1 ∨ n = 2 ∨ n = 3 ∨ n = 4 ∨ n = 5 ∨ n = 6 ∨ n = 7 ∨ n = 8 ∨ n = 9 ∨ n = 10 ∨
      n = 11 ∨ n = 12 ∨ n = 13 ∨ n = 14 ∨ n = 15 := by omega
  rcases this with rfl | rfl | rfl | rfl | rfl | rfl | rfl | rfl | rfl | rfl | rfl | rfl | rfl | rfl | rfl | rfl <;> rfl

theorem fromHexChar_upper_hexDigit (n : Nat) (h : n < 16) : fromHexChar (upper (hexDigit n)) = some n := by
  have : n = 0 ∨ n = 1 ∨ n = 2 ∨ n = 3 ∨ n = 4 ∨ n = 5 ∨ n = 6 ∨ n = 7 ∨ n = 8 ∨ n = 9 ∨ n = 10 ∨
      n = 11 ∨ n = 12 ∨ n = 13 ∨ n = 14 ∨ n = 15 := by omega
  rcases this with rfl | rfl | rfl | rfl | rfl | rfl | rfl | rfl | rfl | rfl | rfl | rfl | rfl | rfl | rfl | rfl <;> rfl

/-- a hex digit is never the type byte `'Z'`, in either case -/
theorem hexDigit_ne_typeByte (n : Nat) : hexDigit n ≠ typeByte ∨ 16 ≤ n := by
  by_cases h : n < 16
  · left
    unfold hexDigit typeByte
    split <;> omega
  · right; omega

theorem hexEncode_length (bs : List Nat) : (hexEncode bs).length = 2 * bs.length := by
  induction bs with
  | nil => rfl
  | cons b bs ih => simp [hexEncode, ih]; omega

theorem hexEncode_append (a b : List Nat) : hexEncode (a ++ b) = hexEncode a ++ hexEncode b := by
  induction a with
  | nil => rfl
  | cons x a ih => simp [hexEncode, ih]

/-- **`hex.DecodeString ∘ hex.EncodeToString` is the identity**, for every byte string -/
theorem c08_hex_roundtrip (bs : List Nat) (hb : ∀ b ∈ bs, b < 256) : hexDecode (hexEncode bs) = some bs := by
  induction bs with
  | nil => rfl
  | cons b bs ih =>
    have hb0 : b < 256 := hb b (by simp)
    have ih' := ih (fun x hx => hb x (by simp [hx]))
    simp only [hexEncode, hexDecode, fromHexChar_hexDigit (b / 16) (by omega),
      fromHexChar_hexDigit (b % 16) (by omega), ih']
    congr 2
    omega

/-- … and the decoder reads upper-case digits as well: another spelling of the same bytes -/
theorem hex_upper_roundtrip (bs : List Nat) (hb : ∀ b ∈ bs, b < 256) :
    hexDecode ((hexEncode bs).map upper) = some bs := by
  induction bs with
  | nil => rfl
  | cons b bs ih =>
    have hb0 : b < 256 := hb b (by simp)
    have ih' := ih (fun x hx => hb x (by simp [hx]))
    simp only [hexEncode, List.map_cons, hexDecode, fromHexChar_upper_hexDigit (b / 16) (by omega),
      fromHexChar_upper_hexDigit (b % 16) (by omega), ih']
    congr 2
    omega

/-- **key naming round trip, on the bytes**: for every lawful group and every point,
`pubFromCN (pubToCN p) = p` — the name `certMaker` writes into the certificate decodes to the key it
was made from.  (Falsified by: another type byte on one side only, a different alphabet or case
handling in one direction, `cn[2:]` instead of `cn[1:]`, reading fewer bytes than `MarshalSize`.) -/
theorem c08_name_bytes_roundtrip {P : Type} (g : Group P) (hg : g.Lawful) (p : P) :
    pubFromCN g (pubToCN g p) = .ok p := by
  simp only [pubToCN, pubFromCN, if_true, c08_hex_roundtrip _ (hg.marshal_byte p), hg.marshal_len p,
    Nat.lt_irrefl, if_false]
  rw [List.take_of_length_le (by rw [hg.marshal_len p]; exact Nat.le_refl _), hg.roundtrip p]

/-- names of different keys differ -/
theorem c08_name_bytes_injective {P : Type} (g : Group P) (hg : g.Lawful) (p q : P)
    (h : pubToCN g p = pubToCN g q) : p = q := by
  have hp := c08_name_bytes_roundtrip g hg p
  rw [h, c08_name_bytes_roundtrip g hg q] at hp
  cases hp; rfl

/-- **bytes after the key are not looked at** (`UnmarshalFrom` reads `MarshalSize` bytes): every name
`"Z" ++ hex(marshal p ++ tail)` decodes to `p` — the spelling `Name.alt p 1` of the symbolic model.
The verifier therefore must not compare *names* where it means *keys*. -/
theorem c08_name_trailing_bytes {P : Type} (g : Group P) (hg : g.Lawful) (p : P) (tail : List Nat)
    (ht : ∀ b ∈ tail, b < 256) :
    pubFromCN g (typeByte :: hexEncode (g.marshal p ++ tail)) = .ok p := by
  have hb : ∀ b ∈ g.marshal p ++ tail, b < 256 := by
    intro b hb
    rcases List.mem_append.mp hb with h | h
    · exact hg.marshal_byte p b h
    · exact ht b h
  simp only [pubFromCN, if_true, c08_hex_roundtrip _ hb]
  rw [if_neg (by simp [hg.marshal_len p])]
  rw [List.take_append_of_le_length (by rw [hg.marshal_len p]; exact Nat.le_refl _),
    List.take_of_length_le (by rw [hg.marshal_len p]; exact Nat.le_refl _), hg.roundtrip p]

/-- **upper-case digits name the same key** (`hex.DecodeString` reads both cases): the spelling
`Name.alt p 0` of the symbolic model -/
theorem c08_name_upper_case {P : Type} (g : Group P) (hg : g.Lawful) (p : P) :
    pubFromCN g (typeByte :: (hexEncode (g.marshal p)).map upper) = .ok p := by
  simp only [pubFromCN, if_true, hex_upper_roundtrip _ (hg.marshal_byte p), hg.marshal_len p,
    Nat.lt_irrefl, if_false]
  rw [List.take_of_length_le (by rw [hg.marshal_len p]; exact Nat.le_refl _), hg.roundtrip p]

theorem hexEncode_head_ne_typeByte (bs : List Nat) (hb : ∀ b ∈ bs, b < 256) (c : Nat) (r : List Nat)
    (h : hexEncode bs = c :: r) : c ≠ typeByte := by
  cases bs with
  | nil => simp [hexEncode] at h
  | cons b bs =>
    simp only [hexEncode, List.cons.injEq] at h
    have hb0 : b < 256 := hb b (by simp)
    rcases hexDigit_ne_typeByte (b / 16) with h' | h'
    · rw [← h.1]; exact h'
    · omega

/-- **old-style names** (before dedis/onet#485: the common name is `pub.String()`): when a suite prints
a point as the hex form of its marshalled bytes (Ed25519, the NIST curves), the old name decodes to the
key too, and it can never be taken for a new-style name — a hex string does not begin with `'Z'`.
The two styles are told apart by the first byte alone. -/
theorem c08_name_old_style {P : Type} (g : Group P) (hg : g.Lawful) (p : P) (hlen : 0 < g.len)
    (hs : g.str p = hexEncode (g.marshal p)) : pubFromCN g (g.str p) = .ok p := by
  rw [hs]
  have hl : (hexEncode (g.marshal p)).length = 2 * g.len := by rw [hexEncode_length, hg.marshal_len p]
  cases hc : hexEncode (g.marshal p) with
  | nil => rw [hc] at hl; simp at hl; omega
  | cons c r =>
    have hne : c ≠ typeByte := hexEncode_head_ne_typeByte _ (hg.marshal_byte p) c r hc
    simp only [pubFromCN, hne, if_false]
    rw [← hc, if_neg (by omega), List.take_of_length_le (by omega), c08_hex_roundtrip _ (hg.marshal_byte p)]
    simp only [hg.roundtrip p]

/-- `pubFromCN` never reads a new-style name through the old-style branch, whatever the suite: the
canonical name always takes the `'Z'` branch, so a suite whose `String()` is no hex string (bn256)
loses nothing -/
theorem c08_name_new_style_branch {P : Type} (g : Group P) (rest : List Nat) :
    pubFromCN g (typeByte :: rest) =
      match hexDecode rest with
      | none => .error .hex
      | some buf =>
        if buf.length < g.len then .error .short
        else match g.unmarshal (buf.take g.len) with
          | none => .error .point
          | some p => .ok p := by
  rfl

/-- what a successful `pubFromCN` has established, for **every** string: the name has one of the two
forms and the key is the decoding of `MarshalSize` bytes spelled in it -/
theorem c08_name_decoded_from {P : Type} (g : Group P) (cn : List Nat) (p : P) (h : pubFromCN g cn = .ok p) :
    (∃ rest buf, cn = typeByte :: rest ∧ hexDecode rest = some buf ∧ g.len ≤ buf.length ∧
        g.unmarshal (buf.take g.len) = some p) ∨
    (∃ buf, cn.head? ≠ some typeByte ∧ 2 * g.len ≤ cn.length ∧ hexDecode (cn.take (2 * g.len)) = some buf ∧
        g.unmarshal buf = some p) := by
  cases cn with
  | nil => simp [pubFromCN] at h
  | cons c rest =>
    by_cases hc : c = typeByte
    · subst hc
      left
      rw [c08_name_new_style_branch] at h
      cases hd : hexDecode rest with
      | none => simp [hd] at h
      | some buf =>
        simp only [hd] at h
        by_cases hl : buf.length < g.len
        · simp [hl] at h
        · simp only [hl, if_false] at h
          cases hu : g.unmarshal (buf.take g.len) with
          | none => simp [hu] at h
          | some q =>
            simp only [hu] at h
            cases h
            exact ⟨rest, buf, rfl, hd, by omega, hu⟩
    · right
      simp only [pubFromCN, hc, if_false] at h
      simp only [List.length_cons] at h
      by_cases hl : rest.length + 1 < 2 * g.len
      · simp [hl] at h
      · simp only [hl, if_false] at h
        cases hd : hexDecode ((c :: rest).take (2 * g.len)) with
        | none => simp [hd] at h
        | some buf =>
          simp only [hd] at h
          cases hu : g.unmarshal buf with
          | none => simp [hu] at h
          | some q =>
            simp only [hu] at h
            cases h
            exact ⟨buf, by simp [hc], by simp; omega, rfl, hu⟩

/-- non-vacuity: the driver's group with a two-byte key is lawful on its table entries; the canonical,
the upper-case and the trailing-bytes spelling of the key `ab 0f` decode to it, and they are three
different strings -/
example :
    let g := Text.tableGroup 2 [([171, 15], true)]
    pubToCN g [171, 15] = [90, 97, 98, 48, 102] ∧
    pubFromCN g [90, 97, 98, 48, 102] = .ok [171, 15] ∧
    pubFromCN g [90, 65, 66, 48, 70] = .ok [171, 15] ∧
    pubFromCN g [90, 97, 98, 48, 102, 55, 55] = .ok [171, 15] ∧
    pubFromCN g [97, 98, 48, 102] = .ok [171, 15] ∧          -- old style
    pubFromCN g [] = .error .empty ∧
    pubFromCN g [90] = .error .short ∧
    pubFromCN g [90, 97] = .error .hex ∧
    pubFromCN g [90, 97, 98, 48, 103] = .error .hex ∧
    pubFromCN g [90, 97, 98, 48, 48] = .error .point ∧
    pubFromCN g [97, 98, 48] = .error .short := by
  intro g; exact ⟨rfl, rfl, rfl, rfl, rfl, rfl, rfl, rfl, rfl, rfl, rfl⟩

/-- negation witnesses: a decoder that skipped two bytes (`cn[2:]`) or that read the type byte as a digit
would not invert `pubToCN` -/
example : hexDecode ([97, 98, 48, 102] : List Nat).tail ≠ some [171, 15] := by decide
example : hexDecode [90, 97, 98, 48, 102] = none := by decide

end NameBytes

/-! ### the configuration `tlsConfig` builds, and session resumption -/

/-- the configurations as built: the listener's per-client configuration requires a client certificate,
carries the verifier made for this client and hands out no session tickets; the dialler's carries its
verifier (and has no session cache: it never asks for a resumption) -/
theorem c08_listener_config :
    perClientCfg = ⟨true, true, true, true⟩ ∧ dialCfg = ⟨true, false, true, true⟩ := ⟨rfl, rfl⟩

/-- **no link without a proof for this handshake**: under the configuration the listener builds, whatever
the client hello asks for — a full handshake with any certificates, the resumption of any earlier session
— and whatever sessions exist, the certificates of an established connection passed the verifier that was
made with *this* connection's nonce.  (Falsified by: session tickets left enabled — crypto/tls does not call
`VerifyPeerCertificate` on a resumed session; `ClientAuth` weaker than `RequireAnyClientCert`; a per-client
configuration without the verifier, e.g. set on the wrong copy.) -/
theorem c08_no_link_without_fresh_proof (s : Suite) (nonce : Nonce) (sessions : List (List Cert)) (h : Hello)
    (raw : List Cert) (hacc : acceptHello perClientCfg s nonce sessions h = some raw) :
    verifyPeer s none nonce raw = none := by
  have full : ∀ r, acceptFull perClientCfg s nonce r = some raw → verifyPeer s none nonce raw = none := by
    intro r hr
    simp only [acceptFull, perClientCfg, cloneCfg, tlsConfig, if_true] at hr
    by_cases he : r.isEmpty = true
    · simp [he] at hr
    · simp only [he] at hr
      by_cases hv : (verifyPeer s none nonce r).isNone = true
      · simp only [hv, if_true] at hr
        simp at hr
        subst hr
        simpa using hv
      · simp [hv] at hr
  cases h with
  | full r => exact full r hacc
  | resume i fb =>
    simp only [acceptHello, perClientCfg, cloneCfg, tlsConfig, if_true] at hacc
    exact full fb hacc

/-- … over a listener's whole life: connection `j` of a listener that has seen `i` connections before is
established only on a proof over the nonce `hon (i + j)` drawn for it, whatever hellos arrive in whatever
order (every later hello may offer a ticket of every earlier connection) -/
theorem c08_listener_every_link_proved (s : Suite) (hs : List Hello) :
    ∀ (i : Nat) (sessions : List (List Cert)) (j : Nat) (raw : List Cert),
      (listen perClientCfg s i sessions hs)[j]? = some (some raw) →
      verifyPeer s none (.hon (i + j)) raw = none := by
  induction hs with
  | nil => intro i sessions j raw h; simp [listen] at h
  | cons h hs ih =>
    intro i sessions j raw hj
    cases j with
    | zero =>
      simp only [listen, List.getElem?_cons_zero, Option.some.injEq] at hj
      exact c08_no_link_without_fresh_proof s (.hon i) sessions h raw hj
    | succ j =>
      simp only [listen, List.getElem?_cons_succ] at hj
      have := ih (i + 1) _ j raw hj
      have e : i + 1 + j = i + (j + 1) := by omega
      rw [e] at this
      exact this

/-- **each of the three fields is needed** (negation witnesses).  With session tickets enabled — the
configuration before /repo d941b9f — the second connection of a client that proved its key once is
established on the *first* connection's certificate, whose proof is over the first nonce: refused by this
connection's verifier, which is never asked.  Without the verifier a certificate without any proof makes
a link; without the demand for a client certificate no certificate at all does. -/
theorem c08_config_fields_needed :
    (∃ raw, acceptHello { perClientCfg with ticketsDisabled := false } ⟨true⟩ (.hon 1)
        [(certFor .new 2 12 (.hon 0)).toList] (.resume 0 []) = some raw ∧
        verifyPeer ⟨true⟩ none (.hon 1) raw = some .signature) ∧
    (∃ raw, acceptHello { perClientCfg with hasVerifier := false } ⟨true⟩ (.hon 1) []
        (.full ((certFor .new 2 12 (.hon 1)).toList.map fun c => { c with ext := none })) = some raw ∧
        verifyPeer ⟨true⟩ none (.hon 1) raw = some .sigPresent) ∧
    (acceptHello { perClientCfg with requireClientCert := false } ⟨true⟩ (.hon 1) [] (.full []) = some [] ∧
        verifyPeer ⟨true⟩ none (.hon 1) [] = some .oneRaw) := by
  refine ⟨⟨_, rfl, ?_⟩, ⟨_, rfl, ?_⟩, rfl, ?_⟩ <;> decide

/-- non-vacuity: a client that proves its key on every connection and offers the previous ticket each time
gets three links, each on a proof over that connection's nonce -/
example :
    listen perClientCfg ⟨true⟩ 0 []
      [.full (certFor .new 2 12 (.hon 0)).toList, .resume 0 (certFor .new 2 12 (.hon 1)).toList,
       .resume 1 (certFor .new 2 12 (.hon 2)).toList] =
    [some (certFor .new 2 12 (.hon 0)).toList, some (certFor .new 2 12 (.hon 1)).toList,
     some (certFor .new 2 12 (.hon 2)).toList] := by decide

theorem acceptFull_eq {cfg : TlsCfg} {s : Suite} {n : Nonce} {raw raw' : List Cert}
    (h : acceptFull cfg s n raw = some raw') : raw' = raw := by
  unfold acceptFull at h
  by_cases he : raw.isEmpty = true
  · simp only [he, if_true] at h
    have hr0 : raw = [] := by simpa using he
    by_cases hr : cfg.requireClientCert = true
    · simp [hr] at h
    · simp [hr] at h
      rw [hr0]; exact h
  · simp only [he] at h
    by_cases hv : cfg.hasVerifier = true
    · simp only [hv, if_true] at h
      by_cases hq : (verifyPeer s none n raw).isNone = true
      · simp [hq] at h; exact h.symm
      · simp [hq] at h
    · simp [hv] at h; exact h.symm

/-- **overlapping handshakes**: in whatever order the hellos and the certificates of any number of
connections reach a listener, a connection is established only on certificates that pass the verifier made
with *its own* nonce.  (Falsified by: one configuration shared by the connections of a listener — the
verifier slot is overwritten by the next hello, seeded change C08r7-A.) -/
theorem c08_overlapping_handshakes (s : Suite) (evs : List OvEv) :
    ∀ st : OvSt, (∀ p ∈ st.accepted, verifyPeer s none (.hon p.1) p.2 = none) →
      ∀ p ∈ (ovRun false s st evs).accepted, verifyPeer s none (.hon p.1) p.2 = none := by
  induction evs with
  | nil => intro st h; exact h
  | cons e evs ih =>
    intro st h
    simp only [ovRun, List.foldl_cons]
    apply ih
    cases e with
    | hello => exact h
    | cert c raw =>
      simp only [ovStep, Bool.false_eq_true, if_false]
      by_cases hc : c < st.next
      · simp only [hc, if_true]
        cases ha : acceptHello perClientCfg s (.hon c) [] (.full raw) with
        | none => simpa using h
        | some raw' =>
          simp only [Option.isSome_some, if_true]
          intro p hp
          rcases List.mem_cons.mp hp with rfl | hp
          · have hv := c08_no_link_without_fresh_proof s (.hon c) [] (.full raw) raw' ha
            have : raw' = raw := acceptFull_eq (by simpa [acceptHello] using ha)
            subst this
            exact hv
          · exact h p hp
      · simpa [hc] using h

/-- the shared-slot variant is refuted: hello 0, hello 1, then connection 0 presents a proof over the nonce
of connection 1 — accepted, although connection 0's own verifier refuses it -/
theorem c08_shared_verifier_slot_crosses :
    let raw := (certFor .new 2 12 (.hon 1)).toList
    (0, raw) ∈ (ovRun true ⟨true⟩ {} [.hello, .hello, .cert 0 raw]).accepted ∧
    verifyPeer ⟨true⟩ none (.hon 0) raw = some .signature ∧
    (ovRun false ⟨true⟩ {} [.hello, .hello, .cert 0 raw]).accepted = [] := by decide

/-! ### the code regions the model stands for
Regenerated from /repo's source on every run (`harness/cmd/astfacts` → `OnetVerif/Shapes.lean`): the
calls that matter for synchronisation and data flow, the lock regions and (for decision logic) the
conditions, in source order.  A re-ordering, a dropped call or a changed condition breaks these
obligations even when no sampled input or schedule shows a difference; the check then searches for
a failing input. -/
theorem c08_shape_tls_makeVerifier :
    Shapes.network_tls_makeVerifier =
   ["mkNonce", "assign:nonce:=mkNonce(suite)", "func{", "defer{", "if:(err==nil)", "else", "}",
     "if:(len(rawCerts)!=1)", "return:xerrors.New(\"expected exactly one certificate\")",
     "x509.ParseCertificates", "assign:certs,err:=x509.ParseCertificates(rawCerts[0])",
     "if:(err!=nil)", "return:err", "if:(len(certs)!=1)",
     "return:xerrors.New(\"expected exactly one certificate\")", "assign:cert:=certs[0]",
     "x509.NewCertPool", "assign:self:=x509.NewCertPool()", "self.AddCert",
     "args:self.AddCert(cert)", "assign:opts:=x509.VerifyOptions{Roots:self}", "cert.Verify",
     "assign:_,err=cert.Verify(opts)", "if:(err!=nil)",
     "return:xerrors.Errorf(\"certificate verification: %v\",err)", "if:(them!=nil)",
     "if:(len(cert.URIs)>0)", "assign:cn:=fmt.Sprintf(\":%v\",pubToCN(them.Public))",
     "assign:found:=false", "range:_,u:=cert.URIs{",
     "if:((u.Scheme==\"onet-pubkey\")&&(u.Opaque==cn))", "assign:found=true", "break", "}",
     "if:!found",
     "return:xerrors.Errorf(\"No onet-pubkey URIs match the expected public key %v\",pubToCN(them.Public))",
     "else", "if:(cert.Subject.CommonName!=pubToCN(them.Public))",
     "return:xerrors.Errorf(\"certificate common-name %v not expected\",cert.Subject.CommonName)",
     "range:_,x:=cert.Extensions{", "if:oidDedisSig.Equal(x.Id)", "assign:sig=x.Value", "break",
     "}", "if:(sig==nil)", "return:xerrors.New(\"DEDIS signature not found\")",
     "assign:cn=cert.Subject.CommonName", "pubFromCN", "assign:pub,err:=pubFromCN(suite,cn)",
     "if:(err!=nil)", "return:xerrors.Errorf(\"decoding key: %v\",err)",
     "if:((them!=nil)&&!pub.Equal(them.Public))",
     "return:xerrors.Errorf(\"certificate common-name %v does not name the expected public key\",cn)",
     "bytes.NewBuffer", "assign:buf:=bytes.NewBuffer(nonce)", "asn1.Marshal",
     "assign:subAsn1,err:=asn1.Marshal(cn)", "if:(err!=nil)",
     "return:xerrors.Errorf(\"marshaling: %v\",err)", "buf.Write", "args:buf.Write(subAsn1)",
     "buf.Bytes", "schnorr.Verify", "assign:err=schnorr.Verify(suite,pub,buf.Bytes(),sig)",
     "if:(err!=nil)", "return:xerrors.Errorf(\"certificate verification: %v\",err)",
     "return:nil", "}", "return:func,nonce"] := rfl

theorem c08_shape_tls_certMaker_get :
    Shapes.network_tls_certMaker_get =
   ["if:(len(nonce)!=nonceSize)", "return:nil,xerrors.New(\"nonce is the wrong size\")",
     "bytes.NewBuffer", "assign:buf:=bytes.NewBuffer(nonce)", "buf.Write",
     "args:buf.Write(cm.subjDer)", "si.GetPrivate", "buf.Bytes", "schnorr.Sign",
     "assign:sig,err:=schnorr.Sign(cm.suite,cm.si.GetPrivate(),buf.Bytes())", "if:(err!=nil)",
     "return:nil,xerrors.Errorf(\"signature verification: %v\",err)",
     "assign:serial:=new(big.Int)", "random.New", "random.Bits",
     "assign:r:=random.Bits(128,true,random.New())", "serial.SetBytes",
     "args:serial.SetBytes(r)", "url.Parse",
     "assign:uri,err:=url.Parse(fmt.Sprintf(\"onet-pubkey::%v\",cm.subj.CommonName))",
     "if:(err!=nil)", "return:nil,err", "time.Now", "Now().Add", "time.Now", "Now().Add",
     "assign:tmpl:=&x509.Certificate{BasicConstraintsValid:true,IsCA:false,ExtKeyUsage:conv{x509.ExtKeyUsageServerAuth,x509.ExtKeyUsageClientAuth},NotAfter:time.Now().Add((2*time.Hour)),NotBefore:time.Now().Add((-5*time.Minute)),SerialNumber:serial,SignatureAlgorithm:x509.ECDSAWithSHA384,Subject:cm.subj,URIs:conv{uri},ExtraExtensions:conv{{Id:oidDedisSig,Critical:false,Value:sig}}}",
     "if:testNoURIs", "assign:tmpl.URIs=nil", "k.Public", "x509.CreateCertificate",
     "assign:cDer,err:=x509.CreateCertificate(rand.Reader,tmpl,tmpl,cm.k.Public(),cm.k)",
     "if:(err!=nil)", "return:nil,xerrors.Errorf(\"certificate: %v\",err)",
     "x509.ParseCertificates", "assign:certs,err:=x509.ParseCertificates(cDer)", "if:(err!=nil)",
     "return:nil,xerrors.Errorf(\"certificate: %v\",err)", "if:(len(certs)<1)",
     "return:nil,xerrors.New(\"no certificate found\")",
     "return:&tls.Certificate{PrivateKey:cm.k,Certificate:conv{cDer},Leaf:certs[0]},nil"] := rfl

theorem c08_shape_tls_certMaker_getCertificate :
    Shapes.network_tls_certMaker_getCertificate =
   ["cm.get", "assign:cert,err:=cm.get(conv(hello.ServerName))", "if:(err!=nil)",
     "return:nil,xerrors.Errorf(\"\",err)", "return:cert,nil"] := rfl

theorem c08_shape_tls_certMaker_getClientCertificate :
    Shapes.network_tls_certMaker_getClientCertificate =
   ["if:(len(req.AcceptableCAs)==0)", "return:nil,xerrors.New(\"\")", "cm.get",
     "assign:cert,err:=cm.get(req.AcceptableCAs[0])", "if:(err!=nil)",
     "return:nil,xerrors.Errorf(\"\",err)", "return:cert,nil"] := rfl

theorem c08_shape_tls_pubFromCN :
    Shapes.network_tls_pubFromCN =
   ["if:(len(cn)<1)", "return:nil,xerrors.New(\"\")", "assign:tp:=cn[0]", "switch:tp{",
     "case:'Z'", "hex.DecodeString", "assign:buf,err:=hex.DecodeString(cn[1:])", "if:(err!=nil)",
     "return:nil,xerrors.Errorf(\"\",err)", "bytes.NewBuffer", "assign:r:=bytes.NewBuffer(buf)",
     "suite.Point", "assign:pub:=suite.Point()", "pub.UnmarshalFrom",
     "assign:_,err=pub.UnmarshalFrom(r)", "if:(err!=nil)", "return:nil,xerrors.Errorf(\"\",err)",
     "return:pub,nil", "default", "encoding.StringHexToPoint",
     "assign:pub,err:=encoding.StringHexToPoint(suite,cn)", "if:(err!=nil)",
     "return:nil,xerrors.Errorf(\"\",err)", "return:pub,nil", "}"] := rfl

theorem c08_shape_tls_pubToCN :
    Shapes.network_tls_pubToCN =
   ["assign:w:=&bytes.Buffer{}", "pub.MarshalTo", "args:pub.MarshalTo(w)",
     "return:(\"Z\"+hex.EncodeToString(w.Bytes()))"] := rfl

theorem c08_shape_tls_mkNonce :
    Shapes.network_tls_mkNonce =
   ["s.RandomStream", "random.Bytes", "args:random.Bytes(buf[:],s.RandomStream())",
     "for:bytes.ContainsAny(buf[:],\".[]%\"){", "s.RandomStream", "random.Bytes",
     "args:random.Bytes(buf[:],s.RandomStream())", "}", "return:buf[:]"] := rfl

theorem c08_shape_tls_newCertMaker :
    Shapes.network_tls_newCertMaker =
   ["assign:cm:=&certMaker{si:si,suite:s}", "elliptic.P256", "ecdsa.GenerateKey",
     "assign:k,err:=ecdsa.GenerateKey(elliptic.P256(),rand.Reader)", "if:(err!=nil)",
     "return:nil,xerrors.Errorf(\"\",err)", "assign:cm.k=k", "pubToCN",
     "assign:cm.subj=pkix.Name{CommonName:pubToCN(cm.si.Public)}", "asn1.Marshal",
     "assign:der,err:=asn1.Marshal(cm.subj.CommonName)", "if:(err!=nil)",
     "return:nil,xerrors.Errorf(\"\",err)", "assign:cm.subjDer=der", "return:cm,nil"] := rfl

theorem c08_shape_tls_NewTLSListenerWithListenAddr :
    Shapes.network_tls_NewTLSListenerWithListenAddr =
   ["NewTCPListenerWithListenAddr",
     "assign:tcp,err:=NewTCPListenerWithListenAddr(si.Address,suite,listenAddr)",
     "if:(err!=nil)", "return:nil,xerrors.Errorf(\"tls listener: %v\",err)", "tlsConfig",
     "assign:cfg,err:=tlsConfig(suite,si)", "if:(err!=nil)",
     "return:nil,xerrors.Errorf(\"tls config: %v\",err)", "cloneTLSClientConfig",
     "assign:cfg2:=cloneTLSClientConfig(cfg)", "x509.NewCertPool",
     "assign:cfg2.ClientCAs=x509.NewCertPool()", "makeVerifier",
     "assign:vrf,nonce:=makeVerifier(suite,nil)", "assign:cfg2.VerifyPeerCertificate=vrf",
     "ClientCAs.AddCert", "args:cfg2.ClientCAs.AddCert(&x509.Certificate{RawSubject:nonce})",
     "return:cfg2,nil", "assign:cfg.GetConfigForClient=func",
     "assign:cfg.ClientAuth=tls.RequireAnyClientCert", "tls.NewListener",
     "assign:tcp.listener=tls.NewListener(tcp.listener,cfg)", "return:tcp,nil"] := rfl

theorem c08_shape_tls_NewTLSConn_b3 :
    Shapes.network_tls_NewTLSConn_b3 =
   ["if:(them.Address.ConnType()!=TLS)", "return:nil,xerrors.New(\"\")",
     "if:(us.GetPrivate()==nil)", "return:nil,xerrors.New(\"\")", "tlsConfig",
     "assign:cfg,err:=tlsConfig(suite,us)", "if:(err!=nil)",
     "return:nil,xerrors.Errorf(\"\",err)", "makeVerifier",
     "assign:vrf,nonce:=makeVerifier(suite,them)", "assign:cfg.VerifyPeerCertificate=vrf",
     "Address.NetworkAddress", "assign:netAddr:=them.Address.NetworkAddress()", "assign:i:=1",
     "for:(i<=MaxRetryConnect){", "assign:cfg.ServerName=string(nonce)", "tls.DialWithDialer",
     "assign:c,err=tls.DialWithDialer(&net.Dialer{Timeout:dialTimeout},\"\",netAddr,cfg)",
     "if:(err==nil)", "assign:conn=&TCPConn{conn:c,suite:suite}", "return:",
     "assign:err=xerrors.Errorf(\"\",err)", "if:(i<MaxRetryConnect)", "time.Sleep", "assign:i++",
     "}", "if:(err==nil)", "assign:err=xerrors.Errorf(\"\",ErrTimeout)", "return:"] := rfl

theorem c08_shape_tls_tlsConfig :
    Shapes.network_tls_tlsConfig =
   ["newCertMaker", "assign:cm,err:=newCertMaker(suite,us)", "if:(err!=nil)",
     "return:nil,xerrors.Errorf(\"\",err)",
     "return:&tls.Config{GetCertificate:cm.getCertificate,GetClientCertificate:cm.getClientCertificate,InsecureSkipVerify:true,SessionTicketsDisabled:true},nil"] := rfl

theorem c08_shape_tls_cloneTLSClientConfig :
    Shapes.network_tls_cloneTLSClientConfig =
   ["if:(cfg==nil)", "return:&tls.Config{}",
     "return:&tls.Config{Rand:cfg.Rand,Time:cfg.Time,Certificates:cfg.Certificates,NameToCertificate:cfg.NameToCertificate,GetCertificate:cfg.GetCertificate,RootCAs:cfg.RootCAs,NextProtos:cfg.NextProtos,ServerName:cfg.ServerName,ClientAuth:cfg.ClientAuth,ClientCAs:cfg.ClientCAs,InsecureSkipVerify:cfg.InsecureSkipVerify,CipherSuites:cfg.CipherSuites,PreferServerCipherSuites:cfg.PreferServerCipherSuites,ClientSessionCache:cfg.ClientSessionCache,MinVersion:cfg.MinVersion,MaxVersion:cfg.MaxVersion,CurvePreferences:cfg.CurvePreferences,SessionTicketsDisabled:cfg.SessionTicketsDisabled}"] := rfl

theorem c08_shape_router_Router_receiveServerIdentity :
    Shapes.network_router_Router_receiveServerIdentity =
   ["c.Receive", "assign:nm,err:=c.Receive()", "if:(err!=nil)",
     "return:nil,xerrors.Errorf(\"\",err)", "if:(nm.MsgType!=ServerIdentityType)",
     "return:nil,xerrors.Errorf(\"\",nm.MsgType.String())",
     "assign:dst:=nm.Msg.(ServerIdentity)", "assign:tcpConn,ok:=c.(TCPConn)", "if:ok",
     "assign:tlsConn,ok:=tcpConn.conn.(tls.Conn)", "if:ok", "tlsConn.ConnectionState",
     "assign:cs:=tlsConn.ConnectionState()", "if:(len(cs.PeerCertificates)==0)",
     "return:nil,xerrors.New(\"\")", "pubFromCN",
     "assign:pub,err:=pubFromCN(tcpConn.suite,cs.PeerCertificates[0].Subject.CommonName)",
     "if:(err!=nil)", "return:nil,xerrors.Errorf(\"\",err)", "if:!pub.Equal(dst.Public)",
     "return:nil,xerrors.New(\"\")", "else", "if:!r.UnauthOk", "return:dst,nil"] := rfl


end C08
