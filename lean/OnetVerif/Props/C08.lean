import OnetVerif.Model.C08
/-! Property C08 — property theorems, negation witnesses, `_partial` variants and non-vacuity
examples only (helper lemmas that need Mathlib go to OnetVerif/Proofs/). -/
namespace C08

end C08
