import OnetVerif.Model.C09Recv
import OnetVerif.Gen.C09
/-! Property C09 — the definition regenerated from the Go source (`Gen/C09.lean`, written by `harness/cmd/go2lean` on
every check run from `network/tcp.go`): `handleError`, the classification of a network-layer error into the
package's sentinel errors.  The error parameter is read through the seven observations of `C09.NetErr`
(`strings.Contains(err.Error(), "<text>")` for the four texts, `err == io.EOF`, the success of `err.(net.Error)`,
`netErr.Timeout()`), the sentinel variables `ErrClosed` … `ErrUnknown` as the constructors of `C09.ErrClass`
(`meta/go2lean.json`, module `Gen.C09`).  The asserted value `netErr` is nil when the assertion fails; calling
`Timeout` on it would be the panic outcome `none` — the theorem says it is never reached.  Nothing imports this file. -/
namespace C09

/-- **`handleError` as translated is the model's `handleError`**, for every error value, and it never panics -/
theorem c09_gen_handleError_eq (e : NetErr) : Gen.C09.handleError e = some (handleError e) := by
  obtain ⟨a, b, c, d, f, g, h⟩ := e
  cases a <;> cases b <;> cases c <;> cases d <;> cases f <;> cases g <;> cases h <;> rfl
end C09
