import OnetVerif.Model.C19
/-! Property C19 — property theorems, negation witnesses, `_partial` variants and non-vacuity
examples only (helper lemmas that need Mathlib go to OnetVerif/Proofs/). -/
namespace C19

end C19
