import OnetVerif.Model.C19
import OnetVerif.Model.C19Proxy
import OnetVerif.Proofs.C19Field
import OnetVerif.Proofs.C19Stats
import OnetVerif.Proofs.C19Net
import OnetVerif.Proofs.C19Files
import Mathlib.Algebra.Order.Field.Rat
import Mathlib.Algebra.Order.BigOperators.Group.List
import OnetVerif.Shapes

set_option linter.unusedSectionVars false

/-! Property C19 — simulation statistics equal the statistics of the recorded measures.

`K` is an arbitrary linearly ordered field (ℚ, ℝ, …) with an arbitrary function `HasSqrt.sq` where
the Go code calls `math.Sqrt`; measure names `κ` are an arbitrary linear order (Go: strings under
`sort.Strings`).  Theorems that do not need exact arithmetic are stated for every number type
`α` with the operations of `Num` — the IEEE instance the driver runs included.  Helper lemmas are
in `Proofs/C19Field.lean` (accumulators) and `Proofs/C19Stats.lean` (result sets). -/
namespace C19

section exact
variable {K : Type} [Field K] [LinearOrder K] [IsStrictOrderedRing K] [HasSqrt K]

/-- **c19_welford**: after `Collect` of a measure that stores `xs` (n ≥ 1 values) the reported
count is n, the sum is Σxs, the mean is Σxs / n, the carried `newS` is Σ(x − mean)², the deviation
is `sqrt (newS / (n − 1))` (n ≥ 2; for n = 1 the Go code reports NaN), minimum and maximum are the
least and the greatest stored value; the store itself is untouched. -/
theorem c19_welford (t : Value K) (hne : t.store ≠ []) :
    t.collect.store = t.store ∧
    t.collect.n = t.store.length ∧
    t.collect.sum = t.store.sum ∧
    t.collect.newM = t.store.sum / (t.store.length : K) ∧
    t.collect.newS = (t.store.map fun x => (x - t.collect.newM) * (x - t.collect.newM)).sum ∧
    (2 ≤ t.store.length → t.collect.dev = HasSqrt.sq (t.collect.newS / ((t.store.length : K) - 1))) ∧
    t.collect.min ∈ t.store ∧ (∀ x ∈ t.store, t.collect.min ≤ x) ∧
    t.collect.max ∈ t.store ∧ (∀ x ∈ t.store, x ≤ t.collect.max) := by
  have h := inv_collect t
  have hn := h.n
  have hl : (t.store.length : K) ≠ 0 := by
    have : 0 < t.store.length := List.length_pos_iff.mpr hne
    positivity
  have hmean : t.collect.newM = t.store.sum / (t.store.length : K) := by
    have := h.mean; rw [hn] at this; field_simp; linarith
  refine ⟨collect_store t, hn, h.sum, hmean, ?_, ?_, h.minMem hne, h.minLe, h.maxMem hne, h.maxGe⟩
  · rw [sum_sq_dev, h.m2, ← h.mean, hn]; ring
  · intro h2
    rw [h.dev hne, hn]
    congr 2
    have : 1 ≤ t.store.length := by omega
    push_cast [Nat.cast_sub this]; ring

/-- with a function that really is a square root on the non-negative numbers (ℝ: `Real.sqrt`), the
square of the reported deviation is the sample variance Σ(x − mean)² / (n − 1) -/
theorem c19_welford_dev_sq (hsq : ∀ y : K, 0 ≤ y → HasSqrt.sq y * HasSqrt.sq y = y)
    (t : Value K) (h2 : 2 ≤ t.store.length) :
    t.collect.dev * t.collect.dev =
      (t.store.map fun x => (x - t.collect.newM) * (x - t.collect.newM)).sum / ((t.store.length : K) - 1) := by
  have hne : t.store ≠ [] := by intro e; rw [e] at h2; simp at h2
  obtain ⟨_, _, _, _, hS, hdev, _⟩ := c19_welford t hne
  rw [hdev h2, hsq, hS]
  apply div_nonneg
  · rw [hS]
    apply List.sum_nonneg
    intro y hy
    obtain ⟨x, _, rfl⟩ := List.mem_map.mp hy
    exact mul_self_nonneg _
  · have : (2 : K) ≤ (t.store.length : K) := by exact_mod_cast h2
    linarith

/-- **arrival order does not matter for one measure**: two stores that are permutations of each
other are reported with the same count and the same five columns -/
theorem c19_perm_invariant_value (t u : Value K) (hp : t.store.Perm u.store) :
    t.collect.n = u.collect.n ∧ t.collect.values = u.collect.values := by
  by_cases hne : t.store = []
  · have hu : u.store = [] := by rw [hne] at hp; exact hp.nil_eq.symm
    rw [collect_congr t u (hne.trans hu.symm)]; exact ⟨rfl, rfl⟩
  · have hne' : u.store ≠ [] := fun e => hne (by rw [e] at hp; exact hp.eq_nil)
    have a := inv_collect t
    have b := inv_collect u
    have hlen : t.store.length = u.store.length := hp.length_eq
    have hn : t.collect.n = u.collect.n := by rw [a.n, b.n, hlen]
    have hsum : t.collect.sum = u.collect.sum := by rw [a.sum, b.sum, hp.sum_eq]
    have hnz : (u.collect.n : K) ≠ 0 := by
      have : 0 < u.collect.n := by rw [b.n]; exact List.length_pos_iff.mpr hne'
      positivity
    have hM : t.collect.newM = u.collect.newM := by
      have h1 := a.mean; have h2 := b.mean
      rw [hn, hp.sum_eq] at h1
      exact mul_left_cancel₀ hnz (h1.trans h2.symm)
    have hS : t.collect.newS = u.collect.newS := by
      rw [a.m2, b.m2, hn, hM]
      congr 1
      exact (hp.map _).sum_eq
    have hdev : t.collect.dev = u.collect.dev := by rw [a.dev hne, b.dev hne', hS, hn]
    have hmin : t.collect.min = u.collect.min :=
      le_antisymm (a.minLe _ (hp.mem_iff.mpr (b.minMem hne'))) (b.minLe _ (hp.mem_iff.mp (a.minMem hne)))
    have hmax : t.collect.max = u.collect.max :=
      le_antisymm (b.maxGe _ (hp.mem_iff.mp (a.maxMem hne))) (a.maxGe _ (hp.mem_iff.mpr (b.maxMem hne')))
    exact ⟨hn, by simp [Value.values, hmin, hmax, hM, hsum, hdev]⟩

variable {κ : Type} [LinearOrder κ]

/-- what a write-out reports for a result set: per measure, in key order, its name, count and
five columns (min, max, avg, sum, dev), computed by `Collect` -/
def Stats.report (s : Stats κ K) : List (κ × Nat × List K) :=
  s.collect.vals.map fun kv => (kv.1, kv.2.n, kv.2.values)

private theorem report_eq (s : Stats κ K) (h : SortedKeys s.vals) :
    s.report = s.keys.map fun k =>
      (k, ({ (Value.new : Value K) with store := s.storeAt k }).collect.n,
          ({ (Value.new : Value K) with store := s.storeAt k }).collect.values) := by
  simp only [Stats.report, Stats.collect, Stats.keys, keysOf, List.map_map]
  apply List.map_congr_left
  intro kv hkv
  have hst := lookup_of_mem s.vals h kv hkv
  have : kv.2.collect = ({ (Value.new : Value K) with store := s.storeAt kv.1 }).collect :=
    collect_congr _ _ (by simp [Stats.storeAt, hst])
  simp [Function.comp, this]

/-- **c19_perm_invariant**: the report of a result set does not depend on the order in which the
measures arrived: two arrival sequences that are permutations of each other (whatever names,
values and hosts they mix) give the same keys in the same order with the same statistics. -/
theorem c19_perm_invariant (s : Stats κ K) (h : SortedKeys s.vals) (ms₁ ms₂ : List (κ × K))
    (hp : ms₁.Perm ms₂) : (s.updates ms₁).report = (s.updates ms₂).report := by
  have h1 := sorted_updates s ms₁ h
  have h2 := sorted_updates s ms₂ h
  rw [report_eq _ h1, report_eq _ h2]
  have hk : (s.updates ms₁).keys = (s.updates ms₂).keys := by
    apply sorted_ext _ _ h1 h2
    intro k
    have e1 := mem_keys_updates s ms₁ k
    have e2 := mem_keys_updates s ms₂ k
    simp only [Stats.keys] at e1 e2
    rw [e1, e2, (hp.map _).mem_iff]
  rw [hk]
  apply List.map_congr_left
  intro k _
  have hst : ((s.updates ms₁).storeAt k).Perm ((s.updates ms₂).storeAt k) := by
    rw [storeAt_updates s ms₁ h, storeAt_updates s ms₂ h]
    exact List.Perm.append_left _ ((hp.filter _).map _)
  have := c19_perm_invariant_value
    ({ (Value.new : Value K) with store := (s.updates ms₁).storeAt k })
    ({ (Value.new : Value K) with store := (s.updates ms₂).storeAt k }) hst
  rw [this.1, this.2]

/- `Interleave parts out` (`Proofs/C19Net.lean`): `out` is an arrival order of the measures that the
reporting connections sent, connection i having sent `parts[i]` in that order -/

theorem interleave_perm {μ : Type} (parts : List (List μ)) (out : List μ) (h : Interleave parts out) :
    out.Perm parts.flatten := by
  induction h with
  | done parts h =>
    have : parts.flatten = [] := by
      simp only [List.flatten_eq_nil_iff]; exact h
    rw [this]
  | step pre post x rest out _ ih =>
    simp only [List.flatten_append, List.flatten_cons] at ih ⊢
    refine (List.Perm.cons x ih).trans ?_
    exact (List.perm_middle (a := x) (l₁ := pre.flatten) (l₂ := rest ++ post.flatten)).symm

/-- **the partition over reporting connections does not matter**: however the measures were
spread over connections and however the monitor interleaved them, the report is that of the
connections' measures taken one connection after the other -/
theorem c19_partition_invariant (s : Stats κ K) (h : SortedKeys s.vals) (parts : List (List (κ × K)))
    (out : List (κ × K)) (hi : Interleave parts out) :
    (s.updates out).report = (s.updates parts.flatten).report :=
  c19_perm_invariant s h out parts.flatten (interleave_perm parts out hi)

end exact

section anynumber
variable {α κ : Type} [Num α] [KeyOrd κ] [DecidableEq κ]

/-- **c19_readout_idempotent** (any number type, IEEE doubles included): after any sequence of
read-outs — print, collect, write header, write values, in any number and order — the final write
leaves the result set in exactly the state a single write would have left it in (so it writes the
same line and every accessor returns the same number); and once collected, further read-outs change
nothing at all. -/
theorem c19_readout_idempotent (s : Stats κ α) (rs : List Readout) :
    (s.readouts rs).readout .values = s.readout .values ∧
    (s.readout .values).readouts rs = s.readout .values := by
  constructor
  · show (s.readouts rs).collect = s.collect
    exact collect_readouts s rs
  · show s.collect.readouts rs = s.collect
    exact readouts_of_collected s rs

/-- reading a bucket (`BucketStats.Get`) is a `Collect` of that bucket and nothing else -/
theorem c19_bucket_get (bs : BucketStats κ α) (i : Int) :
    (bs.get i).1 = bs.map (fun b => if b.idx = i then { b with stats := b.stats.readout .collect } else b) := rfl

/-- **c19_buckets_exact**: after any arrival sequence every bucket has been updated with exactly
the measures whose host index is non-negative and lies in one of the bucket's ranges
(`low ≤ host < high`), in arrival order — nothing else, nothing twice; index, rules and the other
buckets are untouched. -/
theorem c19_buckets_exact (bs : BucketStats κ α) (ms : List (Measure κ α)) :
    bs.feed ms = bs.map (fun b =>
      { b with stats := b.stats.feed (ms.filter fun m => rulesMatch b.rules m.host) }) ∧
    ∀ (rr : List Rule) (h : Int),
      rulesMatch rr h = true ↔ 0 ≤ h ∧ ∃ r ∈ rr, r.low ≤ h ∧ h < r.high :=
  ⟨buckets_feed bs ms, rulesMatch_iff⟩

/-- the monitor hands every measure to the global result set and to the buckets -/
theorem c19_monitor_feed (m : Monitor κ α) (ms : List (Measure κ α)) :
    ms.foldl Monitor.update m = { global := m.global.feed ms, buckets := m.buckets.feed ms } := by
  induction ms generalizing m with
  | nil => rfl
  | cons x ms ih =>
    simp only [List.foldl_cons, ih, Monitor.update, Stats.feed, BucketStats.feed]

/-! ### The monitor's network side (`Model/C19Net.lean`): connections, handler routines, `Listen` -/

/-- **c19_listen_interleave** (any number type, every schedule): whenever a run of the monitor —
accepts, client writes and hang-ups, decodes, hand-overs to the `Listen` loop, end-of-connection
reports, in any order the code allows — ends with nothing left to deliver, the monitor has been
updated with exactly the records the clients sent (end markers apart), each once, in an order that
keeps every connection's own order: an interleaving of the connections' sequences. -/
theorem c19_listen_interleave (isEnd : κ → Bool) (mon : Monitor κ α) (futures : List (List (Measure κ α)))
    (acts : List Act) (n' : Net κ α) (h : (Net.start mon futures).run isEnd acts = some n')
    (hdone : ∀ c ∈ n'.conns, c.remaining isEnd = []) :
    ∃ out, n'.mon = out.foldl Monitor.update mon ∧ Interleave (futures.map (noEnd isEnd)) out := by
  obtain ⟨out, h1, h2⟩ := run_interleave isEnd acts _ n' h hdone
  refine ⟨out, h1, ?_⟩
  have : (Net.start mon futures).conns.map (Conn.remaining isEnd) = futures.map (noEnd isEnd) := by
    simp [Net.start, Conn.remaining, noEnd, Function.comp_def]
  rw [← this]; exact h2

/-- **c19_listen_nothing_stuck** (liveness at quiescence): when, after any schedule, no action is
enabled any more, every client has written everything and hung up, every connection that was accepted
has handed over all its records and has been taken off the list, and — if any was accepted — `Listen`
has returned.  Only a connection that was never accepted can be left with undelivered records, and only
because `Listen` had already returned (it returns as soon as every connection accepted so far has gone). -/
theorem c19_listen_nothing_stuck (isEnd : κ → Bool) (mon : Monitor κ α) (futures : List (List (Measure κ α)))
    (acts : List Act) (n' : Net κ α) (h : (Net.start mon futures).run isEnd acts = some n')
    (hq : n'.canMove isEnd = false) :
    (∀ c ∈ n'.conns, c.closed = true ∧ c.future = []) ∧
    (∀ c ∈ n'.conns, c.accepted = true → c.gone = true ∧ c.remaining isEnd = []) ∧
    (∀ c ∈ n'.conns, c.accepted = false → n'.finished = true) ∧
    ((∃ c ∈ n'.conns, c.accepted = true) → n'.finished = true) :=
  quiescent isEnd n' (run_wf isEnd acts _ n' (wf_init mon futures) h) hq

/-- **c19_listen_terminates**: every action consumes weight, so no schedule is longer than the weight
of the first state (three per record, three per connection): quiescence is always reached. -/
theorem c19_listen_terminates (isEnd : κ → Bool) (mon : Monitor κ α) (futures : List (List (Measure κ α)))
    (acts : List Act) (n' : Net κ α) (h : (Net.start mon futures).run isEnd acts = some n') :
    acts.length ≤ (futures.map fun f => 3 * f.length + 3).sum := by
  have := run_length isEnd acts _ n' h
  have hw : (Net.start mon futures).weight = (futures.map fun f => 3 * f.length + 3).sum := by
    simp only [Net.start, Net.weight, List.map_map]
    congr 1
  omega

/-- the read-out of the simulation driver (`simul/build.go:146-175`: the global result set is logged,
then header — first configuration only — and values are written for every result set): the line
written for each result set is the line a single `WriteValues` would have written, and the result set
is left as that single write would have left it -/
theorem c19_build_readout (s : Stats κ α) (first : Bool) (j : Nat) :
    s.readouts (buildReadouts first j) = s.readout .values := by
  have h := (c19_readout_idempotent s ((buildReadouts first j).dropLast)).1
  have hl : buildReadouts first j = (buildReadouts first j).dropLast ++ [Readout.values] := by
    unfold buildReadouts; cases first <;> by_cases hj : j = 0 <;> simp [hj]
  rw [hl]
  show ((buildReadouts first j).dropLast ++ [Readout.values]).foldl Stats.readout s = _
  rw [List.foldl_append]
  exact h

end anynumber

section exact2
variable {K : Type} [Field K] [LinearOrder K] [IsStrictOrderedRing K] [HasSqrt K] {κ : Type} [LinearOrder κ]

private theorem feed_eq_updates (s : Stats κ K) (ms : List (Measure κ K)) :
    s.feed ms = s.updates (ms.map fun m => (m.name, m.val)) := by
  simp [Stats.feed, Stats.updates, List.foldl_map]

/-- the same for a whole monitor: the global result set and every bucket report the same whatever
the arrival order of the measures -/
theorem c19_perm_invariant_monitor (m : Monitor κ K) (hg : SortedKeys m.global.vals)
    (hb : ∀ b ∈ m.buckets, SortedKeys b.stats.vals) (ms₁ ms₂ : List (Measure κ K)) (hp : ms₁.Perm ms₂) :
    (ms₁.foldl Monitor.update m).global.report = (ms₂.foldl Monitor.update m).global.report ∧
    (ms₁.foldl Monitor.update m).buckets.map (fun b => (b.idx, b.rules, b.stats.report)) =
      (ms₂.foldl Monitor.update m).buckets.map (fun b => (b.idx, b.rules, b.stats.report)) := by
  rw [c19_monitor_feed, c19_monitor_feed]
  constructor
  · simp only [feed_eq_updates]
    exact c19_perm_invariant _ hg _ _ (hp.map _)
  · simp only [buckets_feed, List.map_map]
    apply List.map_congr_left
    intro b hbm
    simp only [Function.comp, feed_eq_updates]
    rw [c19_perm_invariant _ (hb b hbm) _ _ ((hp.filter _).map _)]

/-- **c19_listen_reports_all**: the monitor over the network reports the statistics of what the
clients recorded.  Start `Listen` with any clients and the records they are going to send; take any
schedule until nothing is enabled; if every connection was accepted (no client came after all the
others had left) then `Listen` has returned and the global result set and every bucket report exactly
what they would report had the records of connection 0, then those of connection 1, … been fed one
after the other — whatever the partition over connections and whatever the schedule. -/
theorem c19_listen_reports_all (isEnd : κ → Bool) (m : Monitor κ K) (hg : SortedKeys m.global.vals)
    (hb : ∀ b ∈ m.buckets, SortedKeys b.stats.vals) (futures : List (List (Measure κ K)))
    (acts : List Act) (n' : Net κ K) (h : (Net.start m futures).run isEnd acts = some n')
    (hq : n'.canMove isEnd = false) (hall : ∀ c ∈ n'.conns, c.accepted = true) :
    (futures ≠ [] → n'.finished = true) ∧
    n'.mon.global.report = (((futures.map (noEnd isEnd)).flatten).foldl Monitor.update m).global.report ∧
    n'.mon.buckets.map (fun b => (b.idx, b.rules, b.stats.report)) =
      (((futures.map (noEnd isEnd)).flatten).foldl Monitor.update m).buckets.map
        (fun b => (b.idx, b.rules, b.stats.report)) := by
  obtain ⟨_, q2, _, q4⟩ := c19_listen_nothing_stuck isEnd m futures acts n' h hq
  have hdone : ∀ c ∈ n'.conns, c.remaining isEnd = [] := fun c hc => (q2 c hc (hall c hc)).2
  obtain ⟨out, ho, hi⟩ := c19_listen_interleave isEnd m futures acts n' h hdone
  have hp := interleave_perm _ _ hi
  obtain ⟨p1, p2⟩ := c19_perm_invariant_monitor m hg hb out _ hp
  refine ⟨?_, by rw [ho]; exact p1, by rw [ho]; exact p2⟩
  intro hne
  have hlen : n'.conns.length = futures.length := by
    have := run_conns_length isEnd acts _ n' h
    simpa [Net.start] using this
  cases hc : n'.conns with
  | nil => rw [hc] at hlen; exact absurd (List.length_eq_zero_iff.mp hlen.symm) hne
  | cons c rest => exact q4 ⟨c, by rw [hc]; exact List.mem_cons_self, hall c (by rw [hc]; exact List.mem_cons_self)⟩

end exact2

section average
variable {α κ : Type} [Num α] [LinearOrder κ]

private theorem lookup_map (l : List (κ × Value α)) (f : κ → Value α) (k : κ) :
    lookupStore (l.map fun kv => (kv.1, f kv.1)) k = if k ∈ keysOf l then (f k).store else [] := by
  induction l with
  | nil => rfl
  | cons a l ih =>
    obtain ⟨c, v⟩ := a
    simp only [List.map_cons, lookup_cons, keysOf, List.mem_cons] at ih ⊢
    by_cases h : c = k
    · subst h; simp
    · have h' : ¬ k = c := fun e => h e.symm
      simp only [h, h', if_false, false_or]
      exact ih

private theorem stores_flatten (ss : List (Stats κ α)) (k : κ) :
    (ss.filterMap (·.value k)).flatMap (·.store) = (ss.map (·.storeAt k)).flatten := by
  induction ss with
  | nil => rfl
  | cons s ss ih =>
    have hv : s.value k = (s.vals.find? (·.1 = k)).map (·.2) := rfl
    have hs : s.storeAt k = ((s.vals.find? (·.1 = k)).map (·.2.store)).getD [] := by
      unfold Stats.storeAt lookupStore; cases s.vals.find? (·.1 = k) <;> rfl
    rw [List.filterMap_cons, List.map_cons, List.flatten_cons, hs, hv]
    cases s.vals.find? (·.1 = k) with
    | none => simpa using ih
    | some kv => simp [List.flatMap_cons, ih]

/-- **c19_average_union**: the average of result sets `s0 :: rest` has the static fields and the
measures of `s0`, and each measure stores the union (concatenation, in the order of the result
sets) of what the result sets stored for it — a result set that lacks the measure contributes
nothing.  Its read-out is therefore the statistics of the union (`c19_welford`). -/
theorem c19_average_union (s0 : Stats κ α) (rest : List (Stats κ α)) :
    (averageStats (s0 :: rest)).static = s0.static ∧
    (averageStats (s0 :: rest)).keys = s0.keys ∧
    ∀ k ∈ s0.keys, (averageStats (s0 :: rest)).storeAt k = ((s0 :: rest).map (·.storeAt k)).flatten := by
  refine ⟨rfl, ?_, ?_⟩
  · simp [averageStats, Stats.keys, keysOf, Function.comp]
  · intro k hk
    have := lookup_map s0.vals (fun k => averageValue ((s0 :: rest).filterMap (·.value k))) k
    simp only [Stats.storeAt, averageStats]
    rw [this, if_pos (show k ∈ keysOf s0.vals from hk)]
    simp only [averageValue]
    exact stores_flatten (s0 :: rest) k

end average

section unrepaired
/-! ### The code before the `fix:` commit (kept as the negation witnesses of the full statement)

`Value.Collect` used to clear only `sum`: count, mean and M2 were carried over from the previous
read-out, and the maximum started from 0. -/
variable {α : Type} [Num α]

/-- the loop body before the repair: `max` is only ever raised -/
def Value.stepLegacy (t : Value α) (x : α) : Value α :=
  { t.step x with max := if Num.lt t.max x then x else t.max }

/-- `Collect` before the repair: only `sum` is cleared -/
def Value.collectLegacy (t : Value α) : Value α :=
  t.store.foldl Value.stepLegacy { t with sum := zero }

private theorem legacy_fold (xs : List α) (t : Value α) :
    (xs.foldl Value.stepLegacy t).n = t.n + xs.length ∧ (xs.foldl Value.stepLegacy t).store = t.store := by
  induction xs generalizing t with
  | nil => simp
  | cons x xs ih =>
    simp only [List.foldl_cons, List.length_cons]
    have h1 : (t.stepLegacy x).n = t.n + 1 := by
      simp only [Value.stepLegacy, Value.step]; split <;> rfl
    have h2 : (t.stepLegacy x).store = t.store := by
      simp only [Value.stepLegacy, Value.step]; split <;> rfl
    rw [(ih _).1, (ih _).2, h1, h2]
    exact ⟨by omega, rfl⟩

/-- the full statement failed on the unrepaired code: a second read-out reported twice the number
of recorded values (and a third one three times, …) -/
theorem c19_legacy_second_readout_doubles (t : Value α) (h : t.n = 0) :
    t.collectLegacy.n = t.store.length ∧ t.collectLegacy.collectLegacy.n = 2 * t.store.length := by
  have key : ∀ u : Value α, u.collectLegacy.n = u.n + u.store.length ∧ u.collectLegacy.store = u.store :=
    fun u => legacy_fold u.store { u with sum := zero }
  have a := key t
  have b := key t.collectLegacy
  constructor
  · rw [a.1, h]; omega
  · rw [b.1, a.1, a.2, h]; omega

/-- … and an all-negative store was reported with maximum 0, which is none of the recorded values -/
theorem c19_legacy_max_not_recorded {K : Type} [Field K] [LinearOrder K] [IsStrictOrderedRing K] [HasSqrt K]
    (t : Value K) (h0 : 0 ≤ t.max) : 0 ≤ t.collectLegacy.max := by
  have : ∀ (xs : List K) (u : Value K), 0 ≤ u.max → 0 ≤ (xs.foldl Value.stepLegacy u).max := by
    intro xs
    induction xs with
    | nil => intro u h; exact h
    | cons x xs ih =>
      intro u h
      simp only [List.foldl_cons]
      apply ih
      simp only [Value.stepLegacy, num_lt, decide_eq_true_eq]
      split
      · next hlt => exact le_of_lt (lt_of_le_of_lt h hlt)
      · exact h
  exact this _ _ h0

end unrepaired

/-! ### Non-vacuity -/

instance : HasSqrt ℚ := ⟨id⟩

example : ∃ t : Value ℚ, t.store ≠ [] ∧ 2 ≤ t.store.length :=
  ⟨{ (Value.new : Value ℚ) with store := [1, 2, 4] }, by simp, by simp⟩

example : ([(2, (1 : ℚ)), (1, 5), (2, 3)] : List (ℕ × ℚ)).Perm [(1, 5), (2, 3), (2, 1)] ∧
    SortedKeys (({} : Stats ℕ ℚ).vals) := by
  constructor
  · decide
  · simp [SortedKeys, keysOf]

example : Interleave [[(1 : ℕ), 2], [3]] [1, 3, 2] := by
  have h0 : Interleave [([] : List ℕ), []] [] := .done _ (by simp)
  have h1 : Interleave [[(2 : ℕ)], []] [2] := .step [] [[]] 2 [] [] h0
  have h2 : Interleave [[(2 : ℕ)], [3]] [3, 2] := .step [[2]] [] 3 [] [2] h1
  exact .step [] [[3]] 1 [2] [3, 2] h2

/-- a schedule of the monitor with two clients (name 0 is the end marker): everything is enabled in
turn, at the end nothing is enabled, every connection was accepted, `Listen` has returned — the
hypotheses of `c19_listen_nothing_stuck` / `c19_listen_reports_all` can be met -/
example : ∃ n', (Net.start ({ global := {} } : Monitor ℕ ℚ) [[⟨1, 5, 0⟩, ⟨0, 0, 0⟩], [⟨1, 7, 2⟩]]).run (· == 0)
      [.accept 0, .accept 1, .write 0, .write 1, .decode 1, .write 0, .hangup 0, .decode 0, .deliver 1,
       .deliver 0, .decode 0, .hangup 1, .eof 1, .eof 0] = some n' ∧
    n'.canMove (· == 0) = false ∧ (∀ c ∈ n'.conns, c.accepted = true) ∧ n'.finished = true := by
  refine ⟨_, rfl, ?_, ?_, ?_⟩ <;> decide

/-- why `c19_listen_reports_all` asks that every connection was accepted: `Listen` returns as soon as
all connections accepted *so far* have gone; a client that comes later is never served, its record
(here the value 7 of connection 1) is in no result set although nothing is enabled any more -/
theorem c19_listen_late_client_not_served :
    ∃ n', (Net.start ({ global := {} } : Monitor ℕ ℚ) [[⟨1, 5, 0⟩], [⟨1, 7, 2⟩]]).run (· == 0)
      [.accept 0, .write 0, .hangup 0, .decode 0, .deliver 0, .eof 0, .write 1, .hangup 1] = some n' ∧
    n'.canMove (· == 0) = false ∧ n'.finished = true ∧
    n'.conns.map (fun c => (c.remaining (· == 0)).length) = [0, 1] := by
  refine ⟨_, rfl, ?_, ?_, ?_⟩ <;> decide

example : rulesMatch [{ low := 2, high := 5 }] 4 = true ∧ rulesMatch [{ low := 2, high := 5 }] 5 = false ∧
    rulesMatch [{ low := -3, high := 5 }] (-1) = false := by decide


/-! ### clients that report through the proxy (`Model/C19Proxy.lean`) -/
section proxy
variable {K : Type} [Field K] [LinearOrder K] [IsStrictOrderedRing K] [HasSqrt K] {κ : Type} [LinearOrder κ]

/-- **c19_proxy_serves_every_client**: while the monitor accepts connections, `serve` as it is relays every client —
none is refused, the endpoint stays in the rotation — however the clients before it ended (orderly or by a reset):
a client's end is its own business -/
theorem c19_proxy_serves_every_client (cs : List (Proxy.Client κ K)) (s : Proxy.St κ K) (ha : s.active = true) :
    (Proxy.run .code s cs).active = true ∧ (Proxy.run .code s cs).refused = s.refused ∧
    (Proxy.run .code s cs).relayed = s.relayed ++ cs.map (·.sent) := by
  induction cs generalizing s with
  | nil => simp [Proxy.run, ha]
  | cons c rest ih =>
    have hs : Proxy.serve .code true s c = { s with relayed := s.relayed ++ [c.sent] } := by
      unfold Proxy.serve; cases h : c.ending <;> simp [ha]
    have := ih (Proxy.serve .code true s c) (by rw [hs]; exact ha)
    simp only [Proxy.run, List.foldl_cons] at this ⊢
    rw [hs] at this ⊢
    simpa [List.append_assoc] using this

/-- **c19_proxy_reports_all**: the statistics of a run whose clients all report through the proxy.  One idle
connection straight to the monitor plus the relayed clients are the monitor's connections; take any schedule of the
monitor until nothing is enabled, every connection accepted: `Listen` has returned and the global result set and
every bucket report what they would report had the records of all clients been fed one after the other — whatever
way each client ended and however the records were spread over the clients -/
theorem c19_proxy_reports_all (isEnd : κ → Bool) (m : Monitor κ K) (hg : SortedKeys m.global.vals)
    (hb : ∀ b ∈ m.buckets, SortedKeys b.stats.vals) (cs : List (Proxy.Client κ K))
    (acts : List Act) (n' : Net κ K)
    (h : (Net.start m ([] :: (Proxy.run .code {} cs).relayed)).run isEnd acts = some n')
    (hq : n'.canMove isEnd = false) (hall : ∀ c ∈ n'.conns, c.accepted = true) :
    n'.finished = true ∧ (Proxy.run .code ({} : Proxy.St κ K) cs).refused = 0 ∧
    n'.mon.global.report =
      ((((cs.map (·.sent)).map (noEnd isEnd)).flatten).foldl Monitor.update m).global.report ∧
    n'.mon.buckets.map (fun b => (b.idx, b.rules, b.stats.report)) =
      ((((cs.map (·.sent)).map (noEnd isEnd)).flatten).foldl Monitor.update m).buckets.map
        (fun b => (b.idx, b.rules, b.stats.report)) := by
  obtain ⟨_, hr, hrel⟩ := c19_proxy_serves_every_client cs ({} : Proxy.St κ K) rfl
  have hrel' : (Proxy.run .code ({} : Proxy.St κ K) cs).relayed = cs.map (·.sent) := by simpa using hrel
  rw [hrel'] at h
  obtain ⟨hf, h1, h2⟩ := c19_listen_reports_all isEnd m hg hb _ acts n' h hq hall
  refine ⟨hf (by simp), by simpa using hr, ?_, ?_⟩
  · simpa [noEnd] using h1
  · simpa [noEnd] using h2

/-- why the copy loop must not take the endpoint out of the rotation: in the variant that does so when
`io.Copy(out, in)` ends with an error, a client that is reset makes the proxy close the next client's connection
at once — what that client records reaches no result set (seeded change C19r6-B) -/
theorem c19_proxy_reset_blocks_next_client_variant :
    let cs : List (Proxy.Client ℕ ℚ) := [⟨[⟨1, 5, 0⟩], .reset⟩, ⟨[⟨2, 7, 1⟩], .orderly⟩]
    (Proxy.run .deactivateOnCopyError {} cs).refused = 1 ∧
    (Proxy.run .deactivateOnCopyError {} cs).relayed.length = 1 ∧
    (Proxy.run .code {} cs).refused = 0 ∧ (Proxy.run .code {} cs).relayed.length = 2 := by
  decide

end proxy

section writeout
variable {α κ : Type} [Num α] [LinearOrder κ]

private theorem zip_flatMap {X A B : Type} (f : X → List A) (g : X → List B) (h : ∀ x, (f x).length = (g x).length) :
    ∀ l : List X, (l.flatMap f).zip (l.flatMap g) = l.flatMap fun x => (f x).zip (g x)
  | [] => rfl
  | x :: l => by
    simp only [List.flatMap_cons]
    rw [List.zip_append (h x), zip_flatMap f g h l]

/-- **c19_columns_aligned** (`Stats.WriteHeader` / `Stats.WriteValues`, stats.go:74-113): for every result set —
any measures, any number of them — the header and a values line have the same number of columns, and column for
column the header names the measure and the statistic (`0 … 4` = `_min _max _avg _sum _dev`) whose value the
values line carries there: both walk `keys` in the same order.  Falsified by a `WriteValues` that walks the map
(`for _, v := range s.values`, as `String()` does), by a different order of the five fields in `HeaderFields` and
`Values`, or by a column left out on one side. -/
theorem c19_columns_aligned (s : Stats κ α) :
    s.headerCols.length = s.valueCols.length ∧
    s.headerCols.zip s.valueCols = s.vals.flatMap fun kv =>
      let v := kv.2.collect
      [((kv.1, 0), v.min), ((kv.1, 1), v.max), ((kv.1, 2), v.newM), ((kv.1, 3), v.sum), ((kv.1, 4), v.dev)] := by
  have hz : s.headerCols.zip s.valueCols = s.vals.flatMap fun kv =>
      let v := kv.2.collect
      [((kv.1, 0), v.min), ((kv.1, 1), v.max), ((kv.1, 2), v.newM), ((kv.1, 3), v.sum), ((kv.1, 4), v.dev)] := by
    simp only [Stats.headerCols, Stats.valueCols, Stats.collect, List.flatMap_map]
    rw [zip_flatMap _ _ (by intro x; simp [Value.values])]
    rfl
  refine ⟨?_, hz⟩
  simp only [Stats.headerCols, Stats.valueCols, Stats.collect, List.flatMap_map, List.length_flatMap]
  simp [Value.values]

/-- the static columns line up as well (the keys of `staticKeys` that have a value, in that order, on both lines) -/
theorem c19_static_columns_aligned (s : Stats κ α) :
    s.staticHeader.zip s.staticValues = s.static ∧ s.staticHeader.length = s.staticValues.length := by
  simp only [Stats.staticHeader, Stats.staticValues, List.length_map, and_true]
  induction s.static with
  | nil => rfl
  | cons a l ih => simp [ih]

/-- **c19_column_order** (`Stats.Update`: `append` + `sort.Strings`): after any sequence of measures the measure
columns appear in strictly ascending name order, one group per name that was recorded — whatever the arrival order.
Falsified by an `Update` that does not re-sort (`keys` in arrival order) or that appends a name twice. -/
theorem c19_column_order (ms : List (κ × α)) :
    (({} : Stats κ α).updates ms).keys.Pairwise (· < ·) ∧
    ∀ k, k ∈ (({} : Stats κ α).updates ms).keys ↔ k ∈ ms.map (·.1) := by
  refine ⟨sorted_updates _ ms (by simp [SortedKeys, keysOf]), fun k => ?_⟩
  have := mem_keys_updates ({} : Stats κ α) ms k
  simpa [Stats.keys, keysOf] using this

/-- **c19_header_fits_same_names**: two result sets in which the same measure names were recorded (in whatever
order, however often, with whatever values) have the same header — so the header `RunTests` writes for run 0
labels the values line of a later run correctly whenever that run recorded the same measures. -/
theorem c19_header_fits_same_names (ms₁ ms₂ : List (κ × α)) (h : ∀ k, k ∈ ms₁.map (·.1) ↔ k ∈ ms₂.map (·.1)) :
    (({} : Stats κ α).updates ms₁).headerCols = (({} : Stats κ α).updates ms₂).headerCols := by
  have h1 := c19_column_order (α := α) ms₁
  have h2 := c19_column_order (α := α) ms₂
  have hk : (({} : Stats κ α).updates ms₁).keys = (({} : Stats κ α).updates ms₂).keys :=
    sorted_ext _ _ h1.1 h2.1 (fun k => by rw [h1.2, h2.2, h])
  have hc : ∀ s : Stats κ α, s.headerCols = s.keys.flatMap fun k => (List.range 5).map fun i => (k, i) := by
    intro s; simp [Stats.headerCols, Stats.keys, keysOf, List.flatMap_map]
  rw [hc, hc, hk]

example : (({} : Stats ℕ ℚ).updates [(2, 1), (1, 5), (2, 3)]).keys = [1, 2] := by decide

variable {S : Type}

/-- **c19_runtests_files** (`simul.RunTests`, build.go:134-181): for every list of runs (each a list of result
sets, or an error), every `-range` and every file index `j`: file `j` receives, in run order, the lines of the
`j`-th result set of every run that is inside the range, did not fail and has a `j`-th result set — nothing else,
nothing twice — and exactly as many files are opened as the widest such run has result sets.  Falsified by
`files[j]` indexed by anything but the bucket index (e.g. a file list that is reset per run, or `append` without
the `j >= len(files)` test), by a range test that is off by one, by a failed run that is written. -/
theorem c19_runtests_files (simRange : List Nat) (runs : List (Option (List S))) (j : Nat) :
    (runTests simRange runs)[j]?.getD [] = specFrom (getStartStop simRange runs.length) j 0 runs ∧
    (runTests simRange runs).length = widthFrom (getStartStop simRange runs.length) 0 runs := by
  unfold runTests
  rw [runTestsFrom_get, runTestsFrom_length]
  simp

def Line.isHeader : Line S → Bool
  | .header _ => true
  | .values _ => false

private theorem specFrom_no_header (ss : Int × Int) (j : Nat) : ∀ (runs : List (Option (List S))) (i : Nat), 0 < i →
    ∀ l ∈ specFrom ss j i runs, l.isHeader = false
  | [], i, _, l, hl => by simp [specFrom] at hl
  | r :: rs, i, hi, l, hl => by
    unfold specFrom at hl
    rw [List.mem_append] at hl
    rcases hl with hl | hl
    · have hne : ¬ i = 0 := by omega
      by_cases hr : inRange ss i
      · cases r with
        | none => simp [hr] at hl
        | some sets =>
          cases hs : sets[j]? with
          | none => simp [hr, hs] at hl
          | some s =>
            simp [hr, hs, runLines, hne] at hl
            subst hl; rfl
      · simp [hr] at hl
    · exact specFrom_no_header ss j rs (i + 1) (by omega) l hl

/-- **c19_runtests_header_once**: in every file a header line can only be the first line written, and it is written
exactly when run 0 is inside the range, did not fail and has that result set: every later line is a values line.
(With `-range 2:3` the files are opened in append mode and get no header: the lines go under the header an earlier
invocation wrote.)  Falsified by `if i == start`, by a header per run, by a header written after the values. -/
theorem c19_runtests_header_once (simRange : List Nat) (r0 : Option (List S)) (rest : List (Option (List S))) (j : Nat) :
    ∃ first, (runTests simRange (r0 :: rest))[j]?.getD [] = first ++ specFrom (getStartStop simRange (r0 :: rest).length) j 1 rest ∧
      (∀ l ∈ specFrom (getStartStop simRange (r0 :: rest).length) j 1 rest, l.isHeader = false) ∧
      first = (if inRange (getStartStop simRange (r0 :: rest).length) 0 then
                 match r0 with
                 | some sets => match sets[j]? with
                   | some s => [Line.header s, Line.values s]
                   | none => []
                 | none => []
               else []) := by
  refine ⟨_, ?_, specFrom_no_header _ j rest 1 (by omega), rfl⟩
  rw [(c19_runtests_files simRange (r0 :: rest) j).1]
  generalize getStartStop simRange (r0 :: rest).length = ss
  show (_ ++ specFrom ss j 1 rest) = _
  congr 1
  cases inRange ss 0 with
  | false => rfl
  | true =>
    cases r0 with
    | none => rfl
    | some sets =>
      simp only [if_true]
      cases hs : sets[j]? with
      | none => simp
      | some v => simp [runLines]

/-- without a range every run is executed; `a:b` executes exactly the runs a..b; `a` only run a; `a:` from a on;
a first field that is no number executes everything (`:4` too) -/
theorem c19_range_none_runs_all (n i : Nat) (h : i < n) : inRange (getStartStop [] n) i = true := by
  simp [getStartStop, splitColon, atoiPair, atoi, inRange]; omega

example : getStartStop [51, 58, 52] 10 = (3, 4) ∧ getStartStop [51] 10 = (3, 3) ∧
    getStartStop [51, 58] 10 = (3, 10) ∧ getStartStop [58, 52] 10 = (0, 9) ∧ getStartStop [] 10 = (0, 9) := by
  decide

/-- a run with one result set after a run with three: the second and third file get the lines of the first run only -/
example : runTests [] [some ["a0", "a1", "a2"], none, some ["c0"]] =
    [[.header "a0", .values "a0", .values "c0"], [.header "a1", .values "a1"], [.header "a2", .values "a2"]] := by
  decide

/-- `-range 1:2`: no header anywhere, the file of a bucket that only run 2 has is opened then -/
example : runTests [49, 58, 50] [some ["a0"], some ["b0"], some ["c0", "c1"], some ["d0"]] =
    [[.values "b0", .values "c0"], [.values "c1"]] := by
  decide

/-- the open mode: a range appends to what an earlier invocation left, no range starts the file anew -/
theorem c19_open_mode {X : Type} (old new : List X) (r : List Nat) :
    fileAfter [] old new = new ∧ (r ≠ [] → fileAfter r old new = old ++ new) := by
  refine ⟨rfl, fun h => ?_⟩
  cases r with
  | nil => exact absurd rfl h
  | cons a l => rfl

end writeout

/-! ### the code regions the model stands for
Regenerated from /repo's source on every run (`harness/cmd/astfacts` → `OnetVerif/Shapes.lean`): the
calls that matter for synchronisation and data flow, the lock regions and (for decision logic) the
conditions, in source order.  A re-ordering, a dropped call or a changed condition breaks these
obligations even when no sampled input or schedule shows a difference; the check then searches for
a failing input. -/
theorem c19_shape_monitor_stats_Value_Store :
    Shapes.simul_monitor_stats_Value_Store =
   ["t.Lock", "defer:t.Unlock"] := rfl

theorem c19_shape_monitor_stats_Value_Collect :
    Shapes.simul_monitor_stats_Value_Collect =
   ["t.Lock", "defer:t.Unlock", "if:((t.min>newTime)||(t.n==0))",
     "if:((t.max<newTime)||(t.n==0))", "if:(t.n==1)", "else", "float64", "float64", "math.Sqrt"] := rfl

theorem c19_shape_monitor_stats_AverageValue :
    Shapes.simul_monitor_stats_AverageValue =
   ["if:(len(st)<1)", "return:new(Value)", "if:(s.name!=name)", "return:new(Value)", "s.Lock",
     "s.Unlock", "return:&t"] := rfl

theorem c19_shape_monitor_stats_AverageStats :
    Shapes.simul_monitor_stats_AverageStats =
   ["new().init", "stats[].Lock", "stats[].Unlock", "stat.Lock", "stat.Unlock", "stat.Unlock",
     "AverageValue"] := rfl

theorem c19_shape_monitor_stats_Stats_Update :
    Shapes.simul_monitor_stats_Stats_Update =
   ["s.Lock", "defer:s.Unlock", "NewValue", "sort.Strings", "value.Store"] := rfl

theorem c19_shape_monitor_stats_Stats_Collect :
    Shapes.simul_monitor_stats_Stats_Collect =
   ["s.Lock", "defer:s.Unlock", "v.Filter", "v.Collect"] := rfl

theorem c19_shape_monitor_stats_Stats_WriteValues :
    Shapes.simul_monitor_stats_Stats_WriteValues =
   ["s.Collect", "s.Lock", "defer:s.Unlock", "v.Values"] := rfl

theorem c19_shape_monitor_bucket_stats_BucketStats_Set :
    Shapes.simul_monitor_bucket_stats_BucketStats_Set =
   ["newBucketRule"] := rfl

theorem c19_shape_monitor_bucket_stats_BucketStats_Get :
    Shapes.simul_monitor_bucket_stats_BucketStats_Get =
   ["s.Collect"] := rfl

theorem c19_shape_monitor_bucket_stats_BucketStats_Update :
    Shapes.simul_monitor_bucket_stats_BucketStats_Update =
   ["rr.Match", "buckets[].Update"] := rfl

theorem c19_shape_monitor_bucket_stats_bucketRule_Match :
    Shapes.simul_monitor_bucket_stats_bucketRule_Match =
   ["return:((index>=r.low)&&(index<r.high))"] := rfl

theorem c19_shape_monitor_monitor_NewMonitor :
    Shapes.simul_monitor_monitor_NewMonitor =
   ["newBucketStats", "verifNewMonitor"] := rfl

theorem c19_shape_monitor_monitor_Monitor_Listen :
    Shapes.simul_monitor_monitor_Monitor_Listen =
   ["strconv.Itoa", "net.Listen", "ln.Addr", "Addr().String", "net.SplitHostPort",
     "send:sinkPortChan", "listenerLock.Lock", "listenerLock.Unlock", "go{", "ln.Accept",
     "mutexConn.Lock", "conn.RemoteAddr", "RemoteAddr().String", "go{", "m.handleConnection",
     "}", "mutexConn.Unlock", "}", "recv:measures", "m.update", "recv:done", "mutexConn.Lock",
     "listenerLock.Lock", "listener.Close", "listenerLock.Unlock", "mutexConn.Unlock",
     "mutexConn.Lock", "mutexConn.Unlock"] := rfl

theorem c19_shape_monitor_monitor_Monitor_handleConnection :
    Shapes.simul_monitor_monitor_Monitor_handleConnection =
   ["json.NewDecoder", "dec.Decode", "send:measures", "send:done", "conn.RemoteAddr",
     "RemoteAddr().String"] := rfl

theorem c19_shape_monitor_monitor_Monitor_update :
    Shapes.simul_monitor_monitor_Monitor_update =
   ["stats.Update", "buckets.Update"] := rfl

theorem c19_shape_monitor_measure_NewTimeMeasure :
    Shapes.simul_monitor_measure_NewTimeMeasure =
   ["NewTimeMeasureWithHost"] := rfl

theorem c19_shape_monitor_measure_NewTimeMeasureWithHost :
    Shapes.simul_monitor_measure_NewTimeMeasureWithHost =
   ["tm.reset"] := rfl

theorem c19_shape_monitor_measure_TimeMeasure_Record :
    Shapes.simul_monitor_measure_TimeMeasure_Record =
   ["time.Since", "float64", "newSingleMeasureWithHost", "getDiffRTime", "Wall.Record",
     "CPU.Record", "User.Record", "tm.reset"] := rfl

theorem c19_shape_monitor_measure_TimeMeasure_reset :
    Shapes.simul_monitor_measure_TimeMeasure_reset =
   ["getRTime", "newSingleMeasureWithHost", "newSingleMeasureWithHost", "time.Now"] := rfl

theorem c19_shape_monitor_measure_NewCounterIOMeasure :
    Shapes.simul_monitor_measure_NewCounterIOMeasure =
   ["NewCounterIOMeasureWithHost"] := rfl

theorem c19_shape_monitor_measure_NewCounterIOMeasureWithHost :
    Shapes.simul_monitor_measure_NewCounterIOMeasureWithHost =
   ["counter.Tx", "counter.Rx", "counter.MsgTx", "counter.MsgRx"] := rfl

theorem c19_shape_monitor_measure_CounterIOMeasure_Record :
    Shapes.simul_monitor_measure_CounterIOMeasure_Record =
   ["counter.Rx", "float64", "newSingleMeasureWithHost", "counter.Tx", "float64",
     "newSingleMeasureWithHost", "counter.MsgRx", "float64", "newSingleMeasureWithHost",
     "counter.MsgTx", "float64", "newSingleMeasureWithHost", "read.Record", "written.Record",
     "readMsg.Record", "writtenMsg.Record"] := rfl

theorem c19_shape_monitor_measure_RecordSingleMeasureWithHost :
    Shapes.simul_monitor_measure_RecordSingleMeasureWithHost =
   ["newSingleMeasureWithHost", "sm.Record"] := rfl

theorem c19_shape_monitor_measure_newSingleMeasureWithHost :
    Shapes.simul_monitor_measure_newSingleMeasureWithHost =
   [] := rfl

theorem c19_shape_monitor_measure_singleMeasure_Record :
    Shapes.simul_monitor_measure_singleMeasure_Record =
   ["send"] := rfl

theorem c19_shape_monitor_monitor_Monitor_InsertBucket :
    Shapes.simul_monitor_monitor_Monitor_InsertBucket =
   ["buckets.Set"] := rfl

theorem c19_shape_monitor_bucket_stats_bucketRules_Match :
    Shapes.simul_monitor_bucket_stats_bucketRules_Match =
   ["if:(host<0)", "return:false", "if:rule.Match(host)", "return:true", "return:false"] := rfl

theorem c19_shape_monitor_bucket_stats_newBucketRule :
    Shapes.simul_monitor_bucket_stats_newBucketRule =
   ["if:(len(parts)!=2)", "return:", "strconv.Atoi", "if:(err!=nil)", "return:", "strconv.Atoi",
     "if:(err!=nil)", "return:", "return:"] := rfl

theorem c19_shape_monitor_measure_ConnectSink :
    Shapes.simul_monitor_measure_ConnectSink =
   ["global.Lock", "defer:global.Unlock", "net.Dial", "json.NewEncoder"] := rfl

theorem c19_shape_monitor_measure_send :
    Shapes.simul_monitor_measure_send =
   ["global.Lock", "defer:global.Unlock", "if:(global.connection==nil)",
     "return:xerrors.New(\"\")", "encoder.Encode", "if:(err==nil)", "time.Duration",
     "time.Sleep", "if:!ok", "return:xerrors.New(\"\")", "return:nil"] := rfl

theorem c19_shape_monitor_measure_EndAndCleanup :
    Shapes.simul_monitor_measure_EndAndCleanup =
   ["newSingleMeasure", "send", "global.Lock", "defer:global.Unlock", "connection.Close"] := rfl

theorem c19_shape_monitor_measure_RecordSingleMeasure :
    Shapes.simul_monitor_measure_RecordSingleMeasure =
   ["RecordSingleMeasureWithHost"] := rfl

theorem c19_shape_monitor_measure_newSingleMeasure :
    Shapes.simul_monitor_measure_newSingleMeasure =
   ["newSingleMeasureWithHost"] := rfl

theorem c19_shape_build_RunTest :
    Shapes.simul_build_RunTest =
   ["CheckHosts", "rc.Delete", "rc.Map", "monitor.NewStats",
     "assign:stats:=conv{monitor.NewStats(rc.Map(),\"\",\"\")}", "deployP.Cleanup",
     "assign:err:=deployP.Cleanup()", "if:(err!=nil)", "return:nil,xerrors.Errorf(\"\",err)",
     "deployP.Deploy", "assign:err:=deployP.Deploy(rc)", "if:(err!=nil)",
     "return:nil,xerrors.Errorf(\"\",err)", "monitor.NewMonitor",
     "assign:m:=monitor.NewMonitor(stats[0])", "uint16", "assign:m.SinkPort=uint16(monitorPort)",
     "defer:m.Stop", "rc.GetBuckets", "assign:buckets,err:=rc.GetBuckets()", "if:(err!=nil)",
     "if:(err!=platform.ErrorFieldNotPresent)", "return:nil,xerrors.Errorf(\"\",err)", "else",
     "range:i,rules:=buckets{", "rc.Map", "monitor.NewStats",
     "assign:bs:=monitor.NewStats(rc.Map(),\"\",\"\")", "assign:stats=append(stats,bs)",
     "m.InsertBucket", "}", "assign:done:=make(conv)", "assign:monitorDone:=make(conv)", "go{",
     "m.Listen", "assign:err:=m.Listen()", "if:(err!=nil)", "close:monitorDone", "}", "go{",
     "deployP.Start", "assign:err:=deployP.Start()", "if:(err!=nil)", "send:done", "return:",
     "deployP.Wait", "assign:err=deployP.Wait()", "if:(err!=nil)", "deployP.Cleanup",
     "assign:err:=deployP.Cleanup()", "if:(err!=nil)", "send:done", "return:",
     "recv:monitorDone", "send:done", "}", "getRunWait", "assign:timeout,err:=getRunWait(rc)",
     "if:(err!=nil)", "recv:done", "assign:err:=<-done", "if:(err!=nil)",
     "return:nil,xerrors.Errorf(\"\",err)", "return:stats,nil", "recv:After()", "time.After",
     "return:nil,xerrors.New(\"\")"] := rfl

theorem c19_shape_monitor_tcpproxy_TCPProxy_serve :
    Shapes.simul_monitor_tcpproxy_TCPProxy_serve =
   ["for:{", "mu.Lock", "tp.pick", "assign:remote:=tp.pick()", "mu.Unlock", "if:(remote==nil)",
     "break", "net.Dial", "assign:out,err=net.Dial(\"\",remote.addr)", "if:(err==nil)", "break",
     "remote.inactivate", "}", "if:(out==nil)", "in.Close", "return:", "go{", "io.Copy",
     "in.Close", "out.Close", "}", "io.Copy", "out.Close", "in.Close"] := rfl

theorem c19_shape_monitor_tcpproxy_remote_inactivate :
    Shapes.simul_monitor_tcpproxy_remote_inactivate =
   ["mu.Lock", "defer:mu.Unlock", "assign:r.inactive=true"] := rfl

theorem c19_shape_monitor_tcpproxy_remote_tryReactivate :
    Shapes.simul_monitor_tcpproxy_remote_tryReactivate =
   ["net.Dial", "assign:conn,err:=net.Dial(\"\",r.addr)", "if:(err!=nil)",
     "return:xerrors.Errorf(\"\",err)", "conn.Close", "mu.Lock", "defer:mu.Unlock",
     "assign:r.inactive=false", "return:nil"] := rfl

theorem c19_shape_monitor_proxy_NewProxy :
    Shapes.simul_monitor_proxy_NewProxy =
   ["net.Listen", "assign:ln,err:=net.Listen(\"\",fmt.Sprintf(\"\",addr,listenPort))",
     "if:(err!=nil)", "return:nil,xerrors.Errorf(\"\",err)", "assign:e:=make(conv,1)",
     "assign:e[0]=new(net.SRV)", "assign:e[0].Target=\"\"", "assign:e[0].Port=toPort",
     "return:&TCPProxy{Listener:ln,Endpoints:e},nil"] := rfl


end C19
