import OnetVerif.Model.C08
import OnetVerif.Gen.C08
/-! Property C08 — decisions regenerated from the Go source (`Gen/C08.lean`, written by `harness/cmd/go2lean` on every
check run from `network/tls.go`).  `NewTLSConn` dials a socket and `pubFromCN` calls into kyber; their **decisions** are
lifted out as predicates over the variables they read (`"extract"` in `meta/go2lean.json`): the condition of the
dialler's retry loop, the test that decides whether it waits before the next attempt, the test for an empty common
name.  Nothing imports this file. -/
namespace C08

/-- the three conditions as read from the source -/
theorem c08_gen_conditions (i max : Int) (cn : List Nat) :
    Gen.C08.NewTLSConn_moreAttempts i max = decide (i ≤ max) ∧
    Gen.C08.NewTLSConn_waitsBeforeRetry i max = decide (i < max) ∧
    Gen.C08.pubFromCN_empty cn = decide (cn.length < 1) := by
  refine ⟨rfl, rfl, ?_⟩
  simp only [Gen.C08.pubFromCN_empty, Gen.Rt.len, Int.ofNat_eq_natCast]
  by_cases h : cn.length < 1
  · have : (cn.length : Int) < 1 := by omega
    simp [h, this]
  · have : ¬ (cn.length : Int) < 1 := by omega
    simp [h, this]

/-- **the model's retry loop is the translated one**: `for i := 1; i <= MaxRetryConnect; i++` makes attempt number
`j + 1` exactly when the translated loop condition holds for it — the attempts the model's `newTLSConn` looks at
(`attempts.take maxRetry`) are those and no others, and after the last one the loop does not wait again.
(Falsified by: `<` instead of `<=`, a loop that starts at 0, a retry bound read from elsewhere.) -/
theorem c08_gen_retry_loop (maxRetry : Nat) (attempts : List (Option (List Cert))) (j : Nat) :
    (attempts.take maxRetry)[j]? =
      (if Gen.C08.NewTLSConn_moreAttempts ((j : Int) + 1) (maxRetry : Int) then attempts[j]? else none) ∧
    Gen.C08.NewTLSConn_waitsBeforeRetry (maxRetry : Int) (maxRetry : Int) = false := by
  constructor
  · simp only [Gen.C08.NewTLSConn_moreAttempts, List.getElem?_take]
    by_cases h : j < maxRetry
    · have : ((j : Int) + 1) ≤ (maxRetry : Int) := by omega
      simp [h, this]
    · have : ¬ ((j : Int) + 1) ≤ (maxRetry : Int) := by omega
      simp [h, this]
  · simp [Gen.C08.NewTLSConn_waitsBeforeRetry]

/-- **the empty-name test of the byte-level model is the translated one**: `pubFromCN` answers "missing a type byte"
exactly for the names the translated test selects, under every group -/
theorem c08_gen_empty_name {P : Type} (g : NameBytes.Group P) (cn : List Nat) :
    (NameBytes.pubFromCN g cn = .error .empty) ↔ Gen.C08.pubFromCN_empty cn = true := by
  rw [(c08_gen_conditions 0 0 cn).2.2]
  cases cn with
  | nil => simp [NameBytes.pubFromCN]
  | cons c rest =>
    simp only [List.length_cons, decide_eq_true_eq]
    constructor
    · intro h
      simp only [NameBytes.pubFromCN] at h
      split at h
      · split at h
        · cases h
        · split at h
          · cases h
          · split at h <;> cases h
      · split at h
        · cases h
        · split at h
          · cases h
          · split at h <;> cases h
    · intro h; omega

/-- **the nonce-size test** (`certMaker.get`, tls.go:127): the certificate maker refuses exactly the strings that are not
`nonceSize = 256 / 8 = 32` bytes long — the `Nonce.badSize` of the symbolic model (`certFor … .badSize = none`); what
`mkNonce` draws, a `[nonceSize]byte`, always passes.  (Falsified by: a test `<` instead of `!=`, another constant on one
of the two sides.) -/
theorem c08_gen_nonce_size (nonce : List Nat) :
    Gen.C08.nonceSize = 32 ∧ (Gen.C08.certMaker_get_badNonce nonce = true ↔ nonce.length ≠ 32) := by
  refine ⟨rfl, ?_⟩
  simp only [Gen.C08.certMaker_get_badNonce, Gen.Rt.len, Gen.C08.nonceSize, Int.ofNat_eq_natCast]
  by_cases h : nonce.length = 32
  · simp [h]
  · have : ¬ ((nonce.length : Int) = 32) := by omega
    simp [h, this]
end C08
