import OnetVerif.Model.C04
import OnetVerif.Gen.C04
/-! Property C04 — the definitions regenerated from the Go source (`Gen/C04.lean`, written by `harness/cmd/go2lean`
on every check run from `treenode.go`): the constant `AggregateMessages`, the field `messageTypeFlags` of
`TreeNodeInstance` (a Go map from message type to `uint32`: `Gen.Rt.Map`) and `hasFlag`.  The model keeps the
flag table as `Reg.flags : Nat → Bool` ("is `AggregateMessages` set for this message type").  `flagsOf` reads
the translated table that way; the theorems say that the translated `hasFlag(mt, AggregateMessages)` *is* that
reading, and that the two writes the registration functions perform (`flags := uint32(0)`, `flags +=
AggregateMessages` for the slice form, `messageTypeFlags[typ] = flags`) change it exactly as `registerHandler` /
`registerChanValue` change `Reg.flags`.  Nothing imports this file. -/
set_option linter.unusedSimpArgs false
namespace C04

/-- the translated flag table read as the model's -/
def flagsOf (m : Gen.Rt.Map Nat Nat) : Nat → Bool := fun t => Nat.land (Gen.Rt.Map.get m t 0) 1 != 0

/-- the constant as read from the source -/
theorem c04_gen_AggregateMessages : Gen.C04.AggregateMessages = 1 := rfl

/-- **`hasFlag(mt, AggregateMessages)` as translated is the model's flag of `mt`** -/
theorem c04_gen_hasFlag_eq (n : Gen.C04.TreeNodeInstance) (mt : Nat) :
    Gen.C04.TreeNodeInstance_hasFlag n mt (Int.toNat Gen.C04.AggregateMessages) = flagsOf n.messageTypeFlags mt := rfl

/-- `hasFlag` for any flag word: the bit-wise "and" of the stored word (0 for a message type never registered)
with the flag is not zero -/
theorem c04_gen_hasFlag_spec (n : Gen.C04.TreeNodeInstance) (mt f : Nat) :
    Gen.C04.TreeNodeInstance_hasFlag n mt f = (Nat.land ((Gen.Rt.Map.find n.messageTypeFlags mt).getD 0) f != 0) := rfl

/-- the word the registration functions store: `flags := uint32(0)`, plus `AggregateMessages` for the slice form -/
def flagWord (f : Form) : Nat := if f == .slice then 0 + Int.toNat Gen.C04.AggregateMessages else 0

/-- **the write `messageTypeFlags[typ] = flags` as the model's update of `Reg.flags`**: after storing the word of
form `f` under `mt` (in a table that is not the nil map — `newTreeNodeInstance` makes it), `hasFlag` answers
"slice form" for `mt` and what it answered before for every other message type — the update `registerHandler`
and `registerChanValue` apply to `Reg.flags` -/
theorem c04_gen_flag_write (m : Gen.Rt.Map Nat Nat) (hm : m.isSome) (mt : Nat) (f : Form) :
    ∃ m', Gen.Rt.Map.insert? m mt (flagWord f) = some m' ∧
      flagsOf m' = fun t => if t = mt then f == .slice else flagsOf m t := by
  cases m with
  | none => simp at hm
  | some l =>
    refine ⟨_, rfl, ?_⟩
    funext t
    by_cases h : t = mt
    · subst h
      cases f <;> simp [flagsOf, Gen.Rt.Map.get, Gen.Rt.Map.find, List.lookup, flagWord, Gen.C04.AggregateMessages]
    · have : (t == mt) = false := by simp [h]
      simp [flagsOf, Gen.Rt.Map.get, Gen.Rt.Map.find, List.lookup, this, h]

/-- a table nobody wrote to answers "not aggregated" everywhere, like `Reg.empty` -/
theorem c04_gen_flags_empty : flagsOf (some []) = Reg.empty.flags := by
  funext t; simp [flagsOf, Gen.Rt.Map.get, Gen.Rt.Map.find, Reg.empty]

/-! ### `aggregate` -/

/-- a translated message read as the model's: its type, its sender (`none` = the node's parent `pid`), and — the
translated struct keeps no payload — the sender id again as the payload tag -/
def msgOf (pid : Nat) (pm : Gen.C04.ProtocolMsg) : Msg :=
  { ty := pm.MsgType, src := if pm.From.TreeNodeID == pid then none else some pm.From.TreeNodeID,
    val := pm.From.TreeNodeID }

/-- the translated queues read as the model's (an absent entry is the empty queue) -/
def queuesOf (pid : Nat) (q : Gen.Rt.Map Nat (List Gen.C04.ProtocolMsg)) : Queues :=
  fun t => (Gen.Rt.Map.get q t []).map (msgOf pid)

/-- what the instance knows, read off the translated instance and the three accessors -/
def cfgOf (n : Gen.C04.TreeNodeInstance) (root : Bool) (kids : List Gen.C04.TreeNode) : Cfg :=
  { isRoot := root, nChildren := kids.length, agg := flagsOf n.messageTypeFlags }

private theorem get_insert (l : List (Nat × List Gen.C04.ProtocolMsg)) (k : Nat) (v : List Gen.C04.ProtocolMsg) (t : Nat) :
    Gen.Rt.Map.get (some ((k, v) :: l)) t [] = if t = k then v else Gen.Rt.Map.get (some l) t [] := by
  by_cases h : t = k
  · subst h; simp [Gen.Rt.Map.get, Gen.Rt.Map.find, List.lookup]
  · have : (t == k) = false := by simp [h]
    simp [Gen.Rt.Map.get, Gen.Rt.Map.find, List.lookup, this, h]

private theorem get_erase (l : List (Nat × List Gen.C04.ProtocolMsg)) (k t : Nat) :
    Gen.Rt.Map.get (Gen.Rt.Map.erase (some l) k) t [] = if t = k then [] else Gen.Rt.Map.get (some l) t [] := by
  simp only [Gen.Rt.Map.get, Gen.Rt.Map.find, Gen.Rt.Map.erase, Option.map_some, Option.getD_some]
  induction l with
  | nil => simp [List.lookup]
  | cons p rest ih =>
    obtain ⟨k', v'⟩ := p
    by_cases hk : k' = k
    · subst hk
      by_cases ht : t = k'
      · subst ht; simpa [List.filter_cons, List.lookup] using ih
      · have : (t == k') = false := by simp [ht]
        simpa [List.filter_cons, List.lookup, this, ht] using ih
    · have hk' : (k' == k) = false := by simp [hk]
      by_cases ht : t = k'
      · subst ht; simp [List.filter_cons, List.lookup, hk', hk]
      · have : (t == k') = false := by simp [ht]
        simp only [List.filter_cons, hk', Bool.not_false, if_true, List.lookup, this]
        exact ih

/-- **`aggregate` as translated is the model's `aggregate`.**  For an instance whose queue table is not the nil map
(`newTreeNodeInstance` makes it), whatever `IsRoot()`, `Parent()` and `Children()` answer (they do not look at the
queues): the call does not panic; it returns the message's type; the flag says whether a batch is due and the batch,
read as model messages, is the model's; the queues afterwards, read as the model's, are the model's. -/
theorem c04_gen_aggregate_eq (n : Gen.C04.TreeNodeInstance) (hq : n.msgQueue.isSome) (pm : Gen.C04.ProtocolMsg)
    (root : Bool) (par : Gen.C04.TreeNode) (kids : List Gen.C04.TreeNode) :
    ∃ msgs due n', Gen.C04.TreeNodeInstance_aggregate n pm (fun _ => root) (fun _ => par) (fun _ => kids) =
        some (pm.MsgType, msgs, due, n') ∧
      n'.messageTypeFlags = n.messageTypeFlags ∧
      queuesOf par.ID n'.msgQueue = (aggregate (cfgOf n root kids) (queuesOf par.ID n.msgQueue) (msgOf par.ID pm)).1 ∧
      (if due then some (msgs.map (msgOf par.ID)) else none) =
        (aggregate (cfgOf n root kids) (queuesOf par.ID n.msgQueue) (msgOf par.ID pm)).2 := by
  obtain ⟨fl, q⟩ := n
  cases q with
  | none => simp at hq
  | some l =>
    have hfp : fromParent (cfgOf ⟨fl, some l⟩ root kids) (msgOf par.ID pm) =
        (!root && (pm.From.TreeNodeID == par.ID)) := by
      simp only [fromParent, cfgOf, msgOf]
      cases h : (pm.From.TreeNodeID == par.ID) <;> simp [h]
    have hflag : Gen.C04.TreeNodeInstance_hasFlag ⟨fl, some l⟩ pm.MsgType 1 = flagsOf fl pm.MsgType := rfl
    have hbyp0 : bypass (cfgOf ⟨fl, some l⟩ root kids) (msgOf par.ID pm) =
        ((!root && (pm.From.TreeNodeID == par.ID)) || !flagsOf fl pm.MsgType) := by
      simp only [bypass, hfp]; rfl
    unfold Gen.C04.TreeNodeInstance_aggregate
    simp only [hflag]
    by_cases hb : ((!root && (pm.From.TreeNodeID == par.ID)) || !flagsOf fl pm.MsgType) = true
    · -- the message skips the queue
      rw [hb] at hbyp0
      refine ⟨[pm], true, ⟨fl, some l⟩, ?_, rfl, ?_, ?_⟩
      · simp only [hb, if_true]
      · simp only [aggregate, hbyp0, if_true]
      · simp only [aggregate, hbyp0, if_true, List.map]
    · have hb' : ((!root && (pm.From.TreeNodeID == par.ID)) || !flagsOf fl pm.MsgType) = false := by
        simpa using hb
      have hbyp : bypass (cfgOf ⟨fl, some l⟩ root kids) (msgOf par.ID pm) = false := by rw [hbyp0, hb']
      simp only [hb', Bool.false_eq_true, if_false]
      have harith : ∀ a b : Nat, (((a : Int) + 1) == (b : Int)) = decide (a + 1 = b) := by
        intro a b
        by_cases h : a + 1 = b
        · subst h; simp
        · have h' : ¬ ((a : Int) + 1 = (b : Int)) := by omega
          simp [h, h']
      -- the second half, for the table `l'` the first half leaves (same entries as `l` as far as `get` can tell)
      have tail : ∀ l' : List (Nat × List Gen.C04.ProtocolMsg),
          (∀ t, Gen.Rt.Map.get (some l') t [] = Gen.Rt.Map.get (some l) t []) →
          ∃ msgs due n',
            (if (Gen.Rt.len (Gen.Rt.Map.get (some l') pm.MsgType [] ++ [pm]) == Gen.Rt.len kids) = true then
              some (pm.MsgType, Gen.Rt.Map.get (some l') pm.MsgType [] ++ [pm], true,
                ({ messageTypeFlags := fl, msgQueue := Gen.Rt.Map.erase
                    (some ((pm.MsgType, Gen.Rt.Map.get (some l') pm.MsgType [] ++ [pm]) :: l')) pm.MsgType } :
                  Gen.C04.TreeNodeInstance))
            else some (pm.MsgType, [], false,
                ({ messageTypeFlags := fl, msgQueue :=
                    some ((pm.MsgType, Gen.Rt.Map.get (some l') pm.MsgType [] ++ [pm]) :: l') } :
                  Gen.C04.TreeNodeInstance))) = some (pm.MsgType, msgs, due, n') ∧
            n'.messageTypeFlags = fl ∧
            queuesOf par.ID n'.msgQueue =
              (aggregate (cfgOf ⟨fl, some l⟩ root kids) (queuesOf par.ID (some l)) (msgOf par.ID pm)).1 ∧
            (if due then some (msgs.map (msgOf par.ID)) else none) =
              (aggregate (cfgOf ⟨fl, some l⟩ root kids) (queuesOf par.ID (some l)) (msgOf par.ID pm)).2 := by
        intro l' hget
        have hlen : (Gen.Rt.len (Gen.Rt.Map.get (some l') pm.MsgType [] ++ [pm]) == Gen.Rt.len kids) =
            decide ((queuesOf par.ID (some l) (msgOf par.ID pm).ty ++ [msgOf par.ID pm]).length = kids.length) := by
          simp [Gen.Rt.len, queuesOf, msgOf, hget, harith]
        have hn : (cfgOf ⟨fl, some l⟩ root kids).nChildren = kids.length := rfl
        have hty : (msgOf par.ID pm).ty = pm.MsgType := rfl
        by_cases hd : (queuesOf par.ID (some l) (msgOf par.ID pm).ty ++ [msgOf par.ID pm]).length = kids.length
        · simp only [hlen, hd, decide_true, if_true]
          refine ⟨_, true, _, rfl, rfl, ?_, ?_⟩
          · simp only [aggregate, hbyp, Bool.false_eq_true, if_false, hn, hd, if_true]
            funext t
            simp only [queuesOf, get_erase, hty]
            by_cases ht : t = pm.MsgType
            · simp [ht]
            · simp [ht, get_insert, hget]
          · simp only [aggregate, hbyp, Bool.false_eq_true, if_false, hn, hd, if_true]
            simp [queuesOf, hget, hty]
        · simp only [hlen, hd, decide_false, Bool.false_eq_true, if_false]
          refine ⟨_, false, _, rfl, rfl, ?_, ?_⟩
          · simp only [aggregate, hbyp, Bool.false_eq_true, if_false, hn, hd]
            funext t
            simp only [queuesOf, get_insert, hty]
            by_cases ht : t = pm.MsgType
            · simp [ht, hget]
            · simp [ht, hget]
          · simp only [aggregate, hbyp, Bool.false_eq_true, if_false, hn, hd]
      rcases Option.eq_none_or_eq_some (Gen.Rt.Map.find (some l) pm.MsgType) with h | ⟨v, h⟩
      · -- no entry yet: `n.msgQueue[mt] = make([]*ProtocolMsg, 0)`
        simp only [h, Option.isSome_none, Bool.not_false, if_true, Gen.Rt.Map.insert?]
        refine tail ((pm.MsgType, []) :: l) (fun t => ?_)
        rw [get_insert]
        by_cases ht : t = pm.MsgType
        · subst ht; simp [Gen.Rt.Map.get, h]
        · simp [ht]
      · simp only [h, Option.isSome_some, Bool.not_true, Bool.false_eq_true, if_false, Gen.Rt.Map.insert?]
        exact tail l (fun _ => rfl)
end C04
