import OnetVerif.Model.C04
import OnetVerif.Gen.C04
/-! Property C04 — the definitions regenerated from the Go source (`Gen/C04.lean`, written by `harness/cmd/go2lean`
on every check run from `treenode.go`): the constant `AggregateMessages`, the field `messageTypeFlags` of
`TreeNodeInstance` (a Go map from message type to `uint32`: `Gen.Rt.Map`) and `hasFlag`.  The model keeps the
flag table as `Reg.flags : Nat → Bool` ("is `AggregateMessages` set for this message type").  `flagsOf` reads
the translated table that way; the theorems say that the translated `hasFlag(mt, AggregateMessages)` *is* that
reading, and that the two writes the registration functions perform (`flags := uint32(0)`, `flags +=
AggregateMessages` for the slice form, `messageTypeFlags[typ] = flags`) change it exactly as `registerHandler` /
`registerChanValue` change `Reg.flags`.  Nothing imports this file. -/
set_option linter.unusedSimpArgs false
namespace C04

/-- the translated flag table read as the model's -/
def flagsOf (m : Gen.Rt.Map Nat Nat) : Nat → Bool := fun t => Nat.land (Gen.Rt.Map.get m t 0) 1 != 0

/-- the constant as read from the source -/
theorem c04_gen_AggregateMessages : Gen.C04.AggregateMessages = 1 := rfl

/-- **`hasFlag(mt, AggregateMessages)` as translated is the model's flag of `mt`** -/
theorem c04_gen_hasFlag_eq (n : Gen.C04.TreeNodeInstance) (mt : Nat) :
    Gen.C04.TreeNodeInstance_hasFlag n mt (Int.toNat Gen.C04.AggregateMessages) = flagsOf n.messageTypeFlags mt := rfl

/-- `hasFlag` for any flag word: the bit-wise "and" of the stored word (0 for a message type never registered)
with the flag is not zero -/
theorem c04_gen_hasFlag_spec (n : Gen.C04.TreeNodeInstance) (mt f : Nat) :
    Gen.C04.TreeNodeInstance_hasFlag n mt f = (Nat.land ((Gen.Rt.Map.find n.messageTypeFlags mt).getD 0) f != 0) := rfl

/-- the word the registration functions store: `flags := uint32(0)`, plus `AggregateMessages` for the slice form -/
def flagWord (f : Form) : Nat := if f == .slice then 0 + Int.toNat Gen.C04.AggregateMessages else 0

/-- **the write `messageTypeFlags[typ] = flags` as the model's update of `Reg.flags`**: after storing the word of
form `f` under `mt` (in a table that is not the nil map — `newTreeNodeInstance` makes it), `hasFlag` answers
"slice form" for `mt` and what it answered before for every other message type — the update `registerHandler`
and `registerChanValue` apply to `Reg.flags` -/
theorem c04_gen_flag_write (m : Gen.Rt.Map Nat Nat) (hm : m.isSome) (mt : Nat) (f : Form) :
    ∃ m', Gen.Rt.Map.insert? m mt (flagWord f) = some m' ∧
      flagsOf m' = fun t => if t = mt then f == .slice else flagsOf m t := by
  cases m with
  | none => simp at hm
  | some l =>
    refine ⟨_, rfl, ?_⟩
    funext t
    by_cases h : t = mt
    · subst h
      cases f <;> simp [flagsOf, Gen.Rt.Map.get, Gen.Rt.Map.find, List.lookup, flagWord, Gen.C04.AggregateMessages]
    · have : (t == mt) = false := by simp [h]
      simp [flagsOf, Gen.Rt.Map.get, Gen.Rt.Map.find, List.lookup, this, h]

/-- a table nobody wrote to answers "not aggregated" everywhere, like `Reg.empty` -/
theorem c04_gen_flags_empty : flagsOf (some []) = Reg.empty.flags := by
  funext t; simp [flagsOf, Gen.Rt.Map.get, Gen.Rt.Map.find, Reg.empty]
end C04
