import OnetVerif.Model.C18
import OnetVerif.Gen.C18
/-! Property C18 — the four per-service-key accessors of `network/struct.go` as regenerated from the Go source
(`Gen/C18.lean`, written by `harness/cmd/go2lean` on every check run) equal the hand-written model
(`ServerId.servicePublic` … in `Model/C18.lean`), so `c18_accessor_entry`, `c18_accessor_absent`,
`c18_accessor_order_independent` and `c18_service_keys_from_file` are statements about what the code says now.
A `kyber.Point` / `kyber.Scalar` is `Option Bytes` in the translation (`nil` = `none`); identities made by the readers
carry a public key and, in every service entry, both keys (`Gen.C18.WF`).  Nothing imports this file. -/
namespace C18

/-- the translated identity read as the model's -/
def SvcId.ofGen (s : Gen.C18.ServiceIdentity) : SvcId :=
  { name := s.Name, suite := [], pub := s.Public.getD [], priv := s.«private».getD [] }

def ServerId.ofGen (si : Gen.C18.ServerIdentity) : ServerId :=
  { pub := si.Public.getD [], ptype := 0, services := si.ServiceIdentities.map SvcId.ofGen, address := [],
    description := [], url := [], priv := si.«private» }

/-- what the readers produce: the server's public key and both keys of every entry are there -/
def Gen.C18.WF (si : Gen.C18.ServerIdentity) : Prop :=
  si.Public.isSome ∧ ∀ s ∈ si.ServiceIdentities, s.Public.isSome ∧ s.«private».isSome

private theorem pub_lookup (name : Str) (d : Option Bytes) (b : Bytes) (hd : d = some b) :
    ∀ (l : List Gen.C18.ServiceIdentity), (∀ s ∈ l, s.Public.isSome ∧ s.«private».isSome) →
    (l.findSome? (fun srvid => if (srvid.Name == name) then some srvid.Public else none)).getD d =
    some ((((l.map SvcId.ofGen).find? (fun s => s.name == name)).map (·.pub)).getD b)
  | [], _ => by simp [hd]
  | a :: r, hs => by
    have ha := hs a List.mem_cons_self
    have ih := pub_lookup name d b hd r (fun s h => hs s (List.mem_cons_of_mem _ h))
    obtain ⟨pa, hpa⟩ := Option.isSome_iff_exists.mp ha.1
    simp only [List.findSome?_cons, List.map_cons, List.find?_cons]
    cases h : (a.Name == name) with
    | true => simp [h, SvcId.ofGen, hpa]
    | false => simpa [h, SvcId.ofGen] using ih

private theorem priv_lookup (name : Str) (d : Option Bytes) :
    ∀ (l : List Gen.C18.ServiceIdentity), (∀ s ∈ l, s.Public.isSome ∧ s.«private».isSome) →
    (l.findSome? (fun srvid => if (srvid.Name == name) then some srvid.«private» else none)).getD d =
    (((l.map SvcId.ofGen).find? (fun s => s.name == name)).map (fun s => some s.priv)).getD d
  | [], _ => by simp
  | a :: r, hs => by
    have ha := hs a List.mem_cons_self
    have ih := priv_lookup name d r (fun s h => hs s (List.mem_cons_of_mem _ h))
    obtain ⟨pa, hpa⟩ := Option.isSome_iff_exists.mp ha.2
    simp only [List.findSome?_cons, List.map_cons, List.find?_cons]
    cases h : (a.Name == name) with
    | true => simp [h, SvcId.ofGen, hpa]
    | false => simpa [h, SvcId.ofGen] using ih

private theorem has_lookup (name : Str) (q : Gen.C18.ServiceIdentity → Bool) :
    ∀ (l : List Gen.C18.ServiceIdentity), (∀ s ∈ l, q s = true) →
    (l.findSome? (fun srvid => if ((srvid.Name == name) && q srvid) then some true else none)).getD false =
    (l.map SvcId.ofGen).any (fun s => s.name == name)
  | [], _ => by simp
  | a :: r, hs => by
    have ha := hs a List.mem_cons_self
    have ih := has_lookup name q r (fun s h => hs s (List.mem_cons_of_mem _ h))
    simp only [List.findSome?_cons, List.map_cons, List.any_cons]
    cases h : (a.Name == name) with
    | true => simp [h, SvcId.ofGen, ha]
    | false => simpa [h, SvcId.ofGen] using ih

/-- **`ServicePublic` as translated** is the model's look-up: the first entry with exactly that name, else the
server's own key -/
theorem c18_gen_ServicePublic_eq (si : Gen.C18.ServerIdentity) (hw : Gen.C18.WF si) (name : Str) :
    Gen.C18.ServicePublic si name = some ((ServerId.ofGen si).servicePublic name) := by
  obtain ⟨hp, hs⟩ := hw
  obtain ⟨b, hb⟩ := Option.isSome_iff_exists.mp hp
  have L := pub_lookup name si.Public b hb si.ServiceIdentities hs
  unfold Gen.C18.ServicePublic Gen.Rt.rangeReturn ServerId.servicePublic
  simp only [ServerId.ofGen, hb] at L ⊢
  generalize List.findSome? _ si.ServiceIdentities = o at L ⊢
  generalize List.find? _ (List.map SvcId.ofGen si.ServiceIdentities) = o2 at L ⊢
  cases o <;> cases o2 <;> simp at L ⊢ <;> simp [L]

/-- **`ServicePrivate` as translated**: the entry's private key, else the server's own (possibly nil) -/
theorem c18_gen_ServicePrivate_eq (si : Gen.C18.ServerIdentity) (hw : Gen.C18.WF si) (name : Str) :
    Gen.C18.ServicePrivate si name = (ServerId.ofGen si).servicePrivate name := by
  have L := priv_lookup name si.«private» si.ServiceIdentities hw.2
  unfold Gen.C18.ServicePrivate Gen.Rt.rangeReturn ServerId.servicePrivate
  simp only [ServerId.ofGen] at L ⊢
  generalize List.findSome? _ si.ServiceIdentities = o at L ⊢
  generalize List.find? _ (List.map SvcId.ofGen si.ServiceIdentities) = o2 at L ⊢
  cases o <;> cases o2 <;> simp at L ⊢ <;> simp [L]

/-- **`HasServicePublic` / `HasServiceKeyPair` as translated**: on identities whose entries carry their keys both
are "an entry of exactly that name exists" -/
theorem c18_gen_HasService_eq (si : Gen.C18.ServerIdentity) (hw : Gen.C18.WF si) (name : Str) :
    Gen.C18.HasServicePublic si name = (ServerId.ofGen si).hasServicePublic name ∧
    Gen.C18.HasServiceKeyPair si name = (ServerId.ofGen si).hasServiceKeyPair name := by
  constructor
  · have := has_lookup name (fun s => !s.Public.isNone) si.ServiceIdentities
      (fun s h => by have := (hw.2 s h).1; cases hp : s.Public <;> simp_all)
    unfold Gen.C18.HasServicePublic Gen.Rt.rangeReturn ServerId.hasServicePublic
    simp only [ServerId.ofGen] at this ⊢
    rw [← this]
    generalize List.findSome? _ si.ServiceIdentities = o
    cases o <;> rfl
  · have := has_lookup name (fun s => !s.Public.isNone && !s.«private».isNone) si.ServiceIdentities
      (fun s h => by
        have h1 := (hw.2 s h).1; have h2 := (hw.2 s h).2
        cases hp : s.Public <;> cases hq : s.«private» <;> simp_all)
    unfold Gen.C18.HasServiceKeyPair Gen.Rt.rangeReturn ServerId.hasServiceKeyPair
    simp only [ServerId.ofGen, Bool.and_assoc] at this ⊢
    rw [← this]
    generalize List.findSome? _ si.ServiceIdentities = o
    cases o <;> rfl

end C18
