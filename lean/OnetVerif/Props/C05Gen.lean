import OnetVerif.Model.C05
import OnetVerif.Props.C04Gen
import OnetVerif.Gen.C05
/-! Property C05 — the tie of the aggregation step of `Model/C05Agg.lean` to the Go source.  `TreeNodeInstance.aggregate`
is translated from `treenode.go` on every check run (`Gen/C04.lean`, `Gen.C04.TreeNodeInstance_aggregate`) and proved
equal to the hand model `C04.aggregate` in `Props/C04Gen.lean` (`C04.c04_gen_aggregate_eq`, imported here so that this
module is rebuilt against the regenerated text).  This file proves that the reader step of the C05 model **is** that
function: for a non-root node with `nch` children whose type 1 is aggregated and whose buffer for it is `s.buf`, the
reader that pops `x` dispatches exactly the batch `C04.aggregate` returns (none: "not done aggregating") and leaves
exactly its queue.  Nothing imports this file. -/
namespace C05
namespace Agg

/-- a message of the C05 model as a message of the C04 model: type 1 is the aggregated type, type 3 a plain one -/
def cm (x : Msg) : C04.Msg := { ty := if x.agg then 1 else 3, src := x.src, val := x.m }

def cfgOf (s : St) : C04.Cfg := { isRoot := false, nChildren := s.nch, agg := fun t => t == 1 }

def queuesOf (s : St) : C04.Queues := fun t => if t = 1 then s.buf.map cm else []

theorem bypass_cm (s : St) (x : Msg) : C04.bypass (cfgOf s) (cm x) = direct x := by
  cases x with
  | mk a src m => cases a <;> cases src <;> simp [C04.bypass, C04.fromParent, cfgOf, cm, direct]

theorem agg_bypass (cfg : C04.Cfg) (q : C04.Queues) (m : C04.Msg) (h : C04.bypass cfg m = true) :
    C04.aggregate cfg q m = (q, some [m]) := by simp [C04.aggregate, h]
theorem agg_full (cfg : C04.Cfg) (q : C04.Queues) (m : C04.Msg) (h : C04.bypass cfg m = false)
    (hl : (q m.ty ++ [m]).length = cfg.nChildren) :
    C04.aggregate cfg q m = (fun t => if t = m.ty then [] else q t, some (q m.ty ++ [m])) := by
  simp only [C04.aggregate, h, Bool.false_eq_true, if_false, hl, if_true]
theorem agg_wait (cfg : C04.Cfg) (q : C04.Queues) (m : C04.Msg) (h : C04.bypass cfg m = false)
    (hl : ¬ (q m.ty ++ [m]).length = cfg.nChildren) :
    C04.aggregate cfg q m = (fun t => if t = m.ty then q m.ty ++ [m] else q t, none) := by
  simp only [C04.aggregate, h, Bool.false_eq_true, if_false, hl]

/-- **the reader's step on a popped message is `aggregate`**: the batch it enters the handler with (if any) and the
buffer it leaves are the ones `C04.aggregate` — the function `Props/C04Gen.lean` proves equal to the translation of
`TreeNodeInstance.aggregate` — computes from the buffer and the message. -/
theorem c05_gen_reader_step_is_aggregate (s : St) (x : Msg) (q : List Msg) (hpc : s.pc = .top)
    (hc : s.closing = false) (hq : s.queue = x :: q) :
    ∃ s', step s .reader = some s' ∧
      (C04.aggregate (cfgOf s) (queuesOf s) (cm x)).2.map (·.map (·.val)) =
        (match s'.pc with | .handling _ ms => some ms | _ => none) ∧
      (C04.aggregate (cfgOf s) (queuesOf s) (cm x)).1 1 = s'.buf.map cm ∧ s'.queue = q := by
  by_cases hd : direct x = true
  · have hs : step s .reader = some { s with queue := q, popped := s.popped ++ [x], given := s.given ++ [x], pc := .handling false [x.m], started := s.started ++ [(false, [x.m])] } := by
      simp [step, hpc, hc, hq, hd]
    refine ⟨_, hs, ?_⟩
    rw [agg_bypass _ _ _ (by rw [bypass_cm]; exact hd)]
    simp [cm, queuesOf]
  · have hd' : direct x = false := by simpa using hd
    have hty : (cm x).ty = 1 := by
      cases x with
      | mk a src m => cases a <;> cases src <;> simp_all [cm, direct]
    have hagg : x.agg = true := by
      cases x with
      | mk a src m => cases a <;> cases src <;> simp_all [direct]
    by_cases hfull : s.buf.length + 1 = s.nch
    · have hs : step s .reader = some { s with queue := q, popped := s.popped ++ [x], buf := [], given := s.given ++ (s.buf ++ [x]), pc := .handling true ((s.buf ++ [x]).map (·.m)), started := s.started ++ [(true, (s.buf ++ [x]).map (·.m))] } := by
        simp [step, hpc, hc, hq, hd', hfull]
      refine ⟨_, hs, ?_⟩
      have : (queuesOf s (cm x).ty ++ [cm x]).length = (cfgOf s).nChildren := by
        simp [hty, queuesOf, cfgOf, hfull]
      rw [agg_full _ _ _ (by rw [bypass_cm]; exact hd') this]
      simp [hty, hagg, queuesOf, cm, Function.comp_def]
    · have hs : step s .reader = some { s with queue := q, popped := s.popped ++ [x], buf := s.buf ++ [x] } := by
        simp [step, hpc, hc, hq, hd', hfull]
      refine ⟨_, hs, ?_⟩
      have : ¬ (queuesOf s (cm x).ty ++ [cm x]).length = (cfgOf s).nChildren := by
        simp [hty, queuesOf, cfgOf, hfull]
      rw [agg_wait _ _ _ (by rw [bypass_cm]; exact hd') this]
      simp [hty, hagg, hpc, queuesOf]

/-- the regenerated `aggregate` is `C04.aggregate` (re-stated from `Props/C04Gen.lean`; with the theorem above: the
reader step of the C05 model is the translated function) -/
theorem c05_gen_aggregate_is_translated (n : Gen.C04.TreeNodeInstance) (hq : n.msgQueue.isSome) (pm : Gen.C04.ProtocolMsg)
    (root : Bool) (par : Gen.C04.TreeNode) (kids : List Gen.C04.TreeNode) :
    ∃ msgs due n', Gen.C04.TreeNodeInstance_aggregate n pm (fun _ => root) (fun _ => par) (fun _ => kids) =
        some (pm.MsgType, msgs, due, n') ∧
      (if due then some (msgs.map (C04.msgOf par.ID)) else none) =
        (C04.aggregate (C04.cfgOf n root kids) (C04.queuesOf par.ID n.msgQueue) (C04.msgOf par.ID pm)).2 := by
  obtain ⟨msgs, due, n', h1, _, _, h4⟩ := C04.c04_gen_aggregate_eq n hq pm root par kids
  exact ⟨msgs, due, n', h1, h4⟩

end Agg
end C05

namespace C05
namespace Chan

/-- **the look at `closing` in `dispatchChannel` is the model's**: `Gen.C05.dispatchChannel_sends` is the condition of the
`if` that guards `out.Send(m)` (regenerated from `treenode.go` on every run, over the local `closing` read under the
queue mutex); with room in the channel, the reader's step on a popped channel message sends exactly when it says so,
and otherwise records the message as `late`. -/
theorem c05_gen_channel_send_decision (s : St) (m : Nat) (hp : s.pc = .sending m) (hroom : s.chan.length < s.cap) :
    Gen.C05.dispatchChannel_sends s.closing = !s.closing ∧
    step s .reader = some (if Gen.C05.dispatchChannel_sends s.closing
      then { s with pc := .top, chan := s.chan ++ [m], log := s.log ++ [(m, .put)] }
      else { s with pc := .top, log := s.log ++ [(m, .late)] }) := by
  refine ⟨rfl, ?_⟩
  simp only [step, hp, hroom, if_true, Gen.C05.dispatchChannel_sends]
  cases s.closing <;> simp

end Chan
end C05

namespace C05

/-- **the reader's loop decides with the translated conditions**: at the top of its loop (`dispatchMsgReader`, under
the queue mutex) the model's reader stops iff `Gen.C05.reader_stops` (the `if n.closing`), else takes a message iff
`Gen.C05.reader_has_message` (`len(n.msgDispatchQueue) > 0`) — the message `Gen.C05.reader_head` gives
(`n.msgDispatchQueue[0]`), leaving the queue `Gen.C05.reader_rest` gives (`n.msgDispatchQueue[1:]`) — else goes to
sleep.  All four are regenerated from `treenode.go` on every run. -/
theorem c05_gen_reader_top (s : St) (hp : s.pc = .top) :
    step s .reader = some (
      if Gen.C05.reader_stops s.closing then { s with pc := .stopped }
      else if Gen.C05.reader_has_message s.queue then
        match Gen.C05.reader_head s.queue, Gen.C05.reader_rest s.queue with
        | some m, some q => { s with queue := q, pc := .handling m, started := s.started ++ [m] }
        | _, _ => s
      else { s with pc := .waiting }) := by
  simp only [step, hp, Gen.C05.reader_stops, Gen.C05.reader_has_message, Gen.C05.reader_head, Gen.C05.reader_rest]
  cases hc : s.closing
  · cases hq : s.queue with
    | nil => simp [Gen.Rt.len]
    | cons m q =>
      have h1 : Gen.Rt.idx (m :: q) 0 = some m := by simp [Gen.Rt.idx]
      have h2 : Gen.Rt.slice (m :: q) 1 (Gen.Rt.len (m :: q)) = some q := by
        simp only [Gen.Rt.slice, Gen.Rt.len, List.length_cons]
        have : ¬ ((1 : Int) < 0 ∨ (Int.ofNat (q.length + 1)) < 1 ∨ Int.ofNat (q.length + 1) < Int.ofNat (q.length + 1)) := by
          simp only [Int.ofNat_eq_coe]; omega
        simp only [this, if_false]
        simp
      have h3 : decide (Gen.Rt.len (m :: q) > 0) = true := by
        have : (0 : Int) < ((q.length + 1 : Nat) : Int) := by omega
        simpa [Gen.Rt.len] using this
      simp only [h3, if_true, h1, h2, Bool.false_eq_true, if_false]
  · simp

/-- the queue always has a head and a rest when the translated test says it is not empty (the `| _, _ => s`
branch above is never taken) -/
theorem c05_gen_reader_pop_defined (q : List Nat) (h : Gen.C05.reader_has_message q = true) :
    ∃ m r, q = m :: r ∧ Gen.C05.reader_head q = some m ∧ Gen.C05.reader_rest q = some r := by
  cases q with
  | nil => simp [Gen.C05.reader_has_message, Gen.Rt.len] at h
  | cons m r =>
    refine ⟨m, r, rfl, by simp [Gen.C05.reader_head, Gen.Rt.idx], ?_⟩
    simp only [Gen.C05.reader_rest, Gen.Rt.slice, Gen.Rt.len, List.length_cons]
    have : ¬ ((1 : Int) < 0 ∨ (Int.ofNat (r.length + 1)) < 1 ∨ Int.ofNat (r.length + 1) < Int.ofNat (r.length + 1)) := by
      simp only [Int.ofNat_eq_coe]; omega
    simp only [this, if_false]
    simp

/-- **the hand-over is the translated one** (`ProcessProtocolMsg`): refused iff `Gen.C05.accept_refused` (`if n.closing`),
else appended at the end of the queue as `Gen.C05.accept_queue` (`append(n.msgDispatchQueue, msg)`) says -/
theorem c05_gen_accept (s : St) (m : Nat) :
    step s (.accept m) = some (if Gen.C05.accept_refused s.closing then s
      else { s with queue := Gen.C05.accept_queue s.queue m, token := true, accepted := s.accepted ++ [m] }) := by
  simp only [step, Gen.C05.accept_refused, Gen.C05.accept_queue]
  cases s.closing <;> simp

end C05

namespace C05
namespace Chan

/-- **the whole step of the reader on a popped channel message, written with the translated tests**: room is
`out.Len() < out.Cap()` (`Gen.C05.dispatchChannel_room`, strict), and with room the message is sent iff
`Gen.C05.dispatchChannel_sends` (`!closing`); no room: "channel too small", the message is dropped. -/
theorem c05_gen_channel_step (s : St) (m : Nat) (hp : s.pc = .sending m) :
    step s .reader = some (
      if Gen.C05.dispatchChannel_room (s.chan.length, s.cap) (fun p => (p.1 : Int)) (fun p => (p.2 : Int)) then
        if Gen.C05.dispatchChannel_sends s.closing
        then { s with pc := .top, chan := s.chan ++ [m], log := s.log ++ [(m, .put)] }
        else { s with pc := .top, log := s.log ++ [(m, .late)] }
      else { s with pc := .top, log := s.log ++ [(m, .full)] }) := by
  simp only [step, hp, Gen.C05.dispatchChannel_room, Gen.C05.dispatchChannel_sends]
  by_cases hr : s.chan.length < s.cap
  · have : ((s.chan.length : Int) < (s.cap : Int)) := by omega
    simp only [hr, this, if_true, decide_true]
    cases s.closing <;> simp
  · have : ¬ ((s.chan.length : Int) < (s.cap : Int)) := by omega
    simp [hr, this]

/-- the boundary: a channel with one free place takes the message, a full one does not -/
theorem c05_gen_channel_room_boundary (c : Nat) :
    Gen.C05.dispatchChannel_room (c, c + 1) (fun p => (p.1 : Int)) (fun p => (p.2 : Int)) = true ∧
    Gen.C05.dispatchChannel_room (c, c) (fun p => (p.1 : Int)) (fun p => (p.2 : Int)) = false := by
  simp [Gen.C05.dispatchChannel_room]
  omega

end Chan
end C05
