import OnetVerif.Model.C09
/-! Property C09 — property theorems, negation witnesses, `_partial` variants and non-vacuity
examples only (helper lemmas that need Mathlib go to OnetVerif/Proofs/). -/
namespace C09

end C09
