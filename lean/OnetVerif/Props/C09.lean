import OnetVerif.Model.C09
import OnetVerif.Shapes
/-! Property C09 — peer failures are contained, reported to senders, and recoverable.
Property theorems (`c09_…`), the lemmas they need, witnesses and non-vacuity examples. -/
namespace C09

/-! ### invariants of the connection table -/

/-- a connection whose far end exists belongs to a peer that is up -/
def Consistent (s : St) : Prop := ∀ c ∈ s.conns, c.alive = true → s.up.contains c.peer = true

/-- connection numbers are fresh: below `next`, pairwise distinct -/
def FreshIds (s : St) : Prop := (∀ c ∈ s.conns, c.id < s.next) ∧ (s.conns.map (·.id)).Nodup

/-! ### `connect`, `sendOn`, `sendMsgs`: what they leave alone -/

theorem connect_up (s : St) (p : Peer) (h : s.up.contains p = true) :
    connect s p = ({ s with conns := s.conns ++ [{ id := s.next, peer := p, alive := true }],
                            next := s.next + 1, dials := s.dials + 1 },
                   some { id := s.next, peer := p, alive := true }) := by
  unfold connect; rw [if_pos h]

theorem connect_down (s : St) (p : Peer) (h : s.up.contains p = false) :
    connect s p = ({ s with dials := s.dials + s.dpc }, none) := by
  unfold connect; rw [if_neg (by rw [h]; exact Bool.false_ne_true)]

/-- the fields a `Send` never touches, and the monotone ones -/
structure Keeps (s s' : St) : Prop where
  dpc : s'.dpc = s.dpc
  up : s'.up = s.up
  handlers : s'.handlers = s.handlers
  calls : s'.calls = s.calls

theorem Keeps.refl (s : St) : Keeps s s := ⟨rfl, rfl, rfl, rfl⟩
theorem Keeps.trans {a b c : St} (h1 : Keeps a b) (h2 : Keeps b c) : Keeps a c :=
  ⟨h2.dpc.trans h1.dpc, h2.up.trans h1.up, h2.handlers.trans h1.handlers, h2.calls.trans h1.calls⟩

theorem connect_keeps (s : St) (p : Peer) : Keeps s (connect s p).1 := by
  unfold connect; split <;> exact ⟨rfl, rfl, rfl, rfl⟩

theorem sendOn_keeps (s : St) (c : Conn) (m : Nat) (b : Bool) : Keeps s (sendOn s c m b).1 := by
  unfold sendOn; split <;> exact ⟨rfl, rfl, rfl, rfl⟩

theorem sendOn_dials (s : St) (c : Conn) (m : Nat) (b : Bool) : (sendOn s c m b).1.dials = s.dials := by
  unfold sendOn; split <;> rfl

theorem sendOn_conns (s : St) (c : Conn) (m : Nat) (b : Bool) : (sendOn s c m b).1.conns = s.conns := by
  unfold sendOn; split <;> rfl

theorem connect_dials (s : St) (p : Peer) (h : 1 ≤ s.dpc) :
    (connect s p).1.dials ≤ s.dials + s.dpc := by
  unfold connect; split <;> simp <;> omega

theorem connect_some_peer {s s2 : St} {p : Peer} {c' : Conn} (h : connect s p = (s2, some c')) :
    c'.peer = p := by
  unfold connect at h
  split at h
  · simp at h; rw [← h.2]
  · simp at h

theorem sendMsgs_keeps (s : St) (p : Peer) (c : Conn) (b : Bool) (msgs : List Nat) :
    Keeps s (sendMsgs s p c b msgs).1 := by
  induction msgs generalizing s with
  | nil => simp [sendMsgs, Keeps.refl]
  | cons m ms ih =>
    simp only [sendMsgs]
    have k1 := sendOn_keeps s c m b
    split
    · exact k1.trans (ih _)
    · have kc := connect_keeps (sendOn s c m b).1 p
      split
      · rename_i s2 heq
        have h2 : s2 = (connect (sendOn s c m b).1 p).1 := by rw [heq]
        subst h2; exact k1.trans kc
      · rename_i s2 c' heq
        have h2 : s2 = (connect (sendOn s c m b).1 p).1 := by rw [heq]
        subst h2
        have k2 := sendOn_keeps (connect (sendOn s c m b).1 p).1 c' m b
        split
        · exact (k1.trans kc).trans (k2.trans (ih _))
        · exact (k1.trans kc).trans k2

/-! ### bounded attempts -/

theorem sendMsgs_dials (s : St) (p : Peer) (c : Conn) (b : Bool) (msgs : List Nat) (h : 1 ≤ s.dpc) :
    (sendMsgs s p c b msgs).1.dials ≤ s.dials + msgs.length * s.dpc ∧ Keeps s (sendMsgs s p c b msgs).1 := by
  induction msgs generalizing s with
  | nil => simp [sendMsgs, Keeps.refl]
  | cons m ms ih =>
    simp only [sendMsgs, List.length_cons]
    have k1 := sendOn_keeps s c m b
    have d1 := sendOn_dials s c m b
    split
    · have := ih (sendOn s c m b).1 (by rw [k1.dpc]; exact h)
      rw [k1.dpc, d1] at this
      refine ⟨?_, k1.trans this.2⟩
      have e : (ms.length + 1) * s.dpc = ms.length * s.dpc + s.dpc := Nat.succ_mul _ _
      omega
    · have kc := connect_keeps (sendOn s c m b).1 p
      have dc := connect_dials (sendOn s c m b).1 p (by rw [k1.dpc]; exact h)
      rw [k1.dpc, d1] at dc
      have e : (ms.length + 1) * s.dpc = ms.length * s.dpc + s.dpc := Nat.succ_mul _ _
      split
      · rename_i s2 heq
        have h2 : s2 = (connect (sendOn s c m b).1 p).1 := by rw [heq]
        subst h2
        exact ⟨by dsimp only; omega, k1.trans kc⟩
      · rename_i s2 c' heq
        have h2 : s2 = (connect (sendOn s c m b).1 p).1 := by rw [heq]
        subst h2
        have k2 := sendOn_keeps (connect (sendOn s c m b).1 p).1 c' m b
        have d2 := sendOn_dials (connect (sendOn s c m b).1 p).1 c' m b
        split
        · have := ih (sendOn (connect (sendOn s c m b).1 p).1 c' m b).1
            (by rw [k2.dpc, kc.dpc, k1.dpc]; exact h)
          rw [k2.dpc, kc.dpc, k1.dpc, d2] at this
          exact ⟨by omega, (k1.trans kc).trans (k2.trans this.2)⟩
        · exact ⟨by rw [d2]; omega, (k1.trans kc).trans k2⟩

/-- **bounded attempts**: one `Router.Send` of `n` messages performs at most `1 + n` connects,
i.e. at most `(1 + n)·dialsPerConnect` dial attempts, and then returns (the function is total).
For the single message every entry point sends: at most two connects. -/
theorem c09_bounded_attempts (s : St) (p : Peer) (msgs : List Nat) (staleOk : Bool) (h : 1 ≤ s.dpc) :
    (send s p msgs staleOk).1.dials ≤ s.dials + (1 + msgs.length) * s.dpc := by
  unfold send
  have e : (1 + msgs.length) * s.dpc = s.dpc + msgs.length * s.dpc := by
    rw [Nat.add_mul, Nat.one_mul]
  split
  · dsimp only; omega
  · split
    · rename_i c _
      have := (sendMsgs_dials s p c staleOk msgs h).1
      omega
    · have kc := connect_keeps s p
      have dc := connect_dials s p h
      split
      · rename_i s1 heq
        have h1 : s1 = (connect s p).1 := by rw [heq]
        subst h1; dsimp only; omega
      · rename_i s1 c heq
        have h1 : s1 = (connect s p).1 := by rw [heq]
        subst h1
        have := (sendMsgs_dials (connect s p).1 p c staleOk msgs (by rw [kc.dpc]; exact h)).1
        rw [kc.dpc] at this
        omega

/-- the constant in the bound, for the two transports and every value of `MaxRetryConnect` -/
theorem c09_dials_per_connect (M : Nat) :
    dialsPerConnect M .tcp = M ∧ dialsPerConnect M .loc = M * M := ⟨rfl, rfl⟩

/-! ### errors reach the caller -/

theorem firstConn_some {s : St} {p : Peer} {c : Conn} (h : firstConn s p = some c) :
    c ∈ s.conns ∧ c.peer = p := by
  unfold firstConn at h
  exact ⟨List.mem_of_find?_eq_some h, by simpa using List.find?_some h⟩

theorem sendMsgs_down (s : St) (p : Peer) (c : Conn) (msgs : List Nat) (hne : msgs ≠ [])
    (hc : c.alive = false) (hup : s.up.contains p = false) :
    (sendMsgs s p c false msgs).2 = .err := by
  cases msgs with
  | nil => exact absurd rfl hne
  | cons m ms =>
    simp only [sendMsgs, sendOn, hc]
    simp [connect_down s p hup]

/-- `Router.Send` towards a peer at whose address nothing listens returns an error — provided a
write on a connection whose far end is gone fails (see the note on TCP in the model). -/
theorem send_down_errs (s : St) (hs : Consistent s) (p : Peer) (msgs : List Nat)
    (hup : s.up.contains p = false) : (send s p msgs false).2 = .err := by
  unfold send
  split
  · rfl
  · rename_i hne
    have hne' : msgs ≠ [] := by intro e; simp [e] at hne
    split
    · rename_i c hf
      obtain ⟨hm, hp⟩ := firstConn_some hf
      have hdead : c.alive = false := by
        cases ha : c.alive with
        | false => rfl
        | true => have := hs c hm ha; rw [hp, hup] at this; cases this
      exact sendMsgs_down s p c msgs hne' hdead hup
    · simp [connect_down s p hup]

theorem entry_single_err (e : Entry) (d : Peer) (rest : List Peer) (res : Peer → Res)
    (he : e = .routerSend ∨ e = .ctxSendRaw ∨ e = .sendTo ∨ e = .sendToParent) (hd : res d = .err) :
    (entry e (d :: rest) res).1 = 1 := by
  rcases he with rfl | rfl | rfl | rfl <;> simp [entry, hd]

theorem entry_children_err (dests : List Peer) (res : Peer → Res) (h : ∃ d ∈ dests, res d = .err) :
    (entry .sendToChildren dests res).1 = 1 := by
  simp only [entry]
  induction dests with
  | nil => obtain ⟨d, hd, _⟩ := h; cases hd
  | cons d l ih =>
    simp only [entry.go]
    split
    · rfl
    · rename_i hn
      obtain ⟨x, hx, hr⟩ := h
      rcases List.mem_cons.mp hx with rfl | hx
      · exact absurd hr hn
      · exact ih ⟨x, hx, hr⟩

theorem entry_all_err (dests : List Peer) (res : Peer → Res) (h : ∃ d ∈ dests, res d = .err) :
    1 ≤ (entry .sendToAll dests res).1 := by
  obtain ⟨d, hd, hr⟩ := h
  simp only [entry]
  exact List.length_pos_of_mem (List.mem_filter.mpr ⟨hd, by simp [hr]⟩)

/-- **every send entry point reports the failure**: in every consistent state, for every entry
point offered to services and protocols — router/server send, the service context's raw send, the
tree-node send, send-to-parent, send-to-children (sequential and parallel), multicast, broadcast —
if nothing listens at a destination it addresses, the caller gets an error. -/
theorem c09_error_reaches_caller (s : St) (hs : Consistent s) (e : Entry) (dests : List Peer)
    (msgs : List Nat) (hne : dests ≠ [])
    (hdown : ∀ d ∈ dests, s.up.contains d = false) :
    1 ≤ (entry e dests (fun d => (send s d msgs false).2)).1 := by
  cases dests with
  | nil => exact absurd rfl hne
  | cons d rest =>
    have hd : (fun d => (send s d msgs false).2) d = .err :=
      send_down_errs s hs d msgs (hdown d (by simp))
    cases e with
    | routerSend => rw [entry_single_err _ d rest _ (.inl rfl) hd]; omega
    | ctxSendRaw => rw [entry_single_err _ d rest _ (.inr (.inl rfl)) hd]; omega
    | sendTo => rw [entry_single_err _ d rest _ (.inr (.inr (.inl rfl))) hd]; omega
    | sendToParent => rw [entry_single_err _ d rest _ (.inr (.inr (.inr rfl))) hd]; omega
    | sendToChildren => rw [entry_children_err _ _ ⟨d, by simp, hd⟩]; omega
    | sendToAll => exact entry_all_err _ _ ⟨d, by simp, hd⟩

/-- the defect that was repaired: `Context.SendRaw` built the error and returned nil -/
def entryBeforeFix (e : Entry) (dests : List Peer) (res : Peer → Res) : Nat × List Peer :=
  if e = .ctxSendRaw then (0, dests.take 1) else entry e dests res

theorem c09_sendraw_before_fix :
    (entryBeforeFix .ctxSendRaw [7] (fun d => (send {} d [0] false).2)).1 = 0 ∧
    (entry .ctxSendRaw [7] (fun d => (send {} d [0] false).2)).1 = 1 := by decide

/-! ### error handlers are told, exactly the lost connection goes -/

theorem eq_of_id_eq {l : List Conn} (hn : (l.map (·.id)).Nodup) {x y : Conn} (hx : x ∈ l) (hy : y ∈ l)
    (h : x.id = y.id) : x = y := by
  induction l with
  | nil => cases hx
  | cons a l ih =>
    simp only [List.map_cons, List.nodup_cons] at hn
    rcases List.mem_cons.mp hx with hxa | hx' <;> rcases List.mem_cons.mp hy with hya | hy'
    · rw [hxa, hya]
    · exact absurd (List.mem_map.mpr ⟨y, hy', by show y.id = a.id; rw [← h, hxa]⟩) hn.1
    · exact absurd (List.mem_map.mpr ⟨x, hx', by show x.id = a.id; rw [h, hya]⟩) hn.1
    · exact ih hn.2 hx' hy'

theorem mem_swapRemove (mine : List Conn) (cid : Nat) (last : Conn) (init : List Conn)
    (hm : mine = init ++ [last]) (hn : (mine.map (·.id)).Nodup) (hc : ∃ c ∈ mine, c.id = cid) (x : Conn) :
    x ∈ (mine.map fun y => if y.id == cid then last else y).dropLast ↔ x ∈ mine ∧ x.id ≠ cid := by
  subst hm
  rw [List.map_append, List.map_singleton, List.dropLast_concat]
  simp only [List.map_append, List.map_singleton] at hn
  have hninit : ∀ y ∈ init, y.id ≠ last.id := by
    intro y hy e
    have := (List.nodup_append.mp hn).2.2 y.id (List.mem_map.mpr ⟨y, hy, rfl⟩) last.id (by simp)
    exact this e
  have hnodup : (init.map (·.id)).Nodup := (List.nodup_append.mp hn).1
  by_cases hl : last.id = cid
  · -- the lost connection is the last one: nothing moves
    have hsame : (init.map fun y => if y.id == cid then last else y) = init := by
      rw [List.map_congr_left (g := id)]
      · simp
      · intro y hy
        have : y.id ≠ cid := fun e => hninit y hy (e.trans hl.symm)
        simp [this]
    rw [hsame]
    constructor
    · intro hx
      exact ⟨by simp [hx], fun e => hninit x hx (e.trans hl.symm)⟩
    · rintro ⟨hx, hne⟩
      rcases List.mem_append.mp hx with h | h
      · exact h
      · simp at h; subst h; exact absurd hl hne
  · -- the lost connection is inside: the last one takes its place
    obtain ⟨c, hcm, hcid⟩ := hc
    have hcinit : c ∈ init := by
      rcases List.mem_append.mp hcm with h | h
      · exact h
      · simp at h; subst h; exact absurd hcid hl
    constructor
    · intro hx
      obtain ⟨y, hy, hxy⟩ := List.mem_map.mp hx
      by_cases hyc : y.id = cid
      · simp [hyc] at hxy; subst hxy
        exact ⟨by simp, hl⟩
      · simp [hyc] at hxy; subst hxy
        exact ⟨by simp [hy], hyc⟩
    · rintro ⟨hx, hne⟩
      rcases List.mem_append.mp hx with h | h
      · exact List.mem_map.mpr ⟨x, h, by simp [hne]⟩
      · simp at h; subst h
        exact List.mem_map.mpr ⟨c, hcinit, by simp [hcid]⟩

theorem mem_removeSwap (l : List Conn) (c : Conn) (hc : c ∈ l) (hn : (l.map (·.id)).Nodup) (x : Conn) :
    x ∈ removeSwap l c ↔ x ∈ l ∧ x.id ≠ c.id := by
  have hcm : c ∈ l.filter (·.peer == c.peer) := List.mem_filter.mpr ⟨hc, by simp⟩
  have hmn : ((l.filter (·.peer == c.peer)).map (·.id)).Nodup :=
    hn.sublist (List.Sublist.map _ List.filter_sublist)
  have hany : (l.filter (·.peer == c.peer)).any (·.id == c.id) = true :=
    List.any_eq_true.mpr ⟨c, hcm, by simp⟩
  have hsplit : ∀ x, x ∈ l ↔ x ∈ l.filter (·.peer != c.peer) ∨ x ∈ l.filter (·.peer == c.peer) := by
    intro x
    simp only [List.mem_filter]
    by_cases hp : x.peer = c.peer <;> simp [hp]
  unfold removeSwap
  simp only [hany, if_true]
  cases hrev : (l.filter (·.peer == c.peer)).reverse with
  | nil =>
    have : l.filter (·.peer == c.peer) = [] := by simpa using hrev
    rw [this] at hcm; cases hcm
  | cons last rest =>
    have hm : l.filter (·.peer == c.peer) = rest.reverse ++ [last] := by
      have := congrArg List.reverse hrev
      simpa using this
    simp only []
    rw [List.mem_append, mem_swapRemove _ c.id last rest.reverse hm hmn ⟨c, hcm, rfl⟩ x, hsplit x]
    constructor
    · rintro (h | ⟨h, hne⟩)
      · refine ⟨.inl h, ?_⟩
        intro e
        have hx : x ∈ l := (List.mem_filter.mp h).1
        have hxp : x.peer ≠ c.peer := by simpa using (List.mem_filter.mp h).2
        have : x = c := eq_of_id_eq hn hx hc e
        exact hxp (by rw [this])
      · exact ⟨.inr h, hne⟩
    · rintro ⟨h | h, hne⟩
      · exact .inl h
      · exact .inr ⟨h, hne⟩

/-- **error handlers are told**: when the receive loop of a registered connection sees it fail,
every registered handler is called exactly once, in registration order, with the identity of the
peer that was lost, and exactly that connection leaves the table — no other entry is removed. -/
theorem c09_handlers_told (s : St) (hf : FreshIds s) (c : Conn) (hc : c ∈ s.conns) :
    (step s (.detect c.id)).1.calls = s.calls ++ s.handlers.map (·, c.peer) ∧
    (∀ x, x ∈ (step s (.detect c.id)).1.conns ↔ x ∈ s.conns ∧ x.id ≠ c.id) ∧
    (step s (.detect c.id)).1.up = s.up ∧ (step s (.detect c.id)).1.delivered = s.delivered ∧
    (step s (.detect c.id)).1.handlers = s.handlers := by
  have hfind : s.conns.find? (·.id == c.id) = some c := by
    cases hf' : s.conns.find? (·.id == c.id) with
    | none =>
      have := List.find?_eq_none.mp hf' c hc
      simp at this
    | some c' =>
      have hm := List.mem_of_find?_eq_some hf'
      have hid : c'.id = c.id := by simpa using List.find?_some hf'
      rw [eq_of_id_eq hf.2 hm hc hid]
  have hstep : (step s (.detect c.id)).1 =
      { s with calls := s.calls ++ s.handlers.map (·, c.peer), conns := removeSwap s.conns c } := by
    simp only [step, hfind]
  rw [hstep]
  exact ⟨rfl, fun x => mem_removeSwap s.conns c hc hf.2 x, rfl, rfl, rfl⟩

/-! ### recovery -/

theorem sendMsgs_up (s : St) (p : Peer) (c : Conn) (hcp : c.peer = p) (msgs : List Nat)
    (hup : s.up.contains p = true) :
    (sendMsgs s p c false msgs).2 = .ok ∧
    (sendMsgs s p c false msgs).1.delivered = s.delivered ++ msgs.map (p, ·) := by
  induction msgs generalizing s with
  | nil => simp [sendMsgs]
  | cons m ms ih =>
    by_cases ha : c.alive = true
    · have e1 : sendOn s c m false = ({ s with delivered := s.delivered ++ [(c.peer, m)] }, true) := by
        simp [sendOn, ha]
      have h := ih { s with delivered := s.delivered ++ [(c.peer, m)] } hup
      have hd : ({ s with delivered := s.delivered ++ [(c.peer, m)] } : St).delivered
          = s.delivered ++ [(c.peer, m)] := rfl
      rw [hd] at h
      simp only [sendMsgs, e1, if_true]
      refine ⟨h.1, ?_⟩
      rw [h.2, hcp]; simp
    · have e1 : sendOn s c m false = (s, false) := by simp [sendOn, ha]
      have e2 : sendOn { s with conns := s.conns ++ [{ id := s.next, peer := p, alive := true }],
                                next := s.next + 1, dials := s.dials + 1 }
                  { id := s.next, peer := p, alive := true } m false =
          ({ s with conns := s.conns ++ [{ id := s.next, peer := p, alive := true }],
                    next := s.next + 1, dials := s.dials + 1,
                    delivered := s.delivered ++ [(p, m)] }, true) := by
        simp [sendOn]
      have := ih { s with conns := s.conns ++ [{ id := s.next, peer := p, alive := true }],
                          next := s.next + 1, dials := s.dials + 1,
                          delivered := s.delivered ++ [(p, m)] } hup
      have hd : ({ s with conns := s.conns ++ [{ id := s.next, peer := p, alive := true }],
                          next := s.next + 1, dials := s.dials + 1,
                          delivered := s.delivered ++ [(p, m)] } : St).delivered
          = s.delivered ++ [(p, m)] := rfl
      rw [hd] at this
      simp only [sendMsgs, e1, Bool.false_eq_true, if_false, connect_up s p hup, e2, if_true]
      refine ⟨this.1, ?_⟩
      rw [this.2]; simp

/-- a send towards a peer that listens succeeds and hands over every message, in order — over the
registered connection if its far end exists, else (the write fails) over a fresh one -/
theorem c09_send_up_delivers (s : St) (p : Peer) (msgs : List Nat) (hne : msgs ≠ [])
    (hup : s.up.contains p = true) :
    (send s p msgs false).2 = .ok ∧
    (send s p msgs false).1.delivered = s.delivered ++ msgs.map (p, ·) := by
  unfold send
  have : msgs.isEmpty = false := by cases msgs <;> simp_all
  simp only [this, Bool.false_eq_true, if_false]
  split
  · rename_i c hf
    exact sendMsgs_up s p c (firstConn_some hf).2 msgs hup
  · rw [connect_up s p hup]
    exact sendMsgs_up _ p _ rfl msgs hup

theorem run_append (s : St) (l₁ l₂ : List Act) : run s (l₁ ++ l₂) = run (run s l₁) l₂ := by
  induction l₁ generalizing s with
  | nil => rfl
  | cons a l ih => simp [run, ih]

/-- **recovery**: whatever happened before, once the peer went down, any of its failures were (or
were not) detected, and something listens at its address again, a new send reaches it: the call
succeeds and every message is handed to the new incarnation, in order. -/
theorem c09_recovers (s : St) (p : Peer) (detected : List Nat) (msgs : List Nat) (hne : msgs ≠ []) :
    let s' := run s ([.peerDown p] ++ detected.map .detect ++ [.peerUp p])
    (send s' p msgs false).2 = .ok ∧
    (send s' p msgs false).1.delivered = s'.delivered ++ msgs.map (p, ·) := by
  intro s'
  have hup : s'.up.contains p = true := by
    simp only [s', run_append, run, step]
    split
    · rename_i h; exact h
    · simp
  exact c09_send_up_delivers s' p msgs hne hup

/-! ### containment -/

/-- what an action is about -/
def Act.about (s : St) : Act → Option Peer
  | .peerDown p | .peerUp p | .accept p | .send p _ _ => some p
  | .detect cid => (s.conns.find? (·.id == cid)).map (·.peer)
  | .addHandler _ => none

theorem filter_other_append (l x : List Conn) (q : Peer) (hx : ∀ c ∈ x, c.peer ≠ q) :
    (l ++ x).filter (·.peer == q) = l.filter (·.peer == q) := by
  rw [List.filter_append]
  have : x.filter (·.peer == q) = [] := by
    apply List.filter_eq_nil_iff.mpr
    intro c hc; simpa using hx c hc
  simp [this]

theorem filter_markDead (l : List Conn) (p q : Peer) (h : q ≠ p) :
    (l.map fun c => if c.peer == p then { c with alive := false } else c).filter (·.peer == q)
      = l.filter (·.peer == q) := by
  induction l with
  | nil => rfl
  | cons c l ih =>
    by_cases hc : c.peer = p
    · have h1 : (c.peer == p) = true := by simpa using hc
      have h2 : (c.peer == q) = false := by
        have : c.peer ≠ q := by rw [hc]; exact fun e => h e.symm
        simpa using this
      rw [List.map_cons, List.filter_cons, List.filter_cons, ih]
      simp only [h1, if_true, h2, Bool.false_eq_true, if_false]
    · have h1 : (c.peer == p) = false := by simpa using hc
      rw [List.map_cons, List.filter_cons, List.filter_cons, ih]
      simp only [h1, Bool.false_eq_true, if_false]

theorem removeSwap_other (l : List Conn) (c : Conn) (q : Peer) (h : q ≠ c.peer) :
    (removeSwap l c).filter (·.peer == q) = l.filter (·.peer == q) := by
  have hoth : (l.filter (·.peer != c.peer)).filter (·.peer == q) = l.filter (·.peer == q) := by
    rw [List.filter_filter]
    apply List.filter_congr
    intro x _
    by_cases hx : x.peer = q
    · simp [hx, h]
    · simp [hx]
  have hmine : ∀ y ∈ l.filter (·.peer == c.peer), y.peer ≠ q := by
    intro y hy
    have : y.peer = c.peer := by simpa using (List.mem_filter.mp hy).2
    rw [this]; exact fun e => h e.symm
  simp only [removeSwap]
  cases hrev : (l.filter (·.peer == c.peer)).reverse with
  | nil => rfl
  | cons last rest =>
    have hlast : last ∈ l.filter (·.peer == c.peer) := by
      have : last ∈ (l.filter (·.peer == c.peer)).reverse := by rw [hrev]; simp
      exact List.mem_reverse.mp this
    simp only []
    rw [filter_other_append _ _ q ?_, hoth]
    intro y hy
    split at hy
    · have hy' := List.dropLast_subset _ hy
      obtain ⟨z, hz, hzy⟩ := List.mem_map.mp hy'
      split at hzy
      · rw [← hzy]; exact hmine _ hlast
      · rw [← hzy]; exact hmine _ hz
    · exact hmine y hy

theorem connect_other (s : St) (p q : Peer) (h : q ≠ p) :
    (connect s p).1.conns.filter (·.peer == q) = s.conns.filter (·.peer == q) ∧
    (connect s p).1.delivered = s.delivered := by
  unfold connect
  split
  · exact ⟨filter_other_append _ _ q (by intro c hc; simp at hc; subst hc; exact fun e => h e.symm), rfl⟩
  · exact ⟨rfl, rfl⟩

theorem sendMsgs_other (s : St) (p q : Peer) (c : Conn) (hcp : c.peer = p) (b : Bool) (msgs : List Nat)
    (h : q ≠ p) :
    (sendMsgs s p c b msgs).1.conns.filter (·.peer == q) = s.conns.filter (·.peer == q) ∧
    (sendMsgs s p c b msgs).1.delivered.filter (·.1 == q) = s.delivered.filter (·.1 == q) := by
  have hqp : (p == q) = false := by simpa using fun e : p = q => h e.symm
  have sendOn_other : ∀ (s : St) (c : Conn), c.peer = p → ∀ m,
      (sendOn s c m b).1.delivered.filter (·.1 == q) = s.delivered.filter (·.1 == q) := by
    intro s c hc m
    unfold sendOn
    split
    · simp [List.filter_append, hc, hqp]
    · rfl
  induction msgs generalizing s with
  | nil => simp [sendMsgs]
  | cons m ms ih =>
    simp only [sendMsgs]
    have o1 := sendOn_other s c hcp m
    have c1 := sendOn_conns s c m b
    split
    · have := ih (sendOn s c m b).1
      rw [c1, o1] at this
      exact this
    · have co := connect_other (sendOn s c m b).1 p q h
      rw [c1] at co
      split
      · rename_i s2 heq
        have h2 : s2 = (connect (sendOn s c m b).1 p).1 := by rw [heq]
        subst h2
        exact ⟨co.1, by rw [co.2, o1]⟩
      · rename_i s2 c' heq
        have h2 : s2 = (connect (sendOn s c m b).1 p).1 := by rw [heq]
        have hc' : c'.peer = p := connect_some_peer heq
        subst h2
        have o2 := sendOn_other (connect (sendOn s c m b).1 p).1 c' hc' m
        have c2 := sendOn_conns (connect (sendOn s c m b).1 p).1 c' m b
        split
        · have := ih (sendOn (connect (sendOn s c m b).1 p).1 c' m b).1
          rw [c2, o2, co.1, co.2, o1] at this
          exact this
        · exact ⟨by rw [c2, co.1], by rw [o2, co.2, o1]⟩

/-- **containment**: an action that concerns peer `p` — its process ending or coming back, the
detection of one of its connections failing, a connection it opens, any send towards it, with
whatever retries — leaves every other peer `q` exactly as it was: the same registered connections
in the same order, listening or not as before, the same messages delivered to it, no error handler
told about it. (There is no crash outcome in the model: every step is a total function into
`ok | err`.) -/
theorem c09_contained (s : St) (a : Act) (p q : Peer) (ha : a.about s = some p) (h : q ≠ p) :
    (step s a).1.conns.filter (·.peer == q) = s.conns.filter (·.peer == q) ∧
    (step s a).1.up.contains q = s.up.contains q ∧
    (step s a).1.delivered.filter (·.1 == q) = s.delivered.filter (·.1 == q) ∧
    (step s a).1.calls.filter (·.2 == q) = s.calls.filter (·.2 == q) := by
  have hpq : (p == q) = false := by simpa using fun e : p = q => h e.symm
  cases a with
  | peerDown p' =>
    simp only [Act.about, Option.some.injEq] at ha; subst ha
    refine ⟨filter_markDead s.conns p' q h, ?_, rfl, rfl⟩
    show (s.up.filter (· != p')).contains q = s.up.contains q
    rw [Bool.eq_iff_iff]
    simp only [List.contains_eq_mem, List.mem_filter, decide_eq_true_eq]
    constructor
    · exact fun hh => hh.1
    · exact fun hh => ⟨hh, by simpa using h⟩
  | peerUp p' =>
    simp only [Act.about, Option.some.injEq] at ha; subst ha
    have hstep : (step s (.peerUp p')).1 = { s with up := if s.up.contains p' then s.up else s.up ++ [p'] } := rfl
    rw [hstep]
    refine ⟨rfl, ?_, rfl, rfl⟩
    show (if s.up.contains p' then s.up else s.up ++ [p']).contains q = s.up.contains q
    split
    · rfl
    · rw [Bool.eq_iff_iff]
      simp [h]
  | accept p' =>
    simp only [Act.about, Option.some.injEq] at ha; subst ha
    by_cases hu : s.up.contains p' = true
    · have hstep : (step s (.accept p')).1 =
          { s with conns := s.conns ++ [{ id := s.next, peer := p', alive := true }], next := s.next + 1 } := by
        simp only [step, hu, if_true]
      rw [hstep]
      exact ⟨filter_other_append _ _ q (by intro c hc; simp at hc; rw [hc]; exact fun e => h e.symm),
        rfl, rfl, rfl⟩
    · have hstep : (step s (.accept p')).1 = s := by
        simp only [step, hu, Bool.false_eq_true, if_false]
      rw [hstep]
      exact ⟨rfl, rfl, rfl, rfl⟩
  | addHandler hh => simp [Act.about] at ha
  | detect cid =>
    simp only [Act.about] at ha
    cases hf : s.conns.find? (·.id == cid) with
    | none => rw [hf] at ha; cases ha
    | some c =>
      rw [hf] at ha
      simp only [Option.map_some, Option.some.injEq] at ha
      have hstep : (step s (.detect cid)).1 =
          { s with calls := s.calls ++ s.handlers.map (·, c.peer), conns := removeSwap s.conns c } := by
        simp only [step, hf]
      rw [hstep]
      refine ⟨removeSwap_other s.conns c q (by rw [ha]; exact h), rfl, rfl, ?_⟩
      show (s.calls ++ s.handlers.map (·, c.peer)).filter (·.2 == q) = s.calls.filter (·.2 == q)
      rw [List.filter_append]
      have : (s.handlers.map (·, c.peer)).filter (·.2 == q) = [] := by
        apply List.filter_eq_nil_iff.mpr
        intro x hx
        obtain ⟨hh, _, rfl⟩ := List.mem_map.mp hx
        simp [ha, hpq]
      simp [this]
  | send p' msgs b =>
    simp only [Act.about, Option.some.injEq] at ha; subst ha
    show (send s p' msgs b).1.conns.filter (·.peer == q) = _ ∧ (send s p' msgs b).1.up.contains q = _ ∧
      (send s p' msgs b).1.delivered.filter (·.1 == q) = _ ∧ (send s p' msgs b).1.calls.filter (·.2 == q) = _
    unfold send
    split
    · exact ⟨rfl, rfl, rfl, rfl⟩
    · split
      · rename_i c hf
        have hk := sendMsgs_keeps s p' c b msgs
        have ho := sendMsgs_other s p' q c (firstConn_some hf).2 b msgs h
        exact ⟨ho.1, by rw [hk.up], ho.2, by rw [hk.calls]⟩
      · have kc := connect_keeps s p'
        have co := connect_other s p' q h
        split
        · rename_i s1 heq
          have h1 : s1 = (connect s p').1 := by rw [heq]
          subst h1
          exact ⟨co.1, by rw [kc.up], by rw [co.2], by rw [kc.calls]⟩
        · rename_i s1 c heq
          have hcp := connect_some_peer heq
          have h1 : s1 = (connect s p').1 := by rw [heq]
          subst h1
          have hk := sendMsgs_keeps (connect s p').1 p' c b msgs
          have ho := sendMsgs_other (connect s p').1 p' q c hcp b msgs h
          exact ⟨by rw [ho.1, co.1], by rw [hk.up, kc.up], by rw [ho.2, co.2], by rw [hk.calls, kc.calls]⟩

/-! ### the invariants hold in every reachable state -/

def Inv (s : St) : Prop := Consistent s ∧ FreshIds s

theorem inv_init (dpc : Nat) (up : List Peer) : Inv { dpc := dpc, up := up } := by
  refine ⟨?_, ?_, ?_⟩ <;> simp [Consistent]

theorem connect_inv (s : St) (p : Peer) (h : Inv s) : Inv (connect s p).1 := by
  obtain ⟨hc, hlt, hnd⟩ := h
  by_cases hu : s.up.contains p = true
  · rw [connect_up s p hu]
    refine ⟨?_, ?_, ?_⟩
    · intro c hm ha
      rcases List.mem_append.mp hm with hm | hm
      · exact hc c hm ha
      · simp at hm; subst hm; exact hu
    · intro c hm
      rcases List.mem_append.mp hm with hm | hm
      · have := hlt c hm; show c.id < s.next + 1; omega
      · simp at hm; subst hm; show s.next < s.next + 1; omega
    · show ((s.conns ++ [({ id := s.next, peer := p, alive := true } : Conn)]).map (fun x => x.id)).Nodup
      rw [List.map_append, List.nodup_append]
      refine ⟨hnd, by simp, ?_⟩
      intro a ha b hb
      obtain ⟨x, hx, rfl⟩ := List.mem_map.mp ha
      simp at hb; subst hb
      have := hlt x hx
      omega
  · have hu' : s.up.contains p = false := by simpa using hu
    rw [connect_down s p hu']
    exact ⟨hc, hlt, hnd⟩

theorem sendOn_inv (s : St) (c : Conn) (m : Nat) (b : Bool) (h : Inv s) : Inv (sendOn s c m b).1 := by
  unfold sendOn; split
  · exact h
  · exact h

theorem sendMsgs_inv (s : St) (p : Peer) (c : Conn) (b : Bool) (msgs : List Nat) (h : Inv s) :
    Inv (sendMsgs s p c b msgs).1 := by
  induction msgs generalizing s with
  | nil => exact h
  | cons m ms ih =>
    simp only [sendMsgs]
    have i1 := sendOn_inv s c m b h
    split
    · exact ih _ i1
    · have ic := connect_inv (sendOn s c m b).1 p i1
      split
      · rename_i s2 heq
        have h2 : s2 = (connect (sendOn s c m b).1 p).1 := by rw [heq]
        subst h2; exact ic
      · rename_i s2 c' heq
        have h2 : s2 = (connect (sendOn s c m b).1 p).1 := by rw [heq]
        subst h2
        have i2 := sendOn_inv (connect (sendOn s c m b).1 p).1 c' m b ic
        split
        · exact ih _ i2
        · exact i2

theorem send_inv (s : St) (p : Peer) (msgs : List Nat) (b : Bool) (h : Inv s) : Inv (send s p msgs b).1 := by
  unfold send
  split
  · exact h
  · split
    · exact sendMsgs_inv s p _ b msgs h
    · have ic := connect_inv s p h
      split
      · rename_i s1 heq
        have h1 : s1 = (connect s p).1 := by rw [heq]
        subst h1; exact ic
      · rename_i s1 c heq
        have h1 : s1 = (connect s p).1 := by rw [heq]
        subst h1; exact sendMsgs_inv _ p c b msgs ic

theorem nodup_replace (init : List Conn) (cid : Nat) (last : Conn) (hn : (init.map (·.id)).Nodup)
    (hl : ∀ y ∈ init, y.id ≠ last.id) :
    ((init.map fun y => if y.id == cid then last else y).map (·.id)).Nodup := by
  induction init with
  | nil => simp
  | cons a t ih =>
    simp only [List.map_cons, List.nodup_cons] at hn ⊢
    have iht := ih hn.2 (fun y hy => hl y (List.mem_cons_of_mem _ hy))
    refine ⟨?_, iht⟩
    intro hmem
    obtain ⟨z, hz, hzid⟩ := List.mem_map.mp hmem
    obtain ⟨y, hy, hyz⟩ := List.mem_map.mp hz
    by_cases ha : a.id = cid
    · -- a is replaced by last; nothing else in t has that id
      have hycid : y.id ≠ cid := fun e => hn.1 (List.mem_map.mpr ⟨y, hy, e.trans ha.symm⟩)
      simp [ha, hycid] at hyz hzid
      subst hyz
      exact hl y (List.mem_cons_of_mem _ hy) hzid
    · simp [ha] at hzid
      by_cases hyc : y.id = cid
      · simp [hyc] at hyz; subst hyz
        exact hl a (by simp) hzid.symm
      · simp [hyc] at hyz; subst hyz
        exact hn.1 (List.mem_map.mpr ⟨y, hy, hzid⟩)

theorem removeSwap_nodup (l : List Conn) (c : Conn) (hc : c ∈ l) (hn : (l.map (·.id)).Nodup) :
    ((removeSwap l c).map (·.id)).Nodup := by
  have hcm : c ∈ l.filter (·.peer == c.peer) := List.mem_filter.mpr ⟨hc, by simp⟩
  have hmn : ((l.filter (·.peer == c.peer)).map (·.id)).Nodup :=
    hn.sublist (List.Sublist.map _ List.filter_sublist)
  have hon : ((l.filter (·.peer != c.peer)).map (·.id)).Nodup :=
    hn.sublist (List.Sublist.map _ List.filter_sublist)
  have hany : (l.filter (·.peer == c.peer)).any (·.id == c.id) = true :=
    List.any_eq_true.mpr ⟨c, hcm, by simp⟩
  simp only [removeSwap, hany, if_true]
  cases hrev : (l.filter (·.peer == c.peer)).reverse with
  | nil =>
    have : l.filter (·.peer == c.peer) = [] := by simpa using hrev
    rw [this] at hcm; cases hcm
  | cons last rest =>
    have hm : l.filter (·.peer == c.peer) = rest.reverse ++ [last] := by
      have := congrArg List.reverse hrev
      simpa using this
    simp only []
    rw [hm, List.map_append, List.map_append, List.map_singleton, List.dropLast_concat, List.nodup_append]
    rw [hm, List.map_append, List.map_singleton] at hmn
    have hninit : ∀ y ∈ rest.reverse, y.id ≠ last.id := by
      intro y hy e
      exact (List.nodup_append.mp hmn).2.2 y.id (List.mem_map.mpr ⟨y, hy, rfl⟩) last.id (by simp) e
    refine ⟨hon, nodup_replace _ c.id last (List.nodup_append.mp hmn).1 hninit, ?_⟩
    intro a ha b hb e
    obtain ⟨x, hx, rfl⟩ := List.mem_map.mp ha
    obtain ⟨z, hz, rfl⟩ := List.mem_map.mp hb
    obtain ⟨y, hy, hyz⟩ := List.mem_map.mp hz
    -- z is an entry of the lost peer's slice, x is not
    have hzmine : z ∈ l.filter (·.peer == c.peer) := by
      rw [hm]
      split at hyz
      · rw [← hyz]; simp
      · rw [← hyz]; simp [hy]
    have hxl : x ∈ l := (List.mem_filter.mp hx).1
    have hzl : z ∈ l := (List.mem_filter.mp hzmine).1
    have hxz : x = z := eq_of_id_eq hn hxl hzl e
    have h1 : x.peer ≠ c.peer := by simpa using (List.mem_filter.mp hx).2
    have h2 : z.peer = c.peer := by simpa using (List.mem_filter.mp hzmine).2
    exact h1 (by rw [hxz]; exact h2)

theorem inv_step (s : St) (a : Act) (h : Inv s) : Inv (step s a).1 := by
  obtain ⟨hc, hlt, hnd⟩ := h
  cases a with
  | peerDown p =>
    refine ⟨?_, ?_, ?_⟩
    · intro c hm ha
      obtain ⟨y, hy, hyc⟩ := List.mem_map.mp hm
      by_cases hp : y.peer = p
      · simp [hp] at hyc; rw [← hyc] at ha; simp at ha
      · simp [hp] at hyc; subst hyc
        have := hc y hy ha
        show (s.up.filter (· != p)).contains y.peer = true
        simp only [List.contains_eq_mem, List.mem_filter, decide_eq_true_eq] at this ⊢
        exact ⟨this, by simpa using hp⟩
    · intro c hm
      obtain ⟨y, hy, hyc⟩ := List.mem_map.mp hm
      have : c.id = y.id := by rw [← hyc]; split <;> rfl
      rw [this]; exact hlt y hy
    · show ((s.conns.map fun c => if c.peer == p then { c with alive := false } else c).map (·.id)).Nodup
      rw [List.map_map]
      have : ((fun c : Conn => c.id) ∘ fun c => if c.peer == p then { c with alive := false } else c)
          = fun c => c.id := by
        funext c; simp only [Function.comp]; split <;> rfl
      rw [this]; exact hnd
  | peerUp p =>
    refine ⟨?_, hlt, hnd⟩
    intro c hm ha
    have := hc c hm ha
    show (if s.up.contains p then s.up else s.up ++ [p]).contains c.peer = true
    split
    · exact this
    · simp only [List.contains_eq_mem, List.mem_append, decide_eq_true_eq] at this ⊢
      exact .inl this
  | detect cid =>
    simp only [step]
    split
    · exact ⟨hc, hlt, hnd⟩
    · rename_i c hf
      have hm := List.mem_of_find?_eq_some hf
      refine ⟨?_, ?_, removeSwap_nodup s.conns c hm hnd⟩
      · intro x hx ha
        exact hc x ((mem_removeSwap s.conns c hm hnd x).mp hx).1 ha
      · intro x hx
        exact hlt x ((mem_removeSwap s.conns c hm hnd x).mp hx).1
  | accept p =>
    simp only [step]
    split
    · rename_i hu
      have := connect_inv s p ⟨hc, hlt, hnd⟩
      rw [connect_up s p hu] at this
      exact ⟨this.1, this.2.1, this.2.2⟩
    · exact ⟨hc, hlt, hnd⟩
  | addHandler hh => exact ⟨hc, hlt, hnd⟩
  | send p msgs b => exact send_inv s p msgs b ⟨hc, hlt, hnd⟩

/-- every state a history can reach satisfies the hypotheses of the theorems above -/
theorem c09_invariants_reachable (s : St) (acts : List Act) (h : Inv s) : Inv (run s acts) := by
  induction acts generalizing s with
  | nil => exact h
  | cons a l ih => exact ih _ (inv_step s a h)

/-! ### non-vacuity and a worked history -/

private def s0 : St := { dpc := 5, up := [1, 2] }

/-- peer 1 is used, dies, is detected (two handlers are told, the entry goes), a send towards it
fails after 5 dials, it comes back, the next send connects afresh with one dial and delivers;
peer 2's connection is untouched throughout -/
example :
    let s := run s0 [.addHandler 10, .addHandler 11, .send 1 [7] false, .send 2 [8] false,
                     .peerDown 1, .detect 0, .send 1 [9] false, .peerUp 1, .send 1 [9] false]
    s.calls = [(10, 1), (11, 1)] ∧ s.delivered = [(1, 7), (2, 8), (1, 9)] ∧
    s.conns = [{ id := 1, peer := 2, alive := true }, { id := 2, peer := 1, alive := true }] ∧
    s.dials = 1 + 1 + 5 + 1 := by decide

/-- a stale entry that was never detected: the write fails, one reconnect, delivered — and the
stale entry is still there (only the receive loop removes it) -/
example :
    let s := run s0 [.send 1 [7] false, .peerDown 1, .peerUp 1, .send 1 [8] false]
    s.delivered = [(1, 7), (1, 8)] ∧ (s.conns.map (·.alive)) = [false, true] := by decide

/-- the residue named in the model: on TCP the write on a stale entry may be accepted locally —
the call reports success and the message is lost -/
example : (step (run s0 [.send 1 [7] false, .peerDown 1]) (.send 1 [8] true)).2 = .ok ∧
    (step (run s0 [.send 1 [7] false, .peerDown 1]) (.send 1 [8] true)).1.delivered = [(1, 7)] := by decide

example : Inv s0 := inv_init 5 [1, 2]

example : 1 ≤ (entry .sendToChildren [1, 3, 2] (fun d => (send s0 d [0] false).2)).1 ∧
    (entry .sendToChildren [1, 3, 2] (fun d => (send s0 d [0] false).2)).2 = [1, 3] := by decide


/-! ### the code regions the model stands for
Regenerated from /repo's source on every run (`harness/cmd/astfacts` → `OnetVerif/Shapes.lean`): the
calls that matter for synchronisation and data flow, the lock regions and (for decision logic) the
conditions, in source order.  A re-ordering, a dropped call or a changed condition breaks these
obligations even when no sampled input or schedule shows a difference; the check then searches for
a failing input. -/
theorem c09_shape_router_Router_Send :
    Shapes.network_router_Router_Send =
   ["msgTraffic.updateTx", "ServerIdentity.GetID", "e.GetID", "GetID().Equal", "MessageType",
     "r.Dispatch", "Marshal", "e.GetID", "r.connection", "r.connect", "c.Send", "r.connect",
     "c.Send"] := rfl

theorem c09_shape_router_Router_connect :
    Shapes.network_router_Router_connect =
   ["host.Connect", "c.Send", "c.Close", "verifC10Point", "r.registerConnection", "c.Close",
     "verifC10Point", "r.launchHandleRoutine"] := rfl

theorem c09_shape_router_Router_removeConnection :
    Shapes.network_router_Router_removeConnection =
   ["r.Lock", "defer:r.Unlock", "si.GetID", "si.GetID"] := rfl

theorem c09_shape_router_Router_handleConn :
    Shapes.network_router_Router_handleConn =
   ["defer{", "c.Close", "c.Rx", "c.Tx", "traffic.updateRx", "traffic.updateTx", "wg.Done",
     "r.removeConnection", "verifC10Point", "}", "verifC10Point", "c.Remote", "c.Receive",
     "verifC10Point", "r.Lock", "r.Unlock", "recv:paused", "r.Lock", "r.Unlock", "r.Closed",
     "r.triggerConnectionErrorHandlers", "r.triggerConnectionErrorHandlers",
     "r.triggerConnectionErrorHandlers", "verifC10Point", "msgTraffic.updateRx", "r.Dispatch"] := rfl

theorem c09_shape_router_Router_triggerConnectionErrorHandlers :
    Shapes.network_router_Router_triggerConnectionErrorHandlers =
   ["v"] := rfl

theorem c09_shape_Context_SendRaw :
    Shapes.context_Context_SendRaw =
   ["server.Send"] := rfl


end C09
