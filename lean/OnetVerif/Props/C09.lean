import OnetVerif.Model.C09
import OnetVerif.Proofs.C09Pause
import OnetVerif.Shapes
/-! Property C09 — peer failures are contained, reported to senders, and recoverable.
Property theorems (`c09_…`), the lemmas they need, witnesses and non-vacuity examples. -/
namespace C09

/-! ### invariants of the connection table -/

/-- a connection whose far end exists belongs to a peer that is up -/
def Consistent (s : St) : Prop := ∀ c ∈ s.conns, c.alive = true → s.up.contains c.peer = true

/-- connection numbers are fresh: below `next`, pairwise distinct -/
def FreshIds (s : St) : Prop := (∀ c ∈ s.conns, c.id < s.next) ∧ (s.conns.map (·.id)).Nodup

/-! ### `connect`, `sendOn`, `sendMsgs`: what they leave alone -/

theorem connect_up (s : St) (p : Peer) (h : s.up.contains p = true) :
    connect s p = ({ s with conns := s.conns ++ [{ id := s.next, peer := p, alive := true }],
                            next := s.next + 1, dials := s.dials + 1 },
                   some { id := s.next, peer := p, alive := true }) := by
  unfold connect; rw [if_pos h]

theorem connect_down (s : St) (p : Peer) (h : s.up.contains p = false) :
    connect s p = ({ s with dials := s.dials + s.dpc, waits := s.waits + s.wpc }, none) := by
  unfold connect; rw [if_neg (by rw [h]; exact Bool.false_ne_true)]

/-- the fields a `Send` never touches, and the monotone ones -/
structure Keeps (s s' : St) : Prop where
  dpc : s'.dpc = s.dpc
  wpc : s'.wpc = s.wpc
  up : s'.up = s.up
  handlers : s'.handlers = s.handlers
  calls : s'.calls = s.calls

theorem Keeps.refl (s : St) : Keeps s s := ⟨rfl, rfl, rfl, rfl, rfl⟩
theorem Keeps.trans {a b c : St} (h1 : Keeps a b) (h2 : Keeps b c) : Keeps a c :=
  ⟨h2.dpc.trans h1.dpc, h2.wpc.trans h1.wpc, h2.up.trans h1.up, h2.handlers.trans h1.handlers,
    h2.calls.trans h1.calls⟩

theorem connect_keeps (s : St) (p : Peer) : Keeps s (connect s p).1 := by
  unfold connect; split <;> exact ⟨rfl, rfl, rfl, rfl, rfl⟩

theorem sendOn_keeps (s : St) (c : Conn) (m : Nat) (b : Bool) : Keeps s (sendOn s c m b).1 := by
  unfold sendOn; split <;> exact ⟨rfl, rfl, rfl, rfl, rfl⟩

theorem sendOn_dials (s : St) (c : Conn) (m : Nat) (b : Bool) : (sendOn s c m b).1.dials = s.dials := by
  unfold sendOn; split <;> rfl

theorem sendOn_conns (s : St) (c : Conn) (m : Nat) (b : Bool) : (sendOn s c m b).1.conns = s.conns := by
  unfold sendOn; split <;> rfl

theorem connect_dials (s : St) (p : Peer) (h : 1 ≤ s.dpc) :
    (connect s p).1.dials ≤ s.dials + s.dpc := by
  unfold connect; split <;> simp <;> omega

theorem connect_some_peer {s s2 : St} {p : Peer} {c' : Conn} (h : connect s p = (s2, some c')) :
    c'.peer = p := by
  unfold connect at h
  split at h
  · simp at h; rw [← h.2]
  · simp at h

theorem sendMsgs_keeps (s : St) (p : Peer) (c : Conn) (b : Bool) (msgs : List Nat) :
    Keeps s (sendMsgs s p c b msgs).1 := by
  induction msgs generalizing s with
  | nil => simp [sendMsgs, Keeps.refl]
  | cons m ms ih =>
    simp only [sendMsgs]
    have k1 := sendOn_keeps s c m b
    split
    · exact k1.trans (ih _)
    · have kc := connect_keeps (sendOn s c m b).1 p
      split
      · rename_i s2 heq
        have h2 : s2 = (connect (sendOn s c m b).1 p).1 := by rw [heq]
        subst h2; exact k1.trans kc
      · rename_i s2 c' heq
        have h2 : s2 = (connect (sendOn s c m b).1 p).1 := by rw [heq]
        subst h2
        have k2 := sendOn_keeps (connect (sendOn s c m b).1 p).1 c' m b
        split
        · exact (k1.trans kc).trans (k2.trans (ih _))
        · exact (k1.trans kc).trans k2

/-! ### bounded attempts -/

theorem sendMsgs_dials (s : St) (p : Peer) (c : Conn) (b : Bool) (msgs : List Nat) (h : 1 ≤ s.dpc) :
    (sendMsgs s p c b msgs).1.dials ≤ s.dials + msgs.length * s.dpc ∧ Keeps s (sendMsgs s p c b msgs).1 := by
  induction msgs generalizing s with
  | nil => simp [sendMsgs, Keeps.refl]
  | cons m ms ih =>
    simp only [sendMsgs, List.length_cons]
    have k1 := sendOn_keeps s c m b
    have d1 := sendOn_dials s c m b
    split
    · have := ih (sendOn s c m b).1 (by rw [k1.dpc]; exact h)
      rw [k1.dpc, d1] at this
      refine ⟨?_, k1.trans this.2⟩
      have e : (ms.length + 1) * s.dpc = ms.length * s.dpc + s.dpc := Nat.succ_mul _ _
      omega
    · have kc := connect_keeps (sendOn s c m b).1 p
      have dc := connect_dials (sendOn s c m b).1 p (by rw [k1.dpc]; exact h)
      rw [k1.dpc, d1] at dc
      have e : (ms.length + 1) * s.dpc = ms.length * s.dpc + s.dpc := Nat.succ_mul _ _
      split
      · rename_i s2 heq
        have h2 : s2 = (connect (sendOn s c m b).1 p).1 := by rw [heq]
        subst h2
        exact ⟨by dsimp only; omega, k1.trans kc⟩
      · rename_i s2 c' heq
        have h2 : s2 = (connect (sendOn s c m b).1 p).1 := by rw [heq]
        subst h2
        have k2 := sendOn_keeps (connect (sendOn s c m b).1 p).1 c' m b
        have d2 := sendOn_dials (connect (sendOn s c m b).1 p).1 c' m b
        split
        · have := ih (sendOn (connect (sendOn s c m b).1 p).1 c' m b).1
            (by rw [k2.dpc, kc.dpc, k1.dpc]; exact h)
          rw [k2.dpc, kc.dpc, k1.dpc, d2] at this
          exact ⟨by omega, (k1.trans kc).trans (k2.trans this.2)⟩
        · exact ⟨by rw [d2]; omega, (k1.trans kc).trans k2⟩

/-- **bounded attempts**: one `Router.Send` of `n` messages performs at most `1 + n` connects,
i.e. at most `(1 + n)·dialsPerConnect` dial attempts, and then returns (the function is total).
For the single message every entry point sends: at most two connects. -/
theorem c09_bounded_attempts (s : St) (p : Peer) (msgs : List Nat) (staleOk : Bool) (h : 1 ≤ s.dpc) :
    (send s p msgs staleOk).1.dials ≤ s.dials + (1 + msgs.length) * s.dpc := by
  unfold send
  have e : (1 + msgs.length) * s.dpc = s.dpc + msgs.length * s.dpc := by
    rw [Nat.add_mul, Nat.one_mul]
  split
  · dsimp only; omega
  · split
    · rename_i c _
      have := (sendMsgs_dials s p c staleOk msgs h).1
      omega
    · have kc := connect_keeps s p
      have dc := connect_dials s p h
      split
      · rename_i s1 heq
        have h1 : s1 = (connect s p).1 := by rw [heq]
        subst h1; dsimp only; omega
      · rename_i s1 c heq
        have h1 : s1 = (connect s p).1 := by rw [heq]
        subst h1
        have := (sendMsgs_dials (connect s p).1 p c staleOk msgs (by rw [kc.dpc]; exact h)).1
        rw [kc.dpc] at this
        omega

/-- the constant in the bound, for the two transports and every value of `MaxRetryConnect` -/
theorem c09_dials_per_connect (M : Nat) :
    dialsPerConnect M .tcp = M ∧ dialsPerConnect M .loc = M * M := ⟨rfl, rfl⟩

/-! ### sends return within the configured time-outs -/

theorem sendOn_waits (s : St) (c : Conn) (m : Nat) (b : Bool) : (sendOn s c m b).1.waits = s.waits := by
  unfold sendOn; split <;> rfl

theorem connect_waits (s : St) (p : Peer) : (connect s p).1.waits ≤ s.waits + s.wpc := by
  unfold connect; split <;> simp

theorem sendMsgs_waits (s : St) (p : Peer) (c : Conn) (b : Bool) (msgs : List Nat) :
    (sendMsgs s p c b msgs).1.waits ≤ s.waits + msgs.length * s.wpc := by
  induction msgs generalizing s with
  | nil => simp [sendMsgs]
  | cons m ms ih =>
    simp only [sendMsgs, List.length_cons]
    have k1 := sendOn_keeps s c m b
    have d1 := sendOn_waits s c m b
    have e : (ms.length + 1) * s.wpc = ms.length * s.wpc + s.wpc := Nat.succ_mul _ _
    split
    · have := ih (sendOn s c m b).1
      rw [k1.wpc, d1] at this
      omega
    · have kc := connect_keeps (sendOn s c m b).1 p
      have dc := connect_waits (sendOn s c m b).1 p
      rw [k1.wpc, d1] at dc
      split
      · rename_i s2 heq
        have h2 : s2 = (connect (sendOn s c m b).1 p).1 := by rw [heq]
        subst h2
        dsimp only; omega
      · rename_i s2 c' heq
        have h2 : s2 = (connect (sendOn s c m b).1 p).1 := by rw [heq]
        subst h2
        have k2 := sendOn_keeps (connect (sendOn s c m b).1 p).1 c' m b
        have d2 := sendOn_waits (connect (sendOn s c m b).1 p).1 c' m b
        split
        · have := ih (sendOn (connect (sendOn s c m b).1 p).1 c' m b).1
          rw [k2.wpc, kc.wpc, k1.wpc, d2] at this
          omega
        · rw [d2]; omega

theorem send_waits (s : St) (p : Peer) (msgs : List Nat) (staleOk : Bool) :
    (send s p msgs staleOk).1.waits ≤ s.waits + (1 + msgs.length) * s.wpc := by
  unfold send
  have e : (1 + msgs.length) * s.wpc = s.wpc + msgs.length * s.wpc := by
    rw [Nat.add_mul, Nat.one_mul]
  split
  · dsimp only; omega
  · split
    · rename_i c _
      have := sendMsgs_waits s p c staleOk msgs
      omega
    · have kc := connect_keeps s p
      have dc := connect_waits s p
      split
      · rename_i s1 heq
        have h1 : s1 = (connect s p).1 := by rw [heq]
        subst h1; dsimp only; omega
      · rename_i s1 c heq
        have h1 : s1 = (connect s p).1 := by rw [heq]
        subst h1
        have := sendMsgs_waits (connect s p).1 p c staleOk msgs
        rw [kc.wpc] at this
        omega

/-- **sends return within the configured time-outs**: whatever the state of the connection table
and of the peer, a `Send` of `n` messages makes at most `(1+n)·dialsPerConnect` dial attempts and
pauses at most `(1+n)·waitsPerConnect` times between them, and does nothing else that can wait.
So if one dial attempt takes at most `dt` (the dial time-out on TCP and TLS — on TLS it has to
cover the handshake —, nothing on the in-memory transport) and one pause `wr` (`WaitRetry`), the
call returns after at most `(1+n)·(dpc·dt + wpc·wr)`: for the single message of every protocol- and
service-facing entry point, two connects. -/
theorem c09_send_time_bounded (s : St) (p : Peer) (msgs : List Nat) (staleOk : Bool) (h : 1 ≤ s.dpc)
    (dt wr : Nat) :
    ((send s p msgs staleOk).1.dials - s.dials) * dt + ((send s p msgs staleOk).1.waits - s.waits) * wr
      ≤ (1 + msgs.length) * (s.dpc * dt + s.wpc * wr) := by
  have hd := c09_bounded_attempts s p msgs staleOk h
  have hw := send_waits s p msgs staleOk
  have h1 : ((send s p msgs staleOk).1.dials - s.dials) * dt ≤ ((1 + msgs.length) * s.dpc) * dt :=
    Nat.mul_le_mul_right _ (by omega)
  have h2 : ((send s p msgs staleOk).1.waits - s.waits) * wr ≤ ((1 + msgs.length) * s.wpc) * wr :=
    Nat.mul_le_mul_right _ (by omega)
  rw [Nat.mul_add, ← Nat.mul_assoc, ← Nat.mul_assoc]
  omega

/-- the constants of the bound, for both transports and every value of `MaxRetryConnect` -/
theorem c09_waits_per_connect (M : Nat) :
    waitsPerConnect M .tcp = M - 1 ∧ waitsPerConnect M .loc = M * M := ⟨rfl, rfl⟩

/-! ### errors reach the caller -/

theorem firstConn_some {s : St} {p : Peer} {c : Conn} (h : firstConn s p = some c) :
    c ∈ s.conns ∧ c.peer = p := by
  unfold firstConn at h
  exact ⟨List.mem_of_find?_eq_some h, by simpa using List.find?_some h⟩

theorem sendMsgs_down (s : St) (p : Peer) (c : Conn) (msgs : List Nat) (hne : msgs ≠ [])
    (hc : c.alive = false) (hup : s.up.contains p = false) :
    (sendMsgs s p c false msgs).2 = .err := by
  cases msgs with
  | nil => exact absurd rfl hne
  | cons m ms =>
    simp only [sendMsgs, sendOn, hc]
    simp [connect_down s p hup]

/-- `Router.Send` towards a peer at whose address nothing listens returns an error — provided a
write on a connection whose far end is gone fails (see the note on TCP in the model). -/
theorem send_down_errs (s : St) (hs : Consistent s) (p : Peer) (msgs : List Nat)
    (hup : s.up.contains p = false) : (send s p msgs false).2 = .err := by
  unfold send
  split
  · rfl
  · rename_i hne
    have hne' : msgs ≠ [] := by intro e; simp [e] at hne
    split
    · rename_i c hf
      obtain ⟨hm, hp⟩ := firstConn_some hf
      have hdead : c.alive = false := by
        cases ha : c.alive with
        | false => rfl
        | true => have := hs c hm ha; rw [hp, hup] at this; cases this
      exact sendMsgs_down s p c msgs hne' hdead hup
    · simp [connect_down s p hup]

theorem entry_single_err (e : Entry) (d : Peer) (rest : List Peer) (res : Peer → Res)
    (he : e = .routerSend ∨ e = .ctxSendRaw ∨ e = .sendTo ∨ e = .sendToParent) (hd : res d = .err) :
    (entry e (d :: rest) res).1 = 1 := by
  rcases he with rfl | rfl | rfl | rfl <;> simp [entry, hd]

theorem entry_children_err (dests : List Peer) (res : Peer → Res) (h : ∃ d ∈ dests, res d = .err) :
    (entry .sendToChildren dests res).1 = 1 := by
  simp only [entry]
  induction dests with
  | nil => obtain ⟨d, hd, _⟩ := h; cases hd
  | cons d l ih =>
    simp only [entry.go]
    split
    · rfl
    · rename_i hn
      obtain ⟨x, hx, hr⟩ := h
      rcases List.mem_cons.mp hx with rfl | hx
      · exact absurd hr hn
      · exact ih ⟨x, hx, hr⟩

theorem entry_all_err (dests : List Peer) (res : Peer → Res) (h : ∃ d ∈ dests, res d = .err) :
    1 ≤ (entry .sendToAll dests res).1 := by
  obtain ⟨d, hd, hr⟩ := h
  simp only [entry]
  exact List.length_pos_of_mem (List.mem_filter.mpr ⟨hd, by simp [hr]⟩)

/-- **every send entry point reports the failure**: in every consistent state, for every entry
point offered to services and protocols — router/server send, the service context's raw send, the
tree-node send, send-to-parent, send-to-children (sequential and parallel), multicast, broadcast —
if nothing listens at a destination it addresses, the caller gets an error. -/
theorem c09_error_reaches_caller (s : St) (hs : Consistent s) (e : Entry) (dests : List Peer)
    (msgs : List Nat) (hne : dests ≠ [])
    (hdown : ∀ d ∈ dests, s.up.contains d = false) :
    1 ≤ (entry e dests (fun d => (send s d msgs false).2)).1 := by
  cases dests with
  | nil => exact absurd rfl hne
  | cons d rest =>
    have hd : (fun d => (send s d msgs false).2) d = .err :=
      send_down_errs s hs d msgs (hdown d (by simp))
    cases e with
    | routerSend => rw [entry_single_err _ d rest _ (.inl rfl) hd]; omega
    | ctxSendRaw => rw [entry_single_err _ d rest _ (.inr (.inl rfl)) hd]; omega
    | sendTo => rw [entry_single_err _ d rest _ (.inr (.inr (.inl rfl))) hd]; omega
    | sendToParent => rw [entry_single_err _ d rest _ (.inr (.inr (.inr rfl))) hd]; omega
    | sendToChildren => rw [entry_children_err _ _ ⟨d, by simp, hd⟩]; omega
    | sendToAll => exact entry_all_err _ _ ⟨d, by simp, hd⟩

/-- the defect that was repaired: `Context.SendRaw` built the error and returned nil -/
def entryBeforeFix (e : Entry) (dests : List Peer) (res : Peer → Res) : Nat × List Peer :=
  if e = .ctxSendRaw then (0, dests.take 1) else entry e dests res

theorem c09_sendraw_before_fix :
    (entryBeforeFix .ctxSendRaw [7] (fun d => (send {} d [0] false).2)).1 = 0 ∧
    (entry .ctxSendRaw [7] (fun d => (send {} d [0] false).2)).1 = 1 := by decide

/-! ### error handlers are told, exactly the lost connection goes -/

theorem eq_of_id_eq {l : List Conn} (hn : (l.map (·.id)).Nodup) {x y : Conn} (hx : x ∈ l) (hy : y ∈ l)
    (h : x.id = y.id) : x = y := by
  induction l with
  | nil => cases hx
  | cons a l ih =>
    simp only [List.map_cons, List.nodup_cons] at hn
    rcases List.mem_cons.mp hx with hxa | hx' <;> rcases List.mem_cons.mp hy with hya | hy'
    · rw [hxa, hya]
    · exact absurd (List.mem_map.mpr ⟨y, hy', by show y.id = a.id; rw [← h, hxa]⟩) hn.1
    · exact absurd (List.mem_map.mpr ⟨x, hx', by show x.id = a.id; rw [h, hya]⟩) hn.1
    · exact ih hn.2 hx' hy'

theorem mem_swapRemove (mine : List Conn) (cid : Nat) (last : Conn) (init : List Conn)
    (hm : mine = init ++ [last]) (hn : (mine.map (·.id)).Nodup) (hc : ∃ c ∈ mine, c.id = cid) (x : Conn) :
    x ∈ (mine.map fun y => if y.id == cid then last else y).dropLast ↔ x ∈ mine ∧ x.id ≠ cid := by
  subst hm
  rw [List.map_append, List.map_singleton, List.dropLast_concat]
  simp only [List.map_append, List.map_singleton] at hn
  have hninit : ∀ y ∈ init, y.id ≠ last.id := by
    intro y hy e
    have := (List.nodup_append.mp hn).2.2 y.id (List.mem_map.mpr ⟨y, hy, rfl⟩) last.id (by simp)
    exact this e
  have hnodup : (init.map (·.id)).Nodup := (List.nodup_append.mp hn).1
  by_cases hl : last.id = cid
  · -- the lost connection is the last one: nothing moves
    have hsame : (init.map fun y => if y.id == cid then last else y) = init := by
      rw [List.map_congr_left (g := id)]
      · simp
      · intro y hy
        have : y.id ≠ cid := fun e => hninit y hy (e.trans hl.symm)
        simp [this]
    rw [hsame]
    constructor
    · intro hx
      exact ⟨by simp [hx], fun e => hninit x hx (e.trans hl.symm)⟩
    · rintro ⟨hx, hne⟩
      rcases List.mem_append.mp hx with h | h
      · exact h
      · simp at h; subst h; exact absurd hl hne
  · -- the lost connection is inside: the last one takes its place
    obtain ⟨c, hcm, hcid⟩ := hc
    have hcinit : c ∈ init := by
      rcases List.mem_append.mp hcm with h | h
      · exact h
      · simp at h; subst h; exact absurd hcid hl
    constructor
    · intro hx
      obtain ⟨y, hy, hxy⟩ := List.mem_map.mp hx
      by_cases hyc : y.id = cid
      · simp [hyc] at hxy; subst hxy
        exact ⟨by simp, hl⟩
      · simp [hyc] at hxy; subst hxy
        exact ⟨by simp [hy], hyc⟩
    · rintro ⟨hx, hne⟩
      rcases List.mem_append.mp hx with h | h
      · exact List.mem_map.mpr ⟨x, h, by simp [hne]⟩
      · simp at h; subst h
        exact List.mem_map.mpr ⟨c, hcinit, by simp [hcid]⟩

theorem mem_removeSwap (l : List Conn) (c : Conn) (hc : c ∈ l) (hn : (l.map (·.id)).Nodup) (x : Conn) :
    x ∈ removeSwap l c ↔ x ∈ l ∧ x.id ≠ c.id := by
  have hcm : c ∈ l.filter (·.peer == c.peer) := List.mem_filter.mpr ⟨hc, by simp⟩
  have hmn : ((l.filter (·.peer == c.peer)).map (·.id)).Nodup :=
    hn.sublist (List.Sublist.map _ List.filter_sublist)
  have hany : (l.filter (·.peer == c.peer)).any (·.id == c.id) = true :=
    List.any_eq_true.mpr ⟨c, hcm, by simp⟩
  have hsplit : ∀ x, x ∈ l ↔ x ∈ l.filter (·.peer != c.peer) ∨ x ∈ l.filter (·.peer == c.peer) := by
    intro x
    simp only [List.mem_filter]
    by_cases hp : x.peer = c.peer <;> simp [hp]
  unfold removeSwap
  simp only [hany, if_true]
  cases hrev : (l.filter (·.peer == c.peer)).reverse with
  | nil =>
    have : l.filter (·.peer == c.peer) = [] := by simpa using hrev
    rw [this] at hcm; cases hcm
  | cons last rest =>
    have hm : l.filter (·.peer == c.peer) = rest.reverse ++ [last] := by
      have := congrArg List.reverse hrev
      simpa using this
    simp only []
    rw [List.mem_append, mem_swapRemove _ c.id last rest.reverse hm hmn ⟨c, hcm, rfl⟩ x, hsplit x]
    constructor
    · rintro (h | ⟨h, hne⟩)
      · refine ⟨.inl h, ?_⟩
        intro e
        have hx : x ∈ l := (List.mem_filter.mp h).1
        have hxp : x.peer ≠ c.peer := by simpa using (List.mem_filter.mp h).2
        have : x = c := eq_of_id_eq hn hx hc e
        exact hxp (by rw [this])
      · exact ⟨.inr h, hne⟩
    · rintro ⟨h | h, hne⟩
      · exact .inl h
      · exact .inr ⟨h, hne⟩

/-- **error handlers are told**: when the receive loop of a registered connection sees it fail,
every registered handler is called exactly once, in registration order, with the identity of the
peer that was lost, and exactly that connection leaves the table — no other entry is removed. -/
theorem c09_handlers_told (s : St) (hf : FreshIds s) (c : Conn) (hc : c ∈ s.conns) :
    (step s (.detect c.id)).1.calls = s.calls ++ s.handlers.map (·, c.peer) ∧
    (∀ x, x ∈ (step s (.detect c.id)).1.conns ↔ x ∈ s.conns ∧ x.id ≠ c.id) ∧
    (step s (.detect c.id)).1.up = s.up ∧ (step s (.detect c.id)).1.delivered = s.delivered ∧
    (step s (.detect c.id)).1.handlers = s.handlers := by
  have hfind : s.conns.find? (·.id == c.id) = some c := by
    cases hf' : s.conns.find? (·.id == c.id) with
    | none =>
      have := List.find?_eq_none.mp hf' c hc
      simp at this
    | some c' =>
      have hm := List.mem_of_find?_eq_some hf'
      have hid : c'.id = c.id := by simpa using List.find?_some hf'
      rw [eq_of_id_eq hf.2 hm hc hid]
  have hstep : (step s (.detect c.id)).1 =
      { s with calls := s.calls ++ s.handlers.map (·, c.peer), conns := removeSwap s.conns c } := by
    simp only [step, hfind]
  rw [hstep]
  exact ⟨rfl, fun x => mem_removeSwap s.conns c hc hf.2 x, rfl, rfl, rfl⟩

/-! ### recovery -/

theorem sendMsgs_up (s : St) (p : Peer) (c : Conn) (hcp : c.peer = p) (msgs : List Nat)
    (hup : s.up.contains p = true) :
    (sendMsgs s p c false msgs).2 = .ok ∧
    (sendMsgs s p c false msgs).1.delivered = s.delivered ++ msgs.map (p, ·) := by
  induction msgs generalizing s with
  | nil => simp [sendMsgs]
  | cons m ms ih =>
    by_cases ha : c.alive = true
    · have e1 : sendOn s c m false = ({ s with delivered := s.delivered ++ [(c.peer, m)] }, true) := by
        simp [sendOn, ha]
      have h := ih { s with delivered := s.delivered ++ [(c.peer, m)] } hup
      have hd : ({ s with delivered := s.delivered ++ [(c.peer, m)] } : St).delivered
          = s.delivered ++ [(c.peer, m)] := rfl
      rw [hd] at h
      simp only [sendMsgs, e1, if_true]
      refine ⟨h.1, ?_⟩
      rw [h.2, hcp]; simp
    · have e1 : sendOn s c m false = (s, false) := by simp [sendOn, ha]
      have e2 : sendOn { s with conns := s.conns ++ [{ id := s.next, peer := p, alive := true }],
                                next := s.next + 1, dials := s.dials + 1 }
                  { id := s.next, peer := p, alive := true } m false =
          ({ s with conns := s.conns ++ [{ id := s.next, peer := p, alive := true }],
                    next := s.next + 1, dials := s.dials + 1,
                    delivered := s.delivered ++ [(p, m)] }, true) := by
        simp [sendOn]
      have := ih { s with conns := s.conns ++ [{ id := s.next, peer := p, alive := true }],
                          next := s.next + 1, dials := s.dials + 1,
                          delivered := s.delivered ++ [(p, m)] } hup
      have hd : ({ s with conns := s.conns ++ [{ id := s.next, peer := p, alive := true }],
                          next := s.next + 1, dials := s.dials + 1,
                          delivered := s.delivered ++ [(p, m)] } : St).delivered
          = s.delivered ++ [(p, m)] := rfl
      rw [hd] at this
      simp only [sendMsgs, e1, Bool.false_eq_true, if_false, connect_up s p hup, e2, if_true]
      refine ⟨this.1, ?_⟩
      rw [this.2]; simp

/-- a send towards a peer that listens succeeds and hands over every message, in order — over the
registered connection if its far end exists, else (the write fails) over a fresh one -/
theorem c09_send_up_delivers (s : St) (p : Peer) (msgs : List Nat) (hne : msgs ≠ [])
    (hup : s.up.contains p = true) :
    (send s p msgs false).2 = .ok ∧
    (send s p msgs false).1.delivered = s.delivered ++ msgs.map (p, ·) := by
  unfold send
  have : msgs.isEmpty = false := by cases msgs <;> simp_all
  simp only [this, Bool.false_eq_true, if_false]
  split
  · rename_i c hf
    exact sendMsgs_up s p c (firstConn_some hf).2 msgs hup
  · rw [connect_up s p hup]
    exact sendMsgs_up _ p _ rfl msgs hup

theorem run_append (s : St) (l₁ l₂ : List Act) : run s (l₁ ++ l₂) = run (run s l₁) l₂ := by
  induction l₁ generalizing s with
  | nil => rfl
  | cons a l ih => simp [run, ih]

/-- **recovery**: whatever happened before, once the peer went down, any of its failures were (or
were not) detected, and something listens at its address again, a new send reaches it: the call
succeeds and every message is handed to the new incarnation, in order. -/
theorem c09_recovers (s : St) (p : Peer) (detected : List Nat) (msgs : List Nat) (hne : msgs ≠ []) :
    let s' := run s ([.peerDown p] ++ detected.map .detect ++ [.peerUp p])
    (send s' p msgs false).2 = .ok ∧
    (send s' p msgs false).1.delivered = s'.delivered ++ msgs.map (p, ·) := by
  intro s'
  have hup : s'.up.contains p = true := by
    simp only [s', run_append, run, step]
    split
    · rename_i h; exact h
    · simp
  exact c09_send_up_delivers s' p msgs hne hup

/-! ### containment -/

/-- what an action is about -/
def Act.about (s : St) : Act → Option Peer
  | .peerDown p | .peerUp p | .accept p | .send p _ _ => some p
  | .detect cid | .report cid | .remove cid => (s.conns.find? (·.id == cid)).map (·.peer)
  | .addHandler _ => none

theorem filter_other_append (l x : List Conn) (q : Peer) (hx : ∀ c ∈ x, c.peer ≠ q) :
    (l ++ x).filter (·.peer == q) = l.filter (·.peer == q) := by
  rw [List.filter_append]
  have : x.filter (·.peer == q) = [] := by
    apply List.filter_eq_nil_iff.mpr
    intro c hc; simpa using hx c hc
  simp [this]

theorem filter_markDead (l : List Conn) (p q : Peer) (h : q ≠ p) :
    (l.map fun c => if c.peer == p then { c with alive := false } else c).filter (·.peer == q)
      = l.filter (·.peer == q) := by
  induction l with
  | nil => rfl
  | cons c l ih =>
    by_cases hc : c.peer = p
    · have h1 : (c.peer == p) = true := by simpa using hc
      have h2 : (c.peer == q) = false := by
        have : c.peer ≠ q := by rw [hc]; exact fun e => h e.symm
        simpa using this
      rw [List.map_cons, List.filter_cons, List.filter_cons, ih]
      simp only [h1, if_true, h2, Bool.false_eq_true, if_false]
    · have h1 : (c.peer == p) = false := by simpa using hc
      rw [List.map_cons, List.filter_cons, List.filter_cons, ih]
      simp only [h1, Bool.false_eq_true, if_false]

theorem removeSwap_other (l : List Conn) (c : Conn) (q : Peer) (h : q ≠ c.peer) :
    (removeSwap l c).filter (·.peer == q) = l.filter (·.peer == q) := by
  have hoth : (l.filter (·.peer != c.peer)).filter (·.peer == q) = l.filter (·.peer == q) := by
    rw [List.filter_filter]
    apply List.filter_congr
    intro x _
    by_cases hx : x.peer = q
    · simp [hx, h]
    · simp [hx]
  have hmine : ∀ y ∈ l.filter (·.peer == c.peer), y.peer ≠ q := by
    intro y hy
    have : y.peer = c.peer := by simpa using (List.mem_filter.mp hy).2
    rw [this]; exact fun e => h e.symm
  simp only [removeSwap]
  cases hrev : (l.filter (·.peer == c.peer)).reverse with
  | nil => rfl
  | cons last rest =>
    have hlast : last ∈ l.filter (·.peer == c.peer) := by
      have : last ∈ (l.filter (·.peer == c.peer)).reverse := by rw [hrev]; simp
      exact List.mem_reverse.mp this
    simp only []
    rw [filter_other_append _ _ q ?_, hoth]
    intro y hy
    split at hy
    · have hy' := List.dropLast_subset _ hy
      obtain ⟨z, hz, hzy⟩ := List.mem_map.mp hy'
      split at hzy
      · rw [← hzy]; exact hmine _ hlast
      · rw [← hzy]; exact hmine _ hz
    · exact hmine y hy

theorem connect_other (s : St) (p q : Peer) (h : q ≠ p) :
    (connect s p).1.conns.filter (·.peer == q) = s.conns.filter (·.peer == q) ∧
    (connect s p).1.delivered = s.delivered := by
  unfold connect
  split
  · exact ⟨filter_other_append _ _ q (by intro c hc; simp at hc; subst hc; exact fun e => h e.symm), rfl⟩
  · exact ⟨rfl, rfl⟩

theorem sendMsgs_other (s : St) (p q : Peer) (c : Conn) (hcp : c.peer = p) (b : Bool) (msgs : List Nat)
    (h : q ≠ p) :
    (sendMsgs s p c b msgs).1.conns.filter (·.peer == q) = s.conns.filter (·.peer == q) ∧
    (sendMsgs s p c b msgs).1.delivered.filter (·.1 == q) = s.delivered.filter (·.1 == q) := by
  have hqp : (p == q) = false := by simpa using fun e : p = q => h e.symm
  have sendOn_other : ∀ (s : St) (c : Conn), c.peer = p → ∀ m,
      (sendOn s c m b).1.delivered.filter (·.1 == q) = s.delivered.filter (·.1 == q) := by
    intro s c hc m
    unfold sendOn
    split
    · simp [List.filter_append, hc, hqp]
    · rfl
  induction msgs generalizing s with
  | nil => simp [sendMsgs]
  | cons m ms ih =>
    simp only [sendMsgs]
    have o1 := sendOn_other s c hcp m
    have c1 := sendOn_conns s c m b
    split
    · have := ih (sendOn s c m b).1
      rw [c1, o1] at this
      exact this
    · have co := connect_other (sendOn s c m b).1 p q h
      rw [c1] at co
      split
      · rename_i s2 heq
        have h2 : s2 = (connect (sendOn s c m b).1 p).1 := by rw [heq]
        subst h2
        exact ⟨co.1, by rw [co.2, o1]⟩
      · rename_i s2 c' heq
        have h2 : s2 = (connect (sendOn s c m b).1 p).1 := by rw [heq]
        have hc' : c'.peer = p := connect_some_peer heq
        subst h2
        have o2 := sendOn_other (connect (sendOn s c m b).1 p).1 c' hc' m
        have c2 := sendOn_conns (connect (sendOn s c m b).1 p).1 c' m b
        split
        · have := ih (sendOn (connect (sendOn s c m b).1 p).1 c' m b).1
          rw [c2, o2, co.1, co.2, o1] at this
          exact this
        · exact ⟨by rw [c2, co.1], by rw [o2, co.2, o1]⟩

/-- **containment**: an action that concerns peer `p` — its process ending or coming back, the
detection of one of its connections failing, a connection it opens, any send towards it, with
whatever retries — leaves every other peer `q` exactly as it was: the same registered connections
in the same order, listening or not as before, the same messages delivered to it, no error handler
told about it. (There is no crash outcome in the model: every step is a total function into
`ok | err`.) -/
theorem c09_contained (s : St) (a : Act) (p q : Peer) (ha : a.about s = some p) (h : q ≠ p) :
    (step s a).1.conns.filter (·.peer == q) = s.conns.filter (·.peer == q) ∧
    (step s a).1.up.contains q = s.up.contains q ∧
    (step s a).1.delivered.filter (·.1 == q) = s.delivered.filter (·.1 == q) ∧
    (step s a).1.calls.filter (·.2 == q) = s.calls.filter (·.2 == q) := by
  have hpq : (p == q) = false := by simpa using fun e : p = q => h e.symm
  cases a with
  | peerDown p' =>
    simp only [Act.about, Option.some.injEq] at ha; subst ha
    refine ⟨filter_markDead s.conns p' q h, ?_, rfl, rfl⟩
    show (s.up.filter (· != p')).contains q = s.up.contains q
    rw [Bool.eq_iff_iff]
    simp only [List.contains_eq_mem, List.mem_filter, decide_eq_true_eq]
    constructor
    · exact fun hh => hh.1
    · exact fun hh => ⟨hh, by simpa using h⟩
  | peerUp p' =>
    simp only [Act.about, Option.some.injEq] at ha; subst ha
    have hstep : (step s (.peerUp p')).1 = { s with up := if s.up.contains p' then s.up else s.up ++ [p'] } := rfl
    rw [hstep]
    refine ⟨rfl, ?_, rfl, rfl⟩
    show (if s.up.contains p' then s.up else s.up ++ [p']).contains q = s.up.contains q
    split
    · rfl
    · rw [Bool.eq_iff_iff]
      simp [h]
  | accept p' =>
    simp only [Act.about, Option.some.injEq] at ha; subst ha
    by_cases hu : s.up.contains p' = true
    · have hstep : (step s (.accept p')).1 =
          { s with conns := s.conns ++ [{ id := s.next, peer := p', alive := true }], next := s.next + 1 } := by
        simp only [step, hu, if_true]
      rw [hstep]
      exact ⟨filter_other_append _ _ q (by intro c hc; simp at hc; rw [hc]; exact fun e => h e.symm),
        rfl, rfl, rfl⟩
    · have hstep : (step s (.accept p')).1 = s := by
        simp only [step, hu, Bool.false_eq_true, if_false]
      rw [hstep]
      exact ⟨rfl, rfl, rfl, rfl⟩
  | addHandler hh => simp [Act.about] at ha
  | detect cid =>
    simp only [Act.about] at ha
    cases hf : s.conns.find? (·.id == cid) with
    | none => rw [hf] at ha; cases ha
    | some c =>
      rw [hf] at ha
      simp only [Option.map_some, Option.some.injEq] at ha
      have hstep : (step s (.detect cid)).1 =
          { s with calls := s.calls ++ s.handlers.map (·, c.peer), conns := removeSwap s.conns c } := by
        simp only [step, hf]
      rw [hstep]
      refine ⟨removeSwap_other s.conns c q (by rw [ha]; exact h), rfl, rfl, ?_⟩
      show (s.calls ++ s.handlers.map (·, c.peer)).filter (·.2 == q) = s.calls.filter (·.2 == q)
      rw [List.filter_append]
      have : (s.handlers.map (·, c.peer)).filter (·.2 == q) = [] := by
        apply List.filter_eq_nil_iff.mpr
        intro x hx
        obtain ⟨hh, _, rfl⟩ := List.mem_map.mp hx
        simp [ha, hpq]
      simp [this]
  | report cid =>
    simp only [Act.about] at ha
    cases hf : s.conns.find? (·.id == cid) with
    | none => rw [hf] at ha; cases ha
    | some c =>
      rw [hf] at ha
      simp only [Option.map_some, Option.some.injEq] at ha
      have hstep : (step s (.report cid)).1 =
          { s with calls := s.calls ++ s.handlers.map (·, c.peer) } := by
        simp only [step, hf]
      rw [hstep]
      refine ⟨rfl, rfl, rfl, ?_⟩
      show (s.calls ++ s.handlers.map (·, c.peer)).filter (·.2 == q) = s.calls.filter (·.2 == q)
      rw [List.filter_append]
      have : (s.handlers.map (·, c.peer)).filter (·.2 == q) = [] := by
        apply List.filter_eq_nil_iff.mpr
        intro x hx
        obtain ⟨hh, _, rfl⟩ := List.mem_map.mp hx
        simp [ha, hpq]
      simp [this]
  | remove cid =>
    simp only [Act.about] at ha
    cases hf : s.conns.find? (·.id == cid) with
    | none => rw [hf] at ha; cases ha
    | some c =>
      rw [hf] at ha
      simp only [Option.map_some, Option.some.injEq] at ha
      have hstep : (step s (.remove cid)).1 = { s with conns := removeSwap s.conns c } := by
        simp only [step, hf]
      rw [hstep]
      exact ⟨removeSwap_other s.conns c q (by rw [ha]; exact h), rfl, rfl, rfl⟩
  | send p' msgs b =>
    simp only [Act.about, Option.some.injEq] at ha; subst ha
    show (send s p' msgs b).1.conns.filter (·.peer == q) = _ ∧ (send s p' msgs b).1.up.contains q = _ ∧
      (send s p' msgs b).1.delivered.filter (·.1 == q) = _ ∧ (send s p' msgs b).1.calls.filter (·.2 == q) = _
    unfold send
    split
    · exact ⟨rfl, rfl, rfl, rfl⟩
    · split
      · rename_i c hf
        have hk := sendMsgs_keeps s p' c b msgs
        have ho := sendMsgs_other s p' q c (firstConn_some hf).2 b msgs h
        exact ⟨ho.1, by rw [hk.up], ho.2, by rw [hk.calls]⟩
      · have kc := connect_keeps s p'
        have co := connect_other s p' q h
        split
        · rename_i s1 heq
          have h1 : s1 = (connect s p').1 := by rw [heq]
          subst h1
          exact ⟨co.1, by rw [kc.up], by rw [co.2], by rw [kc.calls]⟩
        · rename_i s1 c heq
          have hcp := connect_some_peer heq
          have h1 : s1 = (connect s p').1 := by rw [heq]
          subst h1
          have hk := sendMsgs_keeps (connect s p').1 p' c b msgs
          have ho := sendMsgs_other (connect s p').1 p' q c hcp b msgs h
          exact ⟨by rw [ho.1, co.1], by rw [hk.up, kc.up], by rw [ho.2, co.2], by rw [hk.calls, kc.calls]⟩

/-! ### the invariants hold in every reachable state -/

def Inv (s : St) : Prop := Consistent s ∧ FreshIds s

theorem inv_init (dpc : Nat) (up : List Peer) : Inv { dpc := dpc, up := up } := by
  refine ⟨?_, ?_, ?_⟩ <;> simp [Consistent]

theorem connect_inv (s : St) (p : Peer) (h : Inv s) : Inv (connect s p).1 := by
  obtain ⟨hc, hlt, hnd⟩ := h
  by_cases hu : s.up.contains p = true
  · rw [connect_up s p hu]
    refine ⟨?_, ?_, ?_⟩
    · intro c hm ha
      rcases List.mem_append.mp hm with hm | hm
      · exact hc c hm ha
      · simp at hm; subst hm; exact hu
    · intro c hm
      rcases List.mem_append.mp hm with hm | hm
      · have := hlt c hm; show c.id < s.next + 1; omega
      · simp at hm; subst hm; show s.next < s.next + 1; omega
    · show ((s.conns ++ [({ id := s.next, peer := p, alive := true } : Conn)]).map (fun x => x.id)).Nodup
      rw [List.map_append, List.nodup_append]
      refine ⟨hnd, by simp, ?_⟩
      intro a ha b hb
      obtain ⟨x, hx, rfl⟩ := List.mem_map.mp ha
      simp at hb; subst hb
      have := hlt x hx
      omega
  · have hu' : s.up.contains p = false := by simpa using hu
    rw [connect_down s p hu']
    exact ⟨hc, hlt, hnd⟩

theorem sendOn_inv (s : St) (c : Conn) (m : Nat) (b : Bool) (h : Inv s) : Inv (sendOn s c m b).1 := by
  unfold sendOn; split
  · exact h
  · exact h

theorem sendMsgs_inv (s : St) (p : Peer) (c : Conn) (b : Bool) (msgs : List Nat) (h : Inv s) :
    Inv (sendMsgs s p c b msgs).1 := by
  induction msgs generalizing s with
  | nil => exact h
  | cons m ms ih =>
    simp only [sendMsgs]
    have i1 := sendOn_inv s c m b h
    split
    · exact ih _ i1
    · have ic := connect_inv (sendOn s c m b).1 p i1
      split
      · rename_i s2 heq
        have h2 : s2 = (connect (sendOn s c m b).1 p).1 := by rw [heq]
        subst h2; exact ic
      · rename_i s2 c' heq
        have h2 : s2 = (connect (sendOn s c m b).1 p).1 := by rw [heq]
        subst h2
        have i2 := sendOn_inv (connect (sendOn s c m b).1 p).1 c' m b ic
        split
        · exact ih _ i2
        · exact i2

theorem send_inv (s : St) (p : Peer) (msgs : List Nat) (b : Bool) (h : Inv s) : Inv (send s p msgs b).1 := by
  unfold send
  split
  · exact h
  · split
    · exact sendMsgs_inv s p _ b msgs h
    · have ic := connect_inv s p h
      split
      · rename_i s1 heq
        have h1 : s1 = (connect s p).1 := by rw [heq]
        subst h1; exact ic
      · rename_i s1 c heq
        have h1 : s1 = (connect s p).1 := by rw [heq]
        subst h1; exact sendMsgs_inv _ p c b msgs ic

theorem nodup_replace (init : List Conn) (cid : Nat) (last : Conn) (hn : (init.map (·.id)).Nodup)
    (hl : ∀ y ∈ init, y.id ≠ last.id) :
    ((init.map fun y => if y.id == cid then last else y).map (·.id)).Nodup := by
  induction init with
  | nil => simp
  | cons a t ih =>
    simp only [List.map_cons, List.nodup_cons] at hn ⊢
    have iht := ih hn.2 (fun y hy => hl y (List.mem_cons_of_mem _ hy))
    refine ⟨?_, iht⟩
    intro hmem
    obtain ⟨z, hz, hzid⟩ := List.mem_map.mp hmem
    obtain ⟨y, hy, hyz⟩ := List.mem_map.mp hz
    by_cases ha : a.id = cid
    · -- a is replaced by last; nothing else in t has that id
      have hycid : y.id ≠ cid := fun e => hn.1 (List.mem_map.mpr ⟨y, hy, e.trans ha.symm⟩)
      simp [ha, hycid] at hyz hzid
      subst hyz
      exact hl y (List.mem_cons_of_mem _ hy) hzid
    · simp [ha] at hzid
      by_cases hyc : y.id = cid
      · simp [hyc] at hyz; subst hyz
        exact hl a (by simp) hzid.symm
      · simp [hyc] at hyz; subst hyz
        exact hn.1 (List.mem_map.mpr ⟨y, hy, hzid⟩)

theorem removeSwap_nodup (l : List Conn) (c : Conn) (hc : c ∈ l) (hn : (l.map (·.id)).Nodup) :
    ((removeSwap l c).map (·.id)).Nodup := by
  have hcm : c ∈ l.filter (·.peer == c.peer) := List.mem_filter.mpr ⟨hc, by simp⟩
  have hmn : ((l.filter (·.peer == c.peer)).map (·.id)).Nodup :=
    hn.sublist (List.Sublist.map _ List.filter_sublist)
  have hon : ((l.filter (·.peer != c.peer)).map (·.id)).Nodup :=
    hn.sublist (List.Sublist.map _ List.filter_sublist)
  have hany : (l.filter (·.peer == c.peer)).any (·.id == c.id) = true :=
    List.any_eq_true.mpr ⟨c, hcm, by simp⟩
  simp only [removeSwap, hany, if_true]
  cases hrev : (l.filter (·.peer == c.peer)).reverse with
  | nil =>
    have : l.filter (·.peer == c.peer) = [] := by simpa using hrev
    rw [this] at hcm; cases hcm
  | cons last rest =>
    have hm : l.filter (·.peer == c.peer) = rest.reverse ++ [last] := by
      have := congrArg List.reverse hrev
      simpa using this
    simp only []
    rw [hm, List.map_append, List.map_append, List.map_singleton, List.dropLast_concat, List.nodup_append]
    rw [hm, List.map_append, List.map_singleton] at hmn
    have hninit : ∀ y ∈ rest.reverse, y.id ≠ last.id := by
      intro y hy e
      exact (List.nodup_append.mp hmn).2.2 y.id (List.mem_map.mpr ⟨y, hy, rfl⟩) last.id (by simp) e
    refine ⟨hon, nodup_replace _ c.id last (List.nodup_append.mp hmn).1 hninit, ?_⟩
    intro a ha b hb e
    obtain ⟨x, hx, rfl⟩ := List.mem_map.mp ha
    obtain ⟨z, hz, rfl⟩ := List.mem_map.mp hb
    obtain ⟨y, hy, hyz⟩ := List.mem_map.mp hz
    -- z is an entry of the lost peer's slice, x is not
    have hzmine : z ∈ l.filter (·.peer == c.peer) := by
      rw [hm]
      split at hyz
      · rw [← hyz]; simp
      · rw [← hyz]; simp [hy]
    have hxl : x ∈ l := (List.mem_filter.mp hx).1
    have hzl : z ∈ l := (List.mem_filter.mp hzmine).1
    have hxz : x = z := eq_of_id_eq hn hxl hzl e
    have h1 : x.peer ≠ c.peer := by simpa using (List.mem_filter.mp hx).2
    have h2 : z.peer = c.peer := by simpa using (List.mem_filter.mp hzmine).2
    exact h1 (by rw [hxz]; exact h2)

theorem inv_step (s : St) (a : Act) (h : Inv s) : Inv (step s a).1 := by
  obtain ⟨hc, hlt, hnd⟩ := h
  cases a with
  | peerDown p =>
    refine ⟨?_, ?_, ?_⟩
    · intro c hm ha
      obtain ⟨y, hy, hyc⟩ := List.mem_map.mp hm
      by_cases hp : y.peer = p
      · simp [hp] at hyc; rw [← hyc] at ha; simp at ha
      · simp [hp] at hyc; subst hyc
        have := hc y hy ha
        show (s.up.filter (· != p)).contains y.peer = true
        simp only [List.contains_eq_mem, List.mem_filter, decide_eq_true_eq] at this ⊢
        exact ⟨this, by simpa using hp⟩
    · intro c hm
      obtain ⟨y, hy, hyc⟩ := List.mem_map.mp hm
      have : c.id = y.id := by rw [← hyc]; split <;> rfl
      rw [this]; exact hlt y hy
    · show ((s.conns.map fun c => if c.peer == p then { c with alive := false } else c).map (·.id)).Nodup
      rw [List.map_map]
      have : ((fun c : Conn => c.id) ∘ fun c => if c.peer == p then { c with alive := false } else c)
          = fun c => c.id := by
        funext c; simp only [Function.comp]; split <;> rfl
      rw [this]; exact hnd
  | peerUp p =>
    refine ⟨?_, hlt, hnd⟩
    intro c hm ha
    have := hc c hm ha
    show (if s.up.contains p then s.up else s.up ++ [p]).contains c.peer = true
    split
    · exact this
    · simp only [List.contains_eq_mem, List.mem_append, decide_eq_true_eq] at this ⊢
      exact .inl this
  | detect cid =>
    simp only [step]
    split
    · exact ⟨hc, hlt, hnd⟩
    · rename_i c hf
      have hm := List.mem_of_find?_eq_some hf
      refine ⟨?_, ?_, removeSwap_nodup s.conns c hm hnd⟩
      · intro x hx ha
        exact hc x ((mem_removeSwap s.conns c hm hnd x).mp hx).1 ha
      · intro x hx
        exact hlt x ((mem_removeSwap s.conns c hm hnd x).mp hx).1
  | report cid =>
    simp only [step]
    split
    · exact ⟨hc, hlt, hnd⟩
    · exact ⟨hc, hlt, hnd⟩
  | remove cid =>
    simp only [step]
    split
    · exact ⟨hc, hlt, hnd⟩
    · rename_i c hf
      have hm := List.mem_of_find?_eq_some hf
      refine ⟨?_, ?_, removeSwap_nodup s.conns c hm hnd⟩
      · intro x hx ha
        exact hc x ((mem_removeSwap s.conns c hm hnd x).mp hx).1 ha
      · intro x hx
        exact hlt x ((mem_removeSwap s.conns c hm hnd x).mp hx).1
  | accept p =>
    simp only [step]
    split
    · rename_i hu
      have := connect_inv s p ⟨hc, hlt, hnd⟩
      rw [connect_up s p hu] at this
      exact ⟨this.1, this.2.1, this.2.2⟩
    · exact ⟨hc, hlt, hnd⟩
  | addHandler hh => exact ⟨hc, hlt, hnd⟩
  | send p msgs b => exact send_inv s p msgs b ⟨hc, hlt, hnd⟩

/-- every state a history can reach satisfies the hypotheses of the theorems above -/
theorem c09_invariants_reachable (s : St) (acts : List Act) (h : Inv s) : Inv (run s acts) := by
  induction acts generalizing s with
  | nil => exact h
  | cons a l ih => exact ih _ (inv_step s a h)

/-! ### error handlers may use the router they are registered with -/

/-- the failure report is two steps of the receive loop: the handlers are called, then (deferred)
the connection is closed and removed -/
theorem c09_detect_is_report_then_remove (s : St) (cid : Nat) :
    (step (step s (.report cid)).1 (.remove cid)).1 = (step s (.detect cid)).1 := by
  simp only [step]
  cases hf : s.conns.find? (·.id == cid) with
  | none => simp [hf]
  | some c => simp [hf]

/-- what an error handler may do with its router while it runs -/
def Act.handlerUse : Act → Bool
  | .send _ _ _ => true
  | .addHandler _ => true
  | _ => false

theorem sendMsgs_conns_prefix (s : St) (p : Peer) (c : Conn) (b : Bool) (msgs : List Nat) :
    ∃ extra, (sendMsgs s p c b msgs).1.conns = s.conns ++ extra := by
  induction msgs generalizing s with
  | nil => exact ⟨[], by simp [sendMsgs]⟩
  | cons m ms ih =>
    simp only [sendMsgs]
    have c1 := sendOn_conns s c m b
    have cc : ∀ t : St, ∃ extra, (connect t p).1.conns = t.conns ++ extra := by
      intro t; unfold connect; split
      · exact ⟨_, rfl⟩
      · exact ⟨[], by simp⟩
    split
    · obtain ⟨e, he⟩ := ih (sendOn s c m b).1
      exact ⟨e, by rw [he, c1]⟩
    · obtain ⟨e1, he1⟩ := cc (sendOn s c m b).1
      rw [c1] at he1
      split
      · rename_i s2 heq
        have h2 : s2 = (connect (sendOn s c m b).1 p).1 := by rw [heq]
        subst h2; exact ⟨e1, he1⟩
      · rename_i s2 c' heq
        have h2 : s2 = (connect (sendOn s c m b).1 p).1 := by rw [heq]
        subst h2
        have c2 := sendOn_conns (connect (sendOn s c m b).1 p).1 c' m b
        split
        · obtain ⟨e, he⟩ := ih (sendOn (connect (sendOn s c m b).1 p).1 c' m b).1
          exact ⟨e1 ++ e, by rw [he, c2, he1, List.append_assoc]⟩
        · exact ⟨e1, by rw [c2, he1]⟩

theorem send_conns_prefix (s : St) (p : Peer) (msgs : List Nat) (b : Bool) :
    ∃ extra, (send s p msgs b).1.conns = s.conns ++ extra := by
  unfold send
  split
  · exact ⟨[], by simp⟩
  · split
    · exact sendMsgs_conns_prefix s p _ b msgs
    · have cc : ∃ extra, (connect s p).1.conns = s.conns ++ extra := by
        unfold connect; split
        · exact ⟨_, rfl⟩
        · exact ⟨[], by simp⟩
      obtain ⟨e1, he1⟩ := cc
      split
      · rename_i s1 heq
        have h1 : s1 = (connect s p).1 := by rw [heq]
        subst h1; exact ⟨e1, he1⟩
      · rename_i s1 c heq
        have h1 : s1 = (connect s p).1 := by rw [heq]
        subst h1
        obtain ⟨e, he⟩ := sendMsgs_conns_prefix (connect s p).1 p c b msgs
        exact ⟨e1 ++ e, by rw [he, he1, List.append_assoc]⟩

theorem handlerUse_conns_prefix (s : St) (cb : List Act) (hcb : ∀ a ∈ cb, a.handlerUse = true) :
    ∃ extra, (run s cb).conns = s.conns ++ extra := by
  induction cb generalizing s with
  | nil => exact ⟨[], by simp [run]⟩
  | cons a l ih =>
    have hl : ∀ a ∈ l, a.handlerUse = true := fun a ha => hcb a (List.mem_cons_of_mem _ ha)
    have ha := hcb a (by simp)
    simp only [run]
    have h1 : ∃ extra, (step s a).1.conns = s.conns ++ extra := by
      cases a with
      | send p msgs b => exact send_conns_prefix s p msgs b
      | addHandler h => exact ⟨[], by simp [step]⟩
      | peerDown _ => simp [Act.handlerUse] at ha
      | peerUp _ => simp [Act.handlerUse] at ha
      | detect _ => simp [Act.handlerUse] at ha
      | report _ => simp [Act.handlerUse] at ha
      | remove _ => simp [Act.handlerUse] at ha
      | accept _ => simp [Act.handlerUse] at ha
    obtain ⟨e1, he1⟩ := h1
    obtain ⟨e, he⟩ := ih (step s a).1 hl
    exact ⟨e1 ++ e, by rw [he, he1, List.append_assoc]⟩

/-- **error handlers may use their router**: the handlers of a lost connection run in the receive
loop's goroutine between the two halves of the report, with no lock of the router held and the
connection still listed.  Whatever they do with the router meanwhile (`cb`: sends through any
entry point, further handler registrations), every handler has been told about the lost peer
before, the router is in a state of the kind every theorem above speaks about (so a notice sent to a
peer that listens is delivered — `c09_send_up_delivers` —, a send to one that does not returns an
error after bounded attempts), and afterwards exactly the lost connection leaves the table. -/
theorem c09_handlers_may_use_router (s : St) (hi : Inv s) (c : Conn) (hc : c ∈ s.conns)
    (cb : List Act) (hcb : ∀ a ∈ cb, a.handlerUse = true) :
    let s1 := (step s (.report c.id)).1
    let s2 := run s1 cb
    let s3 := (step s2 (.remove c.id)).1
    s1.calls = s.calls ++ s.handlers.map (·, c.peer) ∧ s1.conns = s.conns ∧
    Inv s2 ∧
    (∀ x, x ∈ s3.conns ↔ x ∈ s2.conns ∧ x.id ≠ c.id) ∧
    s3.delivered = s2.delivered ∧ s3.calls = s2.calls ∧ s3.up = s2.up := by
  intro s1 s2 s3
  have hfind : ∀ t : St, Inv t → c ∈ t.conns → t.conns.find? (·.id == c.id) = some c := by
    intro t ht hct
    cases hf' : t.conns.find? (·.id == c.id) with
    | none =>
      have := List.find?_eq_none.mp hf' c hct
      simp at this
    | some c' =>
      have hm := List.mem_of_find?_eq_some hf'
      have hid : c'.id = c.id := by simpa using List.find?_some hf'
      rw [eq_of_id_eq ht.2.2 hm hct hid]
  have hs1 : s1 = { s with calls := s.calls ++ s.handlers.map (·, c.peer) } := by
    simp only [s1, step, hfind s hi hc]
  have hi1 : Inv s1 := inv_step s (.report c.id) hi
  have hi2 : Inv s2 := c09_invariants_reachable s1 cb hi1
  obtain ⟨extra, hex⟩ := handlerUse_conns_prefix s1 cb hcb
  have hc2 : c ∈ s2.conns := by
    show c ∈ (run s1 cb).conns
    rw [hex, hs1]; simp [hc]
  have hs3 : s3 = { s2 with conns := removeSwap s2.conns c } := by
    simp only [s3, step, hfind s2 hi2 hc2]
  refine ⟨by rw [hs1], by rw [hs1], hi2, ?_, by rw [hs3], by rw [hs3], by rw [hs3]⟩
  intro x
  rw [hs3]
  exact mem_removeSwap s2.conns c hc2 hi2.2.2 x

/-! ### every send entry point hands the router's error to its caller
First over an arbitrary router-level send `rs` (nothing is assumed about it): what the caller gets
is computed from the answers of the router sends that were made — no answer is dropped, replaced
or invented.  Then for this router: exactly the destinations at which nothing listens cost an error. -/

theorem errCount_append (a b : List (Peer × Res)) : errCount (a ++ b) = errCount a + errCount b := by
  simp [errCount]

theorem sendTo_closing {σ : Type} (rs : RS σ) (s : σ) (t : Tni) (to : Option Peer) :
    (sendTo rs s t to).tni.closing = t.closing := by
  unfold sendTo
  split
  · rfl
  · split
    · rfl
    · dsimp only; split <;> rfl

/-- **`Server.Send` is the router's send** (the server embeds the router) -/
theorem c09_serverSend_reports {σ : Type} (rs : RS σ) (s : σ) (d : Peer) (n : Nat) :
    serverSend rs s d n = rs s d n := rfl

/-- **`Context.SendRaw`**: one message through the router; the caller gets an error exactly when
the router's send returned one — and the version before commit abb887e did not -/
theorem c09_sendRaw_reports {σ : Type} (rs : RS σ) (s : σ) (d : Peer) :
    (ctxSendRaw rs s d).2 = (rs s d 1).2 ∧ (ctxSendRaw rs s d).1 = (rs s d 1).1 ∧
    (ctxSendRawBeforeFix rs s d).2 = .ok := by
  unfold ctxSendRaw ctxSendRawBeforeFix serverSend
  cases h : (rs s d 1).2 <;> simp [h]

/-- **`SendTo`**: a nil destination or a closing instance is refused without a router send;
otherwise there is exactly one router send, to that node's server, carrying the message (and, the
first time, the configuration), and the caller gets an error exactly when it returned one -/
theorem c09_sendTo_reports {σ : Type} (rs : RS σ) (s : σ) (t : Tni) (to : Option Peer) :
    let o := sendTo rs s t to
    o.errs = (if to = none ∨ t.closing = true then 1 else 0) + errCount o.calls ∧
    ((to = none ∨ t.closing = true) → o.calls = []) ∧
    (∀ d, to = some d → t.closing = false →
      ∃ n, (n = 1 ∨ n = 2) ∧ o.calls = [(d, (rs s d n).2)] ∧ o.errs = (rs s d n).2.n) := by
  intro o
  cases to with
  | none => simp [o, sendTo, errCount]
  | some d =>
    cases hc : t.closing with
    | true => simp [o, sendTo, hc, errCount]
    | false =>
      refine ⟨by simp [o, sendTo, hc, errCount, serverSend], by simp, ?_⟩
      intro d' hd _
      cases hd
      refine ⟨if (!t.sentTo.contains d && t.config) = true then 2 else 1, ?_, ?_, ?_⟩
      · split <;> simp
      · simp [o, sendTo, hc, serverSend]
      · simp [o, sendTo, hc, serverSend]

/-- **`SendToParent`**: nothing at the root; otherwise it is `SendTo(parent)` -/
theorem c09_sendToParent_reports {σ : Type} (rs : RS σ) (s : σ) (t : Tni) :
    (t.parent = none → (sendToParent rs s t).errs = 0 ∧ (sendToParent rs s t).calls = []) ∧
    (∀ p, t.parent = some p → sendToParent rs s t = sendTo rs s t (some p)) := by
  constructor
  · intro h; simp [sendToParent, h]
  · intro p h; simp [sendToParent, h]

theorem seqUntilErr_reports {σ : Type} (rs : RS σ) (s : σ) (t : Tni) (l : List Peer) :
    (seqUntilErr rs s t l).errs = (if t.closing = true ∧ l ≠ [] then 1 else 0) + errCount (seqUntilErr rs s t l).calls ∧
    (seqUntilErr rs s t l).errs ≤ 1 ∧
    (seqUntilErr rs s t l).calls.map (·.1) <+: l := by
  induction l generalizing s t with
  | nil => simp [seqUntilErr, errCount]
  | cons d l ih =>
    have h1 := c09_sendTo_reports rs s t (some d)
    simp only [seqUntilErr]
    cases hc : t.closing with
    | true =>
      have he : (sendTo rs s t (some d)).errs = 1 := by simp [sendTo, hc]
      have hcalls : (sendTo rs s t (some d)).calls = [] := by simp [sendTo, hc]
      simp [he, hcalls, errCount]
    | false =>
      obtain ⟨n, _, hcalls, herrs⟩ := h1.2.2 d rfl hc
      split
      · rename_i h0
        have ih' := ih (sendTo rs s t (some d)).st (sendTo rs s t (some d)).tni
        rw [sendTo_closing, hc] at ih'
        dsimp only
        refine ⟨?_, ih'.2.1, ?_⟩
        · rw [errCount_append, ih'.1]
          have : errCount (sendTo rs s t (some d)).calls = 0 := by
            rw [hcalls]; rw [herrs] at h0; simp [errCount, h0]
          simp [this]
        · rw [hcalls]
          simp only [List.cons_append, List.nil_append, List.map_cons]
          exact (List.prefix_cons_inj d).mpr ih'.2.2
      · rename_i h0
        refine ⟨?_, ?_, ?_⟩
        · rw [hcalls, herrs]; simp [errCount]
        · rw [herrs]; cases (rs s d n).2 <;> simp [Res.n]
        · rw [hcalls]; simp

/-- **`SendToChildren`**: the children are tried in order and the call returns at the first router
send that fails: the caller gets an error exactly when some router send returned one (or the
instance is closing), no send follows a failed one, and only children are addressed -/
theorem c09_sendToChildren_reports {σ : Type} (rs : RS σ) (s : σ) (t : Tni) :
    let o := sendToChildren rs s t
    o.errs = (if t.closing = true ∧ t.children ≠ [] then 1 else 0) + errCount o.calls ∧
    o.errs ≤ 1 ∧ o.calls.map (·.1) <+: t.children :=
  seqUntilErr_reports rs s t t.children

theorem sendAll_reports {σ : Type} (rs : RS σ) (s : σ) (t : Tni) (l : List Peer) :
    (sendAll rs s t l).errs = (if t.closing = true then l.length else 0) + errCount (sendAll rs s t l).calls ∧
    (t.closing = false → (sendAll rs s t l).calls.map (·.1) = l) := by
  induction l generalizing s t with
  | nil => simp [sendAll, errCount]
  | cons d l ih =>
    have h1 := c09_sendTo_reports rs s t (some d)
    have ih' := ih (sendTo rs s t (some d)).st (sendTo rs s t (some d)).tni
    rw [sendTo_closing] at ih'
    simp only [sendAll]
    cases hc : t.closing with
    | true =>
      have he : (sendTo rs s t (some d)).errs = 1 := by simp [sendTo, hc]
      have hcalls : (sendTo rs s t (some d)).calls = [] := by simp [sendTo, hc]
      rw [hc] at ih'
      refine ⟨?_, by simp⟩
      rw [he, hcalls, ih'.1]
      simp; omega
    | false =>
      obtain ⟨n, _, hcalls, herrs⟩ := h1.2.2 d rfl hc
      rw [hc] at ih'
      refine ⟨?_, fun _ => ?_⟩
      · rw [errCount_append, ih'.1, hcalls, herrs]
        simp [errCount]
      · rw [List.map_append, ih'.2 rfl, hcalls]; simp

/-- **`Multicast`**, **`Broadcast`**, **`SendToChildrenInParallel`**: every destination is tried
— a failed send does not stop the others — and the caller gets one error per router send that
failed (per destination, if the instance is closing); for the parallel variant in whatever order
`sched` the goroutines run -/
theorem c09_multicast_reports {σ : Type} (rs : RS σ) (s : σ) (t : Tni) (nodes : List Peer) :
    (multicast rs s t nodes).errs = (if t.closing = true then nodes.length else 0) + errCount (multicast rs s t nodes).calls ∧
    (t.closing = false → (multicast rs s t nodes).calls.map (·.1) = nodes) :=
  sendAll_reports rs s t nodes

theorem c09_broadcast_reports {σ : Type} (rs : RS σ) (s : σ) (t : Tni) :
    (broadcast rs s t).errs = (if t.closing = true then t.others.length else 0) + errCount (broadcast rs s t).calls ∧
    (t.closing = false → (broadcast rs s t).calls.map (·.1) = t.parent.toList ++ t.children) :=
  sendAll_reports rs s t t.others

theorem c09_parallel_reports {σ : Type} (rs : RS σ) (s : σ) (t : Tni) (sched : List Peer) :
    (sendToChildrenInParallel rs s t sched).errs =
      (if t.closing = true then sched.length else 0) + errCount (sendToChildrenInParallel rs s t sched).calls ∧
    (t.closing = false → (sendToChildrenInParallel rs s t sched).calls.map (·.1) = sched) :=
  sendAll_reports rs s t sched

/-! ### … and on this router: exactly the destinations where nothing listens cost an error -/

theorem send_keeps (s : St) (p : Peer) (msgs : List Nat) (b : Bool) : Keeps s (send s p msgs b).1 := by
  unfold send
  split
  · exact Keeps.refl s
  · split
    · exact sendMsgs_keeps s p _ b msgs
    · have kc := connect_keeps s p
      split
      · rename_i s1 heq
        have h1 : s1 = (connect s p).1 := by rw [heq]
        subst h1; exact kc
      · rename_i s1 c heq
        have h1 : s1 = (connect s p).1 := by rw [heq]
        subst h1; exact kc.trans (sendMsgs_keeps _ p c b msgs)

theorem send_down_delivered (s : St) (hs : Consistent s) (p : Peer) (msgs : List Nat)
    (hup : s.up.contains p = false) : (send s p msgs false).1.delivered = s.delivered := by
  unfold send
  split
  · rfl
  · split
    · rename_i c hf
      obtain ⟨hm, hp⟩ := firstConn_some hf
      have hdead : c.alive = false := by
        cases ha : c.alive with
        | false => rfl
        | true => have := hs c hm ha; rw [hp, hup] at this; cases this
      cases msgs with
      | nil => simp [sendMsgs]
      | cons m ms =>
        simp only [sendMsgs, sendOn, hdead]
        simp [connect_down s p hup]
    · simp [connect_down s p hup]

/-- this router's send, seen from an entry point: with at least one message, in a consistent state,
it fails exactly when nothing listens at the destination; it delivers all or nothing -/
theorem rsend_exact (s : St) (hi : Inv s) (d : Peer) (n : Nat) (hn : 1 ≤ n) :
    (rsend s d n).2 = (if s.up.contains d = true then .ok else .err) ∧
    Inv (rsend s d n).1 ∧ Keeps s (rsend s d n).1 ∧
    (rsend s d n).1.delivered = s.delivered ++ (if s.up.contains d = true then List.replicate n (d, 0) else []) := by
  have hne : List.replicate n 0 ≠ [] := by
    cases n with
    | zero => omega
    | succ k => simp [List.replicate_succ]
  refine ⟨?_, send_inv s d _ false hi, send_keeps s d _ false, ?_⟩
  · show (send s d (List.replicate n 0) false).2 = _
    cases hu : s.up.contains d with
    | true => rw [(c09_send_up_delivers s d _ hne hu).1]; simp
    | false => rw [send_down_errs s hi.1 d _ hu]; simp
  · cases hu : s.up.contains d with
    | true =>
      have := (c09_send_up_delivers s d _ hne hu).2
      simp only [rsend, this, List.map_replicate, if_true]
    | false =>
      have := send_down_delivered s hi.1 d (List.replicate n 0) hu
      simp [rsend, this]

/-- **`SendTo`, exactly**: in every reachable state the caller of `SendTo` gets an error if and
only if the instance is closing or nothing listens at the destination; when it gets none, the
message (preceded, the first time, by the configuration) has been handed to the destination; when it
gets one, nothing was delivered -/
theorem c09_sendTo_exact (s : St) (hi : Inv s) (t : Tni) (d : Peer) :
    let o := sendTo rsend s t (some d)
    o.errs = (if (t.closing || !s.up.contains d) = true then 1 else 0) ∧
    Inv o.st ∧ Keeps s o.st ∧
    o.st.delivered = s.delivered ++
      (if (t.closing || !s.up.contains d) = true then []
       else List.replicate (if (!t.sentTo.contains d && t.config) = true then 2 else 1) (d, 0)) := by
  intro o
  cases hc : t.closing with
  | true => simp [o, sendTo, hc, hi, Keeps.refl]
  | false =>
    have hn : 1 ≤ (if (!t.sentTo.contains d && t.config) = true then 2 else 1) := by split <;> omega
    obtain ⟨h1, h2, h3, h4⟩ := rsend_exact s hi d _ hn
    have ho : o = ⟨(rsend s d (if (!t.sentTo.contains d && t.config) = true then 2 else 1)).1,
        (if (!t.sentTo.contains d) = true then { t with sentTo := t.sentTo ++ [d] } else t),
        (rsend s d (if (!t.sentTo.contains d && t.config) = true then 2 else 1)).2.n,
        [(d, (rsend s d (if (!t.sentTo.contains d && t.config) = true then 2 else 1)).2)]⟩ := by
      simp [o, sendTo, hc, serverSend]
    rw [ho]
    refine ⟨?_, h2, h3, ?_⟩
    · dsimp only; rw [h1]
      cases s.up.contains d <;> simp [Res.n]
    · dsimp only; rw [h4]
      cases s.up.contains d <;> simp

theorem sendAll_exact (s : St) (hi : Inv s) (t : Tni) (l : List Peer) :
    (sendAll rsend s t l).errs =
      (if t.closing = true then l.length else (l.filter fun d => !s.up.contains d).length) ∧
    Inv (sendAll rsend s t l).st ∧ Keeps s (sendAll rsend s t l).st ∧
    (t.closing = false →
      s.delivered.length + (l.filter fun d => s.up.contains d).length ≤ (sendAll rsend s t l).st.delivered.length) := by
  induction l generalizing s t with
  | nil => simp [sendAll, hi, Keeps.refl]
  | cons d l ih =>
    obtain ⟨e1, i1, k1, d1⟩ := c09_sendTo_exact s hi t d
    have ih' := ih (sendTo rsend s t (some d)).st i1 (sendTo rsend s t (some d)).tni
    rw [sendTo_closing, k1.up] at ih'
    obtain ⟨e2, i2, k2, d2⟩ := ih'
    simp only [sendAll]
    refine ⟨?_, i2, k1.trans k2, ?_⟩
    · rw [e1, e2]
      cases hc : t.closing with
      | true => simp; omega
      | false =>
        cases hu : s.up.contains d with
        | true => simp only [List.filter_cons, hu]; simp
        | false => simp only [List.filter_cons, hu]; simp; omega
    · intro hc
      have d2' := d2 hc
      rw [d1] at d2'
      have hlen : 1 ≤ (if (!t.sentTo.contains d && t.config) = true then 2 else 1) := by split <;> omega
      cases hu : s.up.contains d with
      | true =>
        rw [hc, hu] at d2'
        have e : (false || !true) = false := rfl
        rw [e] at d2'
        simp only [Bool.false_eq_true, if_false, List.length_append, List.length_replicate] at d2'
        simp only [List.filter_cons, hu, if_true, List.length_cons]
        omega
      | false =>
        rw [hc, hu] at d2'
        have e : (false || !false) = true := rfl
        rw [e] at d2'
        simp only [if_true, List.append_nil] at d2'
        simp only [List.filter_cons, hu, Bool.false_eq_true, if_false]
        exact d2'

/-- **`Multicast` / `Broadcast` / `SendToChildrenInParallel`, exactly**: in every reachable state
the caller gets as many errors as there are destinations at which nothing listens (all of them if
the instance is closing); every destination that listens is handed its message -/
theorem c09_collecting_sends_exact (s : St) (hi : Inv s) (t : Tni) (nodes : List Peer) :
    (multicast rsend s t nodes).errs =
      (if t.closing = true then nodes.length else (nodes.filter fun d => !s.up.contains d).length) ∧
    (broadcast rsend s t).errs =
      (if t.closing = true then t.others.length else (t.others.filter fun d => !s.up.contains d).length) ∧
    (t.closing = false →
      s.delivered.length + (nodes.filter fun d => s.up.contains d).length ≤ (multicast rsend s t nodes).st.delivered.length) :=
  ⟨(sendAll_exact s hi t nodes).1, (sendAll_exact s hi t t.others).1, (sendAll_exact s hi t nodes).2.2.2⟩

/-- **the order of the goroutines does not matter**: whatever permutation of the children the
scheduler picks, `SendToChildrenInParallel` hands its caller the same number of errors — one per
child at which nothing listens -/
theorem c09_parallel_any_schedule (s : St) (hi : Inv s) (t : Tni) (sched : List Peer)
    (hp : sched.Perm t.children) :
    (sendToChildrenInParallel rsend s t sched).errs =
      (if t.closing = true then t.children.length else (t.children.filter fun d => !s.up.contains d).length) := by
  rw [sendToChildrenInParallel, (sendAll_exact s hi t sched).1]
  rw [hp.length_eq, (hp.filter _).length_eq]

theorem seqUntilErr_exact (s : St) (hi : Inv s) (t : Tni) (l : List Peer) :
    (seqUntilErr rsend s t l).errs =
      (if (!l.isEmpty && (t.closing || l.any fun d => !s.up.contains d)) = true then 1 else 0) := by
  induction l generalizing s t with
  | nil => simp [seqUntilErr]
  | cons d l ih =>
    obtain ⟨e1, i1, k1, _⟩ := c09_sendTo_exact s hi t d
    simp only [seqUntilErr]
    cases hc : t.closing with
    | true =>
      rw [hc] at e1
      have e : (true || !s.up.contains d) = true := rfl
      rw [e] at e1
      simp [e1]
    | false =>
      cases hu : s.up.contains d with
      | false =>
        rw [hc, hu] at e1
        have e : (false || !false) = true := rfl
        rw [e] at e1
        simp only [if_true] at e1
        simp only [e1, List.any_cons, hu]
        simp [e1]
      | true =>
        rw [hc, hu] at e1
        have e : (false || !true) = false := rfl
        rw [e] at e1
        simp only [Bool.false_eq_true, if_false] at e1
        have ih' := ih (sendTo rsend s t (some d)).st i1 (sendTo rsend s t (some d)).tni
        rw [sendTo_closing, k1.up, hc] at ih'
        simp only [e1, if_true, ih', List.any_cons, hu]
        cases l with
        | nil => simp
        | cons x l' => simp

/-- **`SendToChildren`, exactly**: in every reachable state the caller gets an error if and only if
there are children and the instance is closing or nothing listens at one of them -/
theorem c09_sendToChildren_exact (s : St) (hi : Inv s) (t : Tni) :
    (sendToChildren rsend s t).errs =
      (if (!t.children.isEmpty && (t.closing || t.children.any fun d => !s.up.contains d)) = true then 1 else 0) :=
  seqUntilErr_exact s hi t t.children

/-- **`Server.Send` / `Context.SendRaw` / `SendToParent`, exactly** -/
theorem c09_single_sends_exact (s : St) (hi : Inv s) (t : Tni) (d : Peer) (n : Nat) (hn : 1 ≤ n) :
    (serverSend rsend s d n).2 = (if s.up.contains d = true then .ok else .err) ∧
    (ctxSendRaw rsend s d).2 = (if s.up.contains d = true then .ok else .err) ∧
    (t.parent = some d →
      (sendToParent rsend s t).errs = (if (t.closing || !s.up.contains d) = true then 1 else 0)) := by
  refine ⟨(rsend_exact s hi d n hn).1, ?_, ?_⟩
  · rw [(c09_sendRaw_reports rsend s d).1]; exact (rsend_exact s hi d 1 (by omega)).1
  · intro hp
    rw [(c09_sendToParent_reports rsend s t).2 d hp]
    exact (c09_sendTo_exact s hi t d).1

/-! ### the moment of tree propagation -/

/-- **a failed tree request leaves no mark**: a message over an unknown tree whose request cannot
be sent (nothing listens at the sender any more) is parked, the caller is told, and the tree id is
not left marked as asked for -/
theorem c09_failed_tree_request_leaves_no_mark {σ : Type} (rs : RS σ) (s : σ) (o : Trees) (p : Peer) (t m : Nat)
    (hk : o.known.contains t = false) (ha : o.asked.contains t = false) (he : (rs s p 1).2 = .err) :
    let r := transmit true rs s o p t m
    r.2.2 = .err ∧ r.2.1.asked = o.asked ∧ r.2.1.parked = o.parked ++ [(t, m)] ∧
    r.2.1.known = o.known ∧ r.2.1.handled = o.handled := by
  simp only [transmit, hk, ha, he, Bool.false_eq_true, if_false]
  simp

/-- **once the peer is back the tree is asked for again and every parked message is handled**:
after a request that failed, whatever happened to the router meanwhile (`s'`), the next message
over the same tree finds no mark, so a new request goes out; when it can be sent (the peer listens
again) the id is marked, the peer's answer is accepted, and the messages parked for the tree —
those from before the failure, the one that failed, the new one — are handed to their instances in
order of arrival -/
theorem c09_tree_request_retried_after_restart {σ : Type} (rs : RS σ) (s s' : σ) (o : Trees) (p : Peer) (t m m' : Nat)
    (hk : o.known.contains t = false) (ha : o.asked.contains t = false)
    (he : (rs s p 1).2 = .err) (hok : (rs s' p 1).2 = .ok) :
    let r1 := transmit true rs s o p t m
    let r2 := transmit true rs s' r1.2.1 p t m'
    let o3 := treeArrives r2.2.1 t
    r2.2.2 = .ok ∧ r2.2.1.asked.contains t = true ∧
    o3.known.contains t = true ∧ o3.parked.filter (·.1 == t) = [] ∧
    o3.handled = o.handled ++ o.parked.filter (·.1 == t) ++ [(t, m), (t, m')] := by
  simp only [transmit, hk, ha, he, hok, Bool.false_eq_true, if_false, if_true]
  simp [treeArrives, List.filter_append]

/-- the variant that leaves the mark after a failed request: the next message over the tree is
parked without anybody being asked (the router is not even called), and it stays parked — an
answer can never come -/
theorem c09_tree_request_mark_must_be_taken_back {σ : Type} (rs : RS σ) (s s' : σ) (o : Trees) (p : Peer) (t m m' : Nat)
    (hk : o.known.contains t = false) (ha : o.asked.contains t = false) (he : (rs s p 1).2 = .err) :
    let r1 := transmit false rs s o p t m
    let r2 := transmit false rs s' r1.2.1 p t m'
    r2.1 = s' ∧ r2.2.1.known = o.known ∧ r2.2.1.parked = o.parked ++ [(t, m), (t, m')] ∧ r2.2.1.handled = o.handled := by
  simp only [transmit, hk, ha, he, Bool.false_eq_true, if_false]
  simp

/-- on this router: the request fails exactly while nothing listens at the sender, and succeeds
once it is back — so `c09_tree_request_retried_after_restart` applies to every history in which the
sender of an orphan message dies and restarts -/
theorem c09_tree_request_follows_the_peer (s : St) (hi : Inv s) (p : Peer) :
    (rsend s p 1).2 = (if s.up.contains p = true then .ok else .err) :=
  (rsend_exact s hi p 1 (by omega)).1

/-! ### the in-memory transport: a peer that closes while sends are in flight -/

structure LmInv (s : Lm) : Prop where
  hold : ∀ i : Nat, s.senders[i]? = some SndPc.holding → s.lock = some i ∧ s.isOpen = true
  lk   : ∀ i : Nat, s.lock = some i → s.senders[i]? = some SndPc.holding
  np   : ∀ i : Nat, s.senders[i]? ≠ some SndPc.panicked

theorem lm_inv_step {s s' : Lm} {a : LmAct} (h : LmInv s) (hs : lmStep true s a = some s') : LmInv s' := by
  obtain ⟨h1, h2, h3⟩ := h
  cases a with
  | sendCall =>
    simp only [lmStep] at hs; cases hs
    refine ⟨?_, ?_, ?_⟩
    · intro i hi; have : s.senders[i]? = some SndPc.holding := by grind
      exact h1 i this
    · intro i hi; have := h2 i hi; grind
    · intro i hi; have : s.senders[i]? = some SndPc.panicked := by grind
      exact h3 i this
  | lookup j =>
    simp only [lmStep] at hs
    split at hs
    · rename_i hc
      have hlt : j < s.senders.length := by have := hc.1; grind
      have nohold : ∀ k : Nat, s.senders[k]? ≠ some SndPc.holding := by
        intro k hk; have := (h1 k hk).1; simp [hc.2] at this
      split at hs
      · rename_i ho
        cases hs
        refine ⟨?_, ?_, ?_⟩
        · intro i hi
          by_cases hij : j = i
          · subst hij; exact ⟨rfl, ho⟩
          · rw [List.getElem?_set_ne hij] at hi; exact absurd hi (nohold i)
        · intro i hi
          simp only [if_true, Option.some.injEq] at hi
          subst hi; exact List.getElem?_set_self hlt
        · intro i hi
          by_cases hij : j = i
          · subst hij; rw [List.getElem?_set_self hlt] at hi; simp at hi
          · rw [List.getElem?_set_ne hij] at hi; exact h3 i hi
      · cases hs
        refine ⟨?_, ?_, ?_⟩
        · intro i hi
          by_cases hij : j = i
          · subst hij; rw [List.getElem?_set_self hlt] at hi; simp at hi
          · rw [List.getElem?_set_ne hij] at hi; exact absurd hi (nohold i)
        · intro i hi; simp [hc.2] at hi
        · intro i hi
          by_cases hij : j = i
          · subst hij; rw [List.getElem?_set_self hlt] at hi; simp at hi
          · rw [List.getElem?_set_ne hij] at hi; exact h3 i hi
    · cases hs
  | enqueue j =>
    simp only [lmStep] at hs
    split at hs
    · rename_i hc
      have hlt : j < s.senders.length := by grind
      obtain ⟨hl, ho⟩ := h1 j hc
      have uniq : ∀ k : Nat, s.senders[k]? = some SndPc.holding → k = j := by
        intro k hk; have := (h1 k hk).1; rw [hl] at this; exact (Option.some.inj this).symm
      split at hs
      · rename_i hno; simp [ho] at hno
      · split at hs
        · cases hs
          refine ⟨?_, by simp, ?_⟩
          · intro i hi
            by_cases hij : j = i
            · subst hij; rw [List.getElem?_set_self hlt] at hi; simp at hi
            · rw [List.getElem?_set_ne hij] at hi; exact absurd (uniq i hi) (fun e => hij e.symm)
          · intro i hi
            by_cases hij : j = i
            · subst hij; rw [List.getElem?_set_self hlt] at hi; simp at hi
            · rw [List.getElem?_set_ne hij] at hi; exact h3 i hi
        · cases hs
    · cases hs
  | drain =>
    simp only [lmStep] at hs
    split at hs
    · cases hs; exact ⟨h1, h2, h3⟩
    · cases hs
  | close =>
    simp only [lmStep] at hs
    split at hs
    · rename_i hc
      cases hs
      refine ⟨?_, h2, h3⟩
      intro i hi; have := (h1 i hi).1; simp [hc.1] at this
    · cases hs

/-- **a close never races an enqueue**: with the look-up and the hand-over to the queue in one
region of the manager's lock (the code as it is), for every interleaving of unboundedly many
senders, a receiver that takes messages or not, and the close of the connection: no sender is ever
between look-up and hand-over when the queue is closed — nobody writes to a closed channel, no
send panics; a sender that comes after the close is told `ErrClosed` -/
theorem c09_close_never_races_an_enqueue (cap : Nat) (acts : List LmAct) :
    let s := lmRun true { cap := cap } acts
    (∀ i : Nat, s.senders[i]? ≠ some SndPc.panicked) ∧
    (s.isOpen = false → ∀ i : Nat, s.senders[i]? ≠ some SndPc.holding) ∧
    (∀ i : Nat, s.isOpen = false → s.senders[i]? = some SndPc.want →
      ∃ s', lmStep true s (.lookup i) = some s' ∧ s'.senders[i]? = some (SndPc.done false)) := by
  intro s
  have hinv : LmInv s := by
    have key : ∀ (t : Lm), LmInv t → LmInv (lmRun true t acts) := by
      induction acts with
      | nil => intro t ht; exact ht
      | cons a as ih =>
        intro t ht
        simp only [lmRun]
        cases hs : lmStep true t a with
        | none => exact ih t ht
        | some t' => exact ih t' (lm_inv_step ht hs)
    exact key _ ⟨by simp, by simp, by simp⟩
  refine ⟨hinv.np, ?_, ?_⟩
  · intro hc i hi; have := (hinv.hold i hi).2; simp [hc] at this
  · intro i hc hi
    have hl : s.lock = none := by
      cases hl : s.lock with
      | none => rfl
      | some k => have := (hinv.hold k (hinv.lk k hl)).2; simp [hc] at this
    have hlt : i < s.senders.length := by grind
    exact ⟨{ s with senders := s.senders.set i (.done false) }, by simp [lmStep, hi, hl, hc],
      by simp [List.getElem?_set_self hlt]⟩

/-- the variant that releases the lock between look-up and hand-over: a sender that has found the
connection and waits for room in its queue is overtaken by the close and writes to the closed
channel -/
theorem c09_enqueue_outside_the_lock_panics :
    (lmRun false {} [.sendCall, .lookup 0, .close, .enqueue 0]).senders = [.panicked] := by decide

/-! ### non-vacuity and a worked history -/

private def s0 : St := { dpc := 5, up := [1, 2] }

/-- peer 1 is used, dies, is detected (two handlers are told, the entry goes), a send towards it
fails after 5 dials, it comes back, the next send connects afresh with one dial and delivers;
peer 2's connection is untouched throughout -/
example :
    let s := run s0 [.addHandler 10, .addHandler 11, .send 1 [7] false, .send 2 [8] false,
                     .peerDown 1, .detect 0, .send 1 [9] false, .peerUp 1, .send 1 [9] false]
    s.calls = [(10, 1), (11, 1)] ∧ s.delivered = [(1, 7), (2, 8), (1, 9)] ∧
    s.conns = [{ id := 1, peer := 2, alive := true }, { id := 2, peer := 1, alive := true }] ∧
    s.dials = 1 + 1 + 5 + 1 := by decide

/-- a stale entry that was never detected: the write fails, one reconnect, delivered — and the
stale entry is still there (only the receive loop removes it) -/
example :
    let s := run s0 [.send 1 [7] false, .peerDown 1, .peerUp 1, .send 1 [8] false]
    s.delivered = [(1, 7), (1, 8)] ∧ (s.conns.map (·.alive)) = [false, true] := by decide

/-- the residue named in the model: on TCP the write on a stale entry may be accepted locally —
the call reports success and the message is lost -/
example : (step (run s0 [.send 1 [7] false, .peerDown 1]) (.send 1 [8] true)).2 = .ok ∧
    (step (run s0 [.send 1 [7] false, .peerDown 1]) (.send 1 [8] true)).1.delivered = [(1, 7)] := by decide

example : Inv s0 := inv_init 5 [1, 2]

example : 1 ≤ (entry .sendToChildren [1, 3, 2] (fun d => (send s0 d [0] false).2)).1 ∧
    (entry .sendToChildren [1, 3, 2] (fun d => (send s0 d [0] false).2)).2 = [1, 3] := by decide

/-- an error handler that uses its router: peer 1 is lost while peer 2 listens; between the report
and the removal the handler sends a notice to peer 2 (first contact: one dial) and a message to the
lost peer itself (the write on the listed connection fails, the reconnect finds nothing listening);
afterwards exactly the lost connection is gone -/
example :
    let s := run s0 [.addHandler 10, .send 1 [7] false, .peerDown 1, .report 0,
                     .send 2 [99] false, .send 1 [98] false, .remove 0]
    s.calls = [(10, 1)] ∧ s.delivered = [(1, 7), (2, 99)] ∧
    s.conns = [{ id := 1, peer := 2, alive := true }] ∧ s.dials = 1 + 1 + 5 ∧ s.waits = 4 := by decide

/-- a tree-node instance with a configuration: the first message to a child carries it (two
messages in one router send), the second does not; the child that does not listen costs one error
and stops `SendToChildren`; once the instance is closing nothing reaches the router any more -/
example :
    let t : Tni := { children := [1, 3, 2], config := true }
    let o1 := sendTo rsend s0 t (some 1)
    let o2 := sendTo rsend o1.st o1.tni (some 1)
    let o3 := sendToChildren rsend o2.st o2.tni
    let o4 := sendToChildrenInParallel rsend o3.st o3.tni [2, 3, 1]
    let o5 := broadcast rsend o4.st { o4.tni with closing := true }
    (o1.errs, o1.st.delivered.length) = (0, 2) ∧ (o2.errs, o2.st.delivered.length) = (0, 3) ∧
    (o3.errs, o3.calls) = (1, [(1, .ok), (3, .err)]) ∧
    (o4.errs, o4.calls.map (·.1), o4.st.delivered.length) = (1, [2, 3, 1], 4 + 2 + 1) ∧
    (o5.errs, o5.calls, o5.st.delivered.length) = (3, [], 7) := by decide

/-- the root has no parent: `SendToParent` does nothing and reports nothing -/
example : (sendToParent rsend s0 {}).errs = 0 ∧ (sendToParent rsend s0 { parent := some 3 }).errs = 1 := by decide

/-- the bound of `1 + n` connects is tight up to the first one: over a stale entry towards a peer
that is back, every one of the `n` messages costs its own reconnect (the retry's connection is not
kept for the next message) -/
example :
    let s := run s0 [.send 1 [7] false, .peerDown 1, .peerUp 1]
    ((send s 1 [8, 9] false).1.dials - s.dials, (send s 1 [8, 9] false).1.conns.length) = (2, 3) := by decide


/-! ### the receive loop: which errors end it, what is dispatched, what is left in the table -/

theorem recvLoop_cons_go (x : Round) (rest : List Round) (h : x.ends = none) :
    recvLoop (x :: rest) =
      { dispatched := x.msg?.toList ++ (recvLoop rest).dispatched, exit := (recvLoop rest).exit } := by
  cases x with
  | mk pa cl r =>
    cases pa <;> cases cl <;> cases r with
    | msg m => first | (simp [Round.ends] at h; done) | simp [recvLoop, Round.msg?]
    | err c =>
      first
      | (simp [Round.ends] at h; done)
      | (have hc : c.fatal = false := by
           cases hf : c.fatal
           · rfl
           · simp [Round.ends, hf] at h
         simp [recvLoop, Round.msg?, hc])

theorem recvLoop_cons_end (x : Round) (rest : List Round) (e : Exit) (h : x.ends = some e) :
    recvLoop (x :: rest) = { dispatched := [], exit := some e } := by
  cases x with
  | mk pa cl r =>
    cases pa
    · cases cl
      · cases r with
        | msg m => simp [Round.ends] at h
        | err c =>
          cases hf : c.fatal
          · simp [Round.ends, hf] at h
          · have : e = .reported := by simpa [Round.ends, hf] using h.symm
            simp [recvLoop, hf, this]
      · have : e = .closed := by simpa [Round.ends] using h.symm
        simp [recvLoop, this]
    · have : e = .paused := by simpa [Round.ends] using h.symm
      simp [recvLoop, this]

/-- **the receive loop is the filter of the arrivals up to the first ending iteration** (refinement
to the small specification `recvSpec`): for every sequence of `Receive` results and router flags,
exactly the packets that arrive before the first iteration that ends the loop are dispatched, in
order, none twice, none dropped; temporary errors (undecodable frame, `ErrCanceled`) are skipped; the
loop returns at that iteration and for that iteration's reason; it does not return otherwise. -/
theorem c09_recvloop_is_filter_until_first_end (rs : List Round) : recvLoop rs = recvSpec rs := by
  induction rs with
  | nil => rfl
  | cons x rest ih =>
    cases he : x.ends with
    | none =>
      rw [recvLoop_cons_go x rest he, ih]
      simp only [recvSpec, List.takeWhile_cons, List.dropWhile_cons, he, Option.isNone_none, if_true]
      cases hm : x.msg? <;> simp [hm]
    | some e =>
      rw [recvLoop_cons_end x rest e he]
      simp [recvSpec, he]

/-- **a fatal error is reported**: when the first iteration that can end the loop is a `Receive`
error of class time-out / closed / EOF / unknown on an open, unpaused router, the loop returns through
the error handlers, having dispatched every packet that arrived before — whatever follows. -/
theorem c09_recvloop_fatal_reported (pre post : List Round) (c : ErrClass) (hc : c.fatal = true)
    (hpre : ∀ x ∈ pre, x.ends = none) :
    recvLoop (pre ++ { r := .err c } :: post) =
      { dispatched := pre.filterMap Round.msg?, exit := some .reported } := by
  induction pre with
  | nil => simp [recvLoop, hc]
  | cons x rest ih =>
    have hx := hpre x (List.mem_cons_self ..)
    have := ih (fun y hy => hpre y (List.mem_cons_of_mem _ hy))
    rw [List.cons_append, recvLoop_cons_go x _ hx, this]
    cases hm : x.msg? <;> simp [hm]

/-- **nothing else ends it** (the loop's liveness): as long as no iteration has a reason to end
the loop it is still receiving, and every packet that arrived has been dispatched. -/
theorem c09_recvloop_keeps_going (rs : List Round) (h : ∀ x ∈ rs, x.ends = none) :
    recvLoop rs = { dispatched := rs.filterMap Round.msg?, exit := none } := by
  induction rs with
  | nil => rfl
  | cons x rest ih =>
    rw [recvLoop_cons_go x rest (h x (List.mem_cons_self ..)), ih (fun y hy => h y (List.mem_cons_of_mem _ hy))]
    cases hm : x.msg? <;> simp [hm]

/-- the loop has returned iff some iteration had a reason -/
theorem c09_recvloop_exit_iff (rs : List Round) :
    (recvLoop rs).exit.isSome = true ↔ ∃ x ∈ rs, x.ends.isSome = true := by
  induction rs with
  | nil => simp [recvLoop]
  | cons x rest ih =>
    cases he : x.ends with
    | none =>
      rw [recvLoop_cons_go x rest he]
      simp [ih, he]
    | some e =>
      rw [recvLoop_cons_end x rest e he]
      simp [he]

/-- **error translation**: whatever the operating system reports for a read or a write, the class
`handleError` gives it ends the receive loop with a report — except an error whose text says
`canceled` (and neither `use of closed` nor `broken pipe`), which is `ErrCanceled` and skipped. -/
theorem c09_handleError_fatal_unless_canceled (e : NetErr) :
    (handleError e).fatal = true ∨
    (handleError e = .canceled ∧ e.cancelText = true ∧ e.closedText = false ∧ e.pipeText = false) := by
  cases e with
  | mk a b c d f g h => cases a <;> cases b <;> cases c <;> cases d <;> cases f <;> cases g <;> cases h <;> decide

/-- a time-out is recognised exactly when nothing in the error's text matched first and the error is
a `net.Error` whose `Timeout()` holds; a closed connection is recognised by its text alone -/
theorem c09_handleError_classes (e : NetErr) :
    (handleError e = .timeout ↔
      e.closedText = false ∧ e.pipeText = false ∧ e.cancelText = false ∧ e.isEOF = false ∧
      e.eofText = false ∧ e.netErr = true ∧ e.timeout = true) ∧
    (handleError e = .closed ↔ e.closedText = true ∨ e.pipeText = true) ∧
    handleError e ≠ .other := by
  cases e with
  | mk a b c d f g h => cases a <;> cases b <;> cases c <;> cases d <;> cases f <;> cases g <;> cases h <;> decide

/-- everything a peer can do to a connection other than sending frames — closing between or inside
frames, resetting, going silent, announcing an oversized frame — ends the survivor's receive loop
with a report; a frame, decodable or not, does not -/
theorem c09_peer_events_end_the_loop (ev : PeerEv) :
    ({ r := ev.recv } : Round).ends =
      match ev with
      | .good _ | .garbage => none
      | _ => some .reported := by
  cases ev <;> rfl

/-- **no entry outlives its receive loop**: when the loop of a registered connection has returned —
for whatever reason — exactly that connection has left the table; the handlers were called (each
once, with the lost peer) iff the reason was a fatal error; a loop that is still receiving changes
nothing. -/
theorem c09_loop_end_leaves_no_entry (s : St) (hf : FreshIds s) (c : Conn) (hc : c ∈ s.conns) (e : Option Exit) :
    (∀ x, x ∈ (endLoop s c.id e).conns ↔ x ∈ s.conns ∧ (e.isSome = true → x.id ≠ c.id)) ∧
    (endLoop s c.id e).calls =
      s.calls ++ (if e = some .reported then s.handlers.map (·, c.peer) else []) ∧
    (endLoop s c.id e).up = s.up ∧ (endLoop s c.id e).delivered = s.delivered := by
  have hfind : s.conns.find? (·.id == c.id) = some c := by
    cases hf' : s.conns.find? (·.id == c.id) with
    | none =>
      have := List.find?_eq_none.mp hf' c hc
      simp at this
    | some c' =>
      have hm := List.mem_of_find?_eq_some hf'
      have hid : c'.id = c.id := by simpa using List.find?_some hf'
      rw [eq_of_id_eq hf.2 hm hc hid]
  have hrem : (step s (.remove c.id)).1 = { s with conns := removeSwap s.conns c } := by
    simp only [step, hfind]
  have hmem := fun x => mem_removeSwap s.conns c hc hf.2 x
  cases e with
  | none => simp [endLoop]
  | some ex =>
    cases ex with
    | reported =>
      have h := c09_handlers_told s hf c hc
      simp only [endLoop]
      exact ⟨fun x => by rw [h.2.1 x]; simp, by simpa using h.1, h.2.2.1, h.2.2.2.1⟩
    | paused =>
      simp only [endLoop, hrem]
      exact ⟨fun x => by rw [hmem x]; simp, by simp⟩
    | closed =>
      simp only [endLoop, hrem]
      exact ⟨fun x => by rw [hmem x]; simp, by simp⟩

/-- **a stalled set-up keeps nobody out**: whatever number of connections sit silent at the listener,
every peer that goes through the set-up is registered, in order of arrival — the accept loop is the
filter of the arrivals -/
theorem c09_stalled_setup_keeps_nobody_out (l : List SetUp) :
    acceptLoop false l = l.filterMap SetUp.peer? := by
  induction l with
  | nil => rfl
  | cons x rest ih =>
    cases x with
    | completes p => simp [acceptLoop, SetUp.peer?, ih]
    | stalls => simp [acceptLoop, List.filterMap_cons, SetUp.peer?, ih]

/-- the variant that completes the handshake inside the loop: one silent connection and no later
peer is ever registered -/
theorem c09_inline_handshake_blocks_the_listener (later : List SetUp) :
    acceptLoop true (.stalls :: later) = [] := by
  simp [acceptLoop]

/-- **the dispatch of a message never waits for another message's processor**: whatever processors
are running — and however long they stay (`finish` is the environment's) — every `Dispatch` call
returns having started the processor: the messages handed to processors are exactly the arrivals,
in order; no receive loop is ever blocked in `Dispatch` -/
theorem c09_dispatch_never_waits (s : Rd) (acts : List RdAct) :
    (∀ a, (rdStep none s a).isSome = true) ∧
    (rdRun none s acts).started = s.started ++ acts.filterMap RdAct.msg? := by
  refine ⟨fun a => by cases a <;> simp [rdStep], ?_⟩
  induction acts generalizing s with
  | nil => simp [rdRun]
  | cons a rest ih =>
    cases a with
    | dispatch m => simp [rdRun, rdStep, ih, RdAct.msg?]
    | finish m => simp [rdRun, rdStep, ih, RdAct.msg?, List.filterMap_cons]

/-- the variant with a bound on running processors, the slot taken inside `Dispatch`: once as many
handlers are stuck as there are slots, the receive loop that brings the next message — from
whichever peer — is blocked, and the message is never handled -/
theorem c09_bounded_dispatcher_is_not_contained :
    rdStep (some 2) (rdRun (some 2) {} [.dispatch 1, .dispatch 2]) (.dispatch 3) = none ∧
    (rdRun (some 2) {} [.dispatch 1, .dispatch 2, .dispatch 3]).started = [1, 2] := by
  decide

/-- the loop and the table together, on a worked stream: two frames, an undecodable one, a frame,
then the peer resets — three packets dispatched, both handlers told about peer 1, the entry gone;
what the peer might have sent afterwards plays no role -/
example :
    let s := run s0 [.addHandler 10, .addHandler 11, .accept 1, .accept 2]
    let o := recvLoop ([PeerEv.good 1, .good 2, .garbage, .good 3, .reset, .good 4].map fun e => { r := e.recv })
    let s' := endLoop s 0 o.exit
    o.dispatched = [1, 2, 3] ∧ o.exit = some .reported ∧ s'.calls = [(10, 1), (11, 1)] ∧
    s'.conns = [{ id := 1, peer := 2, alive := true }] := by decide

/-- a paused router: the loop returns at its next `Receive` without a report, the entry goes -/
example :
    let s := run s0 [.addHandler 10, .accept 1]
    let o := recvLoop [{ r := .msg 1 }, { paused := true, r := .err .closed }]
    o = { dispatched := [1], exit := some .paused } ∧ (endLoop s 0 o.exit).calls = [] ∧
    (endLoop s 0 o.exit).conns = [] := by decide


/-! ### round 7 — the pause gate (`Model/C09Pause.lean`) -/

/-- **nobody is stranded at the gate**: for every schedule of launches, `Pause` / `Unpause` calls, returns of
`Receive` and wake-ups, no receive loop waits on a channel that is neither closed nor the one the next `Unpause`
(or `Stop`) closes.  Falsified by any write of `r.paused` outside `Pause` / `Unpause` — the old second lock
region of `handleConn` (`c09_woken_loop_must_not_reset_the_gate`). -/
theorem c09_pause_gate_nobody_stranded (acts : List GateAct) :
    ∀ pc ∈ (gateRun true {} acts).loops, pc.stranded (gateRun true {} acts) = false := by
  intro pc hpc
  have h := gate_inv_run {} gate_inv_init acts pc hpc
  cases pc with
  | wait ch =>
    simp only [GatePc.stranded]
    rcases h.1 ch rfl with hc | hp
    · simp only [hc, Bool.not_true, Bool.false_and]
    · simp only [hp, bne_self_eq_false, Bool.and_false]
  | recv => rfl
  | woken ch => rfl
  | exited => rfl

/-- non-vacuity: a state of the repaired gate in which two loops wait, one on a closed channel and one on the
current one -/
example :
    (gateRun true {} [.launch, .launch, .launch, .pause, .received 0, .unpause, .pause, .received 1, .received 2, .wake 0]).loops
      = [.exited, .wait 1, .wait 1] := by decide


/-! ### round 7 — `Router.Send` towards the own identity (`Model/C09Self.lean`, `sendAny`) -/

/-- the small specification of the self branch: the messages before the first one the dispatcher refuses are
dispatched, in order; the call fails iff there is such a message -/
theorem c09_self_send_spec (msgs : List SelfMsg) :
    selfSend msgs = { dispatched := (msgs.takeWhile (·.handled)).map (·.m),
                      res := if msgs.all (·.handled) then .ok else .err } := by
  induction msgs with
  | nil => rfl
  | cons x l ih =>
    simp only [selfSend]
    cases hx : x.handled
    · simp [List.takeWhile, hx]
    · simp [List.takeWhile, hx, ih]

/-- **a send to oneself is local**: whatever the connection table holds, whoever listens (nobody, for instance),
however many dial attempts a connect would cost — the state of the router is untouched: no dial, no wait, no entry
made or used; and when every message has a processor the call succeeds and all of them are dispatched in order.
Falsified by a `Send` that treats the own identity like any other destination (it would dial its own address and
fail whenever the listener is down), or that goes on after a refused message. -/
theorem c09_self_send_is_local (self : Peer) (s : St) (msgs : List SelfMsg) (staleOk : Bool) :
    (sendAny self s self msgs staleOk).1 = s ∧
    (msgs ≠ [] → (∀ x ∈ msgs, x.handled = true) →
      (sendAny self s self msgs staleOk).2 = (.ok, msgs.map (·.m))) := by
  refine ⟨?_, fun hne hall => ?_⟩
  · unfold sendAny; split <;> simp
  · have he : msgs.isEmpty = false := by cases msgs <;> simp_all
    have hall' : msgs.all (·.handled) = true := by simpa [List.all_eq_true] using hall
    have htw : ∀ l : List SelfMsg, (∀ x ∈ l, x.handled = true) → l.takeWhile (·.handled) = l := by
      intro l; induction l with
      | nil => intro _; rfl
      | cons y t ih =>
        intro h
        have hy : y.handled = true := h y (by simp)
        simp only [List.takeWhile, hy]
        rw [ih (fun x hx => h x (List.mem_cons_of_mem _ hx))]
    have htw := htw msgs hall
    simp [sendAny, he, c09_self_send_spec, hall', htw]

/-- for every other destination `sendAny` is `send` -/
theorem c09_send_any_other (self : Peer) (s : St) (p : Peer) (msgs : List SelfMsg) (staleOk : Bool) (hp : p ≠ self) :
    (sendAny self s p msgs staleOk).1 = (send s p (msgs.map (·.m)) staleOk).1 ∧
    (sendAny self s p msgs staleOk).2.1 = (send s p (msgs.map (·.m)) staleOk).2 := by
  unfold sendAny send
  cases msgs with
  | nil => simp
  | cons x l => simp [hp]

example : selfSend [⟨1, true⟩, ⟨2, true⟩, ⟨3, false⟩, ⟨4, true⟩] = { dispatched := [1, 2], res := .err } := by decide
example : (sendAny 9 { up := [] } 9 [⟨1, true⟩, ⟨2, true⟩] false).2 = (.ok, [1, 2]) := by decide


/-! ### the code regions the model stands for
Regenerated from /repo's source on every run (`harness/cmd/astfacts` → `OnetVerif/Shapes.lean`): the
calls that matter for synchronisation and data flow, the lock regions and (for decision logic) the
conditions, in source order.  A re-ordering, a dropped call or a changed condition breaks these
obligations even when no sampled input or schedule shows a difference; the check then searches for
a failing input. -/
theorem c09_shape_router_Router_Send_b4 :
    Shapes.network_router_Router_Send_b4 =
   ["range:_,msg:=msgs{", "if:(msg==nil)", "return:0,xerrors.New(\"\")", "}",
     "if:(len(msgs)==0)", "return:0,xerrors.New(\"\")", "msgTraffic.updateTx",
     "if:e.GetID().Equal(r.ServerIdentity.GetID())", "range:_,msg:=msgs{", "MessageType",
     "assign:packet:=&Envelope{ServerIdentity:e,MsgType:MessageType(msg),Msg:msg}", "r.Dispatch",
     "assign:err:=r.Dispatch(packet)", "if:(err!=nil)", "return:0,xerrors.Errorf(\"\",err)",
     "Marshal", "assign:b,err:=Marshal(msg)", "if:(err!=nil)",
     "return:0,xerrors.Errorf(\"\",err)", "assign:sent+=uint64(len(b))", "}", "return:sent,nil",
     "e.GetID", "r.connection", "assign:c:=r.connection(e.GetID())", "if:(c==nil)", "r.connect",
     "assign:c,sentLen,err=r.connect(e)", "assign:totSentLen+=sentLen", "if:(err!=nil)",
     "return:totSentLen,xerrors.Errorf(\"\",err)", "range:_,msg:=msgs{", "c.Send",
     "assign:sentLen,err:=c.Send(msg)", "assign:totSentLen+=sentLen", "if:(err!=nil)",
     "r.connect", "assign:c,sentLen,err:=r.connect(e)", "assign:totSentLen+=sentLen",
     "if:(err!=nil)", "return:totSentLen,xerrors.Errorf(\"\",err)", "c.Send",
     "assign:sentLen,err=c.Send(msg)", "assign:totSentLen+=sentLen", "if:(err!=nil)",
     "return:totSentLen,xerrors.Errorf(\"\",err)", "}", "return:totSentLen,nil"] := rfl

theorem c09_shape_router_Router_connect_b4 :
    Shapes.network_router_Router_connect_b4 =
   ["host.Connect", "assign:c,err:=r.host.Connect(si)", "if:(err!=nil)",
     "return:nil,0,xerrors.Errorf(\"\",err)", "c.Send",
     "assign:sentLen,err=c.Send(r.ServerIdentity)", "if:(err!=nil)", "c.Close",
     "assign:cerr:=c.Close()", "if:(cerr!=nil)", "return:nil,sentLen,xerrors.Errorf(\"\",err)",
     "verifC10Point", "r.registerConnection", "assign:err=r.registerConnection(si,c)",
     "if:(err!=nil)", "c.Close", "assign:cerr:=c.Close()", "if:(cerr!=nil)",
     "return:nil,sentLen,xerrors.Errorf(\"\",err)", "verifC10Point", "r.launchHandleRoutine",
     "assign:err=r.launchHandleRoutine(si,c)", "if:(err!=nil)",
     "return:nil,sentLen,xerrors.Errorf(\"\",err)", "return:c,sentLen,nil"] := rfl

theorem c09_shape_router_Router_removeConnection_b4 :
    Shapes.network_router_Router_removeConnection_b4 =
   ["r.Lock", "defer:r.Unlock", "si.GetID", "assign:arr:=r.connections[si.GetID()]",
     "range:i,cc:=arr{", "if:(c==cc)", "assign:toDelete=i", "}", "if:(toDelete==-1)", "return:",
     "assign:arr[toDelete]=arr[(len(arr)-1)]", "assign:arr[(len(arr)-1)]=nil",
     "assign:r.connections[si.GetID()]=arr[:(len(arr)-1)]"] := rfl

theorem c09_shape_router_Router_handleConn_b4 :
    Shapes.network_router_Router_handleConn_b4 =
   ["defer{", "c.Close", "assign:err:=c.Close()", "if:(err!=nil)", "c.Rx", "c.Tx",
     "assign:rx,tx:=c.Rx(),c.Tx()", "traffic.updateRx", "traffic.updateTx", "wg.Done",
     "r.removeConnection", "verifC10Point", "}", "verifC10Point", "c.Remote",
     "assign:address:=c.Remote()", "for:{", "c.Receive", "assign:packet,err:=c.Receive()",
     "verifC10Point", "r.Lock", "assign:paused:=r.paused", "r.Unlock", "if:(paused!=nil)",
     "recv:paused", "return:", "if:r.Closed()",
     "return:", "if:(err!=nil)", "if:xerrors.Is(err,ErrTimeout)",
     "r.triggerConnectionErrorHandlers", "return:",
     "if:(xerrors.Is(err,ErrClosed)||xerrors.Is(err,ErrEOF))",
     "r.triggerConnectionErrorHandlers", "return:", "if:xerrors.Is(err,ErrUnknown)",
     "r.triggerConnectionErrorHandlers", "return:", "continue",
     "assign:packet.ServerIdentity=remote", "verifC10Point", "msgTraffic.updateRx", "r.Dispatch",
     "assign:err:=r.Dispatch(packet)", "if:(err!=nil)", "}"] := rfl

theorem c09_shape_router_Router_triggerConnectionErrorHandlers_b4 :
    Shapes.network_router_Router_triggerConnectionErrorHandlers_b4 =
   ["range:_,v:=r.connectionErrorHandlers{", "v", "}"] := rfl

theorem c09_shape_Context_SendRaw_b4 :
    Shapes.context_Context_SendRaw_b4 =
   ["server.Send", "assign:_,err:=c.server.Send(si,msg)", "if:(err!=nil)",
     "return:xerrors.Errorf(\"\",err)", "return:nil"] := rfl

theorem c09_shape_TreeNodeInstance_SendTo_b4 :
    Shapes.treenode_TreeNodeInstance_SendTo_b4 =
   ["if:(to==nil)", "return:xerrors.New(\"\")", "msgDispatchQueueMutex.Lock", "if:n.closing",
     "msgDispatchQueueMutex.Unlock", "return:xerrors.New(\"\")", "msgDispatchQueueMutex.Unlock",
     "configMut.Lock", "if:!n.sentTo[to.ID]", "assign:c=n.config", "assign:n.sentTo[to.ID]=true",
     "configMut.Unlock", "overlay.SendToTreeNode",
     "assign:sentLen,err:=n.overlay.SendToTreeNode(n.token,to,msg,n.protoIO,c)", "tx.add",
     "if:(err!=nil)", "return:xerrors.Errorf(\"\",err)", "return:nil"] := rfl

theorem c09_shape_TreeNodeInstance_Broadcast_b4 :
    Shapes.treenode_TreeNodeInstance_Broadcast_b4 =
   ["n.List", "range:_,node:=n.List(){", "if:!node.Equal(n.TreeNode())", "n.SendTo",
     "assign:err:=n.SendTo(node,msg)", "if:(err!=nil)",
     "assign:errs=append(errs,xerrors.Errorf(\"\",err))", "}", "return:errs"] := rfl

theorem c09_shape_TreeNodeInstance_Multicast_b4 :
    Shapes.treenode_TreeNodeInstance_Multicast_b4 =
   ["range:_,node:=nodes{", "n.SendTo", "assign:err:=n.SendTo(node,msg)", "if:(err!=nil)",
     "assign:errs=append(errs,xerrors.Errorf(\"\",err))", "}", "return:errs"] := rfl

theorem c09_shape_TreeNodeInstance_SendToParent_b4 :
    Shapes.treenode_TreeNodeInstance_SendToParent_b4 =
   ["if:n.IsRoot()", "return:nil", "n.Parent", "n.SendTo",
     "assign:err:=n.SendTo(n.Parent(),msg)", "if:(err!=nil)", "return:xerrors.Errorf(\"\",err)",
     "return:nil"] := rfl

theorem c09_shape_TreeNodeInstance_SendToChildren_b4 :
    Shapes.treenode_TreeNodeInstance_SendToChildren_b4 =
   ["if:n.IsLeaf()", "return:nil", "n.Children", "range:_,node:=n.Children(){", "n.SendTo",
     "assign:err:=n.SendTo(node,msg)", "if:(err!=nil)", "return:xerrors.Errorf(\"\",err)", "}",
     "return:nil"] := rfl

theorem c09_shape_TreeNodeInstance_SendToChildrenInParallel_b4 :
    Shapes.treenode_TreeNodeInstance_SendToChildrenInParallel_b4 =
   ["if:n.IsLeaf()", "return:nil", "n.Children", "assign:children:=n.Children()",
     "assign:eMut:=sync.Mutex{}", "assign:wg:=sync.WaitGroup{}", "range:_,node:=children{",
     "node.Name", "assign:name:=node.Name()", "wg.Add", "go{", "n.SendTo",
     "assign:err:=n.SendTo(n2,msg)", "if:(err!=nil)", "eMut.Lock",
     "assign:errs=append(errs,xerrors.Errorf(\"\",name,err))", "eMut.Unlock", "wg.Done", "}",
     "}", "wg.Wait", "return:errs"] := rfl

theorem c09_shape_Overlay_SendToTreeNode_b4 :
    Shapes.overlay_Overlay_SendToTreeNode_b4 =
   ["from.ChangeTreeNodeID", "assign:tokenTo:=from.ChangeTreeNodeID(to.ID)", "if:(c!=nil)",
     "tokenTo.ID", "assign:confMsg=&ConfigMsg{*c,tokenTo.ID()}",
     "assign:info:=&OverlayMsg{Config:c,TreeNodeInfo:&TreeNodeInfo{From:from,To:tokenTo}}",
     "io.Wrap", "assign:final,err:=io.Wrap(msg,info)", "if:(err!=nil)",
     "return:0,xerrors.Errorf(\"\",err)", "if:(confMsg!=nil)", "server.Send",
     "assign:sentLen,err=o.server.Send(to.ServerIdentity,confMsg,final)", "else", "server.Send",
     "assign:sentLen,err=o.server.Send(to.ServerIdentity,final)", "if:(err!=nil)",
     "assign:err=xerrors.Errorf(\"\",err)", "return:sentLen,err"] := rfl

theorem c09_shape_Overlay_requestTree_b4 :
    Shapes.overlay_Overlay_requestTree_b4 =
   ["o.savePendingMsg", "verifPoint:rt.parked", "treeStorage.Get",
     "assign:tree:=o.treeStorage.Get(onetMsg.To.TreeID)", "if:(tree!=nil)",
     "o.checkPendingMessages", "return:nil", "verifPoint:rt.recheck-miss", "io.Wrap",
     "assign:msg,err:=io.Wrap(nil,&OverlayMsg{RequestTree:&RequestTree{TreeID:onetMsg.To.TreeID,Version:1}})",
     "if:(err!=nil)", "return:xerrors.Errorf(\"\",err)",
     "if:o.treeStorage.IsRegistered(onetMsg.To.TreeID)", "return:nil",
     "verifPoint:rt.unregistered", "treeStorage.Register", "verifPoint:rt.registered",
     "server.Send", "assign:_,err=o.server.Send(si,msg)", "if:(err!=nil)",
     "treeStorage.Unregister", "return:xerrors.Errorf(\"\",err)", "return:nil"] := rfl

theorem c09_shape_tcp_NewTCPConn_b4 :
    Shapes.network_tcp_NewTCPConn_b4 =
   ["addr.NetworkAddress", "assign:netAddr:=addr.NetworkAddress()", "assign:i:=1",
     "for:(i<=MaxRetryConnect){", "net.DialTimeout",
     "assign:c,err=net.DialTimeout(\"\",netAddr,dialTimeout)", "if:(err==nil)",
     "assign:conn=&TCPConn{conn:c,suite:suite}", "return:",
     "assign:err=xerrors.Errorf(\"\",err)", "if:(i<MaxRetryConnect)", "time.Sleep", "assign:i++",
     "}", "if:(err==nil)", "assign:err=xerrors.Errorf(\"\",ErrTimeout)", "return:"] := rfl

theorem c09_shape_tls_NewTLSConn :
    Shapes.network_tls_NewTLSConn =
   ["Address.ConnType", "us.GetPrivate", "tlsConfig", "makeVerifier", "Address.NetworkAddress",
     "tls.DialWithDialer", "time.Sleep"] := rfl

theorem c09_shape_local_LocalHost_Connect_b4 :
    Shapes.network_local_LocalHost_Connect_b4 =
   ["if:(si.Address.ConnType()!=Local)", "return:nil,xerrors.New(\"\")", "assign:i:=0",
     "for:(i<MaxRetryConnect){", "NewLocalConnWithManager",
     "assign:c,err:=NewLocalConnWithManager(lh.lm,lh.addr,si.Address,lh.suite)", "if:(err==nil)",
     "return:c,nil", "assign:finalErr=xerrors.Errorf(\"\",err)", "recv:After()", "time.After",
     "recv:stopping", "return:nil,finalErr", "assign:i++", "}", "return:nil,finalErr"] := rfl

theorem c09_shape_local_NewLocalConnWithManager_b4 :
    Shapes.network_local_NewLocalConnWithManager_b4 =
   ["assign:i:=0", "for:(i<MaxRetryConnect){", "lm.connect",
     "assign:c,err:=lm.connect(local,remote,s)", "if:(err==nil)", "return:c,nil", "else",
     "if:(i==(MaxRetryConnect-1))", "return:nil,xerrors.Errorf(\"\",err)", "time.Sleep",
     "assign:i++", "}", "return:nil,xerrors.New(\"\")"] := rfl

theorem c09_shape_local_LocalManager_send_b4 :
    Shapes.network_local_LocalManager_send_b4 =
   ["lm.Lock", "defer:lm.Unlock", "assign:q,ok:=lm.conns[e]", "if:!ok",
     "return:xerrors.Errorf(\"\",ErrClosed)", "send:incomingQueue", "return:nil"] := rfl

theorem c09_shape_router_Router_connection_b4 :
    Shapes.network_router_Router_connection_b4 =
   ["r.Lock", "defer:r.Unlock", "assign:arr:=r.connections[sid]", "if:(len(arr)==0)",
     "return:nil", "return:arr[0]"] := rfl

theorem c09_shape_tcp_handleError_b4 :
    Shapes.network_tcp_handleError_b4 =
   ["if:(strings.Contains(err.Error(),\"use of closed\")||strings.Contains(err.Error(),\"broken pipe\"))",
     "return:ErrClosed", "else", "if:strings.Contains(err.Error(),\"canceled\")",
     "return:ErrCanceled", "else", "if:((err==io.EOF)||strings.Contains(err.Error(),\"EOF\"))",
     "return:ErrEOF", "assign:netErr,ok:=err.(net.Error)", "if:!ok", "return:ErrUnknown",
     "if:netErr.Timeout()", "return:ErrTimeout",
     "if:strings.Contains(err.Error(),\"bad certificate\")", "else", "return:ErrUnknown"] := rfl

theorem c09_shape_local_LocalManager_close_b4 :
    Shapes.network_local_LocalManager_close_b4 =
   ["lm.Lock", "defer:lm.Unlock", "assign:_,ok:=lm.conns[conn.local]", "if:!ok",
     "return:xerrors.Errorf(\"\",ErrClosed)", "conn.closeChannels",
     "assign:remote,ok:=lm.conns[conn.remote]", "if:!ok", "return:nil", "remote.closeChannels",
     "return:nil"] := rfl


end C09
