import OnetVerif.Model.C12
import OnetVerif.Gen.C12Big
/-! Property C12 — helper file for `Props/C12Gen.lean` (no obligations are stated here): the *decisions* of
`Roster.GenerateBigNaryTree` — lifted from the source by `go2lean` (`"extract"`, module `Gen.C12Big`: loop conditions,
`if` conditions, the child-count and index arithmetic; the function as a whole, a `for cond { … }` with `continue` /
`break` over slices of pointers, is outside the translated subset) — are exactly the decisions the hand model
(`C12.pickLoop`, `childCount`, `bigLoop`, `BigCfg.useAll`) takes.  Go `int`s are `Int`, the model's numbers `Nat`. -/
namespace C12

private theorem int_beq (a b : Nat) : ((a : Int) == (b : Int)) = (a == b) := by
  rw [Bool.eq_iff_iff]; simp only [beq_iff_eq]; omega

/-- `useAll := ilLen == nodes` -/
theorem bigdec_useAll (c : BigCfg) : Gen.C12Big.useAll c.ilLen c.nodes = c.useAll := int_beq _ _

/-- `roIndex := 1 % ilLen` (no panic on a non-empty roster) -/
theorem bigdec_roIndex0 (ilLen : Nat) (h : 0 < ilLen) : Gen.C12Big.roIndex0 ilLen = some ((1 % ilLen : Nat) : Int) := by
  have : ¬ ((ilLen : Int) = 0) := by omega
  simp only [Gen.C12Big.roIndex0, Gen.Rt.imod, this, if_false]
  rfl

/-- `for totalNodes < nodes` -/
theorem bigdec_levelCond (total nodes : Nat) : Gen.C12Big.levelCond total nodes = decide (total < nodes) := by
  simp only [Gen.C12Big.levelCond]
  rw [Bool.eq_iff_iff]; simp only [decide_eq_true_eq]; omega

/-- `children := (nodes - totalNodes) * (i + 1) / len(levelNodes)` then `if children > N { children = N }` is the model's
`childCount` (inside the level loop `totalNodes < nodes`, and a level is never empty) -/
theorem bigdec_children (c : BigCfg) (levelNodes : List Int) (i total : Nat) (hL : 0 < levelNodes.length)
    (ht : total ≤ c.nodes) :
    ∃ ch : Nat, Gen.C12Big.children c.nodes total i levelNodes = some (ch : Int) ∧
      ch = (c.nodes - total) * (i + 1) / levelNodes.length ∧
      childCount c levelNodes.length i total = (if Gen.C12Big.childrenCap ch c.N then c.N else ch) := by
  refine ⟨(c.nodes - total) * (i + 1) / levelNodes.length, ?_, rfl, ?_⟩
  · have h0 : ¬ ((levelNodes.length : Int) = 0) := by omega
    have hsub : ((c.nodes : Int) - (total : Int)) = ((c.nodes - total : Nat) : Int) := by omega
    simp only [Gen.C12Big.children, Gen.Rt.idiv, Gen.Rt.len, Int.ofNat_eq_natCast, h0, if_false]
    rw [hsub]
    rfl
  · simp only [childCount, Gen.C12Big.childrenCap]
    by_cases h : c.N < (c.nodes - total) * (i + 1) / levelNodes.length
    · have : ((((c.nodes - total) * (i + 1) / levelNodes.length : Nat) : Int) > (c.N : Int)) := by omega
      simp only [this, decide_true, if_true]
      omega
    · have : ¬ ((((c.nodes - total) * (i + 1) / levelNodes.length : Nat) : Int) > (c.N : Int)) := by omega
      simp only [this, decide_false]
      simp only [Bool.false_eq_true, if_false]
      omega

/-- `for n := 0; n < children; n++` -/
theorem bigdec_childCond (n ch : Nat) : Gen.C12Big.childCond n ch = decide (n < ch) := by
  simp only [Gen.C12Big.childCond]
  by_cases h : n < ch
  · have : (n : Int) < (ch : Int) := by omega
    simp [h, this]
  · have : ¬ (n : Int) < (ch : Int) := by omega
    simp [h, this]

private theorem idx_nat (used : List Bool) (ro : Nat) (h : ro < used.length) :
    Gen.Rt.idx used (ro : Int) = some (used.getD ro false) := by
  have : ¬ ((ro : Int) < 0) := by omega
  simp [Gen.Rt.idx, this, List.getD_eq_getElem?_getD, List.getElem?_eq_getElem h]

/-- the condition of the host-avoidance / use-all loop (tree.go:577-578) is the model's; `used[roIndex]` is in range -/
theorem bigdec_pickCond (used : List Bool) (useAll : Bool) (ilLen parentHost ro childHost : Nat) (ns : Bool)
    (h : ro < used.length) :
    Gen.C12Big.pickCond used useAll ilLen parentHost ro childHost ns =
      some ((ns && childHost == parentHost && decide (ilLen > 1)) || (useAll && used.getD ro false)) := by
  have hd : decide ((ilLen : Int) > 1) = decide (ilLen > 1) := by
    rw [Bool.eq_iff_iff]; simp only [decide_eq_true_eq]; omega
  simp only [Gen.C12Big.pickCond, idx_nat used ro h, hd]
  cases ns <;> cases useAll <;> cases (childHost == parentHost) <;> cases (decide (ilLen > 1)) <;>
    cases (used.getD ro false) <;> rfl

/-- `roIndex = (roIndex + 1) % ilLen` -/
theorem bigdec_roIndexNext (ro ilLen : Nat) (h : 0 < ilLen) :
    Gen.C12Big.roIndexNext ro ilLen = some (((ro + 1) % ilLen : Nat) : Int) := by
  have : ¬ ((ilLen : Int) = 0) := by omega
  simp only [Gen.C12Big.roIndexNext, Gen.Rt.imod, this, if_false]
  rfl

/-- `if useAll && used[roIndex]` -/
theorem bigdec_pickUsed (used : List Bool) (useAll : Bool) (ro : Nat) (h : ro < used.length) :
    Gen.C12Big.pickUsed used useAll ro = some (useAll && used.getD ro false) := by
  simp only [Gen.C12Big.pickUsed, idx_nat used ro h]
  cases useAll <;> cases (used.getD ro false) <;> rfl

/-- `if roIndex == roIndexFirst` (both occurrences) -/
theorem bigdec_pickRound (ro first : Nat) :
    Gen.C12Big.pickRound ro first = (ro == first) ∧ Gen.C12Big.pickRound2 ro first = (ro == first) := by
  simp only [Gen.C12Big.pickRound, Gen.C12Big.pickRound2, int_beq]
  cases (ro == first) <;> exact ⟨rfl, rfl⟩

/-- **one turn of the model's host-avoidance loop, written with the decisions lifted from the source**: with
`0 < ilLen = len(used)` and `roIndex < ilLen` (the loop's invariant) `pickLoop` continues, `continue`s, `break`s and
moves on exactly as the extracted conditions say -/
theorem bigdec_pickLoop_step (c : BigCfg) (used : List Bool) (parentHost first fuel ro ch : Nat) (ns : Bool)
    (hl : used.length = c.ilLen) (hro : ro < c.ilLen) :
    pickLoop c used parentHost first (fuel + 1) ro ch ns =
      (if Gen.C12Big.pickCond used (Gen.C12Big.useAll c.ilLen c.nodes) c.ilLen parentHost ro ch ns = some true then
        let ro' := ((Gen.C12Big.roIndexNext ro c.ilLen).getD 0).toNat
        if Gen.C12Big.pickUsed used (Gen.C12Big.useAll c.ilLen c.nodes) ro' = some true then
          pickLoop c used parentHost first fuel ro' ch (if Gen.C12Big.pickRound ro' first then false else ns)
        else if Gen.C12Big.pickRound2 ro' first then some ro'
        else pickLoop c used parentHost first fuel ro' (c.hosts.getD ro' 0) ns
      else some ro) := by
  have hpos : 0 < c.ilLen := by omega
  have hro' : (ro + 1) % c.ilLen < used.length := by rw [hl]; exact Nat.mod_lt _ hpos
  rw [bigdec_useAll, bigdec_pickCond used _ _ _ _ _ _ (by omega), bigdec_roIndexNext _ _ hpos]
  simp only [Option.getD_some, Int.toNat_natCast]
  rw [bigdec_pickUsed used _ _ hro']
  simp only [(bigdec_pickRound _ _).1, (bigdec_pickRound _ _).2, Option.some.injEq]
  rw [pickLoop]


/-- the host-avoidance / use-all loop written with the decisions lifted from the source only (same fuel convention as
`pickLoop`): this is what the Go text says, with `roIndex`, `childHost`, `notSameHost` as the loop state -/
def pickLoopSrc (c : BigCfg) (used : List Bool) (parentHost first : Nat) :
    (fuel : Nat) → (roIndex childHost : Nat) → (notSameHost : Bool) → Option Nat
  | 0, _, _, _ => none
  | fuel + 1, ro, ch, ns =>
    if Gen.C12Big.pickCond used (Gen.C12Big.useAll c.ilLen c.nodes) c.ilLen parentHost ro ch ns = some true then
      let ro' := ((Gen.C12Big.roIndexNext ro c.ilLen).getD 0).toNat
      if Gen.C12Big.pickUsed used (Gen.C12Big.useAll c.ilLen c.nodes) ro' = some true then
        pickLoopSrc c used parentHost first fuel ro' ch (if Gen.C12Big.pickRound ro' first then false else ns)
      else if Gen.C12Big.pickRound2 ro' first then some ro'
      else pickLoopSrc c used parentHost first fuel ro' (c.hosts.getD ro' 0) ns
    else some ro

/-- **the model's loop is the loop of the source's decisions, for every number of turns** (induction over the fuel; the
invariant `roIndex < ilLen = len(used)` is kept by `(roIndex + 1) % ilLen`) -/
theorem bigdec_pickLoop_eq (c : BigCfg) (used : List Bool) (parentHost first : Nat) (hl : used.length = c.ilLen) :
    ∀ (fuel ro ch : Nat) (ns : Bool), ro < c.ilLen →
      pickLoop c used parentHost first fuel ro ch ns = pickLoopSrc c used parentHost first fuel ro ch ns := by
  intro fuel
  induction fuel with
  | zero => intro ro ch ns _; rfl
  | succ fuel ih =>
    intro ro ch ns hro
    have hpos : 0 < c.ilLen := by omega
    have hnext : ((Gen.C12Big.roIndexNext ro c.ilLen).getD 0).toNat < c.ilLen := by
      rw [bigdec_roIndexNext _ _ hpos]
      simp only [Option.getD_some, Int.toNat_natCast]
      exact Nat.mod_lt _ hpos
    rw [bigdec_pickLoop_step c used parentHost first fuel ro ch ns hl hro]
    simp only [pickLoopSrc]
    split
    · split
      · exact ih _ _ _ hnext
      · split
        · rfl
        · exact ih _ _ _ hnext
    · rfl

/-- hence `pick` (the server of the next child) is the source's loop started as the source starts it: at `roIndex`, with
`childHost` the host of that server, `notSameHost = true`, `roIndexFirst = roIndex` -/
theorem bigdec_pick_eq (c : BigCfg) (st : BigSt) (parentHost : Nat) (hl : st.used.length = c.ilLen)
    (hro : st.roIndex < c.ilLen) :
    pick c st parentHost =
      pickLoopSrc c st.used parentHost st.roIndex (2 * c.ilLen + 3) st.roIndex (c.hosts.getD st.roIndex 0) true :=
  bigdec_pickLoop_eq c st.used parentHost st.roIndex hl _ _ _ _ hro


/-- `rootIndex, _ := ro.Search(root.ID)` as the Go `int` it is: −1 when the root is not a member -/
def searchInt (keys : List Nat) (k : Nat) : Int :=
  match search keys k with
  | none => -1
  | some r => (r : Int)

/-- the guard of `NewRosterWithRoot` (`if rootIndex < 0 { return nil }`), lifted from the source, is the model's: it
holds exactly when `withRootKeys` answers "no roster" -/
theorem bigdec_withRoot_guard (keys : List Nat) (k : Nat) :
    Gen.C12Big.withRoot_guard (searchInt keys k) = (withRootKeys keys k).isNone := by
  unfold searchInt withRootKeys Gen.C12Big.withRoot_guard
  cases search keys k with
  | none => simp
  | some r =>
    have : ¬ ((r : Int) < 0) := by omega
    simp [this]

end C12
