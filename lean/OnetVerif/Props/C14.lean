import OnetVerif.Model.C14
/-! Property C14 — property theorems, negation witnesses, `_partial` variants and non-vacuity
examples only (helper lemmas that need Mathlib go to OnetVerif/Proofs/). -/
namespace C14

end C14
