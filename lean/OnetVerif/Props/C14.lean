import OnetVerif.Model.C14
import OnetVerif.Shapes
/-! Property C14 — every client request gets the reply computed for exactly that request.
Property theorems, negation witnesses, non-vacuity examples and the lemmas they need. -/
namespace C14

variable {σ M R O B : Type}

/-! ### vocabulary of the statements -/

/-- the answer owed to one websocket message on a connection opened on `path`, when the service
is in state `s` -/
def wsRespond (svc : WsSvc σ M R) (s : σ) (path : String) (b : Bytes) : WsOut :=
  (processClientRequest svc s path b).2

/-- the answer owed to one REST request: computed from a fresh object and that request alone -/
def restRespond (h : RestH σ O B R) (s : σ) (q : RestReq B) : RestOut R :=
  (restHandle h .perRequest h.zero s q).2.2

/-- the handlers' replies do not depend on the service's own state (true of the echo/transform
service of the correspondence run); the general theorems do not need it -/
def WsSvc.Pure (svc : WsSvc σ M R) : Prop := ∀ s s' p m, (svc.call s p m).2 = (svc.call s' p m).2
def RestH.Pure (h : RestH σ O B R) : Prop := ∀ s s' o, (h.call s o).2 = (h.call s' o).2

/-- what a connection shows for a list of owed answers: everything up to and including the first
close -/
def upToClose : List WsOut → List WsOut
  | [] => []
  | o :: l => if o.isReply then o :: upToClose l else [o]

/-- element-wise relation between two lists of the same length -/
def Paired {α β : Type} (P : α → β → Prop) : List α → List β → Prop
  | [], [] => True
  | a :: as, b :: bs => P a b ∧ Paired P as bs
  | _, _ => False

theorem paired_snoc {α β : Type} {P : α → β → Prop} {l₁ : List α} {l₂ : List β} {a : α} {b : β}
    (h : Paired P l₁ l₂) (hab : P a b) : Paired P (l₁ ++ [a]) (l₂ ++ [b]) := by
  induction l₁ generalizing l₂ with
  | nil => cases l₂ with
    | nil => simp [Paired, hab]
    | cons _ _ => simp [Paired] at h
  | cons x xs ih => cases l₂ with
    | nil => simp [Paired] at h
    | cons y ys => simp only [Paired, List.cons_append] at h ⊢; exact ⟨h.1, ih h.2⟩

theorem paired_map {α β : Type} {P : α → β → Prop} {f : α → β} {l₁ : List α} {l₂ : List β}
    (h : Paired P l₁ l₂) (hf : ∀ a b, P a b → b = f a) : l₂ = l₁.map f := by
  induction l₁ generalizing l₂ with
  | nil => cases l₂ with
    | nil => rfl
    | cons _ _ => simp [Paired] at h
  | cons x xs ih => cases l₂ with
    | nil => simp [Paired] at h
    | cons y ys => simp only [Paired] at h; simp [hf x y h.1, ih h.2]

/-! ### websocket -/

theorem wsRespond_pure (svc : WsSvc σ M R) (hp : svc.Pure) (s s' : σ) (path : String) (b : Bytes) :
    wsRespond svc s path b = wsRespond svc s' path b := by
  unfold wsRespond processClientRequest
  split
  · rfl
  · split
    · rfl
    · rename_i m _
      simp only [hp s s' path m]
      split <;> try rfl
      split <;> rfl

/-- **the i-th answer on a connection is a function of the i-th message alone** (state-independent
handlers): whatever the service state and whatever was sent before, the connection shows exactly
the answers owed to its messages, one per message, in order, up to the first error. -/
theorem c14_ws_reply_function (svc : WsSvc σ M R) (hp : svc.Pure) (path : String) (s s₀ : σ)
    (msgs : List Bytes) :
    (wsConn svc path s msgs).2 = upToClose (msgs.map (wsRespond svc s₀ path)) := by
  induction msgs generalizing s with
  | nil => simp [wsConn, upToClose]
  | cons b bs ih =>
    have e : (processClientRequest svc s path b).2 = wsRespond svc s₀ path b := wsRespond_pure svc hp s s₀ path b
    simp only [wsConn, List.map_cons, upToClose, e]
    split
    · simp [ih]
    · rfl

/-- the same for handlers with a state of their own: the i-th answer is the answer owed to the
i-th message in *some* service state — nothing of any other message enters it. -/
theorem c14_ws_reply_of_own_request (svc : WsSvc σ M R) (path : String) (s : σ) (msgs : List Bytes) :
    ∀ (i : Nat) o, (wsConn svc path s msgs).2[i]? = some o →
      ∃ b sᵢ, msgs[i]? = some b ∧ o = wsRespond svc sᵢ path b := by
  induction msgs generalizing s with
  | nil => intro i o h; simp [wsConn] at h
  | cons b bs ih =>
    intro i o h
    simp only [wsConn] at h
    split at h
    · cases i with
      | zero => simp at h; exact ⟨b, s, by simp, by simp [wsRespond, h]⟩
      | succ j =>
        simp only [List.getElem?_cons_succ] at h
        obtain ⟨b', s', hb, ho⟩ := ih _ j o h
        exact ⟨b', s', by simpa using hb, ho⟩
    · cases i with
      | zero => simp at h; exact ⟨b, s, by simp, by simp [wsRespond, h]⟩
      | succ j => simp at h

/-- one answer per message, and only the last one can be a close -/
theorem c14_ws_one_answer_per_message (svc : WsSvc σ M R) (path : String) (s : σ) (msgs : List Bytes) :
    (wsConn svc path s msgs).2.length ≤ msgs.length ∧
    (∀ (i : Nat) o, (wsConn svc path s msgs).2[i]? = some o → i + 1 < (wsConn svc path s msgs).2.length →
      o.isReply = true) := by
  induction msgs generalizing s with
  | nil => simp [wsConn]
  | cons b bs ih =>
    simp only [wsConn]
    split
    · rename_i hr
      refine ⟨by simpa using (ih _).1, ?_⟩
      intro i o h hlt
      cases i with
      | zero => simp at h; rw [← h]; exact hr
      | succ j =>
        simp only [List.getElem?_cons_succ] at h
        exact (ih _).2 j o h (by simpa using hlt)
    · refine ⟨by simp, ?_⟩
      intro i o _ hlt
      simp at hlt

/-! ### REST -/

theorem rest_perRequest_slot (h : RestH σ O B R) (slot : O) (s : σ) (q : RestReq B) :
    (restHandle h .perRequest slot s q).1 = slot := by
  unfold restHandle
  split
  · rfl
  · simp only []
    split <;> rfl

theorem rest_perRequest_out (h : RestH σ O B R) (slot : O) (s : σ) (q : RestReq B) :
    (restHandle h .perRequest slot s q).2.2 = restRespond h s q := by
  unfold restRespond restHandle
  split
  · rfl
  · simp only []
    split <;> rfl

theorem rest_perRequest_state (h : RestH σ O B R) (slot slot' : O) (s : σ) (q : RestReq B) :
    (restHandle h .perRequest slot s q).2.1 = (restHandle h .perRequest slot' s q).2.1 := by
  unfold restHandle
  split
  · rfl
  · simp only []
    split <;> rfl

theorem restRespond_pure (h : RestH σ O B R) (hp : h.Pure) (s s' : σ) (q : RestReq B) :
    restRespond h s q = restRespond h s' q := by
  unfold restRespond restHandle
  split
  · rfl
  · simp only []
    split
    · rfl
    · simp only [restCall, hp s s']
      split <;> rfl

/-- **the REST reply to a request does not depend on earlier requests** (state-independent
handlers, full strength): a sequence of requests to a handler, whatever the registration-time
object and the service state, is answered request by request with the answer owed to that request
alone. -/
theorem c14_rest_independent (h : RestH σ O B R) (hp : h.Pure) (slot : O) (s s₀ : σ)
    (qs : List (RestReq B)) :
    restSeq h .perRequest slot s qs = qs.map (restRespond h s₀) := by
  induction qs generalizing slot s with
  | nil => rfl
  | cons q qs ih =>
    simp only [restSeq, List.map_cons, ih, rest_perRequest_out, restRespond_pure h hp s s₀]

/-- the same for handlers with a state of their own: the i-th reply is the one owed to the i-th
request in some service state, and the registration-time object never changes -/
theorem c14_rest_reply_of_own_request (h : RestH σ O B R) (slot : O) (s : σ) (qs : List (RestReq B)) :
    ∀ (i : Nat) o, (restSeq h .perRequest slot s qs)[i]? = some o →
      ∃ q sᵢ, qs[i]? = some q ∧ o = restRespond h sᵢ q := by
  induction qs generalizing slot s with
  | nil => intro i o h; simp [restSeq] at h
  | cons q qs ih =>
    intro i o h
    simp only [restSeq] at h
    cases i with
    | zero =>
      simp at h
      exact ⟨q, s, by simp, by rw [← h, rest_perRequest_out]⟩
    | succ j =>
      simp only [List.getElem?_cons_succ] at h
      obtain ⟨q', s', hq, ho⟩ := ih _ _ j o h
      exact ⟨q', s', by simpa using hq, ho⟩

/-! the code before the fix (`Alloc.shared`): the statement is false — witness of the probe -/

/-- POST body with the given items, `Content-Type: application/json` -/
def post (items : List Item) : RestReq Body := { method := .POST, jsonCT := true, tail := "", body := .obj items }

/-- **with one argument object per handler the reply depends on the previous request**: after
`{"S":"42"}`, the body `{}` is answered as if it carried `S = "42"`. -/
theorem c14_rest_shared_object_fails :
    restSeq (concreteRest 0) .shared {} 0 [post [.setS [52, 50]], post []]
      ≠ [post [.setS [52, 50]], post []].map (restRespond (concreteRest 0) 0) := by
  decide

/-- the same two requests under the per-request allocation: independent (instance of the theorem,
evaluated) -/
example :
    restSeq (concreteRest 0) .perRequest {} 0 [post [.setS [52, 50]], post []]
      = [post [.setS [52, 50]], post []].map (restRespond (concreteRest 0) 0) := by
  decide

/-! ### errors and panics of a handler -/

/-- **a websocket handler error or panic is reported to that client**: the message is answered by
a close with the reason (never by a reply, never by nothing), and the only state that moves is what
the handler itself did to the service state. -/
theorem c14_error_reported_ws (svc : WsSvc σ M R) (s : σ) (path : String) (buf : Bytes) (m : M)
    (hreg : svc.registered path = true) (hdec : svc.decode path buf = .ok m)
    (hbad : ∀ r, (svc.call s path m).2 ≠ .ret r) :
    ∃ w v, processClientRequest svc s path buf = ((svc.call s path m).1, .close w v) ∧
      (w = .handler ∨ w = .panic) := by
  unfold processClientRequest
  simp only [hreg, hdec, Bool.not_true, Bool.false_eq_true, if_false]
  cases hc : (svc.call s path m).2 with
  | ret r => exact absurd hc (hbad r)
  | fail f => exact ⟨.handler, f, by simp [callBarrier], Or.inl rfl⟩
  | panics v f => exact ⟨.panic, f, by simp [callBarrier], Or.inr rfl⟩

/-- **a REST handler error or panic is reported to that client** with status 400, leaves the
registration-time object alone and moves only what the handler did to the service state. -/
theorem c14_error_reported_rest (h : RestH σ O B R) (slot : O) (s : σ) (q : RestReq B) (obj : O)
    (hm : q.method = h.method) (hdec : restDecode h h.zero q = (obj, none))
    (hbad : ∀ r, (h.call s obj).2 ≠ .ret r) :
    ∃ e, restHandle h .perRequest slot s q = (slot, (h.call s obj).1, .err e) ∧
      (e = .handler ∨ e = .panic) ∧ e.status = 400 := by
  unfold restHandle
  simp only [hm, ne_eq, not_true_eq_false, if_false, hdec, restCall]
  cases hc : (h.call s obj).2 with
  | ret r => exact absurd hc (hbad r)
  | fail f => exact ⟨.handler, by simp [callBarrier], Or.inl rfl, rfl⟩
  | panics v f => exact ⟨.panic, by simp [callBarrier], Or.inr rfl, rfl⟩

/-- **a panicking handler is always an error, whatever it panics with**: an `error`, a `string` or
any other value (`panic(42)`, a struct, the argument list of `log.Panicf`) -/
theorem c14_panic_any_value_is_error {R : Type} (v : PanicVal) (fits : Bool) :
    callBarrier (R := R) (.panics v fits) = .error (.panic, fits) := rfl

/-- … hence the websocket client gets a close with reason "panic" and the REST client status 400,
never a reply, for every kind of panic value -/
theorem c14_panic_reported (svc : WsSvc σ M R) (h : RestH σ O B R) (s : σ) (path : String) (buf : Bytes) (m : M)
    (v : PanicVal) (fits : Bool) (slot obj : O) (q : RestReq B)
    (hreg : svc.registered path = true) (hdec : svc.decode path buf = .ok m)
    (hp : (svc.call s path m).2 = .panics v fits)
    (hm : q.method = h.method) (hd : restDecode h h.zero q = (obj, none))
    (hp' : (h.call s obj).2 = .panics v fits) :
    (processClientRequest svc s path buf).2 = .close .panic fits ∧
    (restHandle h .perRequest slot s q).2.2 = .err .panic := by
  constructor
  · unfold processClientRequest
    simp [hreg, hdec, hp, callBarrier]
  · unfold restHandle
    simp [hm, hd, restCall, hp', callBarrier]

/-! ### the server under concurrent clients -/

/-- what the answers recorded for a websocket connection must be: answer `i` is owed to message `i` -/
def WsThread.Ok (svc : WsSvc σ M R) (t : WsThread) : Prop :=
  Paired (fun b o => ∃ s, o = wsRespond svc s t.path b) t.done t.outs

/-- the same for an HTTP connection; and a request that is decoded but not yet called is held in
an object computed from a fresh one and that request alone -/
def HttpThread.Ok (cfg : Cfg σ M R O B) (t : HttpThread O B R) : Prop :=
  Paired (fun kq o => ∃ s, o = restRespond (cfg.rest kq.1) s kq.2) t.done t.outs ∧
  ∀ o, t.decoded = some o → ∃ k q qs, t.todo = (k, q) :: qs ∧ q.method = (cfg.rest k).method ∧
    restDecode (cfg.rest k) (cfg.rest k).zero q = (o, none)

def Sys.Ok (cfg : Cfg σ M R O B) (y : Sys σ O B R) : Prop :=
  (∀ t ∈ y.ws, t.Ok cfg.ws) ∧ (∀ t ∈ y.http, t.Ok cfg)

theorem wsStep_ok (svc : WsSvc σ M R) (s s' : σ) (t t' : WsThread) (h : wsStep svc s t = some (s', t'))
    (ht : t.Ok svc) : t'.Ok svc ∧ t'.path = t.path ∧ t'.done ++ t'.todo = t.done ++ t.todo := by
  unfold wsStep at h
  split at h
  · simp at h
  · split at h
    · simp at h
    · rename_i b bs hb
      simp only [Option.some.injEq, Prod.mk.injEq] at h
      obtain ⟨_, rfl⟩ := h
      refine ⟨?_, rfl, by simp [hb]⟩
      exact paired_snoc ht ⟨s, rfl⟩

theorem httpStep_ok (cfg : Cfg σ M R O B) (hal : cfg.alloc = .perRequest) (s s' : σ) (sl sl' : Nat → O)
    (t t' : HttpThread O B R) (h : httpStep cfg s sl t = some (s', sl', t')) (ht : t.Ok cfg) :
    t'.Ok cfg ∧ sl' = sl ∧ t'.done ++ t'.todo = t.done ++ t.todo := by
  cases hq : t.todo with
  | nil => simp [httpStep, hq] at h
  | cons kq qs =>
    obtain ⟨k, q⟩ := kq
    cases hd : t.decoded with
    | none =>
      by_cases hm : q.method = (cfg.rest k).method
      · cases he : (restDecode (cfg.rest k) (cfg.rest k).zero q).2 with
        | some e =>
          simp only [httpStep, hq, hd, hal, hm, he, ne_eq, not_true_eq_false, if_false,
            Option.some.injEq, Prod.mk.injEq] at h
          obtain ⟨_, rfl, rfl⟩ := h
          refine ⟨⟨?_, ?_⟩, rfl, by simp⟩
          · refine paired_snoc ht.1 ⟨s, ?_⟩
            simp [restRespond, restHandle, hm, he]
          · intro o ho; simp at ho
        | none =>
          simp only [httpStep, hq, hd, hal, hm, he, ne_eq, not_true_eq_false, if_false,
            Option.some.injEq, Prod.mk.injEq] at h
          obtain ⟨_, rfl, rfl⟩ := h
          refine ⟨⟨ht.1, ?_⟩, rfl, by simp⟩
          intro o ho
          simp only [Option.some.injEq] at ho
          subst ho
          exact ⟨k, q, qs, rfl, hm, Prod.ext rfl he⟩
      · simp only [httpStep, hq, hd, hm, ne_eq, not_false_eq_true, if_true,
          Option.some.injEq, Prod.mk.injEq] at h
        obtain ⟨_, rfl, rfl⟩ := h
        refine ⟨⟨?_, ?_⟩, rfl, by simp⟩
        · refine paired_snoc ht.1 ⟨s, ?_⟩
          simp [restRespond, restHandle, hm]
        · intro o ho; simp at ho
    | some o =>
      simp only [httpStep, hq, hd, hal, Option.some.injEq, Prod.mk.injEq] at h
      obtain ⟨_, rfl, rfl⟩ := h
      obtain ⟨k', q', qs', hq', hm', hdec⟩ := ht.2 o hd
      rw [hq] at hq'
      simp only [List.cons.injEq, Prod.mk.injEq] at hq'
      obtain ⟨⟨rfl, rfl⟩, rfl⟩ := hq'
      refine ⟨⟨?_, ?_⟩, rfl, by simp⟩
      · refine paired_snoc ht.1 ⟨s, ?_⟩
        simp [restRespond, restHandle, hm', hdec]
      · intro o' ho'; simp at ho'

theorem step_ok (cfg : Cfg σ M R O B) (hal : cfg.alloc = .perRequest) (y y' : Sys σ O B R) (a : Act)
    (h : step cfg y a = some y') (hy : y.Ok cfg) : y'.Ok cfg := by
  cases a with
  | ws i =>
    simp only [step] at h
    split at h
    · simp at h
    · rename_i t hi
      split at h
      · simp at h
      · rename_i s' t' hs
        simp only [Option.some.injEq] at h
        subst h
        have ht : t ∈ y.ws := List.mem_of_getElem? hi
        refine ⟨?_, hy.2⟩
        intro u hu
        rcases List.mem_or_eq_of_mem_set hu with hu | rfl
        · exact hy.1 u hu
        · exact (wsStep_ok cfg.ws _ _ _ _ hs (hy.1 t ht)).1
  | http i =>
    simp only [step] at h
    split at h
    · simp at h
    · rename_i t hi
      split at h
      · simp at h
      · rename_i s' sl' t' hs
        simp only [Option.some.injEq] at h
        subst h
        have ht : t ∈ y.http := List.mem_of_getElem? hi
        refine ⟨hy.1, ?_⟩
        intro u hu
        rcases List.mem_or_eq_of_mem_set hu with hu | rfl
        · exact hy.2 u hu
        · exact (httpStep_ok cfg hal _ _ _ _ _ _ hs (hy.2 t ht)).1

/-- **any number of connections, any interleaving**: under the per-request allocation, in every
state reachable from a state where the recorded answers are right (in particular from the start,
where nothing is recorded), every answer recorded for every websocket and HTTP connection is the
answer owed to exactly the request at the same position of that connection — whatever the other
connections sent and whenever their goroutines ran. -/
theorem c14_concurrent_replies (cfg : Cfg σ M R O B) (hal : cfg.alloc = .perRequest)
    (y : Sys σ O B R) (hy : y.Ok cfg) (sched : List Act) : (run cfg y sched).Ok cfg := by
  induction sched generalizing y with
  | nil => exact hy
  | cons a as ih =>
    simp only [run]
    split
    · rename_i y' hs; exact ih y' (step_ok cfg hal y y' a hs hy)
    · exact ih y hy

/-- a system in which no connection has been served yet -/
def Sys.Fresh (y : Sys σ O B R) : Prop :=
  (∀ t ∈ y.ws, t.done = [] ∧ t.outs = []) ∧ (∀ t ∈ y.http, t.done = [] ∧ t.outs = [] ∧ t.decoded = none)

theorem fresh_ok (cfg : Cfg σ M R O B) (y : Sys σ O B R) (hf : y.Fresh) : y.Ok cfg := by
  refine ⟨fun t ht => ?_, fun t ht => ⟨?_, ?_⟩⟩
  · simp [WsThread.Ok, (hf.1 t ht).1, (hf.1 t ht).2, Paired]
  · simp [(hf.2 t ht).1, (hf.2 t ht).2.1, Paired]
  · intro o ho; simp [(hf.2 t ht).2.2] at ho

/-- with state-independent handlers the recorded answers of every connection are *the function*
`request ↦ answer` mapped over the requests served so far — for every schedule -/
theorem c14_concurrent_function (cfg : Cfg σ M R O B) (hal : cfg.alloc = .perRequest)
    (hpw : cfg.ws.Pure) (hpr : ∀ k, (cfg.rest k).Pure) (s₀ : σ)
    (y : Sys σ O B R) (hf : y.Fresh) (sched : List Act) :
    (∀ t ∈ (run cfg y sched).ws, t.outs = t.done.map (wsRespond cfg.ws s₀ t.path)) ∧
    (∀ t ∈ (run cfg y sched).http, t.outs = t.done.map (fun kq => restRespond (cfg.rest kq.1) s₀ kq.2)) := by
  have h := c14_concurrent_replies cfg hal y (fresh_ok cfg y hf) sched
  refine ⟨fun t ht => ?_, fun t ht => ?_⟩
  · refine paired_map (h.1 t ht) ?_
    rintro b o ⟨s, rfl⟩
    exact wsRespond_pure cfg.ws hpw s s₀ t.path b
  · refine paired_map (h.2 t ht).1 ?_
    rintro kq o ⟨s, rfl⟩
    exact restRespond_pure (cfg.rest kq.1) (hpr kq.1) s s₀ kq.2

theorem wsStep_ok' (svc : WsSvc σ M R) (s s' : σ) (t t' : WsThread) (h : wsStep svc s t = some (s', t')) :
    t'.path = t.path ∧ t'.done ++ t'.todo = t.done ++ t.todo := by
  unfold wsStep at h
  split at h
  · simp at h
  · split at h
    · simp at h
    · rename_i b bs hb
      simp only [Option.some.injEq, Prod.mk.injEq] at h
      obtain ⟨_, rfl⟩ := h
      exact ⟨rfl, by simp [hb]⟩

theorem httpStep_slots (cfg : Cfg σ M R O B) (hal : cfg.alloc = .perRequest) (s s' : σ) (sl sl' : Nat → O)
    (t t' : HttpThread O B R) (h : httpStep cfg s sl t = some (s', sl', t')) : sl' = sl := by
  cases hq : t.todo with
  | nil => simp [httpStep, hq] at h
  | cons kq qs =>
    obtain ⟨k, q⟩ := kq
    cases hd : t.decoded with
    | none =>
      by_cases hm : q.method = (cfg.rest k).method
      · cases he : (restDecode (cfg.rest k) (cfg.rest k).zero q).2 <;>
        · simp only [httpStep, hq, hd, hal, hm, he, ne_eq, not_true_eq_false, if_false,
            Option.some.injEq, Prod.mk.injEq] at h
          exact h.2.1.symm
      · simp only [httpStep, hq, hd, hm, ne_eq, not_false_eq_true, if_true,
          Option.some.injEq, Prod.mk.injEq] at h
        exact h.2.1.symm
    | some o =>
      simp only [httpStep, hq, hd, hal, Option.some.injEq, Prod.mk.injEq] at h
      exact h.2.1.symm

/-- **whatever a request does — handler errors and panics included — a step changes only its own
connection**: the other connections, and the REST argument objects, are exactly as before; nothing
is consumed or answered on behalf of another connection. (The service state moves only through the
handler: `wsStep`/`httpStep`.) -/
theorem c14_error_contained (cfg : Cfg σ M R O B) (hal : cfg.alloc = .perRequest)
    (y y' : Sys σ O B R) (a : Act) (h : step cfg y a = some y') :
    y'.slots = y.slots ∧
    (match a with
     | .ws i => y'.http = y.http ∧ ∀ j, j ≠ i → y'.ws[j]? = y.ws[j]?
     | .http i => y'.ws = y.ws ∧ ∀ j, j ≠ i → y'.http[j]? = y.http[j]?) ∧
    (∀ i : Nat, (y'.ws[i]?).map (fun (t : WsThread) => (t.path, t.done ++ t.todo)) = (y.ws[i]?).map (fun (t : WsThread) => (t.path, t.done ++ t.todo))) := by
  cases a with
  | ws i =>
    simp only [step] at h
    split at h
    · simp at h
    · rename_i t hi
      split at h
      · simp at h
      · rename_i s' t' hs
        simp only [Option.some.injEq] at h
        subst h
        refine ⟨rfl, ⟨rfl, fun j hj => by simp [List.getElem?_set_ne (Ne.symm hj)]⟩, ?_⟩
        intro j
        by_cases hj : i = j
        · subst hj
          have hlt : i < y.ws.length := (List.getElem?_eq_some_iff.mp hi).1
          have := wsStep_ok' cfg.ws _ _ _ _ hs
          simp [List.getElem?_set_self hlt, hi, this.1, this.2]
        · simp [List.getElem?_set_ne hj]
  | http i =>
    simp only [step] at h
    split at h
    · simp at h
    · rename_i t hi
      split at h
      · simp at h
      · rename_i s' sl' t' hs
        simp only [Option.some.injEq] at h
        subst h
        refine ⟨httpStep_slots cfg hal _ _ _ _ _ _ hs, ⟨rfl, fun j hj => by simp [List.getElem?_set_ne (Ne.symm hj)]⟩, fun j => rfl⟩

/-- the allocation before the fix, two concurrent requests to one handler on two connections:
request 0 carries `S = "42"`, request 1 is `{}`; schedule: 1 decodes, 0 decodes, 1 calls — the
reply to `{}` is the one owed to the *other* connection's request. -/
theorem c14_concurrent_shared_object_fails :
    ∃ sched : List Act,
      ((run (concreteCfg .shared)
          { svc := 0, slots := fun _ => {}, ws := [],
            http := [{ todo := [(0, post [.setS [52, 50]])] }, { todo := [(0, post [])] }] } sched).http.map (·.outs))
        ≠ [[restRespond (concreteRest 0) 0 (post [.setS [52, 50]])], [restRespond (concreteRest 0) 0 (post [])]] :=
  ⟨[.http 1, .http 0, .http 1, .http 0], by decide⟩

/-! ### the client: one request in flight per connection -/

def Pc.holding : Pc → Prop
  | .locked => True
  | .written => True
  | _ => False

/-- invariant of `Client.Send` with the per-destination lock: finished callers hold the reply to
their own request; at most one caller is between `Lock` and `Unlock`, and the pipes hold nothing but
that caller's request or its reply -/
def Cl.Inv (f : Bytes → Bytes) (c : Cl) : Prop :=
  (∀ (i : Nat) q r, c.callers[i]? = some (q, .finished r) → r = f q) ∧
  ∃ h : Option Nat,
    (∀ (j : Nat) q pc, c.callers[j]? = some (q, pc) → pc.holding → h = some j) ∧
    match h with
    | none => c.lock = false ∧ c.up = [] ∧ c.down = []
    | some i => c.lock = true ∧ ∃ q,
        (c.callers[i]? = some (q, .locked) ∧ c.up = [] ∧ c.down = []) ∨
        (c.callers[i]? = some (q, .written) ∧ ((c.up = [q] ∧ c.down = []) ∨ (c.up = [] ∧ c.down = [f q])))

theorem getElem?_set_eq' {α : Type} (l : List α) (i j : Nat) (a b : α) (h : (l.set i a)[j]? = some b) :
    (i = j ∧ b = a) ∨ (i ≠ j ∧ l[j]? = some b) := by
  by_cases hij : i = j
  · subst hij
    by_cases hl : i < l.length
    · rw [List.getElem?_set_self hl] at h; exact Or.inl ⟨rfl, by simpa using h.symm⟩
    · rw [List.set_eq_of_length_le (by omega)] at h
      rw [List.getElem?_eq_none (by omega)] at h; simp at h
  · rw [List.getElem?_set_ne hij] at h; exact Or.inr ⟨hij, h⟩

theorem clStep_inv (f : Bytes → Bytes) (c c' : Cl) (a : ClAct) (h : clStep true f c a = some c')
    (hi : c.Inv f) : c'.Inv f := by
  obtain ⟨hfin, hd, hone, hpipe⟩ := hi
  cases a with
  | server =>
    simp only [clStep] at h
    split at h
    · simp at h
    · rename_i q qs hup
      simp only [Option.some.injEq] at h
      subst h
      refine ⟨hfin, hd, hone, ?_⟩
      cases hd with
      | none => simp [hup] at hpipe
      | some i =>
        obtain ⟨hl, q', hq'⟩ := hpipe
        refine ⟨hl, q', ?_⟩
        rcases hq' with ⟨_, hu, _⟩ | ⟨hc, ⟨hu, hdn⟩ | ⟨hu, _⟩⟩
        · simp [hup] at hu
        · right
          rw [hup] at hu
          simp only [List.cons.injEq] at hu
          obtain ⟨rfl, rfl⟩ := hu
          exact ⟨hc, Or.inr ⟨rfl, by simp [hdn]⟩⟩
        · simp [hup] at hu
  | caller i =>
    simp only [clStep] at h
    split at h
    · simp at h
    · -- start: take the lock
      rename_i q hc
      split at h
      · simp at h
      · rename_i hlk
        simp only [Option.some.injEq] at h
        subst h
        have hfree : c.lock = false := by simpa using hlk
        cases hd with
        | some k => simp [hfree] at hpipe
        | none =>
          have hlt : i < c.callers.length := (List.getElem?_eq_some_iff.mp hc).1
          refine ⟨?_, some i, ?_, ?_⟩
          · intro j q' r hj
            rcases getElem?_set_eq' _ _ _ _ _ hj with ⟨_, he⟩ | ⟨_, he⟩
            · simp at he
            · exact hfin j q' r he
          · intro j q' pc hj hh
            rcases getElem?_set_eq' _ _ _ _ _ hj with ⟨rfl, _⟩ | ⟨_, he⟩
            · rfl
            · exact absurd (hone j q' pc he hh) (by simp)
          · exact ⟨rfl, q, Or.inl ⟨by simp [List.getElem?_set_self hlt], hpipe.2.1, hpipe.2.2⟩⟩
    · -- locked: write the request
      rename_i q hc
      simp only [Option.some.injEq] at h
      subst h
      have hlt : i < c.callers.length := (List.getElem?_eq_some_iff.mp hc).1
      have hh := hone i q .locked hc trivial
      subst hh
      obtain ⟨hl, q', hq'⟩ := hpipe
      have hq'' : c.up = [] ∧ c.down = [] := by
        rcases hq' with ⟨_, hu, hdn⟩ | ⟨hc', _⟩
        · exact ⟨hu, hdn⟩
        · rw [hc] at hc'; simp at hc'
      refine ⟨?_, some i, ?_, ?_⟩
      · intro j q' r hj
        rcases getElem?_set_eq' _ _ _ _ _ hj with ⟨_, he⟩ | ⟨_, he⟩
        · simp at he
        · exact hfin j q' r he
      · intro j q' pc hj hh
        rcases getElem?_set_eq' _ _ _ _ _ hj with ⟨rfl, _⟩ | ⟨_, he⟩
        · rfl
        · exact hone j q' pc he hh
      · exact ⟨hl, q, Or.inr ⟨by simp [List.getElem?_set_self hlt], Or.inl ⟨by simp [hq''.1], hq''.2⟩⟩⟩
    · -- written: read the reply, unlock
      rename_i q hc
      split at h
      · simp at h
      · rename_i r rs hdn
        simp only [Option.some.injEq] at h
        subst h
        have hlt : i < c.callers.length := (List.getElem?_eq_some_iff.mp hc).1
        have hh := hone i q .written hc trivial
        subst hh
        obtain ⟨hl, q', hq'⟩ := hpipe
        have hr : c.up = [] ∧ r = f q ∧ rs = [] := by
          rcases hq' with ⟨hc', _⟩ | ⟨hc', ⟨_, hd'⟩ | ⟨hu, hd'⟩⟩
          · rw [hc] at hc'; simp at hc'
          · simp [hdn] at hd'
          · rw [hc] at hc'
            simp only [Option.some.injEq, Prod.mk.injEq] at hc'
            obtain ⟨rfl, _⟩ := hc'
            rw [hdn] at hd'
            simp only [List.cons.injEq] at hd'
            exact ⟨hu, hd'.1, hd'.2⟩
        obtain ⟨hu, rfl, rfl⟩ := hr
        refine ⟨?_, none, ?_, ?_⟩
        · intro j q' r hj
          rcases getElem?_set_eq' _ _ _ _ _ hj with ⟨_, he⟩ | ⟨_, he⟩
          · simp only [Prod.mk.injEq, Pc.finished.injEq] at he
            obtain ⟨rfl, rfl⟩ := he; rfl
          · exact hfin j q' r he
        · intro j q' pc hj hh
          rcases getElem?_set_eq' _ _ _ _ _ hj with ⟨_, he⟩ | ⟨hne, he⟩
          · simp only [Prod.mk.injEq] at he
            obtain ⟨_, rfl⟩ := he
            exact absurd hh (by simp [Pc.holding])
          · have := hone j q' pc he hh
            simp only [Option.some.injEq] at this
            exact absurd this hne
        · exact ⟨rfl, hu, rfl⟩
    · simp at h

theorem clStep_requests (lk : Bool) (f : Bytes → Bytes) (c c' : Cl) (a : ClAct) (h : clStep lk f c a = some c') :
    c'.callers.map (·.1) = c.callers.map (·.1) := by
  cases a with
  | server =>
    simp only [clStep] at h
    split at h
    · simp at h
    · simp only [Option.some.injEq] at h; subst h; rfl
  | caller i =>
    have key : ∀ (q : Bytes) (pc pc' : Pc), c.callers[i]? = some (q, pc) →
        (c.callers.set i (q, pc')).map (·.1) = c.callers.map (·.1) := by
      intro q pc pc' hc
      apply List.ext_getElem?
      intro j
      by_cases hij : i = j
      · subst hij
        have hlt : i < c.callers.length := (List.getElem?_eq_some_iff.mp hc).1
        simp only [List.map_set, List.getElem?_map, hc, Option.map_some]
        rw [List.getElem?_set_self (by simpa using hlt)]
      · simp [List.getElem?_set_ne hij]
    simp only [clStep] at h
    split at h
    · simp at h
    · rename_i q hc
      split at h
      · simp at h
      · simp only [Option.some.injEq] at h; subst h; exact key q _ _ hc
    · rename_i q hc
      simp only [Option.some.injEq] at h; subst h; exact key q _ _ hc
    · rename_i q hc
      split at h
      · simp at h
      · simp only [Option.some.injEq] at h; subst h; exact key q _ _ hc
    · simp at h

/-- **replies are never attributed to another request** (client side): any number of goroutines
calling `Send` on one kept connection, any interleaving with each other and with the server — every
caller that returns holds the reply to *its own* request; the requests themselves are untouched. -/
theorem c14_client_lock_pairs (f : Bytes → Bytes) (c : Cl)
    (hfresh : c.lock = false ∧ c.up = [] ∧ c.down = [] ∧ ∀ (i : Nat) q pc, c.callers[i]? = some (q, pc) → pc = .start)
    (sched : List ClAct) :
    (∀ (i : Nat) q r, (clRun true f c sched).callers[i]? = some (q, .finished r) → r = f q) ∧
    (clRun true f c sched).callers.map (·.1) = c.callers.map (·.1) := by
  have h0 : c.Inv f := by
    refine ⟨?_, none, ?_, hfresh.1, hfresh.2.1, hfresh.2.2.1⟩
    · intro i q r hc; have := hfresh.2.2.2 i q _ hc; simp at this
    · intro j q pc hc hh; have := hfresh.2.2.2 j q pc hc; subst this; simp [Pc.holding] at hh
  suffices ∀ c₁ : Cl, c₁.Inv f → c₁.callers.map (·.1) = c.callers.map (·.1) →
      (clRun true f c₁ sched).Inv f ∧ (clRun true f c₁ sched).callers.map (·.1) = c.callers.map (·.1) by
    exact ⟨(this c h0 rfl).1.1, (this c h0 rfl).2⟩
  induction sched with
  | nil => intro c₁ h₁ h₂; exact ⟨h₁, h₂⟩
  | cons a as ih =>
    intro c₁ h₁ h₂
    simp only [clRun]
    split
    · rename_i c₂ hs
      exact ih c₂ (clStep_inv f c₁ c₂ a hs h₁) ((clStep_requests true f c₁ c₂ a hs).trans h₂)
    · exact ih c₁ h₁ h₂

/-- non-vacuity: three callers on one connection, one schedule under which all of them finish -/
example :
    (clRun true (fun b => b ++ [0]) { callers := [([1], .start), ([2], .start), ([3], .start)] }
      [.caller 1, .caller 0, .caller 1, .server, .caller 1, .caller 0, .caller 0, .caller 2, .server,
       .caller 0, .caller 2, .caller 2, .server, .caller 2]).callers
      = [([1], .finished [1, 0]), ([2], .finished [2, 0]), ([3], .finished [3, 0])] := by decide

/-- the lock is what makes it true: without it two callers can receive each other's reply -/
theorem c14_client_without_lock_swaps :
    ∃ sched : List ClAct,
      (clRun false (fun b => b ++ [0]) { callers := [([1], .start), ([2], .start)] } sched).callers
        = [([1], .finished [2, 0]), ([2], .finished [1, 0])] :=
  ⟨[.caller 0, .caller 1, .caller 1, .caller 0, .server, .server, .caller 0, .caller 1], by decide⟩

/-! ### the client: kept and single-use connections, failures, redial -/

def KPc.holding : KPc → Prop
  | .locked _ => True
  | .dialing _ => True
  | .ready _ _ => True
  | .written _ _ => True
  | _ => False

def KPc.lockRef : KPc → Option Nat
  | .ref l => some l
  | .locked l => some l
  | .dialing l => some l
  | .ready l _ => some l
  | .written l _ => some l
  | _ => none

/-- every connection other than `c` carries nothing -/
def QuietBut (conns : List KConn) (c : Option Nat) : Prop :=
  ∀ (j : Nat) k, conns[j]? = some k → some j ≠ c → k.up = [] ∧ k.down = []

/-- the connection in the client's map exists and can carry a request -/
def CurAlive (y : KCl) : Prop :=
  ∀ c, y.cur = some c → ∃ k, y.conns[c]? = some k ∧ k.dead = false ∧ k.closed = false

/-- who is between `Lock` and `Unlock`, and what the connections carry -/
def KHolder (respond : Bytes → Option Bytes) (y : KCl) : Prop :=
  ∃ h : Option Nat,
    (∀ (j : Nat) q pc, y.callers[j]? = some (q, pc) → pc.holding → h = some j) ∧
    match h with
    | none => (y.locks = [] ∨ y.locks = [false]) ∧ QuietBut y.conns none ∧ CurAlive y
    | some i => y.locks = [true] ∧ ∃ q,
        ((y.callers[i]? = some (q, .locked 0) ∨ y.callers[i]? = some (q, .dialing 0)) ∧
          QuietBut y.conns none ∧ CurAlive y) ∨
        (∃ c, y.callers[i]? = some (q, .ready 0 c) ∧ y.cur = some c ∧ QuietBut y.conns none ∧ CurAlive y) ∨
        (∃ c k, y.callers[i]? = some (q, .written 0 c) ∧ y.cur = some c ∧ QuietBut y.conns (some c) ∧
          y.conns[c]? = some k ∧ k.closed = false ∧
          ((k.up = [q] ∧ k.down = [] ∧ k.dead = false) ∨
           (k.up = [] ∧ k.down = [respond q] ∧ k.dead = (respond q).isNone)))

/-- invariant of `Client.Send` as it is: finished callers hold what the server owes to their own
request; one lock object per destination; at most one caller between `Lock` and `Unlock`, and only
its connection carries anything: its request, or the answer to it -/
structure KInv (respond : Bytes → Option Bytes) (y : KCl) : Prop where
  fin : ∀ (i : Nat) q res, y.callers[i]? = some (q, .finished res) → res = respond q
  lockObj : (y.curLock = none ∧ y.locks = []) ∨ (y.curLock = some 0 ∧ ∃ b, y.locks = [b])
  refs : ∀ (i : Nat) q pc l, y.callers[i]? = some (q, pc) → pc.lockRef = some l → l = 0 ∧ y.curLock = some 0
  holder : KHolder respond y

theorem curAlive_congr {y y' : KCl} (h1 : y'.cur = y.cur) (h2 : y'.conns = y.conns) (h : CurAlive y) : CurAlive y' := by
  intro c hc; rw [h1] at hc; rw [h2]; exact h c hc

theorem quietBut_set {conns : List KConn} {c : Nat} {k : KConn} (h : QuietBut conns (some c)) :
    QuietBut (conns.set c k) (some c) := by
  intro j k' hj hne
  rcases getElem?_set_eq' _ _ _ _ _ hj with ⟨rfl, _⟩ | ⟨_, he⟩
  · exact absurd rfl hne
  · exact h j k' he hne

theorem quietBut_weaken {conns : List KConn} {c : Nat} (h : QuietBut conns none) : QuietBut conns (some c) :=
  fun j k hj _ => h j k hj (by simp)

theorem quietBut_all {conns : List KConn} {c : Nat} {k : KConn} (h : QuietBut conns (some c)) (hk : conns[c]? = some k)
    (hu : k.up = []) (hd : k.down = []) : QuietBut conns none := by
  intro j k' hj _
  by_cases hjc : j = c
  · subst hjc; rw [hk] at hj; cases hj; exact ⟨hu, hd⟩
  · exact h j k' hj (by simpa using hjc)

theorem closeAt_get {conns : List KConn} {c j : Nat} {k : KConn} (h : (closeAt conns c)[j]? = some k) :
    ∃ k0, conns[j]? = some k0 ∧ k.up = k0.up ∧ k.down = k0.down := by
  unfold closeAt at h
  split at h
  · rename_i k1 hk1
    rcases getElem?_set_eq' _ _ _ _ _ h with ⟨rfl, he⟩ | ⟨_, he⟩
    · subst he; exact ⟨k1, hk1, rfl, rfl⟩
    · exact ⟨k, he, rfl, rfl⟩
  · exact ⟨k, h, rfl, rfl⟩

theorem quietBut_closeAt {conns : List KConn} {c : Nat} (h : QuietBut conns none) : QuietBut (closeAt conns c) none := by
  intro j k hj hne
  obtain ⟨k0, hk0, hu, hd⟩ := closeAt_get hj
  rw [hu, hd]; exact h j k0 hk0 hne

/-- what the deferred part of `Send` does in the code as it is -/
theorem finish_fixed (y : KCl) (i : Nat) (q : Bytes) (l : Nat) (res : Option Bytes) :
    let y' := KCl.finish .fixed y i q l res
    y'.callers = y.callers.set i (q, .finished res) ∧ y'.locks = y.locks.set l false ∧ y'.curLock = y.curLock ∧
    y'.keep = y.keep ∧
    ((res.isSome = true ∧ y'.cur = y.cur ∧ y'.conns = y.conns) ∨
     (y'.cur = none ∧ ((∃ c, y.cur = some c ∧ y'.conns = closeAt y.conns c) ∨ (y.cur = none ∧ y'.conns = y.conns)))) := by
  cases res with
  | none =>
    cases hc : y.cur with
    | none => cases hk : y.keep <;> simp [KCl.finish, KVariant.fixed, hc, hk]
    | some c => cases hk : y.keep <;> simp [KCl.finish, KVariant.fixed, hc, hk]
  | some r =>
    cases hc : y.cur with
    | none => cases hk : y.keep <;> simp [KCl.finish, KVariant.fixed, hc, hk]
    | some c => cases hk : y.keep <;> simp [KCl.finish, KVariant.fixed, hc, hk]


theorem fin_set {respond : Bytes → Option Bytes} {cs : List (Bytes × KPc)} {i : Nat} {q : Bytes} {pc : KPc}
    (hfin : ∀ (j : Nat) q res, cs[j]? = some (q, .finished res) → res = respond q)
    (hpc : ∀ res, pc = .finished res → res = respond q) :
    ∀ (j : Nat) q' res, (cs.set i (q, pc))[j]? = some (q', .finished res) → res = respond q' := by
  intro j q' res hj
  rcases getElem?_set_eq' _ _ _ _ _ hj with ⟨_, he⟩ | ⟨_, he⟩
  · simp only [Prod.mk.injEq] at he
    obtain ⟨rfl, he⟩ := he
    exact hpc res he.symm
  · exact hfin j q' res he

theorem refs_set {cs : List (Bytes × KPc)} {i : Nat} {q : Bytes} {pc : KPc} {cl cl' : Option Nat}
    (hrefs : ∀ (j : Nat) q pc l, cs[j]? = some (q, pc) → pc.lockRef = some l → l = 0 ∧ cl = some 0)
    (hcl : cl = some 0 → cl' = some 0)
    (hpc : ∀ l, pc.lockRef = some l → l = 0 ∧ cl' = some 0) :
    ∀ (j : Nat) q' pc' l, (cs.set i (q, pc))[j]? = some (q', pc') → pc'.lockRef = some l → l = 0 ∧ cl' = some 0 := by
  intro j q' pc' l hj hl
  rcases getElem?_set_eq' _ _ _ _ _ hj with ⟨_, he⟩ | ⟨_, he⟩
  · simp only [Prod.mk.injEq] at he
    obtain ⟨_, rfl⟩ := he
    exact hpc l hl
  · have := hrefs j q' pc' l he hl
    exact ⟨this.1, hcl this.2⟩

/-- caller `i` becomes (or stays) the one between `Lock` and `Unlock` -/
theorem hone_set_holding {cs : List (Bytes × KPc)} {i : Nat} {q : Bytes} {pc : KPc} {h : Option Nat}
    (hone : ∀ (j : Nat) q pc, cs[j]? = some (q, pc) → pc.holding → h = some j) (hh : h = none ∨ h = some i) :
    ∀ (j : Nat) q' pc', (cs.set i (q, pc))[j]? = some (q', pc') → pc'.holding → some i = some j := by
  intro j q' pc' hj hp
  rcases getElem?_set_eq' _ _ _ _ _ hj with ⟨rfl, _⟩ | ⟨_, he⟩
  · rfl
  · have := hone j q' pc' he hp
    rcases hh with hh | hh
    · rw [hh] at this; cases this
    · rw [hh] at this; exact this

/-- caller `i` is not (any more) between `Lock` and `Unlock` -/
theorem hone_set_idle {cs : List (Bytes × KPc)} {i : Nat} {q : Bytes} {pc : KPc} {h h' : Option Nat}
    (hone : ∀ (j : Nat) q pc, cs[j]? = some (q, pc) → pc.holding → h = some j) (hnp : ¬ pc.holding)
    (hh : h = h' ∨ h = some i) :
    ∀ (j : Nat) q' pc', (cs.set i (q, pc))[j]? = some (q', pc') → pc'.holding → h' = some j := by
  intro j q' pc' hj hp
  rcases getElem?_set_eq' _ _ _ _ _ hj with ⟨_, he⟩ | ⟨hne, he⟩
  · simp only [Prod.mk.injEq] at he
    obtain ⟨_, rfl⟩ := he
    exact absurd hp hnp
  · have := hone j q' pc' he hp
    rcases hh with hh | hh
    · rw [← hh]; exact this
    · rw [hh] at this; simp only [Option.some.injEq] at this; exact absurd this hne

theorem get_set_other {α : Type} {cs : List α} {i h : Nat} {a b x : α} (hc : cs[i]? = some a) (hh : cs[h]? = some b)
    (hab : a ≠ b) : (cs.set i x)[h]? = some b := by
  have : i ≠ h := by
    intro e; subst e; rw [hc] at hh; cases hh; exact hab rfl
  rw [List.getElem?_set_ne this]; exact hh

theorem get_set_self' {α : Type} {cs : List α} {i : Nat} {a x : α} (hc : cs[i]? = some a) : (cs.set i x)[i]? = some x := by
  have hlt : i < cs.length := (List.getElem?_eq_some_iff.mp hc).1
  simp [List.getElem?_set_self hlt]

/-- a caller that holds no lock moves (start → ref, or an attempt): the one between `Lock` and
`Unlock`, if any, and the connections are as before -/
theorem holder_other {respond : Bytes → Option Bytes} {y y' : KCl} {i : Nat} {q : Bytes} {pc0 pc : KPc}
    (hc : y.callers[i]? = some (q, pc0)) (hn0 : ¬ pc0.holding) (hnp : ¬ pc.holding)
    (hcs : y'.callers = y.callers.set i (q, pc)) (hcn : y'.conns = y.conns) (hcu : y'.cur = y.cur)
    (hl : y'.locks = y.locks ∨ (y.locks = [] ∧ y'.locks = [false]))
    (hi : KHolder respond y) : KHolder respond y' := by
  obtain ⟨h, hone, hm⟩ := hi
  have ha' : CurAlive y → CurAlive y' := curAlive_congr hcu hcn
  refine ⟨h, ?_, ?_⟩
  · rw [hcs]; exact hone_set_idle hone hnp (Or.inl rfl)
  cases h with
  | none =>
    obtain ⟨hlk, hq, ha⟩ := hm
    refine ⟨?_, by rw [hcn]; exact hq, ha' ha⟩
    rcases hl with hl | ⟨_, hl⟩
    · rw [hl]; exact hlk
    · exact Or.inr hl
  | some i' =>
    obtain ⟨hlk, q', hm⟩ := hm
    have hl' : y'.locks = [true] := by
      rcases hl with hl | ⟨he, _⟩
      · rw [hl]; exact hlk
      · rw [he] at hlk; cases hlk
    refine ⟨hl', q', ?_⟩
    have key : ∀ pc1 : KPc, pc1.holding → y.callers[i']? = some (q', pc1) →
        y'.callers[i']? = some (q', pc1) := by
      intro pc1 hp1 h1
      rw [hcs]
      refine get_set_other hc h1 ?_
      intro e
      simp only [Prod.mk.injEq] at e
      rw [e.2] at hn0; exact hn0 hp1
    rw [hcn, hcu]
    rcases hm with ⟨hor, hq, ha⟩ | ⟨c, h1, hcur, hq, ha⟩ | ⟨c, k, h1, hcur, hq, hk, hcl, hor⟩
    · left
      refine ⟨?_, hq, ha' ha⟩
      rcases hor with h1 | h1
      · exact Or.inl (key _ trivial h1)
      · exact Or.inr (key _ trivial h1)
    · right; left
      exact ⟨c, key _ trivial h1, hcur, hq, ha' ha⟩
    · right; right
      exact ⟨c, k, key _ trivial h1, hcur, hq, hk, hcl, hor⟩

/-- the caller between `Lock` and `Unlock` returns -/
theorem finish_inv {respond : Bytes → Option Bytes} {y0 : KCl} {i : Nat} {q : Bytes} {pc0 : KPc} (res : Option Bytes)
    (hres : res = respond q) (_hc : y0.callers[i]? = some (q, pc0))
    (hfin : ∀ (j : Nat) q res, y0.callers[j]? = some (q, .finished res) → res = respond q)
    (hlo : y0.curLock = some 0) (hlk : y0.locks = [true])
    (hrefs : ∀ (j : Nat) q pc l, y0.callers[j]? = some (q, pc) → pc.lockRef = some l → l = 0 ∧ y0.curLock = some 0)
    (hone : ∀ (j : Nat) q pc, y0.callers[j]? = some (q, pc) → pc.holding → some i = some j)
    (hq : QuietBut y0.conns none) (ha : res.isSome = true → CurAlive y0) :
    KInv respond (KCl.finish .fixed y0 i q 0 res) := by
  obtain ⟨h1, h2, h3, _, h5⟩ := finish_fixed y0 i q 0 res
  refine ⟨?_, ?_, ?_, ⟨none, ?_, ?_, ?_, ?_⟩⟩
  · rw [h1]; exact fin_set hfin (fun r hr => by cases hr; exact hres)
  · right; rw [h3, h2, hlk]; exact ⟨hlo, false, rfl⟩
  · rw [h1, h3]; exact refs_set hrefs (fun h => h) (fun l hl => by simp [KPc.lockRef] at hl)
  · rw [h1]; exact hone_set_idle hone (by simp [KPc.holding]) (Or.inr rfl)
  · right; rw [h2, hlk]; rfl
  · rcases h5 with ⟨_, _, hcn⟩ | ⟨_, ⟨c, _, hcn⟩ | ⟨_, hcn⟩⟩
    · rw [hcn]; exact hq
    · rw [hcn]; exact quietBut_closeAt hq
    · rw [hcn]; exact hq
  · rcases h5 with ⟨hs, hcu, hcn⟩ | ⟨hcu, _⟩
    · exact curAlive_congr hcu hcn (ha hs)
    · intro c hc'; rw [hcu] at hc'; cases hc'


theorem kStep_inv (respond : Bytes → Option Bytes) (y y' : KCl) (a : KAct)
    (h : kStep .fixed respond y a = some y') (hi : KInv respond y) : KInv respond y' := by
  obtain ⟨hfin, hlo, hrefs, hh, hone, hm⟩ := hi
  cases a with
  | server c =>
    simp only [kStep] at h
    split at h
    · simp at h
    · rename_i k hk
      split at h
      · simp at h
      · rename_i hdc
        split at h
        · simp at h
        · rename_i q0 rest hup
          simp only [Option.some.injEq] at h
          subst h
          refine ⟨hfin, hlo, hrefs, hh, hone, ?_⟩
          cases hh with
          | none =>
            have := (hm.2.1 c k hk (by simp)).1
            rw [hup] at this; cases this
          | some i =>
            obtain ⟨hlk, q, hm⟩ := hm
            refine ⟨hlk, q, ?_⟩
            rcases hm with ⟨_, hq, _⟩ | ⟨_, _, _, hq, _⟩ | ⟨c', k1, h1, hcur, hq, hk1, hcl, hor⟩
            · have := (hq c k hk (by simp)).1
              rw [hup] at this; cases this
            · have := (hq c k hk (by simp)).1
              rw [hup] at this; cases this
            · right; right
              by_cases hcc : c = c'
              · subst hcc
                rw [hk] at hk1; cases hk1
                rcases hor with ⟨hu, hd, hdd⟩ | ⟨hu, _, _⟩
                · rw [hup] at hu
                  simp only [List.cons.injEq] at hu
                  obtain ⟨rfl, rfl⟩ := hu
                  refine ⟨c, _, h1, hcur, quietBut_set hq, get_set_self' hk, hcl, Or.inr ⟨rfl, by simp [hd], rfl⟩⟩
                · rw [hup] at hu; cases hu
              · have := (hq c k hk (by simpa using hcc)).1
                rw [hup] at this; cases this
  | caller i =>
    simp only [kStep] at h
    split at h
    · simp at h
    · -- start
      rename_i q hc
      split at h
      · rename_i l hcl
        simp only [Option.some.injEq] at h
        subst h
        have hl0 : l = 0 ∧ y.curLock = some 0 := by
          rcases hlo with ⟨hn, _⟩ | ⟨hs, _⟩
          · rw [hn] at hcl; cases hcl
          · rw [hs] at hcl; cases hcl; exact ⟨rfl, hs⟩
        refine ⟨fin_set hfin (fun r hr => by cases hr), hlo,
          refs_set hrefs (fun h => h) (fun l' hl' => by simp only [KPc.lockRef, Option.some.injEq] at hl'; subst hl'; exact hl0), ?_⟩
        exact holder_other hc (by simp [KPc.holding]) (by simp [KPc.holding]) rfl rfl rfl (Or.inl rfl) ⟨hh, hone, hm⟩
      · rename_i hcl
        simp only [Option.some.injEq] at h
        subst h
        have hle : y.locks = [] := by
          rcases hlo with ⟨_, he⟩ | ⟨hs, _⟩
          · exact he
          · rw [hs] at hcl; cases hcl
        refine ⟨fin_set hfin (fun r hr => by cases hr), Or.inr ⟨by simp [hle], false, by simp [hle]⟩,
          refs_set (cl := y.curLock) hrefs (fun h => by rw [hcl] at h; cases h)
            (fun l' hl' => by simp only [KPc.lockRef, Option.some.injEq] at hl'; subst hl'; simp [hle]), ?_⟩
        exact holder_other hc (by simp [KPc.holding]) (by simp [KPc.holding]) rfl rfl rfl (Or.inr ⟨hle, by simp [hle]⟩)
          ⟨hh, hone, hm⟩
    · -- ref: take the lock
      rename_i q l hc
      split at h
      · rename_i hfree
        simp only [Option.some.injEq] at h
        subst h
        obtain ⟨rfl, hcl⟩ := hrefs i q _ l hc rfl
        have hlk : y.locks = [false] := by
          rcases hlo with ⟨hn, _⟩ | ⟨_, b, hb⟩
          · rw [hn] at hcl; cases hcl
          · rw [hb] at hfree; simp at hfree; rw [hb, hfree]
        cases hh with
        | some k => rw [hm.1] at hlk; cases hlk
        | none =>
          obtain ⟨_, hq, ha⟩ := hm
          refine ⟨fin_set hfin (fun r hr => by cases hr), Or.inr ⟨hcl, true, by simp [hlk]⟩,
            refs_set hrefs (fun h => h) (fun l' hl' => by simp only [KPc.lockRef, Option.some.injEq] at hl'; subst hl'; exact ⟨rfl, hcl⟩),
            some i, hone_set_holding hone (Or.inl rfl), by simp [hlk], q, Or.inl ⟨Or.inl (get_set_self' hc), hq, ha⟩⟩
      · simp at h
    · -- locked: look the connection up
      rename_i q l hc
      obtain ⟨rfl, hcl⟩ := hrefs i q _ l hc rfl
      have hhi := hone i q _ hc trivial
      subst hhi
      obtain ⟨hlk, q', hm⟩ := hm
      have hq' : QuietBut y.conns none ∧ CurAlive y := by
        rcases hm with ⟨_, hq, ha⟩ | ⟨c, h1, _⟩ | ⟨c, k, h1, _⟩
        · exact ⟨hq, ha⟩
        · rw [hc] at h1; cases h1
        · rw [hc] at h1; cases h1
      split at h
      · rename_i c hcur
        simp only [Option.some.injEq] at h
        subst h
        exact ⟨fin_set hfin (fun r hr => by cases hr), hlo,
          refs_set hrefs (fun h => h) (fun l' hl' => by simp only [KPc.lockRef, Option.some.injEq] at hl'; subst hl'; exact ⟨rfl, hcl⟩),
          some i, hone_set_holding hone (Or.inr rfl), hlk, q, Or.inr (Or.inl ⟨c, get_set_self' hc, hcur, hq'.1, hq'.2⟩)⟩
      · simp only [Option.some.injEq] at h
        subst h
        exact ⟨fin_set hfin (fun r hr => by cases hr), hlo,
          refs_set hrefs (fun h => h) (fun l' hl' => by simp only [KPc.lockRef, Option.some.injEq] at hl'; subst hl'; exact ⟨rfl, hcl⟩),
          some i, hone_set_holding hone (Or.inr rfl), hlk, q, Or.inl ⟨Or.inr (get_set_self' hc), hq'.1, hq'.2⟩⟩
    · -- dialing: a new connection
      rename_i q l hc
      obtain ⟨rfl, hcl⟩ := hrefs i q _ l hc rfl
      have hhi := hone i q _ hc trivial
      subst hhi
      obtain ⟨hlk, q', hm⟩ := hm
      have hq' : QuietBut y.conns none := by
        rcases hm with ⟨_, hq, _⟩ | ⟨c, h1, _⟩ | ⟨c, k, h1, _⟩
        · exact hq
        · rw [hc] at h1; cases h1
        · rw [hc] at h1; cases h1
      simp only [Option.some.injEq] at h
      subst h
      refine ⟨fin_set hfin (fun r hr => by cases hr), hlo,
        refs_set hrefs (fun h => h) (fun l' hl' => by simp only [KPc.lockRef, Option.some.injEq] at hl'; subst hl'; exact ⟨rfl, hcl⟩),
        some i, hone_set_holding hone (Or.inr rfl), hlk, q, Or.inr (Or.inl ⟨y.conns.length, get_set_self' hc, rfl, ?_, ?_⟩)⟩
      · intro j k hj hne
        by_cases hjl : j < y.conns.length
        · rw [List.getElem?_append_left hjl] at hj; exact hq' j k hj hne
        · rw [List.getElem?_append_right (by omega)] at hj
          have : k = {} := by
            cases hjj : j - y.conns.length with
            | zero => rw [hjj] at hj; simpa using hj.symm
            | succ n => rw [hjj] at hj; simp at hj
          subst this; exact ⟨rfl, rfl⟩
      · intro c hc'
        simp only [Option.some.injEq] at hc'
        subst hc'
        exact ⟨{}, by simp, rfl, rfl⟩
    · -- ready: write the request
      rename_i q l c hc
      obtain ⟨rfl, hcl⟩ := hrefs i q _ l hc rfl
      have hhi := hone i q _ hc trivial
      subst hhi
      obtain ⟨hlk, q', hm⟩ := hm
      have hq' : y.cur = some c ∧ QuietBut y.conns none ∧ CurAlive y := by
        rcases hm with ⟨h1 | h1, _⟩ | ⟨c', h1, hcur, hq, ha⟩ | ⟨c', k, h1, _⟩
        · rw [hc] at h1; cases h1
        · rw [hc] at h1; cases h1
        · rw [hc] at h1; cases h1; exact ⟨hcur, hq, ha⟩
        · rw [hc] at h1; cases h1
      obtain ⟨hcur, hq, ha⟩ := hq'
      obtain ⟨k0, hk0, hd0, hc0⟩ := ha c hcur
      split at h
      · rename_i hn; rw [hk0] at hn; cases hn
      · rename_i k hk
        rw [hk0] at hk; cases hk
        simp only [hc0, Bool.false_eq_true, if_false, Option.some.injEq] at h
        subst h
        have hu := (hq c k0 hk0 (by simp)).1
        have hdn := (hq c k0 hk0 (by simp)).2
        exact ⟨fin_set hfin (fun r hr => by cases hr), hlo,
          refs_set hrefs (fun h => h) (fun l' hl' => by simp only [KPc.lockRef, Option.some.injEq] at hl'; subst hl'; exact ⟨rfl, hcl⟩),
          some i, hone_set_holding hone (Or.inr rfl), hlk, q,
          Or.inr (Or.inr ⟨c, _, get_set_self' hc, hcur, quietBut_set (quietBut_weaken hq), get_set_self' hk0, rfl,
            Or.inl ⟨by simp [hu], hdn, hd0⟩⟩)⟩
    · -- written: read the answer, leave
      rename_i q l c hc
      obtain ⟨rfl, hcl⟩ := hrefs i q _ l hc rfl
      have hhi := hone i q _ hc trivial
      subst hhi
      obtain ⟨hlk, q', hm⟩ := hm
      have hq' : ∃ k, y.cur = some c ∧ QuietBut y.conns (some c) ∧ y.conns[c]? = some k ∧ k.closed = false ∧
          ((k.up = [q] ∧ k.down = [] ∧ k.dead = false) ∨
           (k.up = [] ∧ k.down = [respond q] ∧ k.dead = (respond q).isNone)) := by
        rcases hm with ⟨h1 | h1, _⟩ | ⟨c', h1, _⟩ | ⟨c', k, h1, hcur, hq, hk, hcl', hor⟩
        · rw [hc] at h1; cases h1
        · rw [hc] at h1; cases h1
        · rw [hc] at h1; cases h1
        · rw [hc] at h1; cases h1; exact ⟨k, hcur, hq, hk, hcl', hor⟩
      obtain ⟨k0, hcur, hq, hk0, hc0, hor⟩ := hq'
      split at h
      · rename_i hn; rw [hk0] at hn; cases hn
      · rename_i k hk
        rw [hk0] at hk; cases hk
        simp only [hc0, Bool.false_eq_true, if_false] at h
        rcases hor with ⟨_, hd, hdd⟩ | ⟨hu, hd, hdd⟩
        · simp [hd, hdd] at h
        · simp only [hd, Option.some.injEq] at h
          subst h
          have hone' : ∀ (j : Nat) q pc, y.callers[j]? = some (q, pc) → pc.holding → some i = some j := hone
          refine finish_inv (respond q) rfl (pc0 := .written 0 c) hc hfin hcl hlk hrefs hone' ?_ ?_
          · intro j k hj _
            rcases getElem?_set_eq' _ _ _ _ _ hj with ⟨_, he⟩ | ⟨hne, he⟩
            · subst he; exact ⟨hu, rfl⟩
            · exact hq j k he (by simpa using fun e => hne e.symm)
          · intro hs c' hc'
            simp only at hc'
            rw [hcur] at hc'; cases hc'
            refine ⟨_, get_set_self' hk0, ?_, rfl⟩
            simp only [hdd]
            cases hr : respond q with
            | none => rw [hr] at hs; cases hs
            | some r => rfl
    · simp at h


theorem map_fst_set {cs : List (Bytes × KPc)} {i : Nat} {q : Bytes} {pc pc' : KPc} (hc : cs[i]? = some (q, pc)) :
    (cs.set i (q, pc')).map (·.1) = cs.map (·.1) := by
  apply List.ext_getElem?
  intro j
  by_cases hij : i = j
  · subst hij
    have hlt : i < cs.length := (List.getElem?_eq_some_iff.mp hc).1
    simp only [List.map_set, List.getElem?_map, hc, Option.map_some]
    rw [List.getElem?_set_self (by simpa using hlt)]
  · simp [List.getElem?_set_ne hij]

theorem kStep_requests (respond : Bytes → Option Bytes) (y y' : KCl) (a : KAct)
    (h : kStep .fixed respond y a = some y') : y'.callers.map (·.1) = y.callers.map (·.1) := by
  cases a with
  | server c =>
    simp only [kStep] at h
    split at h
    · simp at h
    · split at h
      · simp at h
      · split at h
        · simp at h
        · simp only [Option.some.injEq] at h; subst h; rfl
  | caller i =>
    simp only [kStep] at h
    split at h
    · simp at h
    · rename_i q hc
      split at h <;> (simp only [Option.some.injEq] at h; subst h; exact map_fst_set hc)
    · rename_i q l hc
      split at h
      · simp only [Option.some.injEq] at h; subst h; exact map_fst_set hc
      · simp at h
    · rename_i q l hc
      split at h <;> (simp only [Option.some.injEq] at h; subst h; exact map_fst_set hc)
    · rename_i q l hc
      simp only [Option.some.injEq] at h; subst h; exact map_fst_set hc
    · rename_i q l c hc
      split at h
      · simp at h
      · split at h
        · simp only [Option.some.injEq] at h; subst h
          rw [(finish_fixed y i q l none).1]; exact map_fst_set hc
        · simp only [Option.some.injEq] at h; subst h; exact map_fst_set hc
    · rename_i q l c hc
      split at h
      · simp at h
      · split at h
        · simp only [Option.some.injEq] at h; subst h
          rw [(finish_fixed y i q l none).1]; exact map_fst_set hc
        · split at h
          · simp only [Option.some.injEq] at h; subst h
            rw [(finish_fixed _ i q l _).1]; exact map_fst_set hc
          · split at h
            · simp only [Option.some.injEq] at h; subst h
              rw [(finish_fixed y i q l none).1]; exact map_fst_set hc
            · simp at h
    · simp at h

theorem kInv_fresh (respond : Bytes → Option Bytes) (keep : Bool) (reqs : List Bytes) :
    KInv respond { keep := keep, callers := reqs.map (fun q => (q, KPc.start)) } := by
  have hst : ∀ (i : Nat) q pc, (reqs.map (fun q => (q, KPc.start)))[i]? = some (q, pc) → pc = .start := by
    intro i q pc hc
    simp only [List.getElem?_map] at hc
    cases hr : reqs[i]? with
    | none => rw [hr] at hc; cases hc
    | some r => rw [hr] at hc; simp only [Option.map_some, Option.some.injEq, Prod.mk.injEq] at hc; exact hc.2.symm
  refine ⟨?_, Or.inl ⟨rfl, rfl⟩, ?_, none, ?_, Or.inl rfl, ?_, ?_⟩
  · intro i q res hc; cases hst i q _ hc
  · intro i q pc l hc hl; have := hst i q pc hc; subst this; simp [KPc.lockRef] at hl
  · intro j q pc hc hp; have := hst j q pc hc; subst this; simp [KPc.holding] at hp
  · intro j k hj; simp at hj
  · intro c hc; simp at hc

theorem kRun_inv (respond : Bytes → Option Bytes) (sched : List KAct) (y : KCl) (hi : KInv respond y) :
    KInv respond (kRun .fixed respond y sched) ∧
      (kRun .fixed respond y sched).callers.map (·.1) = y.callers.map (·.1) := by
  induction sched generalizing y with
  | nil => exact ⟨hi, rfl⟩
  | cons a as ih =>
    simp only [kRun]
    split
    · rename_i y₂ hs
      have := ih y₂ (kStep_inv respond y y₂ a hs hi)
      exact ⟨this.1, this.2.trans (kStep_requests respond y y₂ a hs)⟩
    · exact ih y hi

/-- **the reply handed back by `Send` is the one owed to the caller's own request — with kept and
with single-use connections, through failures and redials**: any number of goroutines calling
`Send` on one `Client` for one destination, any requests (answered, or refused by the server, which
then closes the connection), every interleaving of the callers with each other and with the
server's connection goroutines:
1. a caller that returns holds exactly what the server owes to *its own* request — the reply, or an
   error if and only if the server refused it (so: no reply of another request, and no error
   inherited from another request's failure);
2. the requests themselves are untouched;
3. **one request in flight per connection**: every connection ever dialed carries at most one
   unanswered request or unread answer, and only the connection currently in the client's map
   carries anything;
4. whenever no caller is between `Lock` and `Unlock`, the connection in the map (if any) is one the
   server still serves: the next request is not lost to an earlier failure. -/
theorem c14_client_keep_fail_redial (respond : Bytes → Option Bytes) (keep : Bool) (reqs : List Bytes)
    (sched : List KAct) :
    let y := kRun .fixed respond { keep := keep, callers := reqs.map (fun q => (q, .start)) } sched
    (∀ (i : Nat) q res, y.callers[i]? = some (q, .finished res) → res = respond q) ∧
    y.callers.map (·.1) = reqs ∧
    (∀ (c : Nat) k, y.conns[c]? = some k →
      k.up.length + k.down.length ≤ 1 ∧ (k.up ≠ [] ∨ k.down ≠ [] → y.cur = some c)) ∧
    ((∀ (j : Nat) q pc, y.callers[j]? = some (q, pc) → ¬ pc.holding) → CurAlive y) := by
  intro y
  obtain ⟨hI, hreq⟩ := kRun_inv respond sched _ (kInv_fresh respond keep reqs)
  change KInv respond y at hI
  refine ⟨hI.fin, ?_, ?_, ?_⟩
  · rw [hreq]; simp [Function.comp_def]
  · intro c k hk
    obtain ⟨h, _, hm⟩ := hI.holder
    have quiet : QuietBut y.conns none → k.up.length + k.down.length ≤ 1 ∧ (k.up ≠ [] ∨ k.down ≠ [] → y.cur = some c) := by
      intro hq
      obtain ⟨hu, hd⟩ := hq c k hk (by simp)
      simp [hu, hd]
    cases h with
    | none => exact quiet hm.2.1
    | some i =>
      obtain ⟨_, q, hm⟩ := hm
      rcases hm with ⟨_, hq, _⟩ | ⟨_, _, _, hq, _⟩ | ⟨c', k', _, hcur, hq, hk', _, hor⟩
      · exact quiet hq
      · exact quiet hq
      · by_cases hcc : c = c'
        · subst hcc
          rw [hk] at hk'; cases hk'
          refine ⟨?_, fun _ => hcur⟩
          rcases hor with ⟨hu, hd, _⟩ | ⟨hu, hd, _⟩ <;> simp [hu, hd]
        · obtain ⟨hu, hd⟩ := hq c k hk (by simpa using hcc)
          simp [hu, hd]
  · intro hno
    obtain ⟨h, hone, hm⟩ := hI.holder
    cases h with
    | none => exact hm.2.2
    | some i =>
      obtain ⟨_, q, hm⟩ := hm
      rcases hm with ⟨h1 | h1, _⟩ | ⟨_, h1, _⟩ | ⟨_, _, h1, _⟩ <;> exact absurd trivial (hno i q _ h1)

/-- a server that refuses the request `[0]` and answers every other request `q` with `q ++ [9]` -/
def respDemo (q : Bytes) : Option Bytes := if q = [0] then none else some (q ++ [9])

/-- a kept connection that is not forgotten after a failed request (the code before 5b2df0e): the
next, valid request of the same client fails without reaching a handler; with the code as it is it is
served over a freshly dialed connection -/
theorem c14_client_kept_dead_connection_fails_next :
    (kRun ⟨false, true⟩ respDemo { keep := true, callers := [([0], .start), ([1], .start)] }
      [.caller 0, .caller 0, .caller 0, .caller 0, .caller 0, .server 0, .caller 0,
       .caller 1, .caller 1, .caller 1, .caller 1, .server 0, .caller 1]).callers
      = [([0], .finished none), ([1], .finished none)] ∧
    (kRun .fixed respDemo { keep := true, callers := [([0], .start), ([1], .start)] }
      [.caller 0, .caller 0, .caller 0, .caller 0, .caller 0, .server 0, .caller 0,
       .caller 1, .caller 1, .caller 1, .caller 1, .caller 1, .server 1, .caller 1]).callers
      = [([0], .finished none), ([1], .finished (some [1, 9]))] := by decide

/-- the lock object deleted together with the connection (single-use client, three callers): the
second caller still holds the old lock object, the third creates a new one and dials; both then use the
new connection at once and the second is handed the reply to the third's request.  With the code as it
is the second caller is still waiting for its turn on the same schedule. -/
theorem c14_client_lock_deleted_with_connection_swaps :
    let sched : List KAct := [.caller 0, .caller 0, .caller 1, .caller 0, .caller 0, .caller 0, .server 0, .caller 0,
       .caller 2, .caller 2, .caller 2, .caller 2, .caller 2, .caller 1, .caller 1, .caller 1, .server 1, .server 1,
       .caller 1]
    ((kRun ⟨true, false⟩ respDemo { keep := false, callers := [([1], .start), ([2], .start), ([3], .start)] } sched).callers[1]?
      = some ([2], .finished (some [3, 9]))) ∧
    ((kRun .fixed respDemo { keep := false, callers := [([1], .start), ([2], .start), ([3], .start)] } sched).callers[1]?
      = some ([2], .ref 0)) := by decide

/-- non-vacuity: a kept client, three callers, the second request is refused: everybody returns, the
third request travels on a freshly dialed connection -/
example :
    let y := kRun .fixed respDemo { keep := true, callers := [([1], .start), ([0], .start), ([2], .start)] }
      [.caller 0, .caller 1, .caller 2, .caller 0, .caller 0, .caller 0, .caller 0, .server 0, .caller 0,
       .caller 1, .caller 1, .caller 1, .server 0, .caller 1,
       .caller 2, .caller 2, .caller 2, .caller 2, .server 1, .caller 2]
    y.callers = [([1], .finished (some [1, 9])), ([0], .finished none), ([2], .finished (some [2, 9]))] ∧
    y.conns.length = 2 ∧ y.cur = some 1 := by decide

/-- **no caller of `Send` is ever stuck** (liveness at quiescence, kept and single-use clients): in
every reachable state in which neither a caller nor the server side of any connection can move,
every caller has returned — the per-destination lock is never left held, a failed request never
leaves a caller waiting on a dead connection, a waiting caller always gets its turn. -/
theorem c14_client_nobody_stuck (respond : Bytes → Option Bytes) (keep : Bool) (reqs : List Bytes)
    (sched : List KAct) :
    let y := kRun .fixed respond { keep := keep, callers := reqs.map (fun q => (q, .start)) } sched
    (∀ a, kStep .fixed respond y a = none) →
      ∀ (i : Nat) q pc, y.callers[i]? = some (q, pc) → ∃ res, pc = .finished res := by
  intro y hq i q pc hc
  obtain ⟨hI, _⟩ := kRun_inv respond sched _ (kInv_fresh respond keep reqs)
  change KInv respond y at hI
  -- the caller between `Lock` and `Unlock`, if there is one, can move (or the server can)
  have holderMoves : ∀ (j : Nat) q', 
      ((y.callers[j]? = some (q', .locked 0) ∨ y.callers[j]? = some (q', .dialing 0)) ∨
       (∃ c, y.callers[j]? = some (q', .ready 0 c) ∧ y.cur = some c ∧ CurAlive y) ∨
       (∃ c k, y.callers[j]? = some (q', .written 0 c) ∧ y.conns[c]? = some k ∧ k.closed = false ∧
          ((k.up = [q'] ∧ k.down = [] ∧ k.dead = false) ∨ (k.up = [] ∧ k.down = [respond q'] ∧ k.dead = (respond q').isNone)))) →
      False := by
    intro j q' hcase
    rcases hcase with (h1 | h1) | ⟨c, h1, hcur, ha⟩ | ⟨c, k, h1, hk, hcl, hor⟩
    · have := hq (.caller j)
      simp only [kStep, h1] at this
      split at this <;> simp at this
    · have := hq (.caller j)
      simp [kStep, h1] at this
    · obtain ⟨k, hk, _, hcl⟩ := ha c hcur
      have := hq (.caller j)
      simp [kStep, h1, hk, hcl] at this
    · rcases hor with ⟨hu, hd, hdd⟩ | ⟨hu, hd, hdd⟩
      · have := hq (.server c)
        simp [kStep, hk, hcl, hdd, hu] at this
      · have := hq (.caller j)
        simp [kStep, h1, hk, hcl, hd] at this
  cases pc with
  | finished res => exact ⟨res, rfl⟩
  | start =>
    exfalso
    have := hq (.caller i)
    simp only [kStep, hc] at this
    split at this <;> simp at this
  | ref l =>
    exfalso
    obtain ⟨rfl, hcl⟩ := hI.refs i q _ l hc rfl
    obtain ⟨h, hone, hm⟩ := hI.holder
    cases h with
    | none =>
      have hlk : y.locks = [false] := by
        rcases hm.1 with he | he
        · rcases hI.lockObj with ⟨hn, _⟩ | ⟨_, b, hb⟩
          · rw [hn] at hcl; cases hcl
          · rw [he] at hb; cases hb
        · exact he
      have := hq (.caller i)
      simp [kStep, hc, hlk] at this
    | some j =>
      obtain ⟨_, q', hm⟩ := hm
      rcases hm with ⟨hor, _, _⟩ | ⟨c, h1, hcur, _, ha⟩ | ⟨c, k, h1, _, _, hk, hcl', hor⟩
      · exact holderMoves j q' (Or.inl hor)
      · exact holderMoves j q' (Or.inr (Or.inl ⟨c, h1, hcur, ha⟩))
      · exact holderMoves j q' (Or.inr (Or.inr ⟨c, k, h1, hk, hcl', hor⟩))
  | locked l =>
    exfalso
    obtain ⟨rfl, _⟩ := hI.refs i q _ l hc rfl
    exact holderMoves i q (Or.inl (Or.inl hc))
  | dialing l =>
    exfalso
    obtain ⟨rfl, _⟩ := hI.refs i q _ l hc rfl
    exact holderMoves i q (Or.inl (Or.inr hc))
  | ready l c =>
    exfalso
    obtain ⟨rfl, _⟩ := hI.refs i q _ l hc rfl
    obtain ⟨h, hone, hm⟩ := hI.holder
    have := hone i q _ hc trivial
    subst this
    obtain ⟨_, q', hm⟩ := hm
    rcases hm with ⟨h1 | h1, _⟩ | ⟨c', h1, hcur, _, ha⟩ | ⟨c', k, h1, _⟩
    · rw [hc] at h1; cases h1
    · rw [hc] at h1; cases h1
    · exact holderMoves i q' (Or.inr (Or.inl ⟨c', h1, hcur, ha⟩))
    · rw [hc] at h1; cases h1
  | written l c =>
    exfalso
    obtain ⟨rfl, _⟩ := hI.refs i q _ l hc rfl
    obtain ⟨h, hone, hm⟩ := hI.holder
    have := hone i q _ hc trivial
    subst this
    obtain ⟨_, q', hm⟩ := hm
    rcases hm with ⟨h1 | h1, _⟩ | ⟨c', h1, _⟩ | ⟨c', k, h1, _, _, hk, hcl', hor⟩
    · rw [hc] at h1; cases h1
    · rw [hc] at h1; cases h1
    · rw [hc] at h1; cases h1
    · exact holderMoves i q' (Or.inr (Or.inr ⟨c', k, h1, hk, hcl', hor⟩))

/-- non-vacuity: the final state of the three-caller example is such a state -/
example :
    let y := kRun .fixed respDemo { keep := true, callers := [([1], .start), ([0], .start), ([2], .start)] }
      [.caller 0, .caller 1, .caller 2, .caller 0, .caller 0, .caller 0, .caller 0, .server 0, .caller 0,
       .caller 1, .caller 1, .caller 1, .server 0, .caller 1,
       .caller 2, .caller 2, .caller 2, .caller 2, .server 1, .caller 2]
    (∀ i < 3, kStep .fixed respDemo y (.caller i) = none) ∧ (∀ c < 2, kStep .fixed respDemo y (.server c) = none) := by
  decide

/-- **every request of every connection is answered** (server side, liveness at quiescence): when
no connection goroutine of the server can move any more, every websocket connection has had all its
messages answered or was closed by the first error on it, and every HTTP connection has had all its
requests answered — with as many answers as requests served. -/
theorem c14_server_quiescent_all_answered {σ M R O B : Type} (cfg : Cfg σ M R O B) (y : Sys σ O B R)
    (hq : ∀ a, step cfg y a = none) :
    (∀ t ∈ y.ws, t.todo = [] ∨ t.closed = true) ∧ (∀ t ∈ y.http, t.todo = []) := by
  constructor
  · intro t ht
    obtain ⟨i, hi⟩ := List.getElem?_of_mem ht
    have := hq (.ws i)
    simp only [step, hi] at this
    cases hc : t.closed with
    | true => exact Or.inr rfl
    | false =>
      left
      cases htd : t.todo with
      | nil => rfl
      | cons b bs => simp [wsStep, hc, htd] at this
  · intro t ht
    obtain ⟨i, hi⟩ := List.getElem?_of_mem ht
    have := hq (.http i)
    simp only [step, hi] at this
    cases htd : t.todo with
    | nil => rfl
    | cons kq qs =>
      exfalso
      obtain ⟨k, q⟩ := kq
      have hs : ∃ r, httpStep cfg y.svc y.slots t = some r := by
        cases hd : t.decoded with
        | some o => simp only [httpStep, htd, hd]; exact ⟨_, rfl⟩
        | none =>
          simp only [httpStep, htd, hd]
          split
          · exact ⟨_, rfl⟩
          · split <;> exact ⟨_, rfl⟩
      obtain ⟨r, hr⟩ := hs
      obtain ⟨s', sl', t'⟩ := r
      simp [hr] at this

/-! ### the client: several nodes asked at once -/

/-- invariant of `SendProtobufParallelWithDecoder`: once a winner is announced, `ret` holds the
reply of exactly that node -/
def Par.Inv (p : Par) : Prop :=
  (p.done = true → ∃ i r, p.winner = some i ∧ p.replies[i]? = some r ∧ p.ret = some r) ∧
  (∀ (i : Nat) pc, p.pcs[i]? = some pc → pc ≠ .decoding ∧ pc ≠ .announce)

theorem parStep_inv (p p' : Par) (i : Nat) (h : parStep true p i = some p') (hi : p.Inv) :
    p'.Inv ∧ p'.replies = p.replies := by
  unfold parStep at h
  have hpc : ∀ (q : PPc) (j : Nat) pc, (p.pcs.set i q)[j]? = some pc → q ≠ .decoding → q ≠ .announce →
      pc ≠ .decoding ∧ pc ≠ .announce := by
    intro q j pc hj h1 h2
    rcases getElem?_set_eq' _ _ _ _ _ hj with ⟨_, rfl⟩ | ⟨_, he⟩
    · exact ⟨h1, h2⟩
    · exact hi.2 j pc he
  split at h
  · simp only [Option.some.injEq] at h; subst h
    exact ⟨⟨hi.1, fun j pc hj => hpc _ j pc hj (by simp) (by simp)⟩, rfl⟩
  · rename_i r _ hr
    simp only [if_true] at h
    split at h
    · simp only [Option.some.injEq] at h; subst h
      exact ⟨⟨hi.1, fun j pc hj => hpc _ j pc hj (by simp) (by simp)⟩, rfl⟩
    · simp only [Option.some.injEq] at h; subst h
      exact ⟨⟨fun _ => ⟨i, r, rfl, hr, rfl⟩, fun j pc hj => hpc _ j pc hj (by simp) (by simp)⟩, rfl⟩
  · rename_i hpcd _
    exact absurd rfl (hi.2 i _ hpcd).1
  · rename_i hpcd _
    exact absurd rfl (hi.2 i _ hpcd).2
  · simp at h

/-- **the reply handed back belongs to the node handed back** (`SendProtobufParallel`,
`SendProtobufParallelWithDecoder`): any number of nodes asked at once, replies arriving in any
order and with any overlap — whenever a winner has been announced, `ret` holds the reply of exactly
that node, and it never changes afterwards (it is an invariant of every later state too). -/
theorem c14_parallel_pair (replies : List Bytes) (sched : List Nat) :
    let p := parRun true (parInit replies) sched
    p.done = true → ∃ i r, p.winner = some i ∧ replies[i]? = some r ∧ p.ret = some r := by
  have h0 : (parInit replies).Inv := by
    refine ⟨by simp [parInit], ?_⟩
    intro i pc hpc
    simp only [parInit, List.getElem?_map] at hpc
    cases hr : replies[i]? with
    | none => simp [hr] at hpc
    | some r => simp [hr] at hpc; subst hpc; simp
  suffices ∀ p : Par, p.Inv → p.replies = replies →
      (parRun true p sched).Inv ∧ (parRun true p sched).replies = replies by
    intro p hd
    obtain ⟨hI, hr⟩ := this (parInit replies) h0 rfl
    obtain ⟨i, r, h1, h2, h3⟩ := hI.1 hd
    exact ⟨i, r, h1, by rw [← hr]; exact h2, h3⟩
  induction sched with
  | nil => intro p hp hr; exact ⟨hp, hr⟩
  | cons a as ih =>
    intro p hp hr
    simp only [parRun]
    split
    · rename_i p' hs
      obtain ⟨h1, h2⟩ := parStep_inv p p' a hs hp
      exact ih p' h1 (h2.trans hr)
    · exact ih p hp hr

theorem parStep_shape (p p' : Par) (j : Nat) (h : parStep true p j = some p') :
    (∃ q, p'.pcs = p.pcs.set j q) ∧ p.pcs[j]? ≠ some .finished ∧ (p'.winner = p.winner ∨ p'.winner = some j) := by
  unfold parStep at h
  split at h
  · rename_i hpc _
    simp only [Option.some.injEq] at h; subst h
    exact ⟨⟨_, rfl⟩, by rw [hpc]; simp, Or.inl rfl⟩
  · rename_i r hpc _
    simp only [if_true] at h
    split at h
    · simp only [Option.some.injEq] at h; subst h
      exact ⟨⟨_, rfl⟩, by rw [hpc]; simp, Or.inl rfl⟩
    · simp only [Option.some.injEq] at h; subst h
      exact ⟨⟨_, rfl⟩, by rw [hpc]; simp, Or.inr rfl⟩
  · rename_i r hpc _
    simp only [Option.some.injEq] at h; subst h
    exact ⟨⟨_, rfl⟩, by rw [hpc]; simp, Or.inl rfl⟩
  · rename_i hpc _
    split at h
    · simp only [Option.some.injEq] at h; subst h
      exact ⟨⟨_, rfl⟩, by rw [hpc]; simp, Or.inl rfl⟩
    · simp only [Option.some.injEq] at h; subst h
      exact ⟨⟨_, rfl⟩, by rw [hpc]; simp, Or.inr rfl⟩
  · simp at h

/-- **… also when some of the asked nodes cannot be reached**: any subset of the nodes fails
(`none`), the others answer in any order and with any overlap — a node that is handed back is one
that answered, and `ret` holds exactly its reply; if every node fails nobody is handed back (the
caller gets the first error). -/
theorem c14_parallel_pair_with_failures (replies : List (Option Bytes)) (sched : List Nat) :
    let p := parRun true (parInitF replies) sched
    (p.done = true → ∃ i r, p.winner = some i ∧ replies[i]? = some (some r) ∧ p.ret = some r) ∧
    ((∀ r ∈ replies, r = none) → p.done = false ∧ p.winner = none) := by
  have key : ∀ p : Par, p.Inv → p.replies = replies.map (fun r => r.getD []) →
      (∀ (i : Nat), replies[i]? = some none → p.pcs[i]? = some .finished) →
      (∀ (i : Nat), p.winner = some i → ∃ r, replies[i]? = some (some r)) →
      let p' := parRun true p sched
      p'.Inv ∧ p'.replies = replies.map (fun r => r.getD []) ∧
      (∀ (i : Nat), p'.winner = some i → ∃ r, replies[i]? = some (some r)) := by
    induction sched with
    | nil => intro p h1 h2 _ h4; exact ⟨h1, h2, h4⟩
    | cons a as ih =>
      intro p h1 h2 h3 h4
      simp only [parRun]
      split
      · rename_i p' hs
        obtain ⟨hI, hr⟩ := parStep_inv p p' a hs h1
        obtain ⟨⟨q, hq⟩, hnf, hw⟩ := parStep_shape p p' a hs
        have hne : ∀ i, replies[i]? = some none → i ≠ a := by
          intro i hi e; subst e; exact hnf (h3 i hi)
        refine ih p' hI (hr.trans h2) ?_ ?_
        · intro i hi
          rw [hq, List.getElem?_set_ne (fun e => hne i hi e.symm)]
          exact h3 i hi
        · intro i hi
          rcases hw with hw | hw
          · exact h4 i (hw ▸ hi)
          · rw [hw] at hi
            simp only [Option.some.injEq] at hi
            subst hi
            -- node `a` moved, so it is not one of the failing ones
            cases hra : replies[a]? with
            | none =>
              -- no such node: the routine cannot have moved
              exfalso
              have hrn : p.replies[a]? = none := by rw [h2]; simp [hra]
              unfold parStep at hs
              rw [hrn] at hs
              split at hs <;> simp_all
            | some o =>
              cases o with
              | some r => exact ⟨r, rfl⟩
              | none => exact absurd rfl (hne a hra)
      · exact ih p h1 h2 h3 h4
  intro p
  have h0 : (parInitF replies).Inv := by
    refine ⟨by simp [parInitF], ?_⟩
    intro i pc hpc
    simp only [parInitF, List.getElem?_map] at hpc
    cases hr : replies[i]? with
    | none => simp [hr] at hpc
    | some r => simp only [hr, Option.map_some, Option.some.injEq] at hpc; subst hpc; split <;> simp
  obtain ⟨hI, hr, hw⟩ := key (parInitF replies) h0 rfl
    (by
      intro i hi
      simp [parInitF, List.getElem?_map, hi])
    (by intro i hi; simp [parInitF] at hi)
  change Par.Inv p at hI
  have part1 : p.done = true → ∃ i r, p.winner = some i ∧ replies[i]? = some (some r) ∧ p.ret = some r := by
    intro hd
    obtain ⟨i, r, h1, h2, h3⟩ := hI.1 hd
    obtain ⟨r', hr'⟩ := hw i h1
    refine ⟨i, r', h1, hr', ?_⟩
    have : p.replies[i]? = some r' := by
      change (parRun true (parInitF replies) sched).replies[i]? = some r'
      rw [hr]; simp [hr']
    rw [this] at h2; cases h2; exact h3
  refine ⟨part1, ?_⟩
  intro hall
  have hwn : p.winner = none := by
    cases hwi : p.winner with
    | none => rfl
    | some i =>
      obtain ⟨r, hr'⟩ := hw i hwi
      have := hall _ (List.mem_of_getElem? hr')
      cases this
  refine ⟨?_, hwn⟩
  cases hd : p.done with
  | false => rfl
  | true =>
    obtain ⟨i, _, h1, _⟩ := part1 hd
    rw [hwn] at h1; cases h1

/-- decoding outside the mutex breaks it: two replies overlap, node 0 is handed back with node 1's
reply in `ret` -/
theorem c14_parallel_unlocked_decode_mismatch :
    ∃ sched : List Nat,
      let p := parRun false (parInit [[10], [11], [12]]) sched
      p.done = true ∧ p.winner = some 0 ∧ p.ret = some [11] :=
  ⟨[0, 1, 0, 1, 0, 1, 0, 1], by decide⟩

/-- non-vacuity: with the mutex, the same arrival order hands back node 0 with node 0's reply -/
example :
    let p := parRun true (parInit [[10], [11], [12]]) [0, 1, 0, 1, 2, 2]
    p.done = true ∧ p.winner = some 0 ∧ p.ret = some [10] := by decide

/-! ### non-vacuity of the server theorems: a fresh system and a schedule that serves everything -/

example :
    let y : Sys Nat Msg Body Reply :=
      { svc := 0, slots := fun _ => {},
        ws := [{ path := "C14Echo", todo := [[8, 10], [0xff], [8, 2]] }],
        http := [{ todo := [(0, post [.setS [52, 50]]), (0, post [])] }, { todo := [(0, post [.setA 7])] }] }
    y.Fresh ∧
    ((run (concreteCfg .perRequest) y
        [.http 1, .http 0, .ws 0, .http 1, .http 0, .http 0, .ws 0, .http 0, .ws 0]).http.map (·.outs))
      = [[restRespond (concreteRest 0) 0 (post [.setS [52, 50]]), restRespond (concreteRest 0) 0 (post [])],
         [restRespond (concreteRest 0) 0 (post [.setA 7])]] := by
  refine ⟨⟨?_, ?_⟩, by decide⟩
  · intro t ht; simp at ht; subst ht; exact ⟨rfl, rfl⟩
  · intro t ht; simp at ht; rcases ht with rfl | rfl <;> exact ⟨rfl, rfl, rfl⟩

/-! ### registration: each API dispatches on its own table -/

theorem build_handlers_aux {H : Type} (name : String) (regs : List (Reg H)) (t : Table H) :
    (regs.foldl (Table.add false) t).handlers name =
      ((regs.reverse.findSome? (Reg.wsFor name)) <|> t.handlers name) := by
  induction regs generalizing t with
  | nil => simp
  | cons r rs ih =>
    rw [List.foldl_cons, ih, List.reverse_cons, List.findSome?_append]
    cases rs.reverse.findSome? (Reg.wsFor name) with
    | some h => simp
    | none =>
      cases r with
      | ws n h =>
        by_cases hn : name = n
        · simp [Table.add, Reg.wsFor, hn]
        · simp [Table.add, Reg.wsFor, hn]
      | rest n h => simp [Table.add, Reg.wsFor]

theorem build_routes_aux {H : Type} (b : Bool) (name : String) (regs : List (Reg H)) (t : Table H) :
    (regs.foldl (Table.add b) t).routes name =
      ((regs.reverse.findSome? (Reg.restFor name)) <|> t.routes name) := by
  induction regs generalizing t with
  | nil => simp
  | cons r rs ih =>
    rw [List.foldl_cons, ih, List.reverse_cons, List.findSome?_append]
    cases rs.reverse.findSome? (Reg.restFor name) with
    | some h => simp
    | none =>
      cases r with
      | ws n h => simp [Table.add, Reg.restFor]
      | rest n h =>
        by_cases hn : name = n
        · simp [Table.add, Reg.restFor, hn]
        · simp [Table.add, Reg.restFor, hn]

/-- **each API answers with the function registered for that API**: after any sequence of
registrations, the handler a websocket path dispatches to is the one of the *last `RegisterHandler`*
for that message name and the function behind a REST resource is the one of the last
`RegisterRESTHandler` for it — a registration for one API never changes, adds or removes anything
on the other, whatever the order, also when one message type is registered for both with different
functions. -/
theorem c14_registration_apis_separate {H : Type} (regs : List (Reg H)) (name : String) :
    (Table.build false regs).handlers name = regs.reverse.findSome? (Reg.wsFor name) ∧
    (Table.build false regs).routes name = regs.reverse.findSome? (Reg.restFor name) := by
  constructor
  · simp [Table.build, build_handlers_aux, Table.empty]
  · simp [Table.build, build_routes_aux, Table.empty]

/-- corollaries: a message registered for REST only is unknown to the websocket API, and the other
way round -/
theorem c14_rest_only_is_unregistered_on_ws {H : Type} (regs : List (Reg H)) (name : String)
    (h : ∀ r ∈ regs, Reg.wsFor name r = none) : (Table.build false regs).handlers name = none := by
  rw [(c14_registration_apis_separate regs name).1]
  simp only [List.findSome?_eq_none_iff, List.mem_reverse]
  exact h

/-- a handler table shared by both registrations: the REST function answers the websocket requests
of a type registered for both APIs, and a REST-only type becomes a websocket path -/
theorem c14_shared_table_overwrites :
    let regs : List (Reg Nat) := [.ws "M" 1, .rest "M" 2, .rest "R" 3]
    (Table.build true regs).handlers "M" = some 2 ∧ (Table.build true regs).handlers "R" = some 3 ∧
    (Table.build false regs).handlers "M" = some 1 ∧ (Table.build false regs).handlers "R" = none ∧
    (Table.build false regs).routes "M" = some 2 := by decide

/-- the concrete service: the literal tables the driver uses are the ones the modelled
registration produces from `concreteRegs` (websocket paths, REST resources and their tags) -/
theorem c14_concrete_tables :
    (["C14Echo", "C14Swap", "C14Key", "C14Both", "C14Post", "C14Put", "C14Int", "C14Bytes", "C14Empty", "Nope"].map wsTag
      = [some [47, 69, 99, 104, 111], some [47, 83, 119, 97, 112], some [47, 75, 101, 121],
         some [47, 66, 111, 116, 104, 87, 115], none, none, none, none, none, none]) ∧
    (∀ res ∈ ["C14Post", "C14Put", "C14Int", "C14Bytes", "C14Empty", "C14Both", "C14Echo", "C14Swap", "Nope"],
      concreteTable.routes res = (Drv.resourceId res).map restTag) := by decide

/-! ### what a registration accepts -/

/-- **a registration is accepted exactly when the reflection code can call the function**: one
argument that is a pointer to a struct (`reflect.New(to.Elem())`, `arg.Elem().Set`), two results of
which the first is an interface or a pointer to a struct and the second an `error`
(`ret[1].Interface()`, `ret[0].Interface()` in `callInterfaceFunc`) -/
theorem c14_registration_accepts_callable (g : Sig) :
    registerHandlerCheck g = none ↔
      (g.isFunc = true ∧ g.nIn = 1 ∧ (∃ f, g.in0 = .ptrStruct f) ∧ g.nOut = 2 ∧
        (g.out0 = .iface ∨ g.out0 = .ptrStruct) ∧ g.out1Err = true) := by
  obtain ⟨isFunc, nIn, in0, nOut, out0, out1Err⟩ := g
  simp only [registerHandlerCheck, handlerInputCheck, createServiceHandler]
  cases isFunc <;> cases in0 <;> cases out0 <;> cases out1Err <;>
    by_cases h1 : nIn = 1 <;> by_cases h2 : nOut = 2 <;> simp [h1, h2]

/-- **the kind of GET handler fits the field the closure sets**: a REST registration is accepted as
an int (byte-slice) GET handler only for a function the websocket registration would accept too,
whose argument struct has exactly one field, of kind `int` (`[]byte`): `Field(0).SetInt` /
`.SetBytes` in the closure (processor.go:252, 264) cannot panic; and the versions are in order -/
theorem c14_rest_get_kind_fits_field (g : Sig) (method : String) (mn mx : Nat) (k : Option GetKind)
    (h : registerRESTCheck g method mn mx = .ok k) :
    3 ≤ mn ∧ mn ≤ mx ∧ registerHandlerCheck g = none ∧ (method = "GET" ∨ method = "POST" ∨ method = "PUT") ∧
    (k = none ↔ method ≠ "GET") ∧
    (k = some .int → g.in0 = .ptrStruct .oneInt) ∧ (k = some .slice → g.in0 = .ptrStruct .oneBytes) ∧
    (k = some .empty → g.in0 = .ptrStruct .none) := by
  simp only [registerRESTCheck] at h
  split at h
  · cases h
  · rename_i hm
    split at h
    · cases h
    · rename_i h1
      split at h
      · cases h
      · rename_i h2
        split at h
        · cases h
        · rename_i hr
          have hmeth : method = "GET" ∨ method = "POST" ∨ method = "PUT" := by
            by_cases a : method = "GET"
            · exact Or.inl a
            · by_cases b : method = "POST"
              · exact Or.inr (Or.inl b)
              · by_cases c : method = "PUT"
                · exact Or.inr (Or.inr c)
                · exact absurd ⟨a, b, c⟩ hm
          refine ⟨by omega, by omega, hr, hmeth, ?_⟩
          split at h
          · rename_i hg
            split at h
            · rename_i k' hk
              simp only [Except.ok.injEq] at h
              subst h
              simp only [prepareHandlerGET] at hk
              split at hk <;> first | (simp only [Except.ok.injEq] at hk; subst hk; simp_all) | (cases hk)
            · cases h
          · rename_i hg
            simp only [Except.ok.injEq] at h
            subst h
            simp [hg]

/-! ### any number of open connections -/

theorem wsStep_idle {σ M R : Type} (svc : WsSvc σ M R) (s : σ) (t : WsThread) (h : t.todo = []) :
    wsStep svc s t = none := by
  unfold wsStep
  split
  · rfl
  · simp [h]

theorem step_with_idle (cfg : Cfg σ M R O B) (y : Sys σ O B R) (idle : List WsThread)
    (hidle : ∀ t ∈ idle, t.todo = []) (a : Act) :
    step cfg { y with ws := y.ws ++ idle } a = (step cfg y a).map (fun y' => { y' with ws := y'.ws ++ idle }) := by
  cases a with
  | http i =>
    simp only [step]
    cases hi : y.http[i]? with
    | none => rfl
    | some t =>
      simp only []
      cases hs : httpStep cfg y.svc y.slots t with
      | none => rfl
      | some r => obtain ⟨s', sl', t'⟩ := r; rfl
  | ws i =>
    simp only [step]
    by_cases hlt : i < y.ws.length
    · rw [List.getElem?_append_left hlt]
      cases hi : y.ws[i]? with
      | none => rfl
      | some t =>
        simp only []
        cases hs : wsStep cfg.ws y.svc t with
        | none => rfl
        | some r =>
          obtain ⟨s', t'⟩ := r
          simp only [Option.map_some, List.set_append_left _ _ hlt]
    · have hn : y.ws[i]? = none := List.getElem?_eq_none (by omega)
      rw [hn]
      rw [List.getElem?_append_right (by omega)]
      cases hi : idle[i - y.ws.length]? with
      | none => rfl
      | some t =>
        have := wsStep_idle cfg.ws y.svc t (hidle t (List.mem_of_getElem? hi))
        simp [this]

/-- **no bound on the connections that are open at the same time** (seed C14r6-B: a counting
semaphore of 128 around every service handler, held by a websocket connection for its whole life):
any number of further connections that are open and idle — kept-alive clients between two requests —
changes nothing for anybody: for every schedule the system with them is, connection by connection,
request by request, answer by answer, the system without them (plus the idle connections, untouched). -/
theorem c14_open_connections_unbounded (cfg : Cfg σ M R O B) (y : Sys σ O B R) (idle : List WsThread)
    (hidle : ∀ t ∈ idle, t.todo = []) (sched : List Act) :
    run cfg { y with ws := y.ws ++ idle } sched = { run cfg y sched with ws := (run cfg y sched).ws ++ idle } := by
  induction sched generalizing y with
  | nil => rfl
  | cons a as ih =>
    simp only [run]
    rw [step_with_idle cfg y idle hidle a]
    cases hs : step cfg y a with
    | none => exact ih y
    | some y' => exact ih y'

/-- … and a connection with a request waiting can always be served, whatever else is open: whether
its goroutine can move depends on that connection alone -/
theorem c14_request_served_whatever_else_is_open (cfg : Cfg σ M R O B) (y : Sys σ O B R) (i : Nat) (t : WsThread)
    (hi : y.ws[i]? = some t) (hc : t.closed = false) (b : Bytes) (bs : List Bytes) (ht : t.todo = b :: bs) :
    (step cfg y (.ws i)).isSome = true := by
  simp [step, hi, wsStep, hc, ht]

/-- non-vacuity: any number n of idle connections (the correspondence run opens 300 and 1100) -/
example (n : Nat) : ∀ t ∈ List.replicate n ({ path := "C14Echo", todo := [] } : WsThread), t.todo = [] := by
  intro t ht
  rw [List.eq_of_mem_replicate ht]

/-! ### `SendProtobufParallelWithDecoder` with `QuitError`: `done` is closed once -/

/-- **the first error and an accepted reply may come at the same moment; `done` is closed once**
(found through seed C14r5-A, reproduced on the unchanged tree by
`notes/probes/onet_c14_parallel_quit_double_close_probe_test.go.txt`, repaired): for every
interleaving of the accepting routines and the caller's error handling there is no close of a closed
channel, and a routine inside its critical section has always found `done` open. -/
theorem c14_parallel_quit_closes_done_once (sched : List QAct) :
    (qRun true {} sched).panic = false := by
  have inv : ∀ (sched : List QAct) (p : QPar), p.panic = false → (p.inCS.isSome = true → p.done = false) →
      (qRun true p sched).panic = false := by
    intro sched
    induction sched with
    | nil => intro p h _; exact h
    | cons a as ih =>
      intro p hp hcs
      simp only [qRun]
      apply ih
      · cases a with
        | enter i => simp only [qStep]; split <;> simp [hp]
        | leave =>
          simp only [qStep]
          cases hc : p.inCS with
          | none => simp [hp]
          | some i =>
            have hd := hcs (by simp [hc])
            simp [hp, hd]
        | quit =>
          simp only [qStep, hp, Bool.false_or]
          split
          · exact hp
          · simp only [if_true]; split <;> simp [hp]
      · cases a with
        | enter i =>
          simp only [qStep]
          split
          · exact hcs
          · rename_i hn
            simp only [Bool.or_eq_true, not_or] at hn
            intro _; simpa using hn.2
        | leave =>
          simp only [qStep]
          cases hc : p.inCS with
          | none => simpa [hc] using hcs
          | some i =>
            have hd := hcs (by simp [hc])
            simp [hp, hd]
        | quit =>
          simp only [qStep, hp, Bool.false_or]
          split
          · exact hcs
          · simp only [if_true]
            split
            · exact hcs
            · rename_i hn; intro h; simp at hn; simp [hn] at h
  exact inv sched {} rfl (by simp)

/-- the bare `close(done)` of the code before: both orders end the process — the caller closes
second (panic in the caller, websocket_client.go:411 of 37e8160), or the accepting routine does -/
theorem c14_parallel_quit_unguarded_double_close :
    (qRun false {} [.enter 1, .leave, .quit]).panic = true ∧
    (qRun false {} [.enter 1, .quit, .leave]).panic = true ∧
    (qRun true {} [.enter 1, .leave, .quit]) = { done := true, winner := some 1, quit := true } ∧
    (qRun true {} [.enter 1, .quit, .leave, .quit]) = { done := true, winner := some 1, quit := true } := by decide

/-! ### `Client.SendToAll`: the reply list is indexed like the roster -/

theorem sendToAll_nil {σ α β : Type} (c : Bool) (send : σ → α → σ × Option β) (s : σ) :
    sendToAll c send s [] = (s, [], 0) := rfl

theorem sendToAll_cons_false {σ α β : Type} (send : σ → α → σ × Option β) (s : σ) (e : α) (es : List α) :
    (sendToAll false send s (e :: es)).2.1 = (send s e).2 :: (sendToAll false send (send s e).1 es).2.1 ∧
    (sendToAll false send s (e :: es)).2.2 =
      (sendToAll false send (send s e).1 es).2.2 + (if (send s e).2.isSome then 0 else 1) := by
  simp only [sendToAll]
  cases h : (send s e).2 <;> simp

/-- **every server's reply sits at that server's place** (seed C14r5-B): for every client state,
roster and behaviour of the single `Send`s (failures anywhere included) the list `SendToAll` returns
is as long as the roster, its entry `i` is exactly what the `Send` to roster entry `i` returned —
nothing where it failed — and an error is returned iff some `Send` failed. -/
theorem c14_send_to_all_positional {σ α β : Type} (send : σ → α → σ × Option β) (s : σ) (roster : List α) :
    let res := sendToAll false send s roster
    res.2.1.length = roster.length ∧
    (∀ (i : Nat) (e : α), roster[i]? = some e → res.2.1[i]? = some (send (stateAt send s roster i) e).2) ∧
    (res.2.2 = 0 ↔ ∀ r ∈ res.2.1, r.isSome = true) := by
  induction roster generalizing s with
  | nil => simp [sendToAll_nil]
  | cons e es ih =>
    obtain ⟨h1, h2⟩ := sendToAll_cons_false send s e es
    obtain ⟨i1, i2, i3⟩ := ih (send s e).1
    refine ⟨?_, ?_, ?_⟩
    · simp only [h1, List.length_cons, i1]
    · intro i x hx
      cases i with
      | zero =>
        simp only [List.getElem?_cons_zero, Option.some.injEq] at hx
        subst hx
        simp [h1, stateAt]
      | succ j =>
        simp only [List.getElem?_cons_succ] at hx
        simp only [h1, List.getElem?_cons_succ, stateAt]
        exact i2 j x hx
    · simp only [h1, h2, List.mem_cons, forall_eq_or_imp]
      cases hs : (send s e).2 with
      | none => simp
      | some b => simpa using i3

/-- … and the variant that appends only the successful replies does not: with the middle server of
three failing, the third server's reply is handed out as the second's -/
theorem c14_send_to_all_compact_shifts :
    let send := fun (st : Unit) (n : Nat) => (st, if n = 1 then none else some n)
    (sendToAll true send () [0, 1, 2]).2.1 = [some 0, some 2] ∧
    (sendToAll false send () [0, 1, 2]).2.1 = [some 0, none, some 2] ∧
    (sendToAll false send () [0, 1, 2]).2.2 = 1 := by decide


/-! ### whom a parallel request asks (`ParallelOptions.GetList`), and nobody to ask -/

/-- **the numbers of `GetList`**: for every roster with at least one node and every content of the options
(negative and oversized numbers included): at least one routine is started and at most as many as nodes
are asked; at least one and at most `len` nodes are asked; the start lies inside the roster.
(`po.Parallel >= 0` instead of `> 0` would start no routine for the default options: the caller waits for
ever; `po.StartNode <= len` would index past the roster.) -/
theorem c14_getlist_numbers (len : Int) (po : Option ParOpts) (h : 1 ≤ len) :
    let ps := getListParams len po
    1 ≤ ps.parallel ∧ ps.parallel ≤ ps.askNodes ∧ ps.askNodes ≤ len ∧ 0 ≤ ps.startNode ∧ ps.startNode < len ∧
    ps.parallel ≤ (len + 1) / 2 := by
  cases po with
  | none => simp only [getListParams]; omega
  | some o =>
    simp only [getListParams]
    split <;> split <;> split <;> split <;> omega

/-- the loop collects the first `ask` nodes, in walking order, that are not ignored -/
theorem collect_eq (nodes ignore : List Nat) (start ask : Nat) :
    ∀ (perm acc : List Nat), acc.length < ask →
      collect nodes ignore start ask perm acc =
        (acc ++ (perm.map (fun p => nodes.getD ((start + p) % nodes.length) 0)).filter (fun n => !ignore.contains n)).take ask := by
  intro perm
  induction perm with
  | nil => intro acc h; simp [collect, List.take_of_length_le (Nat.le_of_lt h)]
  | cons p ps ih =>
    intro acc h
    simp only [collect, List.map_cons, List.filter_cons]
    by_cases hi : ignore.contains (nodes.getD ((start + p) % nodes.length) 0) = true
    · simp only [hi, if_true, Bool.not_true, Bool.false_eq_true, if_false]
      rw [if_neg (by omega)]
      exact ih acc h
    · simp only [hi, if_false, Bool.not_false, if_true, Bool.false_eq_true]
      by_cases hl : (acc ++ [nodes.getD ((start + p) % nodes.length) 0]).length = ask
      · rw [if_pos hl]
        rw [show acc ++ nodes.getD ((start + p) % nodes.length) 0 :: List.filter (fun n => !ignore.contains n)
              (List.map (fun p => nodes.getD ((start + p) % nodes.length) 0) ps) =
            (acc ++ [nodes.getD ((start + p) % nodes.length) 0]) ++ List.filter (fun n => !ignore.contains n)
              (List.map (fun p => nodes.getD ((start + p) % nodes.length) 0) ps) by simp]
        exact (List.take_left' hl).symm
      · rw [if_neg hl]
        have : (acc ++ [nodes.getD ((start + p) % nodes.length) 0]).length < ask := by
          simp at hl ⊢; omega
        rw [ih _ this]; simp

theorem getD_inj_of_nodup {nodes : List Nat} (hn : nodes.Nodup) {i j : Nat} (hi : i < nodes.length)
    (hj : j < nodes.length) (h : nodes.getD i 0 = nodes.getD j 0) : i = j := by
  have hp := List.pairwise_iff_getElem.mp hn
  simp only [List.getD_eq_getElem?_getD, List.getElem?_eq_getElem hi, List.getElem?_eq_getElem hj, Option.getD_some] at h
  rcases Nat.lt_trichotomy i j with hlt | heq | hgt
  · exact absurd h (hp i j hi hj hlt)
  · exact heq
  · exact absurd h.symm (hp j i hj hi hgt)

theorem walk_inj {len start p q : Nat} (hp : p < len) (hq : q < len)
    (h : (start + p) % len = (start + q) % len) : p = q := by
  rcases Nat.le_total p q with hle | hle
  · have := Nat.sub_mod_eq_zero_of_mod_eq h.symm
    have h2 : start + q - (start + p) = q - p := by omega
    rw [h2, Nat.mod_eq_of_lt (by omega)] at this; omega
  · have := Nat.sub_mod_eq_zero_of_mod_eq h
    have h2 : start + p - (start + q) = p - q := by omega
    rw [h2, Nat.mod_eq_of_lt (by omega)] at this; omega

/-- walking a roster without duplicates along a permutation visits no node twice -/
theorem walk_nodup {nodes perm : List Nat} (start : Nat) (hn : nodes.Nodup) (hp : perm.Nodup)
    (hl : ∀ p ∈ perm, p < nodes.length) :
    (perm.map (fun p => nodes.getD ((start + p) % nodes.length) 0)).Nodup := by
  refine List.pairwise_map.mpr (List.Pairwise.imp_of_mem ?_ hp)
  intro a b ha hb hne heq
  have hla := hl a ha
  have hlb := hl b hb
  have hpos : 0 < nodes.length := by omega
  exact hne (walk_inj hla hlb (getD_inj_of_nodup hn (Nat.mod_lt _ hpos) (Nat.mod_lt _ hpos) heq))

theorem permOf_ok (len : Nat) (po : Option ParOpts) (rp : List Nat) (hp : rp.Nodup) (hl : ∀ p ∈ rp, p < len) :
    (permOf len po rp).Nodup ∧ ∀ p ∈ permOf len po rp, p < len := by
  unfold permOf
  cases po with
  | none => exact ⟨hp, hl⟩
  | some o =>
    simp only
    split
    · exact ⟨List.nodup_range, fun p hp => List.mem_range.mp hp⟩
    · exact ⟨hp, hl⟩

def ignoreOf : Option ParOpts → List Nat
  | some o => o.ignore
  | none => []

/-- **whom `GetList` puts into the channel**: for every roster without duplicate nodes, every content of the
options and every permutation `rand.Perm` may draw — no node twice, only nodes of the roster, no ignored
node, at most `askNodes` of them (so the channel of that capacity never blocks the caller), and whenever
somebody is asked a routine is started to ask.  (Walking with `perm[i]` but without `% len`, or comparing
the ignored nodes by pointer, falsify it.) -/
theorem c14_getlist_asked (nodes : List Nat) (po : Option ParOpts) (rp : List Nat) (hn : nodes.Nodup)
    (hp : rp.Nodup) (hl : ∀ p ∈ rp, p < nodes.length) :
    let r := getList nodes po rp
    r.2.Nodup ∧ (∀ n ∈ r.2, n ∈ nodes ∧ n ∉ ignoreOf po) ∧
    ((r.2.length : Int) ≤ (getListParams nodes.length po).askNodes ∨ nodes = []) ∧
    (r.2 ≠ [] → 1 ≤ r.1) := by
  intro r
  by_cases hne : nodes = []
  · subst hne
    have : rp = [] := by
      cases rp with
      | nil => rfl
      | cons p ps => exact absurd (hl p (List.mem_cons_self)) (by simp)
    subst this
    have hr : r.2 = [] := by
      cases po with
      | none => rfl
      | some o => simp [r, getList, permOf, collect]
    simp [hr]
  · have hlen : 1 ≤ (nodes.length : Int) := by
      have : 0 < nodes.length := List.length_pos_iff.mpr hne
      omega
    obtain ⟨h1, h2, h3, h4, h5, _⟩ := c14_getlist_numbers nodes.length po hlen
    obtain ⟨hpn, hpl⟩ := permOf_ok nodes.length po rp hp hl
    have hask : 0 < (getListParams nodes.length po).askNodes.toNat := by omega
    have hr : r.2 = (((permOf nodes.length po rp).map (fun p => nodes.getD (((getListParams nodes.length po).startNode.toNat + p) % nodes.length) 0)).filter
        (fun n => !(ignoreOf po).contains n)).take (getListParams nodes.length po).askNodes.toNat := by
      have := collect_eq nodes (ignoreOf po) (getListParams nodes.length po).startNode.toNat
        (getListParams nodes.length po).askNodes.toNat (permOf nodes.length po rp) [] (by simpa using hask)
      simp only [List.nil_append] at this
      rw [← this]
      cases po <;> rfl
    have hwn := walk_nodup (getListParams nodes.length po).startNode.toNat hn hpn hpl
    refine ⟨?_, ?_, ?_, ?_⟩
    · rw [hr]
      exact List.Nodup.sublist (List.take_sublist _ _) (List.Nodup.sublist List.filter_sublist hwn)
    · intro n hnr
      rw [hr] at hnr
      have hf := List.mem_of_mem_take hnr
      rw [List.mem_filter] at hf
      obtain ⟨hm, hi⟩ := hf
      rw [List.mem_map] at hm
      obtain ⟨p, hpm, rfl⟩ := hm
      have hpos : 0 < nodes.length := List.length_pos_iff.mpr hne
      refine ⟨?_, by simpa using hi⟩
      rw [List.getD_eq_getElem?_getD, List.getElem?_eq_getElem (Nat.mod_lt _ hpos)]
      exact List.getElem_mem _
    · left
      rw [hr, List.length_take]
      omega
    · intro _; exact h1

/-- non-vacuity, and the options at work: six nodes, start at 2, node 4 ignored, two asked, in roster order -/
example : getList [10, 11, 12, 13, 14, 15] (some { startNode := 2, askNodes := 3, parallel := 2, ignore := [14], dontShuffle := true }) [] =
    (2, [12, 13, 15]) := by decide

example : getList [10, 11, 12] none [2, 0, 1] = (2, [12, 10, 11]) := by decide

/-- what the bounds exclude: `po.Parallel >= 0` in place of `> 0` starts no routine for options that leave
`Parallel` at its zero value — nobody ever asks the three nodes in the channel -/
theorem c14_getlist_zero_parallel_variant_starts_nobody :
    let parallel0 : Int := ((3 : Int) + 1) / 2
    let o : ParOpts := {}
    (if o.parallel ≥ 0 ∧ o.parallel < parallel0 then o.parallel else parallel0) = 0 ∧
    (getList [10, 11, 12] (some o) [0, 1, 2]) = (2, [10, 11, 12]) := by decide

/-- **nobody to ask is an error, not a crash**: for every roster, options and permutation, when `GetList`
leaves the channel empty (no node given, every node ignored) the call ends with an error value before any
routine is started; otherwise the routines are started (`Par`, `c14_parallel_pair_with_failures`). The
code before 2f7be2f evaluated `errs[0]` of the empty list: the calling process ended. -/
theorem c14_parallel_nobody_to_ask_is_an_error (nodes : List Nat) (po : Option ParOpts) (rp : List Nat) :
    let asked := (getList nodes po rp).2
    (asked = [] → nobodyToAsk true asked = some .error) ∧
    (asked ≠ [] → nobodyToAsk true asked = none) ∧
    nobodyToAsk true asked ≠ some .crash := by
  intro asked
  unfold nobodyToAsk
  refine ⟨fun h => by simp [h], fun h => ?_, ?_⟩
  · have : asked.length ≠ 0 := fun hl => h (List.eq_nil_of_length_eq_zero hl)
    simp [this]
  · split <;> simp

/-- the witnesses of the probe: every node ignored; no node given -/
theorem c14_parallel_nobody_to_ask_crashed_before :
    nobodyToAsk false (getList [10, 11, 12] (some { ignore := [12, 10, 11] }) [1, 2, 0]).2 = some .crash ∧
    nobodyToAsk false (getList [] none []).2 = some .crash ∧
    nobodyToAsk true (getList [10, 11, 12] (some { ignore := [12, 10, 11] }) [1, 2, 0]).2 = some .error ∧
    nobodyToAsk true (getList [] none []).2 = some .error := by decide

/-! ### which connection a request travels on (any number of destinations) -/

/-- every stored connection is stored under the key of the destination it was dialed for -/
def MCl.Keyed {K D : Type} (key : D → K) (c : MCl K D) : Prop := ∀ e ∈ c.conns, e.1 = key e.2

theorem MCl.find_keyed {K D : Type} [DecidableEq K] {key : D → K} {c : MCl K D} (h : c.Keyed key)
    {k : K} {d : D} (hf : c.find k = some d) : key d = k := by
  unfold MCl.find at hf
  cases hfe : c.conns.find? (fun e => e.1 = k) with
  | none => simp [hfe] at hf
  | some e =>
    simp only [hfe, Option.map_some, Option.some.injEq] at hf
    have hm := List.mem_of_find?_eq_some hfe
    have hk := List.find?_some hfe
    simp only [decide_eq_true_eq] at hk
    rw [← hf, ← h e hm, hk]

theorem mSend_keyed {K D : Type} [DecidableEq K] (key : D → K) (keep : Bool) (c : MCl K D) (d : D) (ok : Bool)
    (h : c.Keyed key) : (mSend key keep c d ok).1.Keyed key := by
  have h1 : (match c.find (key d) with | some _ => c | none => (⟨(key d, d) :: c.conns⟩ : MCl K D)).Keyed key := by
    cases c.find (key d) with
    | some _ => exact h
    | none =>
      intro e he
      simp only [List.mem_cons] at he
      rcases he with rfl | he
      · rfl
      · exact h e he
  unfold mSend
  simp only
  split
  · exact h1
  · intro e he
    simp only [MCl.drop, List.mem_filter] at he
    exact h1 e he.1

/-- **a reply comes from the server and handler the request was meant for**: when different destinations
have different keys (the code: the key *is* the destination — identity pointer and path), then for every
sequence of `Send`s to any destinations, answered or failing, kept or single-use, every reply handed to
a caller was produced by the destination that caller named. -/
theorem c14_connection_table_reply_from_asked_destination {K D : Type} [DecidableEq K] (key : D → K)
    (hinj : ∀ a b, key a = key b → a = b) (keep : Bool) :
    ∀ (sends : List (D × Bool)) (c : MCl K D), c.Keyed key →
      ∀ r ∈ mRun key keep c sends, r.2 = none ∨ r.2 = some r.1 := by
  intro sends
  induction sends with
  | nil => intro c _ r hr; simp [mRun] at hr
  | cons s rest ih =>
    intro c hc r hr
    obtain ⟨d, ok⟩ := s
    simp only [mRun, List.mem_cons] at hr
    rcases hr with rfl | hr
    · simp only [mSend]
      cases ok with
      | false => left; rfl
      | true =>
        right
        simp only [if_true]
        cases hf : c.find (key d) with
        | none => rfl
        | some d' => simp only; rw [hinj _ _ (MCl.find_keyed hc hf)]
    · exact ih _ (mSend_keyed key keep c d ok hc) r hr

/-- non-vacuity: a kept client, three destinations, one failure in between: everybody answered by whom he
asked, and the failed destination is dialed again -/
example : mRun (K := Nat) (D := Nat) id true {} [(0, true), (1, true), (0, false), (0, true), (2, true), (1, true)] =
    [(0, some 0), (1, some 1), (0, none), (0, some 0), (2, some 2), (1, some 1)] := by decide

/-- **the key must tell destinations apart** (seed C14r5-A: connections kept under the identity's deprecated
`ID`, which literal identities leave empty): two servers whose identities share the key — the request for
the second travels on the connection to the first and is answered by the first.  A single-use client
hides it (every request dials). -/
theorem c14_connection_table_shared_key_asks_wrong_server :
    mRun (K := Nat) (D := Nat) (fun _ => 0) true {} [(0, true), (1, true)] = [(0, some 0), (1, some 0)] ∧
    mRun (K := Nat) (D := Nat) (fun _ => 0) false {} [(0, true), (1, true)] = [(0, some 0), (1, some 1)] ∧
    mRun (K := Nat) (D := Nat) id true {} [(0, true), (1, true)] = [(0, some 0), (1, some 1)] := by decide

/-! ### a handler that acknowledges without a message (seed C14r7-B) -/

/-- **an acknowledgement carries nothing of its request**: the handler of `C14Ack` (interface return type,
`(nil, nil)`) is registered on the websocket API, and whatever two requests carry, when both are
acknowledged their replies are the same — the empty message, which `protobuf.Encode` accepts — so no byte
of a request can come back as its reply (`ProcessClientRequest` returning its `buf` parameter, which holds
the request, when the reply is nil falsifies this against the run: `corpus:ack-without-message`) -/
theorem c14_ack_reply_is_empty (m m' : Msg) (r r' : Reply)
    (h : transform ackTag m = .ret r) (h' : transform ackTag m' = .ret r') :
    wsTag "C14Ack" = some ackTag ∧ r = r' ∧ r = { a := 0, s := [], b := [], n := 0 } ∧
    concreteWs.encode r = some [] := by
  have key : ∀ (x : Msg) (y : Reply), transform ackTag x = .ret y → y = { a := 0, s := [], b := [], n := 0 } := by
    intro x y hx
    unfold transform at hx
    repeat' split at hx
    all_goals first
      | (cases hx; done)
      | (rename_i hne; exact absurd rfl hne)
      | (simp only [HandlerResult.ret.injEq] at hx; rw [← hx]; try simp)
  have e1 := key m r h
  have e2 := key m' r' h'
  refine ⟨by decide, by rw [e1, e2], e1, ?_⟩
  rw [e1]; rfl

/-- non-vacuity: two different requests, both acknowledged; a failing one is not -/
example : transform ackTag { a := 5, s := [102, 105, 118, 101], b := [7, 8, 9] } = .ret { a := 0, s := [], b := [], n := 0 } ∧
    transform ackTag { a := -7, s := sNilReply, b := [] } = .ret { a := 0, s := [], b := [], n := 0 } ∧
    transform ackTag { a := 1, s := sFail, b := [] } = .fail true := by decide

/-! ### `GetList` leaves nobody out; the connection table across `Close` -/


theorem walk_surj {n start j : Nat} (hn : 0 < n) (hj : j < n) :
    (start + (j + n - start % n) % n) % n = j := by
  have ha : start % n < n := Nat.mod_lt _ hn
  rw [Nat.add_mod, Nat.mod_mod]
  generalize start % n = a at *
  rw [Nat.add_mod_mod]
  have : a + (j + n - a) = j + n := by omega
  rw [this, Nat.add_mod_right, Nat.mod_eq_of_lt hj]

/-- **nobody is left out**: when the permutation covers the roster (as `rand.Perm` and the identity do) and
`GetList` put fewer than `askNodes` nodes into the channel, then every node of the roster that is not
ignored is in it — the only reasons not to be asked are being ignored and the limit `askNodes`.  (A walk
that starts at `startNode` but does not wrap around — `nodes[startNode+perm[i]]` guarded by a length test —
leaves the nodes before `startNode` out.) -/
theorem c14_getlist_leaves_nobody_out (nodes : List Nat) (po : Option ParOpts) (rp : List Nat)
    (hcov : ∀ i, i < nodes.length → i ∈ rp) :
    let r := getList nodes po rp
    (r.2.length : Int) < (getListParams nodes.length po).askNodes →
    ∀ x ∈ nodes, x ∉ ignoreOf po → x ∈ r.2 := by
  intro r hlt x hx hni
  have hne : nodes ≠ [] := by intro h; rw [h] at hx; simp at hx
  have hpos : 0 < nodes.length := List.length_pos_iff.mpr hne
  have hlen : 1 ≤ (nodes.length : Int) := by omega
  obtain ⟨h1, h2, h3, h4, h5, _⟩ := c14_getlist_numbers nodes.length po hlen
  have hask : 0 < (getListParams nodes.length po).askNodes.toNat := by omega
  have hr : r.2 = (((permOf nodes.length po rp).map (fun p => nodes.getD (((getListParams nodes.length po).startNode.toNat + p) % nodes.length) 0)).filter
      (fun n => !(ignoreOf po).contains n)).take (getListParams nodes.length po).askNodes.toNat := by
    have := collect_eq nodes (ignoreOf po) (getListParams nodes.length po).startNode.toNat
      (getListParams nodes.length po).askNodes.toNat (permOf nodes.length po rp) [] (by simpa using hask)
    simp only [List.nil_append] at this
    rw [← this]
    cases po <;> rfl
  have hcov' : ∀ i, i < nodes.length → i ∈ permOf nodes.length po rp := by
    intro i hi
    unfold permOf
    cases po with
    | none => exact hcov i hi
    | some o =>
      simp only
      split
      · exact List.mem_range.mpr hi
      · exact hcov i hi
  -- the limit did not cut
  have hnocut : r.2 = ((permOf nodes.length po rp).map (fun p => nodes.getD (((getListParams nodes.length po).startNode.toNat + p) % nodes.length) 0)).filter
      (fun n => !(ignoreOf po).contains n) := by
    rw [hr]
    apply List.take_of_length_le
    rw [hr, List.length_take] at hlt
    omega
  rw [hnocut, List.mem_filter]
  refine ⟨?_, by simpa using hni⟩
  obtain ⟨j, hj, rfl⟩ := List.getElem_of_mem hx
  rw [List.mem_map]
  refine ⟨(j + nodes.length - (getListParams nodes.length po).startNode.toNat % nodes.length) % nodes.length,
    hcov' _ (Nat.mod_lt _ hpos), ?_⟩
  simp only [walk_surj hpos hj]
  rw [List.getD_eq_getElem?_getD, List.getElem?_eq_getElem hj]; rfl

/-- non-vacuity: five nodes, two ignored, six asked for: the three others are all asked -/
example : (getList [10, 11, 12, 13, 14] (some { ignore := [11, 13] }) [4, 2, 0, 1, 3]).2 = [14, 12, 10] ∧
    (getListParams 5 (some { ignore := [11, 13] })).askNodes = 5 := by decide
/-- **… also across `Close`**: any sequence of `Send`s and `Close`s — every reply handed back comes from the
destination named, the table stays keyed, and right after a `Close` nothing is stored (the next `Send` to any
destination dials) -/
theorem c14_connection_table_with_close {K D : Type} [DecidableEq K] (key : D → K)
    (hinj : ∀ a b, key a = key b → a = b) (keep : Bool) :
    ∀ (ops : List (MOp D)) (c : MCl K D), c.Keyed key →
      (mOps key keep c ops).1.Keyed key ∧
      (∀ r ∈ (mOps key keep c ops).2, r.2 = none ∨ r.2 = some r.1) ∧
      (∀ pre, ops = pre ++ [.close] → (mOps key keep c ops).1.conns = []) := by
  intro ops
  induction ops with
  | nil =>
    intro c hc
    refine ⟨hc, by simp [mOps], fun pre h => ?_⟩
    cases pre <;> simp at h
  | cons o rest ih =>
    intro c hc
    cases o with
    | send d ok =>
      have hk := mSend_keyed key keep c d ok hc
      obtain ⟨i1, i2, i3⟩ := ih _ hk
      refine ⟨i1, ?_, fun pre h => ?_⟩
      · intro r hr
        simp only [mOps, List.mem_cons] at hr
        rcases hr with rfl | hr
        · have := c14_connection_table_reply_from_asked_destination key hinj keep [(d, ok)] c hc
            (d, (mSend key keep c d ok).2) (by simp [mRun])
          exact this
        · exact i2 r hr
      · cases pre with
        | nil => simp at h
        | cons p pre' =>
          simp only [List.cons_append, List.cons.injEq] at h
          simp only [mOps]
          exact i3 pre' h.2
    | close =>
      have hk : (⟨[]⟩ : MCl K D).Keyed key := by intro e he; simp at he
      obtain ⟨i1, i2, i3⟩ := ih _ hk
      refine ⟨i1, i2, fun pre h => ?_⟩
      cases pre with
      | nil =>
        simp only [List.nil_append, List.cons.injEq, true_and] at h
        subst h; simp [mOps]
      | cons p pre' =>
        simp only [List.cons_append, List.cons.injEq] at h
        simp only [mOps]
        exact i3 pre' h.2

example : (mOps (K := Nat) (D := Nat) id true {} [.send 0 true, .send 1 true, .close, .send 1 true]).1.conns = [(1, 1)] ∧
    (mOps (K := Nat) (D := Nat) id true {} [.send 0 true, .send 1 true, .close, .send 1 true]).2 =
      [(0, some 0), (1, some 1), (1, some 1)] := by decide

/-! ### from the URL to the handler table -/

theorem sep_prefix_eq {c : Char} : ∀ (a b rest : List Char), c ∉ a → c ∉ b → a ++ [c] <+: b ++ c :: rest → a = b
  | [], [], _, _, _, _ => rfl
  | [], y :: b, rest, _, hb, h => by
    simp only [List.nil_append, List.cons_append, List.cons_prefix_cons] at h
    exact absurd (h.1 ▸ List.mem_cons_self) hb
  | x :: a, [], rest, ha, _, h => by
    simp only [List.nil_append, List.cons_append, List.cons_prefix_cons] at h
    exact absurd (h.1 ▸ List.mem_cons_self) ha
  | x :: a, y :: b, rest, ha, hb, h => by
    simp only [List.cons_append, List.cons_prefix_cons] at h
    have := sep_prefix_eq a b rest (fun hm => ha (List.mem_cons_of_mem _ hm)) (fun hm => hb (List.mem_cons_of_mem _ hm)) h.2
    rw [h.1, this]

theorem pattern_prefix_iff (a svc path : List Char) (ha : '/' ∉ a) (hs : '/' ∉ svc) :
    (pattern a).isPrefixOf (clientURL svc path) = true ↔ a = svc := by
  rw [List.isPrefixOf_iff_prefix]
  constructor
  · intro h
    simp only [pattern, clientURL, List.cons_append, List.cons_prefix_cons, true_and, List.append_assoc] at h
    exact sep_prefix_eq a svc path ha hs (by simpa using h)
  · intro h; subst h; exact List.prefix_append _ _

theorem foldl_all_eq (svc : List Char) : ∀ (l : List (List Char)), (∀ x ∈ l, x = svc) →
    ∀ b, (b = none ∨ b = some svc) → l.foldl longer b = (if l = [] then b else some svc)
  | [], _, b, _ => rfl
  | x :: l, h, b, hb => by
    have hx : x = svc := h x List.mem_cons_self
    subst hx
    have hstep : longer b x = some x := by
      rcases hb with rfl | rfl
      · rfl
      · simp [longer]
    simp only [List.foldl_cons, hstep]
    rw [foldl_all_eq x l (fun y hy => h y (List.mem_cons_of_mem _ hy)) (some x) (Or.inr rfl)]
    simp

/-- **the handler table that is asked is the one of the service named, under exactly the path named**: for
every set of registered services whose names contain no `/`, every registered service `svc` and **every**
path (any characters, `/` included): the URL the client builds is routed to `svc` and the key under which
`svc`'s handler table is looked up is that path, byte for byte; a service that is not registered reaches
the catch-all.  (`strings.TrimLeft` in place of `TrimPrefix`, a pattern without the final `/`, or the first
path element only falsify it.) -/
theorem c14_route_round_trip (services : List (List Char)) (svc path : List Char)
    (hsl : ∀ s ∈ services, '/' ∉ s) (hs : '/' ∉ svc) :
    (svc ∈ services → route services (clientURL svc path) = some (svc, path)) ∧
    (svc ∉ services → route services (clientURL svc path) = none) := by
  have hfil : ∀ x ∈ services.filter (fun s => (pattern s).isPrefixOf (clientURL svc path)), x = svc := by
    intro x hx
    rw [List.mem_filter] at hx
    exact (pattern_prefix_iff x svc path (hsl x hx.1) hs).mp hx.2
  constructor
  · intro hm
    have hne : services.filter (fun s => (pattern s).isPrefixOf (clientURL svc path)) ≠ [] := by
      intro he
      have : svc ∈ services.filter (fun s => (pattern s).isPrefixOf (clientURL svc path)) :=
        List.mem_filter.mpr ⟨hm, (pattern_prefix_iff svc svc path hs hs).mpr rfl⟩
      rw [he] at this; simp at this
    have hmux : muxRoute services (clientURL svc path) = some svc := by
      unfold muxRoute
      rw [foldl_all_eq svc _ hfil none (Or.inl rfl), if_neg hne]
    have htp : trimPrefix (clientURL svc path) (pattern svc) = path := by
      unfold trimPrefix clientURL
      rw [if_pos (List.isPrefixOf_iff_prefix.mpr (List.prefix_append _ _))]
      simp
    unfold route
    rw [hmux]
    simp only [Option.map_some, htp]
  · intro hm
    have he : services.filter (fun s => (pattern s).isPrefixOf (clientURL svc path)) = [] := by
      rw [List.filter_eq_nil_iff]
      intro x hx hp
      have := (pattern_prefix_iff x svc path (hsl x hx) hs).mp hp
      exact hm (this ▸ hx)
    simp [route, muxRoute, he]

/-- what `TrimLeft` would do with the paths of the correspondence run: it eats into the path -/
theorem c14_route_trimleft_eats_the_path :
    trimLeft "/VerifC14/C14Echo".toList "/VerifC14/".toList = "Echo".toList ∧
    trimPrefix "/VerifC14/C14Echo".toList "/VerifC14/".toList = "C14Echo".toList ∧
    route ["VerifC14".toList, "VerifC15".toList] "/VerifC14/C14Echo".toList = some ("VerifC14".toList, "C14Echo".toList) ∧
    route ["VerifC14".toList, "VerifC15".toList] "/VerifC14NoSuchService/C14Echo".toList = none ∧
    route ["VerifC14".toList] "/VerifC14/a/b//c".toList = some ("VerifC14".toList, "a/b//c".toList) := by decide

/-- **a parallel request as a whole** (`GetList`, the nobody test, the routines): for every roster without duplicate
nodes, every content of the options, every permutation, every answering behaviour of the nodes (`answer n = none`: the
`Send` to node `n` fails) and every interleaving of the routines — when a node is handed back it is a node of the
roster that is not ignored and that answered, and `ret` holds exactly its reply; when nobody can be asked the call
ends with an error before any routine starts; when nobody answers nobody is handed back. -/
theorem c14_parallel_call_hands_back_an_asked_node (nodes : List Nat) (po : Option ParOpts) (rp : List Nat)
    (hn : nodes.Nodup) (hp : rp.Nodup) (hl : ∀ p ∈ rp, p < nodes.length)
    (answer : Nat → Option Bytes) (sched : List Nat) :
    let asked := (getList nodes po rp).2
    let p := parRun true (parInitF (asked.map answer)) sched
    (asked = [] → nobodyToAsk true asked = some .error) ∧
    (p.done = true → ∃ i n r, p.winner = some i ∧ asked[i]? = some n ∧ n ∈ nodes ∧ n ∉ ignoreOf po ∧
      answer n = some r ∧ p.ret = some r) ∧
    ((∀ n ∈ asked, answer n = none) → p.done = false ∧ p.winner = none) := by
  intro asked p
  obtain ⟨_, hmem, _, _⟩ := c14_getlist_asked nodes po rp hn hp hl
  obtain ⟨h1, h2⟩ := c14_parallel_pair_with_failures (asked.map answer) sched
  refine ⟨(c14_parallel_nobody_to_ask_is_an_error nodes po rp).1, fun hd => ?_, fun hall => ?_⟩
  · obtain ⟨i, r, hw, hr, hret⟩ := h1 hd
    rw [List.getElem?_map] at hr
    cases ha : asked[i]? with
    | none => rw [ha] at hr; simp at hr
    | some n =>
      rw [ha] at hr
      simp only [Option.map_some, Option.some.injEq] at hr
      have hm := hmem n (List.mem_of_getElem? ha)
      exact ⟨i, n, r, hw, ha, hm.1, hm.2, hr, hret⟩
  · apply h2
    intro r hr
    rw [List.mem_map] at hr
    obtain ⟨n, hn', rfl⟩ := hr
    exact hall n hn'

/-- non-vacuity: five nodes, node 13 ignored, node 10 unreachable, the others answer with their own name; whoever the
schedule lets win is handed back with its own reply -/
example :
    let asked := (getList [10, 11, 12, 13, 14] (some { ignore := [13], dontShuffle := true }) []).2
    let p := parRun true (parInitF (asked.map fun n => if n = 10 then none else some [n])) [1, 2, 1, 2, 0, 3]
    asked = [10, 11, 12, 14] ∧ p.done = true ∧ p.winner = some 1 ∧ p.ret = some [11] := by decide

/-! ### the code regions the model stands for
Regenerated from /repo's source on every run (`harness/cmd/astfacts` → `OnetVerif/Shapes.lean`): the
calls that matter for synchronisation and data flow, the lock regions and (for decision logic) the
conditions, in source order.  A re-ordering, a dropped call or a changed condition breaks these
obligations even when no sampled input or schedule shows a difference; the check then searches for
a failing input. -/
theorem c14_shape_ServiceProcessor_ProcessClientRequest :
    Shapes.processor_ServiceProcessor_ProcessClientRequest =
   ["assign:mh,ok:=p.handlers[path]", "if:mh.streaming",
     "return:nil,nil,xerrors.Errorf((\"\"+\"\"))", "if:!ok",
     "assign:err:=xerrors.New((\"\"+path))", "return:nil,nil,err",
     "assign:msg:=reflect.New().Interface()", "server.Suite", "network.DefaultConstructors",
     "protobuf.DecodeWithConstructors",
     "assign:err:=protobuf.DecodeWithConstructors(buf,msg,network.DefaultConstructors(p.Context.server.Suite()))",
     "if:(err!=nil)", "return:nil,nil,xerrors.Errorf(\"\",err)",
     "return:callInterfaceFunc(mh.handler,msg,mh.streaming)", "assign:reply,_,err:=func()",
     "if:(err!=nil)", "return:nil,nil,err", "protobuf.Encode",
     "assign:buf,err=protobuf.Encode(reply)", "if:(err!=nil)",
     "return:nil,nil,xerrors.Errorf(\"\",err)", "return:buf,nil,nil"] := rfl

theorem c14_shape_callInterfaceFunc :
    Shapes.processor_callInterfaceFunc =
   ["defer{", "assign:r:=recover()", "if:(r!=nil)", "assign:err=xerrors.Errorf(\"\",r)", "}",
     "assign:to:=reflect.TypeOf().In(0)", "assign:f:=reflect.ValueOf(handler)",
     "assign:arg:=reflect.New(to.Elem())", "arg.Elem", "Elem().Set", "f.Call",
     "assign:ret:=f.Call(conv{arg})", "if:streaming", "ret[].Interface",
     "assign:ierr:=ret[].Interface()", "if:(ierr!=nil)", "assign:err=xerrors.Errorf(\"\",ierr)",
     "return:", "ret[].Interface", "assign:intf=ret[].Interface()", "ret[].Interface",
     "assign:ch=ret[].Interface().(conv)", "return:", "ret[].Interface",
     "assign:ierr:=ret[].Interface()", "if:(ierr!=nil)", "assign:err=xerrors.Errorf(\"\",ierr)",
     "return:", "ret[].Interface", "assign:intf=ret[].Interface()", "return:"] := rfl

theorem c14_shape_ServiceProcessor_RegisterRESTHandler :
    Shapes.processor_ServiceProcessor_RegisterRESTHandler =
   ["handlerInputCheck", "createServiceHandler", "prepareHandlerGET", "regexp.Compile",
     "regexp.Compile", "wrapJSONMsg", "http.Error", "URL.EscapedPath", "intRegex.MatchString",
     "wrapJSONMsg", "http.Error", "URL.EscapedPath", "path.Split", "strconv.Atoi", "wrapJSONMsg",
     "http.Error", "int64", "val0.Elem", "Elem().Field", "Field().SetInt", "URL.EscapedPath",
     "sliceRegex.MatchString", "wrapJSONMsg", "http.Error", "URL.EscapedPath", "path.Split",
     "hex.DecodeString", "err.Error", "wrapJSONMsg", "http.Error", "val0.Elem", "Elem().Field",
     "Field().SetBytes", "wrapJSONMsg", "http.Error", "Header.Get", "wrapJSONMsg", "http.Error",
     "ioutil.ReadAll", "err.Error", "wrapJSONMsg", "http.Error", "val0.Interface",
     "json.Unmarshal", "err.Error", "wrapJSONMsg", "http.Error", "wrapJSONMsg", "http.Error",
     "val0.Interface", "callInterfaceFunc", "err.Error", "wrapJSONMsg", "http.Error",
     "wrapJSONMsg", "http.Error", "json.Marshal", "err.Error", "wrapJSONMsg", "http.Error",
     "w.Header", "Header().Set", "w.Write", "p.getRouter", "getRouter().HandleFunc"] := rfl

theorem c14_shape_wsHandler_ServeHTTP :
    Shapes.websocket_wsHandler_ServeHTTP =
   ["assign:rx:=0", "assign:tx:=0", "assign:n:=0", "defer{", "}", "return:true",
     "assign:u:=websocket.Upgrader{EnableCompression:false,CheckOrigin:func}", "u.Upgrade",
     "assign:ws,err:=u.Upgrade(w,r,http.Header{})", "if:(err!=nil)", "return:", "defer:ws.Close",
     "for:(err==nil){", "ws.ReadMessage", "assign:mt,buf,rerr:=ws.ReadMessage()",
     "if:(rerr!=nil)", "assign:err=rerr", "break", "assign:rx+=len(buf)", "assign:n++",
     "assign:s:=t.service",
     "assign:path:=strings.TrimPrefix(r.URL.Path,((\"\"+t.serviceName)+\"\"))",
     "assign:isStreaming:=false", "assign:bidirectionalStreamer,ok:=s.(BidirectionalStreamer)",
     "if:ok", "bidirectionalStreamer.IsStreaming",
     "assign:isStreaming,err=bidirectionalStreamer.IsStreaming(path)", "if:(err!=nil)",
     "continue", "if:!isStreaming", "s.ProcessClientRequest",
     "assign:reply,_,err=s.ProcessClientRequest(r,path,buf)", "if:(err!=nil)", "continue",
     "assign:tx+=len(reply)", "time.Now", "Now().Add", "ws.SetWriteDeadline",
     "assign:err=ws.SetWriteDeadline(time.Now().Add((5*time.Minute)))", "if:(err!=nil)", "break",
     "ws.WriteMessage", "assign:err=ws.WriteMessage(mt,reply)", "if:(err!=nil)", "break",
     "continue", "assign:clientInputs:=make(conv,10)", "send:clientInputs",
     "bidirectionalStreamer.ProcessClientStreamRequest",
     "assign:outChan,err=bidirectionalStreamer.ProcessClientStreamRequest(r,path,clientInputs)",
     "if:(err!=nil)", "continue", "assign:closing:=make(conv)", "assign:leaving:=make(conv)",
     "go{", "defer:close:clientInputs", "defer:verifC15Point", "for:{", "ws.ReadMessage",
     "assign:_,buf,err:=ws.ReadMessage()", "if:(err!=nil)", "close:closing", "return:",
     "verifC15Point", "send:clientInputs", "recv:leaving", "return:", "}", "}", "for:{",
     "recv:closing", "break", "recv:outChan", "assign:reply,ok:=<-outChan", "if:!ok",
     "websocket.FormatCloseMessage", "time.Now", "Now().Add", "ws.WriteControl", "verifC15Point",
     "close:leaving", "return:", "assign:tx+=len(reply)", "time.Now", "Now().Add",
     "ws.SetWriteDeadline", "assign:err=ws.SetWriteDeadline(time.Now().Add((5*time.Minute)))",
     "if:(err!=nil)", "verifC15Point", "close:leaving", "break", "ws.WriteMessage",
     "assign:err=ws.WriteMessage(mt,reply)", "if:(err!=nil)", "verifC15Point", "close:leaving",
     "break", "}", "}", "assign:errMessage:=\"\"", "if:(err!=nil)", "err.Error",
     "assign:errMessage+=err.Error()", "websocket.FormatCloseMessage", "time.Now", "Now().Add",
     "ws.WriteControl", "return:"] := rfl

theorem c14_shape_client_Client_Send :
    Shapes.websocket_client_Client_Send =
   ["c.newConnIfNotExist", "defer:connLock.Unlock", "defer{", "c.Lock", "conn.Close",
     "c.closeSingleUseConn", "c.Unlock", "}", "conn.WriteMessage", "time.Now", "Now().Add",
     "conn.SetReadDeadline", "conn.ReadMessage"] := rfl

theorem c14_shape_client_Client_newConnIfNotExist :
    Shapes.websocket_client_Client_newConnIfNotExist =
   ["c.Lock", "c.Unlock", "connLock.Lock", "c.Lock", "c.Unlock", "url.Parse", "connLock.Unlock",
     "u.String", "getWSHostPort", "connLock.Unlock", "d.Dial", "time.Sleep", "connLock.Unlock",
     "c.Lock", "c.Unlock"] := rfl

theorem c14_shape_client_Client_closeConn :
    Shapes.websocket_client_Client_closeConn =
   ["websocket.FormatCloseMessage", "conn.WriteMessage", "conn.Close"] := rfl

theorem c14_shape_client_Client_closeSingleUseConn :
    Shapes.websocket_client_Client_closeSingleUseConn =
   ["c.closeConn"] := rfl

theorem c14_shape_client_Client_SendProtobufParallelWithDecoder :
    Shapes.websocket_client_Client_SendProtobufParallelWithDecoder =
   ["protobuf.Encode", "opt.GetList", "recv:done", "recv:nodesChan", "c.Send", "send:errChan",
     "decoding.Lock", "recv:done", "decoder", "send:errChan", "send:decodedChan", "close:done",
     "decoding.Unlock", "go{", "contactNode", "}", "recv:decodedChan", "recv:errChan",
     "opt.Quit", "decoding.Lock", "recv:done", "close:done", "decoding.Unlock"] := rfl

theorem c14_shape_client_Client_SendToAll :
    Shapes.websocket_client_Client_SendToAll =
   ["assign:msgs:=make(conv,len(dst.List))", "range:i,e:=dst.List{", "c.Send",
     "assign:msgs[i],err=c.Send(e,path,buf)", "if:(err!=nil)",
     "assign:errstrs=append(errstrs,fmt.Sprint(e.String(),err.Error()))", "}",
     "if:(len(errstrs)>0)", "assign:err=xerrors.New(strings.Join(errstrs,\"\"))",
     "return:msgs,err"] := rfl


end C14
