import OnetVerif.Model.C20
import OnetVerif.Proofs.C20Spec
import OnetVerif.Proofs.C20Lemmas
import OnetVerif.Proofs.C20IPv4
import OnetVerif.Shapes
import OnetVerif.Gen.C20
import OnetVerif.Proofs.C20Gen
import OnetVerif.Proofs.C20Private
/-! Property C20 — address parsing is total and self-consistent.

The property theorems, the negation witness for the code before the repair and non-vacuity
examples.  The independent grammar `Spec` (with `Parse`, `HostPort`, `PortOk`, `HostName`) is in
`Proofs/C20Spec.lean`, helper lemmas in `Proofs/C20Lemmas.lean`.  All statements quantify over
arbitrary byte strings of any length. -/
namespace C20

/-! ### valid ⇔ the independent parse -/

/-- **an address is valid exactly when it is in the independent grammar**: a known connection
type, the separator (once), and a host:port whose host is empty, an IPv4 literal `a.b.c.d` (independent grammar), an IPv6
literal or a well-formed host name and whose port is in range. -/
theorem c20_valid_iff_spec (a : Str) : valid a = true ↔ Spec a := by
  rw [valid_iff_parts]
  constructor
  · rintro ⟨t, na, h, p, v, hs, hct, hshp, hat, hr, hh⟩
    obtain ⟨hc1, hc2⟩ := split_two.mp hs
    refine ⟨t, na, h, p, ⟨cut_some hc1, connTypeOf_known.mp hct, cut_none_not_infix hc2, shp_iff.mp hshp⟩,
      atoi_port_iff.mp ⟨v, hat, hr⟩, ?_⟩
    rcases hh with hh | hh | hh
    · exact Or.inl hh
    · rcases (parseIP_iff h).mp hh with h4 | h6
      · exact Or.inr (Or.inl h4)
      · exact Or.inr (Or.inr (Or.inl h6))
    · exact Or.inr (Or.inr (Or.inr (validHostname_iff.mp hh)))
  · rintro ⟨t, na, h, p, ⟨ha, ht, hns, hhp⟩, hport, hh⟩
    obtain ⟨v, hat, hr⟩ := atoi_port_iff.mpr hport
    refine ⟨t, na, h, p, v, ?_, connTypeOf_known.mpr ht, shp_iff.mpr hhp, hat, hr, ?_⟩
    · rw [ha]
      exact split_two.mpr ⟨cut_append (cut_known ht), cut_none_of_not_infix hns⟩
    · rcases hh with hh | hh | hh | hh
      · exact Or.inl hh
      · exact Or.inr (Or.inl ((parseIP_iff h).mpr (Or.inl hh)))
      · exact Or.inr (Or.inl ((parseIP_iff h).mpr (Or.inr hh)))
      · exact Or.inr (Or.inr (validHostname_iff.mpr hh))

/-- **`net.ParseIP` accepts a dot-first string exactly when it is a dotted quad of the independent
grammar** (four fields of 1..3 digits, value ≤ 255, no leading zero), and accepts a string at all
exactly when it is such an IPv4 literal or an IPv6 literal (colon-first, accepted by the shared
transcription of `netip.parseIPv6`).  Proof: loop invariant of `parseIPv4Fields` over arbitrary
strings, `Proofs/C20IPv4.lean`. -/
theorem c20_parseIP_grammar (s : Str) :
    (parseIPv4 s = true ↔ IPv4 s) ∧ (parseIP s = true ↔ (IPv4 s ∨ IPv6Lit s)) :=
  ⟨parseIPv4_iff s, parseIP_iff s⟩

/-- the parse of an address is unique: type, network address, host and port are functions of it -/
theorem c20_parse_unique {a t na h p t' na' h' p' : Str}
    (h1 : Parse a t na h p) (h2 : Parse a t' na' h' p') : t = t' ∧ na = na' ∧ h = h' ∧ p = p' := by
  obtain ⟨ha, ht, _, hhp⟩ := h1
  obtain ⟨ha', ht', _, hhp'⟩ := h2
  have c1 : cut a = some (t, na) := by rw [ha]; exact cut_append (cut_known ht)
  have c2 : cut a = some (t', na') := by rw [ha']; exact cut_append (cut_known ht')
  rw [c1] at c2
  simp only [Option.some.injEq, Prod.mk.injEq] at c2
  obtain ⟨rfl, rfl⟩ := c2
  have s1 := shp_iff.mpr hhp
  have s2 := shp_iff.mpr hhp'
  rw [s1] at s2
  simp only [Option.some.injEq, Prod.mk.injEq] at s2
  exact ⟨rfl, rfl, s2.1, s2.2⟩

/-! ### accessors -/

/-- **for a valid address the accessors return exactly the parts of the parse** — for *every*
decomposition the grammar allows (there is only one, `c20_parse_unique`) — re-assembling type and
network address gives the address back, and host and port are the split of the network address. -/
theorem c20_accessors (a t na h p : Str) (hv : valid a = true) (hp : Parse a t na h p) :
    connType a = some t ∧ networkAddress a = some na ∧ host a = some h ∧ port a = some p ∧
    isHostname a = some (validHostname h && !parseIP h) ∧
    newAddress t na = a ∧ splitHostPort na = some (h, p) := by
  obtain ⟨ha, ht, hns, hhp⟩ := hp
  have hs : split a = [t, na] := by
    rw [ha]; exact split_two.mpr ⟨cut_append (cut_known ht), cut_none_of_not_infix hns⟩
  have hshp := shp_iff.mpr hhp
  have hna : na ≠ [] := by
    intro e; rw [e, shp_nil] at hshp; cases hshp
  have hNA : networkAddress a = some na := by simp [networkAddress, hv, hs]
  refine ⟨?_, hNA, ?_, ?_, ?_, ha.symm, hshp⟩
  · simp [connType, hv, hs, connTypeOf_of_known ht]
  · simp [host, hNA, hna, hshp]
  · simp [port, hNA, hna, hshp]
  · simp [isHostname, host, hNA, hna, hshp]

/-- a valid address has a parse (so `c20_accessors` is never vacuous) -/
theorem c20_valid_has_parse (a : Str) (hv : valid a = true) : ∃ t na h p, Parse a t na h p := by
  obtain ⟨t, na, h, p, hp, _⟩ := (c20_valid_iff_spec a).mp hv
  exact ⟨t, na, h, p, hp⟩

/-- **for an invalid address every accessor returns its documented empty value**:
`InvalidConnType` ("wrong"), `""`, `""`, `""`, `false`. -/
theorem c20_accessors_invalid (a : Str) (hv : valid a = false) :
    connType a = some wrong ∧ networkAddress a = some [] ∧ host a = some [] ∧ port a = some [] ∧
    isHostname a = some false := by
  have hNA : networkAddress a = some [] := by simp [networkAddress, hv]
  refine ⟨by simp [connType, hv], hNA, by simp [host, hNA], by simp [port, hNA], ?_⟩
  simp [isHostname, host, hNA, validHostname]

/-- **totality**: no accessor can hit an index panic, whatever the string. -/
theorem c20_total (a : Str) :
    (connType a).isSome ∧ (networkAddress a).isSome ∧ (host a).isSome ∧ (port a).isSome ∧
    (isHostname a).isSome := by
  cases hv : valid a with
  | false =>
    obtain ⟨h1, h2, h3, h4, h5⟩ := c20_accessors_invalid a hv
    simp [h1, h2, h3, h4, h5]
  | true =>
    obtain ⟨t, na, h, p, hp⟩ := c20_valid_has_parse a hv
    obtain ⟨h1, h2, h3, h4, h5, _⟩ := c20_accessors a t na h p hv hp
    simp [h1, h2, h3, h4, h5]

/-! ### resolution and public / private
`Resolve`, `NetworkAddressResolved`, `Public` with the DNS lookup as a parameter `lk` (`none` = error). -/

/-- the host of a valid address never is the bracketed `"[::]"` the code tests for (brackets are removed by
`SplitHostPort`): that branch of `Resolve` is dead; `tcp://[::]:80` has host `::`, an IP literal. -/
theorem c20_resolve_bracket_dead (a t na h p : Str) (hp : Parse a t na h p) : h ≠ bracketAny := by
  obtain ⟨_, _, _, hhp⟩ := hp
  intro e
  have := (hostPort_noSq hhp).1 91 (by simp [e, bracketAny])
  simp at this

/-- the error branches of `Host` and `Port` after a non-empty `NetworkAddress` are dead: a network address an
accessor returns always splits (`if e != nil { return "" }` in both cannot be taken) -/
theorem c20_host_port_error_dead (a na : Str) (h : networkAddress a = some na) (hne : na ≠ []) :
    (splitHostPort na).isSome := by
  cases hv : valid a with
  | false =>
    have := (c20_accessors_invalid a hv).2.1
    rw [this] at h
    simp at h
    exact absurd h hne
  | true =>
    obtain ⟨t, na', ho, po, hp⟩ := c20_valid_has_parse a hv
    obtain ⟨_, hna, _, _, _, _, hshp⟩ := c20_accessors a t na' ho po hv hp
    rw [hna] at h
    simp at h
    subst h
    simp [hshp]

/-- **what `Resolve` returns for a valid address**: an IP-literal host as it is, without consulting the DNS; a host
name (not an IP literal) whatever the lookup answers first, or `""` when it fails; `""` for the empty host — and
the DNS is consulted exactly for host names, with the host as the question. -/
theorem c20_resolve_cases (lk : Str → Option (List Str)) (a t na h p : Str) (hv : valid a = true)
    (hp : Parse a t na h p) :
    lookedUp a = (if validHostname h && !parseIP h then some h else none) ∧
    resolve lk a =
      (if parseIP h then some h
       else if validHostname h then (match lk h with | none => some [] | some l => l.head?)
       else some []) := by
  have hb := c20_resolve_bracket_dead a t na h p hp
  obtain ⟨_, _, hh, _, hi, _, _⟩ := c20_accessors a t na h p hv hp
  unfold lookedUp resolve
  simp only [hv, hh, hi, hb]
  cases hip : parseIP h <;> cases hvh : validHostname h <;> simp [hb, hip]
  cases lk h <;> rfl

/-- `Resolve` answers `""` for the empty host (`tcp://:80` means "all addresses") -/
theorem c20_resolve_empty_host (lk : Str → Option (List Str)) (a t na p : Str) (hv : valid a = true)
    (hp : Parse a t na [] p) : resolve lk a = some [] ∧ lookedUp a = none := by
  obtain ⟨h1, h2⟩ := c20_resolve_cases lk a t na [] p hv hp
  have e1 : parseIP [] = false := by decide
  have e2 : validHostname [] = false := by decide
  rw [h2, h1]
  simp [e1, e2]

/-- for an IP-literal host the DNS is irrelevant -/
theorem c20_resolve_ip_independent (lk lk' : Str → Option (List Str)) (a t na h p : Str) (hv : valid a = true)
    (hp : Parse a t na h p) (hip : parseIP h = true) : resolve lk a = some h ∧ resolve lk' a = some h := by
  rw [(c20_resolve_cases lk a t na h p hv hp).2, (c20_resolve_cases lk' a t na h p hv hp).2]
  simp [hip]

/-- **for an invalid address**: `Resolve` and `NetworkAddressResolved` return `""`, `Public` is false, and the DNS
is not consulted -/
theorem c20_resolve_invalid (lk : Str → Option (List Str)) (a : Str) (hv : valid a = false) :
    resolve lk a = some [] ∧ networkAddressResolved lk a = some [] ∧ isPublic lk a = some false ∧ lookedUp a = none := by
  have e : privateRe [] = false := by decide
  simp [resolve, networkAddressResolved, isPublic, lookedUp, hv, e]

/-- **totality of resolution**: if the lookup never answers with an empty list and no error (`net.LookupHost`
does not), `Resolve`, `NetworkAddressResolved` and `Public` cannot panic, whatever the string -/
theorem c20_resolve_total (lk : Str → Option (List Str)) (hlk : ∀ h, lk h ≠ some []) (a : Str) :
    (resolve lk a).isSome ∧ (networkAddressResolved lk a).isSome ∧ (isPublic lk a).isSome := by
  cases hv : valid a with
  | false =>
    obtain ⟨h1, h2, h3, _⟩ := c20_resolve_invalid lk a hv
    simp [h1, h2, h3]
  | true =>
    obtain ⟨t, na, h, p, hp⟩ := c20_valid_has_parse a hv
    obtain ⟨_, _, _, hport, _⟩ := c20_accessors a t na h p hv hp
    have hr : (resolve lk a).isSome := by
      rw [(c20_resolve_cases lk a t na h p hv hp).2]
      cases parseIP h <;> cases validHostname h <;> simp
      cases hl : lk h with
      | none => simp
      | some l =>
        cases l with
        | nil => exact absurd hl (hlk h)
        | cons x r => simp
    obtain ⟨ip, hip⟩ := Option.isSome_iff_exists.mp hr
    have hn : networkAddressResolved lk a = some (joinHostPort ip p) := by
      simp [networkAddressResolved, hv, hip, hport]
    refine ⟨hr, by simp [hn], ?_⟩
    unfold isPublic
    rw [hn]
    cases hpr : privateRe (joinHostPort ip p) <;> simp [hpr]

/-- an empty answer without error is the one way to make `Resolve` panic (`ipAddress[0]`): the hypothesis of
`c20_resolve_total` is needed -/
theorem c20_resolve_empty_answer_panics :
    resolve (fun _ => some []) [116, 99, 112, 58, 47, 47, 97, 46, 98, 58, 56, 48] = none := by decide

/-- **the resolved network address of a valid address** is the resolved host joined with the port -/
theorem c20_resolved_address (lk : Str → Option (List Str)) (a t na h p ip : Str) (hv : valid a = true)
    (hp : Parse a t na h p) (hr : resolve lk a = some ip) :
    networkAddressResolved lk a = some (joinHostPort ip p) := by
  obtain ⟨_, _, _, hport, _⟩ := c20_accessors a t na h p hv hp
  simp [networkAddressResolved, hv, hr, hport]

/-- **a public address is valid, and its resolved network address matches none of the private patterns** -/
theorem c20_public (lk : Str → Option (List Str)) (a : Str) (h : isPublic lk a = some true) :
    valid a = true ∧ ∃ s, networkAddressResolved lk a = some s ∧ privateRe s = false := by
  unfold isPublic at h
  cases hn : networkAddressResolved lk a with
  | none => simp [hn] at h
  | some s =>
    simp only [hn] at h
    cases hp : privateRe s
    · simp [hp] at h
      exact ⟨h, s, rfl, hp⟩
    · simp [hp] at h

/-- **`Public` on a dotted-quad host agrees with the numeric private ranges**: for a valid address whose host is the
IPv4 literal `o1.o2.o3.o4` (canonical octets), `Public` is false exactly for 127/8, 10/8, 172.16/12, 192.168/16 and
169.254/16 — the textual patterns of the regular expression mean these ranges — whatever the DNS answers. -/
theorem c20_public_ipv4 (lk : Str → Option (List Str)) (a t na p o1 o2 o3 o4 : Str) (hv : valid a = true)
    (hp : Parse a t na (o1 ++ 46 :: (o2 ++ 46 :: (o3 ++ 46 :: o4))) p)
    (h1 : Octet o1) (h2 : Octet o2) (h3 : Octet o3) (h4 : Octet o4) :
    (isPublic lk a = some false ↔ private4 (decVal o1) (decVal o2)) ∧
    (isPublic lk a = some true ↔ ¬ private4 (decVal o1) (decVal o2)) := by
  have hip : parseIP (o1 ++ 46 :: (o2 ++ 46 :: (o3 ++ 46 :: o4))) = true :=
    (parseIP_iff _).mpr (Or.inl ⟨o1, o2, o3, o4, h1, h2, h3, h4, rfl⟩)
  have hr := (c20_resolve_ip_independent lk lk a t na _ p hv hp hip).1
  have hn := c20_resolved_address lk a t na _ p _ hv hp hr
  have hnc : (o1 ++ 46 :: (o2 ++ 46 :: (o3 ++ 46 :: o4))).contains 58 = false := by
    have d : ∀ f, Octet f → 58 ∉ f := by
      intro f hf m
      have := hf.1.2 58 m
      simp [isDigit] at this
    have := d o1 h1; have := d o2 h2; have := d o3 h3; have := d o4 h4
    simp [*]
  have hj : joinHostPort (o1 ++ 46 :: (o2 ++ 46 :: (o3 ++ 46 :: o4))) p
      = o1 ++ 46 :: (o2 ++ 46 :: (o3 ++ 46 :: o4 ++ 58 :: p)) := by
    unfold joinHostPort
    rw [hnc]
    simp
  have ht := privateRe_text o1 o2 (o3 ++ 46 :: o4 ++ 58 :: p) h1 h2
  have hi := privateText_iff o1 o2 h1 h2
  unfold isPublic
  rw [hn, hj]
  dsimp only
  rw [ht]
  cases hpt : privateText o1 o2
  · have : ¬ private4 (decVal o1) (decVal o2) := by
      intro h; rw [← hi, hpt] at h; cases h
    simp [hv, this]
  · have : private4 (decVal o1) (decVal o2) := hi.mp hpt
    simp [this]

/-- `tcp://172.31.0.1:1` is private, `tcp://172.32.0.1:1` public -/
example : isPublic (fun _ => none) [116, 99, 112, 58, 47, 47, 49, 55, 50, 46, 51, 49, 46, 48, 46, 49, 58, 49] = some false ∧
    isPublic (fun _ => none) [116, 99, 112, 58, 47, 47, 49, 55, 50, 46, 51, 50, 46, 48, 46, 49, 58, 49] = some true := by
  decide

/-! ### listen address -/

/-- **the listen address is an error or a usable host:port consistent with its inputs**: it is
derived only from a valid server address; it splits into host and non-empty port; with no
override it is `:port` of the server address, with a bare host override it is that host joined
with the server's port, otherwise it is the override itself (which then has a host and a port). -/
theorem c20_listen_consistent (a l r : Str) (h : getListenAddress a l = .ok r) :
    valid a = true ∧ ∃ hr pr, splitHostPort r = some (hr, pr) ∧ pr ≠ [] ∧
      ((l = [] ∧ hr = [] ∧ port a = some pr) ∨
       (l ≠ [] ∧ 58 ∉ l ∧ r = l ++ 58 :: pr ∧ port a = some pr) ∨
       (58 ∈ l ∧ r = l ∧ hr ≠ [])) := by
  cases hv : valid a with
  | false =>
    have hNA : networkAddress a = some [] := by simp [networkAddress, hv]
    unfold getListenAddress at h
    simp only [hNA] at h
    by_cases hl : l = []
    · simp [hl, globalBind, shp_nil] at h
    · simp [hl, shp_nil] at h
  | true =>
    refine ⟨rfl, ?_⟩
    obtain ⟨t, na, ho, po, v, hs, hct, hshp, hat, hr, hh⟩ := valid_iff_parts.mp hv
    obtain ⟨hc1, hc2⟩ := split_two.mp hs
    have hparse : Parse a t na ho po :=
      ⟨cut_some hc1, connTypeOf_known.mp hct, cut_none_not_infix hc2, shp_iff.mp hshp⟩
    obtain ⟨_, hNA, _, hport, _, _, _⟩ := c20_accessors a t na ho po hv hparse
    have hpo : po ≠ [] := atoi_some_ne_nil hat
    have hbr := (hostPort_noSq (shp_iff.mp hshp)).2
    unfold getListenAddress at h
    simp only [hNA] at h
    by_cases hl : l = []
    · simp only [hl, if_true, globalBind, hshp, R.ok.injEq] at h
      subst h
      refine ⟨[], po, ?_, hpo, Or.inl ⟨hl, rfl, hport⟩⟩
      exact shp_of_hostPort (HostPort.plain [] po (by intro c hc; cases hc) hbr)
    · simp only [hl, if_false, hshp] at h
      by_cases hcol : l.contains 58 = true
      · have hcond : ¬ (l.contains 58 = false ∧ po ≠ []) := by
          intro ⟨h1, _⟩; rw [hcol] at h1; cases h1
        rw [if_neg hcond] at h
        cases hsl : splitHostPort l with
        | none => simp [hsl] at h
        | some x =>
          obtain ⟨hl', pl'⟩ := x
          simp only [hsl] at h
          by_cases hne : hl' ≠ [] ∧ pl' ≠ []
          · rw [if_pos hne] at h
            simp only [R.ok.injEq] at h
            subst h
            exact ⟨hl', pl', hsl, hne.2, Or.inr (Or.inr ⟨by simpa using hcol, rfl, hne.1⟩)⟩
          · rw [if_neg hne] at h
            cases h
      · have hcol' : 58 ∉ l := contains_false.mp (by simpa using hcol)
        have hcond : l.contains 58 = false ∧ po ≠ [] := ⟨by simpa using hcol, hpo⟩
        rw [if_pos hcond] at h
        cases hsl : splitHostPort (l ++ 58 :: po) with
        | none => simp [hsl] at h
        | some x =>
          obtain ⟨hr', pr'⟩ := x
          simp only [hsl, R.ok.injEq] at h
          subst h
          -- the port part of the result is the server's port: it follows the last colon
          have hpr : pr' = po := by
            obtain ⟨pre, heq, h58'⟩ := hostPort_last_colon (shp_iff.mp hsl)
            have h58 : 58 ∉ po := fun m => (hbr 58 m).1 rfl
            exact (last_colon_unique heq.symm h58' h58).2
          subst hpr
          exact ⟨hr', pr', hsl, hpo, Or.inr (Or.inl ⟨hl, hcol', rfl, hport⟩)⟩

/-- the listen address never panics -/
theorem c20_listen_total (a l : Str) : getListenAddress a l ≠ .panic := by
  have hsome := (c20_total a).2.1
  unfold getListenAddress
  cases hNA : networkAddress a with
  | none => simp [hNA] at hsome
  | some na =>
    simp only
    split
    · unfold globalBind; split <;> simp
    · split
      · simp
      · split
        · split <;> simp
        · split
          · simp
          · split <;> simp

/-- with no override a valid server address always yields its global-bind address `:port` -/
theorem c20_listen_default (a t na h p : Str) (hv : valid a = true) (hp : Parse a t na h p) :
    getListenAddress a [] = .ok (58 :: p) := by
  obtain ⟨_, hNA, _, _, _, _, hshp⟩ := c20_accessors a t na h p hv hp
  simp [getListenAddress, hNA, globalBind, hshp]

/-- `GlobalBind`: an error, or `:port` with the port of the given host:port -/
theorem c20_globalBind (s r : Str) (h : globalBind s = .ok r) :
    ∃ ho po, splitHostPort s = some (ho, po) ∧ r = 58 :: po ∧ splitHostPort r = some ([], po) := by
  unfold globalBind at h
  cases hs : splitHostPort s with
  | none => simp [hs] at h
  | some x =>
    obtain ⟨ho, po⟩ := x
    simp only [hs, R.ok.injEq] at h
    subst h
    refine ⟨ho, po, rfl, rfl, ?_⟩
    exact shp_of_hostPort (HostPort.plain [] po (by intro c hc; cases hc) (hostPort_noSq (shp_iff.mp hs)).2)

/-! ### websocket host:port -/

/-- **the websocket host:port is an error or has port = address port + 1 ≤ 65535 — never a
wrapped-around port** (full strength, on the repaired code).  Without an explicit URL the result
comes from a valid address whose port is a plain decimal numeral `m`, it is `host:m+1` (host
`0.0.0.0` when binding globally), it splits back into exactly that host and port, and the port
reads back as `m + 1`.  With an explicit URL the port is the URL's own 16-bit port or the
scheme's default, the host the URL's host name. -/
theorem c20_ws_port (a : Str) (url : Option UrlParts) (global : Bool) (r : Str)
    (h : wsHostPort a url global = .ok r) :
    ∃ hn n, r = joinHostPort hn (fmtNat n) ∧ n ≤ 65535 ∧ parseUint16 (fmtNat n) = some n ∧
      (global = true → hn = [48, 46, 48, 46, 48, 46, 48]) ∧
      match url with
      | none =>
        valid a = true ∧ splitHostPort r = some (hn, fmtNat n) ∧
          ∃ p m, port a = some p ∧ parseUint16 p = some m ∧ n = m + 1 ∧
            (global = false → host a = some hn)
      | some u =>
        (global = false → hn = u.hostname) ∧
          ((u.port = [] ∧ schemeToPort u.scheme = some n) ∨ (u.port ≠ [] ∧ parseUint16 u.port = some n)) := by
  unfold wsHostPort at h
  cases url with
  | some u =>
    simp only at h
    by_cases h1 : u.parsed = true
    · by_cases h2 : u.abs = true
      · simp only [h1, h2, Bool.not_true, Bool.false_eq_true, if_false] at h
        cases hsp : schemeToPort u.scheme with
        | none => simp [hsp] at h
        | some pp =>
          simp only [hsp] at h
          have hpp : pp ≤ 65535 := by
            unfold schemeToPort at hsp
            split at hsp
            · simp at hsp; omega
            · split at hsp
              · simp at hsp; omega
              · cases hsp
          by_cases hpe : u.port = []
          · simp only [hpe, if_true, R.ok.injEq] at h
            refine ⟨_, pp, h.symm, hpp, parseUint16_fmtNat hpp, ?_, ?_⟩
            · intro hg; simp [hg]
            · exact ⟨fun hg => by simp [hg], Or.inl ⟨hpe, hsp⟩⟩
          · simp only [hpe, if_false] at h
            cases hpu : parseUint16 u.port with
            | none => simp [hpu] at h
            | some n =>
              simp only [hpu, R.ok.injEq] at h
              have hn := parseUint16_some hpu
              have hmod : n % 65536 = n := Nat.mod_eq_of_lt (by omega)
              rw [hmod] at h
              refine ⟨_, n, h.symm, hn, parseUint16_fmtNat hn, ?_, ?_⟩
              · intro hg; simp [hg]
              · exact ⟨fun hg => by simp [hg], Or.inr ⟨hpe, hpu⟩⟩
      · simp [h1, h2] at h
    · simp [h1] at h
  | none =>
    simp only at h
    cases hv : valid a with
    | false =>
      obtain ⟨_, _, hh, hp, _⟩ := c20_accessors_invalid a hv
      simp [hh, hp, parseUint16] at h
    | true =>
      obtain ⟨t, na, ho, po, hparse⟩ := c20_valid_has_parse a hv
      obtain ⟨_, _, hh, hp, _, _, hshp⟩ := c20_accessors a t na ho po hv hparse
      simp only [hh, hp] at h
      cases hpu : parseUint16 po with
      | none => simp [hpu] at h
      | some m =>
        simp only [hpu] at h
        by_cases hbig : m + 1 ≥ 65536
        · simp [hbig] at h
        · simp only [hbig, if_false, R.ok.injEq] at h
          have hmod : (m + 1) % 65536 = m + 1 := Nat.mod_eq_of_lt (by omega)
          rw [hmod] at h
          have hle : m + 1 ≤ 65535 := by omega
          have hnosq : NoSq (if global = true then [48, 46, 48, 46, 48, 46, 48] else ho) := by
            by_cases hg : global = true
            · simp only [hg, if_true]
              intro c hc
              simp at hc
              omega
            · simp only [hg]
              exact (hostPort_noSq (shp_iff.mp hshp)).1
          refine ⟨_, m + 1, h.symm, hle, parseUint16_fmtNat hle, ?_, rfl, ?_, po, m, hp, hpu, rfl, ?_⟩
          · intro hg; simp [hg]
          · rw [← h]
            exact shp_joinHostPort hnosq (noBr_of_digits (fmtNat_digits _))
          · intro hg; simp [hg, hh]

/-- the websocket derivation never panics -/
theorem c20_ws_total (a : Str) (url : Option UrlParts) (global : Bool) :
    wsHostPort a url global ≠ .panic := by
  obtain ⟨_, _, hh, hp, _⟩ := c20_total a
  unfold wsHostPort
  cases url with
  | some u =>
    simp only
    split
    · simp
    · split
      · simp
      · split
        · simp
        · split
          · simp
          · split <;> simp
  | none =>
    cases hhost : host a with
    | none => simp [hhost] at hh
    | some ho =>
      cases hport : port a with
      | none => simp [hport] at hp
      | some po =>
        simp only
        split
        · simp
        · split <;> simp

/-- the full statement for the code *before* the repair (`port = uint16(portRaw + 1)` with no
range test) -/
def C20_ws_full_old : Prop :=
  ∀ (a : Str) (global : Bool) (r : Str), wsHostPortOld a global = .ok r →
    ∃ hn p m, port a = some p ∧ parseUint16 p = some m ∧ m + 1 ≤ 65535 ∧ r = joinHostPort hn (fmtNat (m + 1))

/-- `"tcp://10.0.0.1:65535"` -/
def witness65535 : Str :=
  [116, 99, 112, 58, 47, 47, 49, 48, 46, 48, 46, 48, 46, 49, 58, 54, 53, 53, 51, 53]

/-- on the unrepaired code the address `tcp://10.0.0.1:65535` gave `10.0.0.1:0` and no error -/
theorem c20_ws_old_wraps :
    wsHostPortOld witness65535 false = .ok [49, 48, 46, 48, 46, 48, 46, 49, 58, 48] := by decide

/-- **negation witness**: before the repair the full statement was false (port 65535 wrapped to 0) -/
theorem c20_ws_full_old_fails : ¬ C20_ws_full_old := by
  intro hall
  obtain ⟨hn, p, m, hp, hm, hle, _⟩ := hall witness65535 false _ c20_ws_old_wraps
  have hp' : port witness65535 = some [54, 53, 53, 51, 53] := by decide
  rw [hp'] at hp
  simp only [Option.some.injEq] at hp
  subst hp
  have : parseUint16 [54, 53, 53, 51, 53] = some 65535 := by decide
  rw [this] at hm
  simp only [Option.some.injEq] at hm
  omega

/-- the repaired code answers the same address with an error -/
theorem c20_ws_65535_is_error : wsHostPort witness65535 none false = .err := by decide

/-! ### non-vacuity -/

/-- `tls://[::1]:7770` is valid: bracketed IPv6 host -/
example : valid [116, 108, 115, 58, 47, 47, 91, 58, 58, 49, 93, 58, 55, 55, 55, 48] = true := by decide

/-- `tcp://a.b.:+80` is valid: host name with trailing dot, signed port -/
example : valid [116, 99, 112, 58, 47, 47, 97, 46, 98, 46, 58, 43, 56, 48] = true := by decide

/-- `tcp://10.0.0.1:65534` derives the websocket address `10.0.0.1:65535` -/
example : wsHostPort [116, 99, 112, 58, 47, 47, 49, 48, 46, 48, 46, 48, 46, 49, 58, 54, 53, 53, 51, 52] none false
    = .ok [49, 48, 46, 48, 46, 48, 46, 49, 58, 54, 53, 53, 51, 53] := by decide

/-- `tcp://1.2.3.4:80` with listen override `h` listens on `h:80`; with `[` it is an error -/
example : getListenAddress [116, 99, 112, 58, 47, 47, 49, 46, 50, 46, 51, 46, 52, 58, 56, 48] [104]
    = .ok [104, 58, 56, 48] := by decide
example : getListenAddress [116, 99, 112, 58, 47, 47, 49, 46, 50, 46, 51, 46, 52, 58, 56, 48] [91]
    = .err := by decide

/-- `10.0.0.1` is an IPv4 literal of the grammar, `010.0.0.1` and `256.0.0.1` are rejected by the code -/
example : IPv4 [49, 48, 46, 48, 46, 48, 46, 49] := (parseIPv4_iff _).mp (by decide)
example : parseIP [48, 49, 48, 46, 48, 46, 48, 46, 49] = false ∧ parseIP [50, 53, 54, 46, 48, 46, 48, 46, 49] = false := by
  decide

/-- `tcp://a:b:1` and `udp://1.2.3.4:80` are invalid -/
example : valid [116, 99, 112, 58, 47, 47, 97, 58, 98, 58, 49] = false := by decide
example : valid [117, 100, 112, 58, 47, 47, 49, 46, 50, 46, 51, 46, 52, 58, 56, 48] = false := by decide


/-! ### the regenerated definitions equal the model
`Gen/C20.lean` is re-translated from the Go source of /repo on every run (`harness/cmd/go2lean`, configuration
`meta/go2lean.json`): onet's own functions become Lean definitions (early returns → nested `if`, index and slice
expressions → `Gen.Rt.idx` / `Gen.Rt.slice` with the run-time panic as `none`, search loops → `Gen.Rt.rangeReturn`);
the Go library functions they call are the hand-written models above.  The theorems below state that every
regenerated definition computes what the hand-written model computes — for the functions that contain an
index or slice expression including that the panic outcome cannot occur.  A semantic change of one of these
functions changes the generated text and the theorem about it stops checking. -/
section GenEq
open Gen.Rt

/-- the constants of address.go as translated are the model's -/
theorem c20_gen_consts :
    Gen.C20.PlainTCP = tcp ∧ Gen.C20.TLS = tls ∧ Gen.C20.Local = localT ∧ Gen.C20.InvalidConnType = wrong ∧
    Gen.C20.typeAddressSep = sep :=
  ⟨rfl, rfl, rfl, rfl, rfl⟩

/-- `connType` (address.go) as translated = `connTypeOf` -/
theorem c20_gen_connType_eq (t : Str) : Gen.C20.connType t = connTypeOf t := by
  unfold Gen.C20.connType connTypeOf
  simp only [rangeReturn, List.findSome?, Gen.C20.PlainTCP, Gen.C20.TLS, Gen.C20.Local, Gen.C20.InvalidConnType, tcp, tls, localT, wrong]
  by_cases h1 : t = [116, 99, 112]
  · simp [h1]
  · by_cases h2 : t = [116, 108, 115]
    · simp [h2]
    · by_cases h3 : t = [108, 111, 99, 97, 108]
      · simp [h3]
      · simp [h1, h2, h3, Ne.symm h1, Ne.symm h2, Ne.symm h3]

/-- `validHostname` as translated never panics (`s[len(s)-1]` is guarded by the `len(s) == 0` test and by
`strings.ToLower` keeping a non-empty string non-empty) and computes the model's `validHostname` -/
theorem c20_gen_validHostname_eq (s : Str) : Gen.C20.validHostname s = some (validHostname s) := by
  unfold Gen.C20.validHostname validHostname
  by_cases hs : s = []
  · simp [hs, len]
  · have hl : goLower s ≠ [] := goLower_ne_nil hs
    have h0 : (len s == 0) = false := by rw [len_eq_zero]; simpa using hs
    simp only [h0, Bool.false_eq_true, if_false, hs, idx_last]
    rw [slice_dropLast _ hl]
    have hcore : ∀ g : Str,
        (if decide (len g > 253) = true then some false
         else
          match rangeReturn (splitDot g) fun element =>
              if (decide (len element < 1) || decide (len element > 63)) = true then some (some false) else none with
          | some t => t
          | none =>
            if (!matchRe g) = true then if (Int.ofNat (List.count 46 g) == 0) = true then some true else some (matchRe g)
            else some (matchRe g)) = some (hostnameCore g) := by
      intro g
      rw [rangeReturn_const (splitDot g) (fun element => decide (len element < 1) || decide (len element > 63)) (some false)]
      unfold hostnameCore
      have h253 : decide (len g > 253) = decide (g.length > 253) := len_gt g 253
      have hany : (splitDot g).any (fun element => decide (len element < 1) || decide (len element > 63))
          = (splitDot g).any (fun l => decide (l.length < 1) || decide (l.length > 63)) := by
        congr 1; funext l
        have a1 : decide (len l < 1) = decide (l.length < 1) := len_lt l 1
        have a2 : decide (len l > 63) = decide (l.length > 63) := len_gt l 63
        rw [a1, a2]
      rw [h253, hany, count_zero]
      generalize ((splitDot g).any fun l => decide (l.length < 1) || decide (l.length > 63)) = b
      by_cases h1 : g.length > 253
      · simp [h1]
      · cases b <;> cases hm : matchRe g <;> cases hd : g.contains 46 <;> simp [h1]
    cases hgl : (goLower s).getLast? with
    | none => simp [List.getLast?_eq_none_iff] at hgl; exact absurd hgl hl
    | some c =>
      by_cases hc : c = 46
      · have e : stripDot (goLower s) = (goLower s).dropLast := by simp [stripDot, hgl, hc]
        have hb : (c == 46) = true := by simpa using hc
        simp only [hb, if_true, e]
        exact hcore _
      · have e : stripDot (goLower s) = goLower s := by simp [stripDot, hgl, hc]
        have hb : (c == 46) = false := by simpa using hc
        simp only [hb, Bool.false_eq_true, if_false, e]
        exact hcore _

/-- `Address.Valid` as translated never panics (`vals[0]`, `vals[1]` are guarded by `len(vals) != 2`) and computes
the model's `valid` -/
theorem c20_gen_Address_Valid_eq (a : Str) : Gen.C20.Address_Valid a = some (valid a) := by
  unfold Gen.C20.Address_Valid valid
  simp only [c20_gen_connType_eq, c20_gen_validHostname_eq, c20_gen_consts.2.2.2.1]
  generalize split a = vals
  match vals with
  | [t, na] =>
    simp only [len, idx_pair, List.length_cons, List.length_nil]
    by_cases hw : connTypeOf t = wrong
    · simp [hw]
    · cases hshp : splitHostPort na with
      | none => simp [hw]
      | some x =>
        obtain ⟨ip, port⟩ := x
        dsimp only
        cases hat : atoi port with
        | none => simp [hw]
        | some p =>
          by_cases h1 : p < 0
          · simp [hw, h1]
          · by_cases h2 : p > 65535
            · simp [hw, h1, h2]
            · by_cases h3 : ip = []
              · simp [hw, h1, h2, h3]
              · cases hip : parseIP ip <;> simp [hw, h1, h2, h3]
  | [] => simp [len]
  | [_] => simp [len]
  | _ :: _ :: _ :: _ => simp [len]; omega

/-- `Address.ConnType` as translated = the model's `connType` (`none` = index panic on both sides) -/
theorem c20_gen_Address_ConnType_eq (a : Str) : Gen.C20.Address_ConnType a = connType a := by
  unfold Gen.C20.Address_ConnType connType
  simp only [c20_gen_Address_Valid_eq, c20_gen_connType_eq, c20_gen_consts.2.2.2.1]
  cases valid a <;> simp [idx]
  cases (split a)[0]? <;> simp

/-- `Address.NetworkAddress` as translated = the model's `networkAddress` -/
theorem c20_gen_Address_NetworkAddress_eq (a : Str) : Gen.C20.Address_NetworkAddress a = networkAddress a := by
  unfold Gen.C20.Address_NetworkAddress networkAddress
  simp only [c20_gen_Address_Valid_eq]
  cases valid a <;> simp [idx]
  cases (split a)[1]? <;> simp

/-- `Address.Host` as translated = the model's `host` -/
theorem c20_gen_Address_Host_eq (a : Str) : Gen.C20.Address_Host a = host a := by
  unfold Gen.C20.Address_Host host
  simp only [c20_gen_Address_NetworkAddress_eq]
  cases networkAddress a with
  | none => simp
  | some na =>
    by_cases h : na = []
    · simp [h]
    · simp [h]
      cases splitHostPort na with
      | none => simp
      | some x => simp

/-- `Address.Port` as translated = the model's `port` -/
theorem c20_gen_Address_Port_eq (a : Str) : Gen.C20.Address_Port a = port a := by
  unfold Gen.C20.Address_Port port
  simp only [c20_gen_Address_NetworkAddress_eq]
  cases networkAddress a with
  | none => simp
  | some na =>
    by_cases h : na = []
    · simp [h]
    · simp [h]
      cases splitHostPort na with
      | none => simp
      | some x => simp

/-- `Address.IsHostname` as translated = the model's `isHostname` -/
theorem c20_gen_Address_IsHostname_eq (a : Str) : Gen.C20.Address_IsHostname a = isHostname a := by
  unfold Gen.C20.Address_IsHostname isHostname
  simp only [c20_gen_Address_Host_eq, c20_gen_validHostname_eq]
  cases host a <;> simp

/-- `GlobalBind` (struct.go) as translated = the model's `globalBind` (it cannot panic: no panic layer) -/
theorem c20_gen_GlobalBind_eq (s : Str) : R.ofGen (some (Gen.C20.GlobalBind s)) = globalBind s := by
  unfold Gen.C20.GlobalBind globalBind
  cases splitHostPort s with
  | none => simp [R.ofGen]
  | some x => simp [R.ofGen]

/-- `getListenAddress` (tcp.go) as translated = the model's `getListenAddress`: `strings.Split(listenAddr, ":")`
has one part exactly when there is no colon, and `splitted[0]` is then the whole override -/
theorem c20_gen_getListenAddress_eq (a l : Str) :
    R.ofGen (Gen.C20.getListenAddress a l) = getListenAddress a l := by
  unfold Gen.C20.getListenAddress getListenAddress
  simp only [c20_gen_Address_NetworkAddress_eq]
  cases networkAddress a with
  | none => by_cases hl : l = [] <;> simp [hl, R.ofGen]
  | some na =>
    by_cases hl : l = []
    · simp [hl, ← c20_gen_GlobalBind_eq]
    · have hlb : (l == []) = false := by simpa using hl
      simp only [hlb, hl, Bool.false_eq_true, if_false]
      cases hshp : splitHostPort na with
      | none => simp [R.ofGen]
      | some x =>
        obtain ⟨h0, p⟩ := x
        dsimp only
        by_cases hc : l.contains 58 = true
        · have hmem : 58 ∈ l := by simpa using hc
          have hlen : (len (splitByte 58 l) == 1) = false := by
            have hne : ¬ (splitByte 58 l).length = 1 := fun e => (splitByte_length_one.mp e) hmem
            simp [len]; omega
          simp only [hlen, Bool.false_and, Bool.false_eq_true, if_false, hc]
          cases splitHostPort l with
          | none => simp [R.ofGen]
          | some y =>
            obtain ⟨hl', pl'⟩ := y
            by_cases h1 : hl' = [] <;> by_cases h2 : pl' = [] <;> simp [R.ofGen, h1, h2]
        · have hnm : 58 ∉ l := by simpa using hc
          have hcf : l.contains 58 = false := by simpa using hc
          have hsp : splitByte 58 l = [l] := splitByte_nomem hnm
          simp only [hsp, hcf]
          by_cases hp : p = []
          · simp [hp, len]
            cases splitHostPort l with
            | none => simp [R.ofGen]
            | some y =>
              obtain ⟨hl', pl'⟩ := y
              by_cases h1 : hl' = [] <;> by_cases h2 : pl' = [] <;> simp [R.ofGen, h1, h2]
          · simp [hp, len, idx]
            cases splitHostPort (l ++ 58 :: p) with
            | none => simp [R.ofGen]
            | some y => simp [R.ofGen]

/-- `schemeToPort` (websocket_client.go, a `switch`) as translated = the model's -/
theorem c20_gen_schemeToPort_eq (s : Str) : Gen.C20.schemeToPort s = schemeToPort s := by
  unfold Gen.C20.schemeToPort schemeToPort http https
  by_cases h1 : s = [104, 116, 116, 112]
  · simp [h1]
  · by_cases h2 : s = [104, 116, 116, 112, 115] <;> simp [h1, h2]

/-- `getWSHostPort` as translated, with `url.Parse` as a parameter, = the model's `wsHostPort` on what the parser
returned (64-bit `portRaw+1` and the conversions `uint16(…)` keep their `%`; the model's order of evaluation differs
from Go's only where `Host()` would panic, which `c20_total` excludes) -/
theorem c20_gen_getWSHostPort_eq (si : SI) (global : Bool) (urlParse : Str → Option Url) :
    R.ofGen (Gen.C20.getWSHostPort si global urlParse) =
      wsHostPort si.Address (if si.URL = [] then none else some (UrlParts.ofParse (urlParse si.URL))) global := by
  unfold Gen.C20.getWSHostPort wsHostPort
  simp only [c20_gen_schemeToPort_eq, c20_gen_Address_Port_eq, c20_gen_Address_Host_eq]
  by_cases hu : si.URL = []
  · simp only [hu, if_true]
    obtain ⟨_, _, hh, hp, _⟩ := c20_total si.Address
    cases hho : host si.Address with
    | none => simp [hho] at hh
    | some h =>
      cases hpo : port si.Address with
      | none => simp [hpo] at hp
      | some p =>
        dsimp only
        cases hpu : parseUint16 p with
        | none => simp [R.ofGen]
        | some n =>
          have hn := parseUint16_some hpu
          have hm : (n + 1) % 18446744073709551616 = n + 1 := Nat.mod_eq_of_lt (by omega)
          dsimp only
          rw [hm]
          by_cases hbig : n + 1 ≥ 65536
          · simp [R.ofGen, hbig]
          · cases global <;> simp [R.ofGen, hbig]
  · have hb : (si.URL != []) = true := by simpa using hu
    simp only [hb, hu, if_true, if_false]
    cases hp : urlParse si.URL with
    | none => simp [UrlParts.ofParse, R.ofGen]
    | some u =>
      obtain ⟨ab, sc, po, hn⟩ := u
      simp only [UrlParts.ofParse]
      cases ab
      · simp [R.ofGen]
      · cases hsp : schemeToPort sc with
        | none => simp [R.ofGen]
        | some pp =>
          by_cases hpe : po = []
          · cases global <;> simp [R.ofGen, hpe]
          · cases hpu : parseUint16 po with
            | none => simp [R.ofGen, hpe]
            | some n => cases global <;> simp [R.ofGen, hpe]

/-- `Address.Resolve` as translated (the package variable `lookupHost` a parameter) = the model's `resolve` -/
theorem c20_gen_Address_Resolve_eq (lk : Str → Option (List Str)) (a : Str) :
    Gen.C20.Address_Resolve a lk = resolve lk a := by
  unfold Gen.C20.Address_Resolve resolve bracketAny
  simp only [c20_gen_Address_Valid_eq, c20_gen_Address_Host_eq, c20_gen_Address_IsHostname_eq]
  obtain ⟨_, _, hh, _, hi⟩ := c20_total a
  cases hv : valid a with
  | false => simp
  | true =>
    cases hho : host a with
    | none => simp [hho] at hh
    | some h =>
      cases hih : isHostname a with
      | none => simp [hih] at hi
      | some ih =>
        by_cases h1 : h = [91, 58, 58, 93]
        · simp [h1]
        · cases hip : parseIP h <;> cases ih <;> simp [h1, hip]
          cases hlk : lk h with
          | none => simp
          | some l => cases l <;> simp [idx_zero]

/-- `Address.NetworkAddressResolved` as translated = the model's `networkAddressResolved` -/
theorem c20_gen_Address_NetworkAddressResolved_eq (lk : Str → Option (List Str)) (a : Str) :
    Gen.C20.Address_NetworkAddressResolved a lk = networkAddressResolved lk a := by
  unfold Gen.C20.Address_NetworkAddressResolved networkAddressResolved
  simp only [c20_gen_Address_Valid_eq, c20_gen_Address_Resolve_eq, c20_gen_Address_Port_eq]
  obtain ⟨_, _, _, hp, _⟩ := c20_total a
  cases hv : valid a with
  | false => simp
  | true =>
    cases hpo : port a with
    | none => simp [hpo] at hp
    | some p => cases resolve lk a <;> simp

/-- `Address.Public` as translated (`!private && a.Valid()`: `Valid` only when not private) = the model's `isPublic` -/
theorem c20_gen_Address_Public_eq (lk : Str → Option (List Str)) (a : Str) :
    Gen.C20.Address_Public a lk = isPublic lk a := by
  unfold Gen.C20.Address_Public isPublic
  simp only [c20_gen_Address_Valid_eq, c20_gen_Address_NetworkAddressResolved_eq]
  cases networkAddressResolved lk a with
  | none => simp
  | some s => cases hp : privateRe s <;> simp [hp]

/-- `Address.String` and `NewAddress` as translated -/
theorem c20_gen_Address_String_NewAddress_eq (a t na : Str) :
    Gen.C20.Address_String a = a ∧ Gen.C20.NewAddress t na = newAddress t na := ⟨rfl, rfl⟩

end GenEq

/-! ### the code regions the model stands for
Regenerated from /repo's source on every run (`harness/cmd/astfacts` → `OnetVerif/Shapes.lean`): the
calls that matter for synchronisation and data flow, the lock regions and (for decision logic) the
conditions, in source order.  A re-ordering, a dropped call or a changed condition breaks these
obligations even when no sampled input or schedule shows a difference; the check then searches for
a failing input. -/
theorem c20_shape_address_Address_Valid :
    Shapes.network_address_Address_Valid =
   ["if:(len(vals)!=2)", "return:false", "if:(connType(vals[])==InvalidConnType)",
     "return:false", "net.SplitHostPort", "if:(e!=nil)", "return:false", "strconv.Atoi",
     "if:(((err!=nil)||(p<0))||(p>65535))", "return:false", "if:(len(ip)==0)", "return:true",
     "if:(net.ParseIP(ip)==nil)", "return:validHostname(ip)", "return:true"] := rfl

theorem c20_shape_address_validHostname :
    Shapes.network_address_validHostname =
   ["if:(len(s)==0)", "return:false", "if:(s[]=='.')", "if:(len(s)>maxLength)", "return:false",
     "if:((len(element)<1)||(len(element)>63))", "return:false", "regexp.MatchString",
     "if:!valid", "if:(strings.Count(s,\"\")==0)", "return:true", "return:valid"] := rfl

theorem c20_shape_address_Address_ConnType :
    Shapes.network_address_Address_ConnType =
   ["if:!a.Valid()", "return:InvalidConnType", "return:connType(vals[])"] := rfl

theorem c20_shape_address_Address_NetworkAddress :
    Shapes.network_address_Address_NetworkAddress =
   ["if:!a.Valid()", "return:\"\"", "return:vals[]"] := rfl

theorem c20_shape_address_Address_Host :
    Shapes.network_address_Address_Host =
   ["a.NetworkAddress", "if:(na==\"\")", "return:\"\"", "a.NetworkAddress", "net.SplitHostPort",
     "if:(e!=nil)", "return:\"\"", "return:h"] := rfl

theorem c20_shape_address_Address_Port :
    Shapes.network_address_Address_Port =
   ["a.NetworkAddress", "if:(na==\"\")", "return:\"\"", "net.SplitHostPort", "if:(e!=nil)",
     "return:\"\"", "return:p"] := rfl

theorem c20_shape_address_Address_IsHostname :
    Shapes.network_address_Address_IsHostname =
   ["a.Host", "return:(validHostname(host)&&(net.ParseIP(host)==nil))"] := rfl

theorem c20_shape_address_NewAddress :
    Shapes.network_address_NewAddress =
   ["Address"] := rfl

theorem c20_shape_struct_GlobalBind :
    Shapes.network_struct_GlobalBind =
   ["net.SplitHostPort", "if:(err!=nil)", "return:\"\",xerrors.Errorf(\"\",err)",
     "return:(\"\"+port),nil"] := rfl

theorem c20_shape_tcp_getListenAddress :
    Shapes.network_tcp_getListenAddress =
   ["if:(listenAddr==\"\")", "return:GlobalBind(addr.NetworkAddress())", "addr.NetworkAddress",
     "net.SplitHostPort", "if:(err!=nil)", "return:\"\",xerrors.Errorf(\"\",err)",
     "if:((len(splitted)==1)&&(port!=\"\"))", "net.SplitHostPort", "if:(err!=nil)",
     "return:\"\",xerrors.Errorf(\"\",err)", "return:combined,nil", "net.SplitHostPort",
     "if:(err!=nil)", "return:\"\",xerrors.Errorf(\"\",err)",
     "if:((hostListen!=\"\")&&(portListen!=\"\"))", "return:listenAddr,nil",
     "return:\"\",xerrors.Errorf(\"\",addr.NetworkAddress(),listenAddr)"] := rfl

theorem c20_shape_client_getWSHostPort :
    Shapes.websocket_client_getWSHostPort =
   ["if:(si.URL!=\"\")", "url.Parse", "if:(err!=nil)", "return:\"\",fmt.Errorf(\"\",err)",
     "if:!url.IsAbs()", "return:\"\",errors.New(\"\")", "schemeToPort", "if:(err!=nil)",
     "return:\"\",fmt.Errorf(\"\",err)", "url.Port", "if:(portStr==\"\")", "else",
     "strconv.ParseUint", "if:(err!=nil)", "return:\"\",fmt.Errorf(\"\",err)", "uint16",
     "url.Hostname", "else", "Address.Port", "strconv.ParseUint", "if:(err!=nil)",
     "return:\"\",fmt.Errorf(\"\",err)", "if:((portRaw+1)>=(1<<portBitSize))",
     "return:\"\",fmt.Errorf(\"\",portRaw)", "uint16", "Address.Host", "if:global",
     "strconv.FormatUint", "return:net.JoinHostPort(hostname,portFormatted),nil"] := rfl


end C20
