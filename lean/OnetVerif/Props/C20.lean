import OnetVerif.Model.C20
/-! Property C20 — property theorems, negation witnesses, `_partial` variants and non-vacuity
examples only (helper lemmas that need Mathlib go to OnetVerif/Proofs/). -/
namespace C20

end C20
