import OnetVerif.Model.C17
import OnetVerif.Proofs.C17Accept
import OnetVerif.Proofs.C17Dial
import OnetVerif.Shapes
/-! Property C17 — valid-peer sets decide exactly who may connect.
Property theorems (`c17_…`), the lemmas they need, witnesses and non-vacuity examples. -/
namespace C17

/-- the reference semantics: a map of sets. A peer — identified by its **key** — is valid while no
set was ever given, or when the id of its key is a member of some current set. -/
def SpecValid (vp : VP) (k : Key) : Prop :=
  vp = none ∨ ∃ id ps, vp.get id = some ps ∧ idOfKey k ∈ ps

/-- the Go map has one entry per key -/
def VP.WF (vp : VP) : Prop :=
  match vp with
  | none => True
  | some m => (m.map (·.1)).Nodup

/-! ### association-list facts -/

theorem lookup_mem {m : List (SetId × List PeerId)} {id : SetId} {ps : List PeerId}
    (h : m.lookup id = some ps) : (id, ps) ∈ m := by
  induction m with
  | nil => simp [List.lookup] at h
  | cons e m ih =>
    obtain ⟨a, b⟩ := e
    simp only [List.lookup] at h
    split at h
    · rename_i heq
      have : id = a := by simpa using heq
      cases h; subst this; simp
    · exact List.mem_cons_of_mem _ (ih h)

theorem lookup_of_mem_nodup {m : List (SetId × List PeerId)} {id : SetId} {ps : List PeerId}
    (hn : (m.map (·.1)).Nodup) (h : (id, ps) ∈ m) : m.lookup id = some ps := by
  induction m with
  | nil => simp at h
  | cons e m ih =>
    obtain ⟨a, b⟩ := e
    simp only [List.map_cons, List.nodup_cons] at hn
    rcases List.mem_cons.mp h with h1 | h2
    · cases h1; simp [List.lookup]
    · have hne : id ≠ a := by
        intro e
        exact hn.1 (List.mem_map.mpr ⟨(id, ps), h2, e⟩)
      have : (id == a) = false := by simpa using hne
      simp only [List.lookup, this]
      exact ih hn.2 h2

theorem lookup_filter_ne (m : List (SetId × List PeerId)) (id id' : SetId) (h : id' ≠ id) :
    (m.filter (fun e => e.1 != id)).lookup id' = m.lookup id' := by
  induction m with
  | nil => rfl
  | cons e m ih =>
    obtain ⟨a, b⟩ := e
    by_cases ha : a = id
    · subst ha
      have h1 : (id' == a) = false := by simpa using h
      simp [List.filter, List.lookup, h1, ih]
    · have h2 : (a != id) = true := by simpa using ha
      simp only [List.filter, h2, List.lookup]
      split <;> simp_all

/-! ### the table -/

theorem set_wf (vp : VP) (id : SetId) (peers : List Ident) (h : vp.WF) : (vp.set id peers).WF := by
  simp only [VP.set, VP.WF, List.map_cons, List.nodup_cons]
  constructor
  · intro hm
    obtain ⟨e, he, heq⟩ := List.mem_map.mp hm
    have := (List.mem_filter.mp he).2
    simp at this
    exact this heq
  · have hsub : ((vp.getD []).filter (fun e => e.1 != id)).map (·.1) |>.Sublist ((vp.getD []).map (·.1)) :=
      List.Sublist.map _ List.filter_sublist
    have hn : ((vp.getD []).map (·.1)).Nodup := by
      cases vp with
      | none => simp
      | some m => exact h
    exact hn.sublist hsub

/-- **`isValid` is the reference semantics, read on the key**: valid ↔ uninitialised ∨ the id of
the key is in some current set. The wire-supplied `ID` field plays no part. -/
theorem c17_valid_iff (vp : VP) (h : vp.WF) (p : Ident) :
    vp.isValid p = true ↔ SpecValid vp p.key := by
  cases vp with
  | none => simp [VP.isValid, SpecValid]
  | some m =>
    simp only [VP.isValid, SpecValid, List.any_eq_true, VP.get, Ident.getID]
    constructor
    · rintro ⟨⟨id, ps⟩, he, hc⟩
      refine .inr ⟨id, ps, ?_, by simpa using hc⟩
      rw [lookup_of_mem_nodup h he]; rfl
    · rintro (h0 | ⟨id, ps, hg, hin⟩)
      · cases h0
      · cases hl : m.lookup id with
        | none => rw [hl] at hg; cases hg; simp at hin
        | some ps' =>
          rw [hl] at hg; simp at hg; subst hg
          exact ⟨(id, ps'), lookup_mem hl, by simpa using hin⟩

/-- the answer of the filter does not depend on the `ID` field a peer declares -/
theorem c17_idfield_irrelevant (vp : VP) (k : Key) (f f' : PeerId) :
    vp.isValid ⟨k, f⟩ = vp.isValid ⟨k, f'⟩ := rfl

/-- **reading a set back returns exactly its members** (ids of the keys given) -/
theorem c17_get_exact (vp : VP) (id : SetId) (peers : List Ident) :
    (vp.set id peers).get id = some (peers.map Ident.getID) := by
  simp [VP.set, VP.get, List.lookup]

/-- **replacing one set changes only that set**: once the table exists, every other set reads
back unchanged -/
theorem c17_set_frame (vp : VP) (id id' : SetId) (peers : List Ident) (hinit : vp ≠ none)
    (hne : id' ≠ id) : (vp.set id peers).get id' = vp.get id' := by
  cases vp with
  | none => exact absurd rfl hinit
  | some m =>
    have h1 : (id' == id) = false := by simpa using hne
    simp only [VP.set, VP.get, List.lookup, h1, Option.getD_some]
    rw [lookup_filter_ne m id id' hne]

/-- the first set ever given initialises the table: every other id now reads as the empty set
(nobody), no longer as "uninitialised" (everybody) -/
theorem c17_first_set (id id' : SetId) (peers : List Ident) (hne : id' ≠ id) :
    (VP.set none id peers).get id' = some [] := by
  have h1 : (id' == id) = false := by simpa using hne
  simp [VP.set, VP.get, List.lookup, h1]

/-- members of the other sets stay valid when one set is replaced (also by the empty set) -/
theorem c17_set_keeps_others (vp : VP) (id id' : SetId) (peers : List Ident) (ps : List PeerId)
    (k : Key) (hne : id' ≠ id) (hg : vp.get id' = some ps) (hin : idOfKey k ∈ ps) :
    SpecValid (vp.set id peers) k := by
  have hinit : vp ≠ none := by intro e; subst e; simp [VP.get] at hg
  exact .inr ⟨id', ps, by rw [c17_set_frame vp id id' peers hinit hne]; exact hg, hin⟩

/-- after `set id peers`, exactly the peers given are valid through `id` -/
theorem c17_set_members (vp : VP) (id : SetId) (peers : List Ident) (p : Ident) (h : p ∈ peers) :
    SpecValid (vp.set id peers) p.key :=
  .inr ⟨id, _, c17_get_exact vp id peers, List.mem_map.mpr ⟨p, h, rfl⟩⟩

/-! ### histories -/

/-- what holds in every reachable state: the table is a map, and every registered connection was
either dialled by this router or offered by a peer whose **key** was valid at that moment -/
def Inv (s : State) : Prop :=
  s.vp.WF ∧ ∀ c ∈ s.conns, match c.origin with
    | .offered vp0 => SpecValid vp0 c.peer.key
    | .dialled => True

theorem inv_init : Inv {} := by simp [Inv, VP.WF]

theorem inv_step (s : State) (op : Op) (h : Inv s) : Inv (step s op).1 := by
  obtain ⟨hw, hc⟩ := h
  cases op with
  | setPeers id peers => exact ⟨set_wf _ _ _ hw, hc⟩
  | getPeers id => exact ⟨hw, hc⟩
  | offer p m =>
    simp only [step]
    split
    · rename_i hv
      refine ⟨hw, ?_⟩
      intro c hin
      rcases List.mem_append.mp hin with hin | hin
      · exact hc c hin
      · simp at hin; subst hin
        exact (c17_valid_iff s.vp hw p).mp hv
    · exact ⟨hw, hc⟩
  | msg k m =>
    simp only [step]
    split <;> exact ⟨hw, hc⟩
  | dial p =>
    refine ⟨hw, ?_⟩
    intro c hin
    simp only [step] at hin
    rcases List.mem_append.mp hin with hin | hin
    · exact hc c hin
    · simp at hin; subst hin; trivial
  | drop k =>
    refine ⟨hw, ?_⟩
    intro c hin
    simp only [step] at hin
    exact hc c (List.mem_filter.mp hin).1

theorem inv_run (s : State) (ops : List Op) (h : Inv s) : Inv (run s ops).1 := by
  induction ops generalizing s with
  | nil => exact h
  | cons op l ih => exact ih _ (inv_step s op h)

/-- **histories**: after *every* sequence of set / replace / read operations, connection attempts,
messages, dialled connections and drops,

* a connection offered by a peer is accepted — and its message dispatched — **iff** the peer's
  *key* is valid at that moment (no table yet, or in some current set): members are never refused,
  non-members never served, whatever `ID` field they declare;
* a refused offer leaves no trace (state unchanged, nothing dispatched);
* a message is dispatched only over a registered connection, and every registered connection was
  either opened by this router itself or accepted while its peer's key was valid. -/
theorem c17_history (ops : List Op) :
    let s := (run {} ops).1
    (∀ p m, ((step s (.offer p m)).2 = .dispatched p m ↔ SpecValid s.vp p.key) ∧
            (¬ SpecValid s.vp p.key → step s (.offer p m) = (s, .refused))) ∧
    (∀ k m q, (step s (.msg k m)).2 = .dispatched q m →
        ∃ c ∈ s.conns, c.peer = q ∧ q.key = k ∧
          (c.origin = .dialled ∨ ∃ vp0, c.origin = .offered vp0 ∧ SpecValid vp0 k)) := by
  intro s
  have hinv : Inv s := inv_run {} ops inv_init
  obtain ⟨hw, hc⟩ := hinv
  refine ⟨fun p m => ?_, fun k m q hd => ?_⟩
  · have hiff := c17_valid_iff s.vp hw p
    constructor
    · simp only [step]
      constructor
      · intro h
        split at h
        · rename_i hv; exact hiff.mp hv
        · cases h
      · intro h
        rw [if_pos (hiff.mpr h)]
    · intro hn
      have : ¬ s.vp.isValid p = true := fun hv => hn (hiff.mp hv)
      simp only [step]
      rw [if_neg this]
  · simp only [step] at hd
    split at hd
    · rename_i c hf
      have hq : c.peer = q := by simpa using congrArg (fun o => match o with | Obs.dispatched p _ => p | _ => q) hd
      have hmem := List.mem_of_find?_eq_some hf
      have hk : c.peer.key = k := by simpa using List.find?_some hf
      refine ⟨c, hmem, hq, by rw [← hq]; exact hk, ?_⟩
      have := hc c hmem
      cases ho : c.origin with
      | dialled => exact .inl rfl
      | offered vp0 =>
        rw [ho] at this
        exact .inr ⟨vp0, rfl, by rw [← hk]; exact this⟩
    · cases hd

/-! ### the table is a map from set identifiers to the last list given -/

/-- any number of `SetValidPeers` calls in a row -/
def applySets (vp : VP) (l : List (SetId × List Ident)) : VP := l.foldl (fun v e => v.set e.1 e.2) vp

/-- the reference: the list given by the last call for `id`, if any -/
def lastSet (l : List (SetId × List Ident)) (id : SetId) : Option (List Ident) :=
  match l with
  | [] => none
  | e :: l => match lastSet l id with
    | some ps => some ps
    | none => if e.1 = id then some e.2 else none

theorem get_after_set (vp : VP) (id id' : SetId) (peers : List Ident) :
    (vp.set id peers).get id' =
      if id' = id then some (peers.map Ident.getID) else some ((vp.get id').getD []) := by
  by_cases h : id' = id
  · subst h; simp [c17_get_exact]
  · rw [if_neg h]
    cases vp with
    | none => rw [c17_first_set id id' peers h]; rfl
    | some m => rw [c17_set_frame (some m) id id' peers (by simp) h]; rfl

/-- **refinement to a map of sets, over whole histories of calls**: after any sequence of
`SetValidPeers` calls (any identifiers, any lists, repetitions, empty lists) on any table, reading
`id` gives the ids of the keys of the list given by the *last* call for `id`; for an identifier no
call named, what was there before (the empty set once any call was made). -/
theorem c17_get_last_set (vp : VP) (l : List (SetId × List Ident)) (id : SetId) :
    (applySets vp l).get id =
      match lastSet l id with
      | some ps => some (ps.map Ident.getID)
      | none => if l.isEmpty then vp.get id else some ((vp.get id).getD []) := by
  induction l generalizing vp with
  | nil => simp [applySets, lastSet]
  | cons e l ih =>
    have h := ih (vp.set e.1 e.2)
    simp only [applySets, List.foldl_cons] at h ⊢
    rw [h]
    simp only [lastSet]
    cases hl : lastSet l id with
    | some ps => rfl
    | none =>
      simp only [List.isEmpty_cons]
      rw [get_after_set]
      by_cases he : id = e.1
      · subst he
        simp only [if_true]
        cases l <;> simp
      · have he' : ¬ e.1 = id := fun x => he x.symm
        simp only [if_neg he, if_neg he']
        cases l <;> simp

/-- a `SetValidPeers` call never touches the registered connections: whatever it installs, a message
over an existing connection is treated as before (the general form of `c17_not_retroactive`) -/
theorem c17_set_leaves_connections (s : State) (id : SetId) (peers : List Ident) (k : Key) (m : Nat) :
    (step (step s (.setPeers id peers)).1 (.msg k m)).2 = (step s (.msg k m)).2 := by
  simp only [step]
  split <;> rfl

/-- connections the router opens itself are registered without any test, whatever the table says
(the general form of `c17_outgoing_unfiltered`) -/
theorem c17_dialled_unfiltered (s : State) (p : Ident) (m : Nat)
    (hnew : s.conns.find? (fun c => c.peer.key == p.key) = none) :
    (step (step s (.dial p)).1 (.msg p.key m)).2 = .dispatched p m := by
  simp [step, List.find?_append, hnew]

/-! ### the statement over traces

The specification of the property, written over the history itself: *the sets are the lists given by the
latest `SetValidPeers` call for each identifier*.  `c17_trace` says what the router answers at every
position of every history in these terms only — no table, no reachable state. -/

/-- the `SetValidPeers` calls of a history, in order -/
def setsOf : List Op → List (SetId × List Ident)
  | [] => []
  | .setPeers id ps :: l => (id, ps) :: setsOf l
  | _ :: l => setsOf l

/-- the specification's verdict on a key after the calls `l`: no call was made yet, or the latest list
given for some identifier holds an identity with that key -/
def SpecMember (l : List (SetId × List Ident)) (k : Key) : Prop :=
  l = [] ∨ ∃ id ps, lastSet l id = some ps ∧ ∃ q ∈ ps, q.key = k

theorem setsOf_append (a b : List Op) : setsOf (a ++ b) = setsOf a ++ setsOf b := by
  induction a with
  | nil => rfl
  | cons op l ih => cases op <;> simp [setsOf, ih]

theorem step_vp (s : State) (op : Op) :
    (step s op).1.vp = (match op with | .setPeers id ps => s.vp.set id ps | _ => s.vp) := by
  cases op <;> simp only [step] <;> (try split) <;> rfl

theorem run_vp (s : State) (ops : List Op) : (run s ops).1.vp = applySets s.vp (setsOf ops) := by
  induction ops generalizing s with
  | nil => rfl
  | cons op l ih =>
    simp only [run]
    rw [ih, step_vp]
    cases op <;> simp [setsOf, applySets]

theorem run_append (s : State) (a b : List Op) :
    run s (a ++ b) = ((run (run s a).1 b).1, (run s a).2 ++ (run (run s a).1 b).2) := by
  induction a generalizing s with
  | nil => simp [run]
  | cons op l ih => simp only [List.cons_append, run, ih]

theorem run_obs_length (s : State) (ops : List Op) : (run s ops).2.length = ops.length := by
  induction ops generalizing s with
  | nil => rfl
  | cons op l ih => simp [run, ih]

/-- the observation at a position of a history is the step made there, from the state the prefix leads to -/
theorem run_obs_at (s : State) (pre post : List Op) (op : Op) :
    (run s (pre ++ op :: post)).2[pre.length]? = some (step (run s pre).1 op).2 := by
  rw [run_append]
  simp only
  rw [List.getElem?_append_right (by rw [run_obs_length]; exact Nat.le_refl _)]
  simp [run_obs_length, run]

theorem applySets_some (m : List (SetId × List PeerId)) (l : List (SetId × List Ident)) :
    ∃ m', applySets (some m) l = some m' := by
  induction l generalizing m with
  | nil => exact ⟨m, rfl⟩
  | cons e l ih => exact ih _

theorem applySets_wf (vp : VP) (l : List (SetId × List Ident)) (h : vp.WF) : (applySets vp l).WF := by
  induction l generalizing vp with
  | nil => exact h
  | cons e l ih => exact ih _ (set_wf vp e.1 e.2 h)

/-- **the filter after any calls is the specification**: the table built by the calls `l` answers yes for
an identity iff no call was made or the latest list of some identifier holds its key -/
theorem c17_valid_after_sets (l : List (SetId × List Ident)) (p : Ident) :
    (applySets none l).isValid p = true ↔ SpecMember l p.key := by
  rw [c17_valid_iff _ (applySets_wf none l trivial)]
  unfold SpecValid SpecMember
  constructor
  · rintro (h | ⟨id, ps, hg, hin⟩)
    · left
      cases l with
      | nil => rfl
      | cons e l =>
        obtain ⟨m', hm⟩ := applySets_some ((e.1, e.2.map Ident.getID) :: []) l
        have : applySets none (e :: l) = some m' := hm
        rw [this] at h; cases h
    · rw [c17_get_last_set] at hg
      cases hl : lastSet l id with
      | some ps' =>
        rw [hl] at hg
        simp only [Option.some.injEq] at hg
        subst hg
        obtain ⟨q, hq, he⟩ := List.mem_map.mp hin
        exact .inr ⟨id, ps', hl, q, hq, by simpa [Ident.getID, idOfKey] using he⟩
      | none =>
        rw [hl] at hg
        simp only [VP.get] at hg
        split at hg
        · cases hg
        · simp only [Option.getD_none, Option.some.injEq] at hg
          subst hg; simp at hin
  · rintro (h | ⟨id, ps, hl, q, hq, hk⟩)
    · subst h; exact .inl rfl
    · refine .inr ⟨id, ps.map Ident.getID, ?_, List.mem_map.mpr ⟨q, hq, by simp [Ident.getID, hk]⟩⟩
      rw [c17_get_last_set, hl]

/-- where a registered connection comes from, in terms of the history: the router dialled that peer, or
the peer offered the connection at a position where the specification held its key valid; and the peer's
connections were not dropped since -/
def ConnFrom (ops : List Op) (c : Conn) : Prop :=
  ∃ a b, ops = a ++ b ∧ (∀ op ∈ b.tail, op ≠ .drop c.peer.key) ∧
    ((b.head? = some (.dial c.peer) ∧ c.origin = .dialled) ∨
     (∃ m, b.head? = some (.offer c.peer m)) ∧ c.origin = .offered (applySets none (setsOf a)) ∧
        SpecMember (setsOf a) c.peer.key)

theorem ConnFrom.snoc {ops : List Op} {c : Conn} (h : ConnFrom ops c) (op : Op) (hop : op ≠ .drop c.peer.key) :
    ConnFrom (ops ++ [op]) c := by
  obtain ⟨a, b, he, hnd, hor⟩ := h
  have hb : b ≠ [] := by
    intro e; subst e
    rcases hor with ⟨h1, _⟩ | ⟨⟨m, h1⟩, _⟩ <;> simp at h1
  refine ⟨a, b ++ [op], by rw [he, List.append_assoc], ?_, ?_⟩
  · intro x hx
    rw [List.tail_append_of_ne_nil hb] at hx
    rcases List.mem_append.mp hx with hx | hx
    · exact hnd x hx
    · simp at hx; subst hx; exact hop
  · have hh : (b ++ [op]).head? = b.head? := by
      cases b with
      | nil => exact absurd rfl hb
      | cons x l => rfl
    rw [hh]; exact hor

theorem run_snoc_state (s : State) (ops : List Op) (op : Op) :
    (run s (ops ++ [op])).1 = (step (run s ops).1 op).1 := by
  rw [run_append]; rfl

/-- every registered connection of every reachable state is explained by the history -/
theorem conns_from (ops : List Op) : ∀ c ∈ (run {} ops).1.conns, ConnFrom ops c := by
  suffices h : ∀ (l pre : List Op), (∀ c ∈ (run {} pre).1.conns, ConnFrom pre c) →
      ∀ c ∈ (run {} (pre ++ l)).1.conns, ConnFrom (pre ++ l) c from by
    have := h ops [] (by intro c hc; simp [run] at hc)
    simpa using this
  intro l
  induction l with
  | nil => intro pre h; simpa using h
  | cons op l ih =>
    intro pre h
    have hstep : ∀ c ∈ (run {} (pre ++ [op])).1.conns, ConnFrom (pre ++ [op]) c := by
      intro c hc
      rw [run_snoc_state] at hc
      cases op with
      | setPeers id ps => exact (h c hc).snoc _ (by simp)
      | getPeers id => exact (h c hc).snoc _ (by simp)
      | msg k m =>
        have : (step (run {} pre).1 (.msg k m)).1 = (run {} pre).1 := by
          simp only [step]; split <;> rfl
        rw [this] at hc
        exact (h c hc).snoc _ (by simp)
      | offer p m =>
        simp only [step] at hc
        split at hc
        · rename_i hv
          rcases List.mem_append.mp hc with hc | hc
          · exact (h c hc).snoc _ (by simp)
          · simp only [List.mem_singleton] at hc
            subst hc
            have hvp : (run {} pre).1.vp = applySets none (setsOf pre) := run_vp {} pre
            refine ⟨pre, [.offer p m], rfl, by simp, .inr ⟨⟨m, rfl⟩, by rw [hvp], ?_⟩⟩
            rw [hvp] at hv
            exact (c17_valid_after_sets _ p).mp hv
        · exact (h c hc).snoc _ (by simp)
      | dial p =>
        simp only [step] at hc
        rcases List.mem_append.mp hc with hc | hc
        · exact (h c hc).snoc _ (by simp)
        · simp only [List.mem_singleton] at hc
          subst hc
          exact ⟨pre, [.dial p], rfl, by simp, .inl ⟨rfl, rfl⟩⟩
      | drop k =>
        simp only [step] at hc
        obtain ⟨hc1, hc2⟩ := List.mem_filter.mp hc
        refine (h c hc1).snoc _ ?_
        intro e
        have : k = c.peer.key := by injection e
        simp [this] at hc2
    have := ih (pre ++ [op]) hstep
    simpa using this

/-- **the property over traces.**  Take any history and any position in it (`pre` = what came before).

* A connection offered at that position is accepted and its message dispatched if no `SetValidPeers`
  call came before or the latest list given for *some* identifier holds the peer's key; otherwise it is
  refused.  Lists given earlier for the same identifier, and the `ID` field, play no part.
* A read at that position returns nil if no call came before, else the ids of the keys of the latest list
  given for that identifier (the empty list if none was).
* A message dispatched at that position over an existing connection comes from a peer the router dialled
  itself, or whose offer — at an earlier position — was accepted under the rule above, and whose
  connections were not dropped in between. -/
theorem c17_trace (pre post : List Op) :
    (∀ p m, (SpecMember (setsOf pre) p.key →
              (run {} (pre ++ .offer p m :: post)).2[pre.length]? = some (.dispatched p m)) ∧
            (¬ SpecMember (setsOf pre) p.key →
              (run {} (pre ++ .offer p m :: post)).2[pre.length]? = some .refused)) ∧
    (∀ id, (run {} (pre ++ .getPeers id :: post)).2[pre.length]? =
        some (.peers (if setsOf pre = [] then none
                      else some (((lastSet (setsOf pre) id).getD []).map Ident.getID)))) ∧
    (∀ k m q, (run {} (pre ++ .msg k m :: post)).2[pre.length]? = some (.dispatched q m) →
        q.key = k ∧ ∃ a b, pre = a ++ b ∧ (∀ op ∈ b.tail, op ≠ .drop k) ∧
          (b.head? = some (.dial q) ∨
           (∃ m', b.head? = some (.offer q m')) ∧ SpecMember (setsOf a) k)) := by
  have hvp : (run {} pre).1.vp = applySets none (setsOf pre) := run_vp {} pre
  refine ⟨fun p m => ⟨fun h => ?_, fun h => ?_⟩, fun id => ?_, fun k m q h => ?_⟩
  · rw [run_obs_at]
    have := (c17_valid_after_sets (setsOf pre) p).mpr h
    simp only [step, hvp, this, if_true]
  · rw [run_obs_at]
    have : ¬ (applySets none (setsOf pre)).isValid p = true := fun hv => h ((c17_valid_after_sets _ p).mp hv)
    simp only [step, hvp, if_neg this]
  · rw [run_obs_at]
    simp only [step, hvp, c17_get_last_set]
    cases hl : lastSet (setsOf pre) id with
    | some ps =>
      have : setsOf pre ≠ [] := by intro e; rw [e] at hl; simp [lastSet] at hl
      simp [this]
    | none =>
      cases hs : setsOf pre with
      | nil => simp [VP.get]
      | cons e l => simp [VP.get]
  · rw [run_obs_at] at h
    simp only [step, Option.some.injEq] at h
    split at h
    · rename_i c hf
      have hq : c.peer = q := by
        simpa using congrArg (fun o => match o with | Obs.dispatched p _ => p | _ => q) h
      have hmem := List.mem_of_find?_eq_some hf
      have hk : c.peer.key = k := by simpa using List.find?_some hf
      obtain ⟨a, b, he, hnd, hor⟩ := conns_from pre c hmem
      refine ⟨by rw [← hq]; exact hk, a, b, he, by rw [← hk]; exact hnd, ?_⟩
      rcases hor with ⟨h1, _⟩ | ⟨⟨m', h1⟩, _, h3⟩
      · exact .inl (by rw [← hq]; exact h1)
      · exact .inr ⟨⟨m', by rw [← hq]; exact h1⟩, by rw [← hk]; exact h3⟩
    · cases h

/-- `c17_trace` is not vacuous: in this history the offer at position 4 comes after two calls for the
same identifier; the latest list holds key 2 and not key 1 -/
example :
    SpecMember (setsOf [.setPeers (newPeerSetID [1]) [Ident.honest 1], .offer (Ident.honest 1) 0, .setPeers (newPeerSetID [2]) [],
                        .setPeers (newPeerSetID [1]) [⟨2, 0⟩]]) 2 ∧
    ¬ SpecMember (setsOf [.setPeers (newPeerSetID [1]) [Ident.honest 1], .offer (Ident.honest 1) 0, .setPeers (newPeerSetID [2]) [],
                        .setPeers (newPeerSetID [1]) [⟨2, 0⟩]]) 1 := by
  constructor
  · refine .inr ⟨(newPeerSetID [1]), [⟨2, 0⟩], ?_, ⟨2, 0⟩, by simp, rfl⟩
    decide
  · rintro (h | ⟨id, ps, hl, q, hq, hk⟩)
    · simp [setsOf] at h
    · simp only [setsOf, lastSet] at hl
      by_cases h1 : (newPeerSetID [1]) = id
      · simp [h1] at hl; subst hl; simp at hq; subst hq; simp at hk
      · by_cases h2 : (newPeerSetID [2]) = id
        · simp [h1, h2] at hl; subst hl; simp at hq
        · simp [h1, h2] at hl

/-! ### what the theorem does not say — recorded so nobody reads more into it -/

def setA : SetId := newPeerSetID [1]
def setB : SetId := newPeerSetID [2]

/-- connections this router opens itself are not filtered: after dialling a peer that is in none
of the sets, that peer's messages are dispatched -/
theorem c17_outgoing_unfiltered :
    (run {} [.setPeers setA [Ident.honest 1], .dial (Ident.honest 9), .msg 9 5]).2
      = [.done, .done, .dispatched (Ident.honest 9) 5] := by decide

/-- the filter acts when a connection is offered, not afterwards: a peer accepted while it was a
member keeps its connection when a later `set` removes it (a *new* connection is refused) -/
theorem c17_not_retroactive :
    (run {} [.setPeers setA [Ident.honest 1], .offer (Ident.honest 1) 1, .setPeers setA [],
             .msg 1 2, .offer (Ident.honest 1) 3]).2
      = [.done, .dispatched (Ident.honest 1) 1, .done, .dispatched (Ident.honest 1) 2, .refused] := by
  decide

/-- the defect that was repaired: tested on the wire-supplied field, a peer in none of the sets
that copies a member's id into its identity passes — its key is not valid. -/
theorem c17_forged_field_witness :
    let vp := VP.set none setA [Ident.honest 1]
    let forged : Ident := ⟨9, idOfKey 1⟩
    vp.isValidByField forged = true ∧ vp.isValid forged = false ∧ ¬ SpecValid vp forged.key := by
  intro vp forged
  have hw : vp.WF := set_wf none _ _ trivial
  refine ⟨by decide, by decide, fun h => ?_⟩
  have := (c17_valid_iff vp hw forged).mpr h
  exact absurd this (by decide)

/-- set ids derived by two services from the same bytes differ; one service's ids are injective
in the bytes (pre-image of the hash; service ids are 16 bytes) -/
theorem c17_ctx_setid_injective (sid sid' d d' : List Nat) (h : sid.length = 16) (h' : sid'.length = 16)
    (heq : ctxPeerSetID sid d = ctxPeerSetID sid' d') : sid = sid' ∧ d = d' :=
  List.append_inj heq (by omega)

/-- **the service-facing wrappers** (`Context.SetValidPeers` / `GetValidPeers` with an identifier made
by `Context.NewPeerSetID`): what one service sets under its bytes `d` is read back exactly by that
service under `d`, and never changes what any service reads under other bytes, nor what another
service reads under any bytes (also the same ones). -/
theorem c17_ctx_sets_independent (vp : VP) (sid sid' d d' : List Nat) (peers : List Ident)
    (hs : sid.length = 16) (hs' : sid'.length = 16) :
    (vp.set (ctxPeerSetID sid d) peers).get (ctxPeerSetID sid d) = some (peers.map Ident.getID) ∧
    (vp ≠ none → (sid, d) ≠ (sid', d') →
      (vp.set (ctxPeerSetID sid d) peers).get (ctxPeerSetID sid' d') = vp.get (ctxPeerSetID sid' d')) := by
  refine ⟨c17_get_exact _ _ _, fun hinit hne => ?_⟩
  apply c17_set_frame vp _ _ peers hinit
  intro heq
  obtain ⟨h1, h2⟩ := c17_ctx_setid_injective sid' sid d' d hs' hs heq
  exact hne (by rw [h1, h2])

/-- router-level ids are the bytes padded with zeros / cut to 32: `[1]` and `[1,0]` name the same set -/
theorem c17_raw_setid_padding : newPeerSetID [1] = newPeerSetID [1, 0] := by decide

/-! ### non-vacuity -/

/-- a history over three sets (one empty), replacement, members, an honest non-member and a
non-member with a forged `ID` field -/
example :
    (run {} [.offer (Ident.honest 7) 0,                       -- before any set: everybody
             .setPeers setA [Ident.honest 1, Ident.honest 2],
             .setPeers setB [],
             .offer (Ident.honest 1) 1, .offer (Ident.honest 9) 2, .offer ⟨9, idOfKey 1⟩ 3,
             .setPeers setA [⟨3, 0⟩],                          -- member given with an empty ID field
             .offer (Ident.honest 3) 4, .offer (Ident.honest 2) 5,
             .getPeers setA, .getPeers setB, .getPeers (newPeerSetID [3])]).2
      = [.dispatched (Ident.honest 7) 0, .done, .done,
         .dispatched (Ident.honest 1) 1, .refused, .refused,
         .done, .dispatched (Ident.honest 3) 4, .refused,
         .peers (some [3]), .peers (some []), .peers (some [])] := by decide

example : SpecValid (VP.set none setA [Ident.honest 1]) 1 :=
  c17_set_members none setA [Ident.honest 1] (Ident.honest 1) (by simp)

/-! ### the accept path as a transition system: any interleaving -/
namespace Acc

/-- connection `c` passed the validity test at some moment of the schedule: the schedule splits into
`pre ++ check c :: post`, after `pre` the connection had delivered the identity `p` and was waiting for
the test, and the table at that moment was `v` and answered yes for `p` -/
def CheckedAt (acts : List Act) (c : Nat) (p : Ident) (v : VP) : Prop :=
  ∃ pre post, acts = pre ++ .check c :: post ∧ (run {} pre).vp = v ∧ v.isValid p = true ∧
    phaseOf (run {} pre) c = some (.gotId p)

theorem CheckedAt.snoc {acts : List Act} {c : Nat} {p : Ident} {v : VP} (h : CheckedAt acts c p v) (a : Act) :
    CheckedAt (acts ++ [a]) c p v := by
  obtain ⟨pre, post, he, h1, h2, h3⟩ := h
  exact ⟨pre, post ++ [a], by simp [he], h1, h2, h3⟩

/-- connection `c` was refused by the validity test at some moment of the schedule, with the identity
`p` it had delivered, against the table of that moment -/
def RefusedAt (acts : List Act) (c : Nat) : Prop :=
  ∃ pre post p, acts = pre ++ .check c :: post ∧ (run {} pre).vp.isValid p = false ∧
    phaseOf (run {} pre) c = some (.gotId p)

theorem RefusedAt.snoc {acts : List Act} {c : Nat} (h : RefusedAt acts c) (a : Act) :
    RefusedAt (acts ++ [a]) c := by
  obtain ⟨pre, post, p, he, h1, h2⟩ := h
  exact ⟨pre, post ++ [a], p, by simp [he], h1, h2⟩

/-- what the ghost table in a phase stands for, and where a refusal comes from -/
def PhaseOK (acts : List Act) (c : Nat) : Phase → Prop
  | .checked p v | .registered p v | .running p v => CheckedAt acts c p v
  | .closed .refused => RefusedAt acts c
  | _ => True

theorem PhaseOK.snoc {acts : List Act} {c : Nat} {ph : Phase} (h : PhaseOK acts c ph) (a : Act) :
    PhaseOK (acts ++ [a]) c ph := by
  cases ph with
  | closed w => cases w <;> first | trivial | exact RefusedAt.snoc h a
  | waitId => trivial
  | gotId p => trivial
  | checked p v => exact CheckedAt.snoc h a
  | registered p v => exact CheckedAt.snoc h a
  | running p v => exact CheckedAt.snoc h a

/-- invariant of every schedule: a connection beyond the test passed it at a moment of this very
schedule, a refused one failed it at a moment of this schedule, and the connection of everything in
the dispatch log passed it -/
def Inv (acts : List Act) : Prop :=
  (∀ c cn, (run {} acts).conns[c]? = some cn → PhaseOK acts c cn.phase) ∧
  (∀ e ∈ (run {} acts).log, ∃ v, CheckedAt acts e.1 e.2.1 v)

theorem inv_snoc (acts : List Act) (a : Act) (h : Inv acts) : Inv (acts ++ [a]) := by
  obtain ⟨hc, hl⟩ := h
  constructor
  · intro c cn' hget
    rw [run_snoc] at hget
    rcases step_conn _ a c cn' hget with ⟨cn, hcn, hst⟩ | ⟨_, _, hw⟩ | ⟨ha, cn, p, hcn, hph, hcase⟩
    · have hok := PhaseOK.snoc (hc c cn hcn) a
      rcases hst with e | ⟨_, p, e⟩ | ⟨w, hw, e⟩ | ⟨p, v, e, e'⟩ | ⟨p, v, e, e'⟩
      · rw [e]; exact hok
      · rw [e]; trivial
      · rw [e]; cases w <;> first | trivial | exact absurd rfl hw
      · rw [e'] ; rw [e] at hok; exact hok
      · rw [e'] ; rw [e] at hok; exact hok
    · rw [hw]; trivial
    · subst ha
      rcases hcase with ⟨hv, hph'⟩ | ⟨hv, hph'⟩
      · rw [hph']
        exact ⟨acts, [], rfl, rfl, hv, by simp [phaseOf, hcn, hph]⟩
      · rw [hph']
        exact ⟨acts, [], p, rfl, hv, by simp [phaseOf, hcn, hph]⟩
  · intro e he
    rw [run_snoc] at he
    rcases step_log _ a e he with h0 | ⟨c, p, m, cn, v, ha, rfl, hcn, hph, _, _⟩
    · obtain ⟨v, hv⟩ := hl e h0
      exact ⟨v, hv.snoc a⟩
    · have := hc c cn hcn
      rw [hph] at this
      exact ⟨v, CheckedAt.snoc this a⟩

theorem inv_all (acts : List Act) : Inv acts := by
  suffices h : ∀ l pre, Inv pre → Inv (pre ++ l) from by
    have := h acts [] ⟨by intro c cn h; simp [run] at h, by intro e h; simp [run] at h⟩
    simpa using this
  intro l
  induction l with
  | nil => intro pre h; simpa using h
  | cons a l ih =>
    intro pre h
    have := ih (pre ++ [a]) (inv_snoc pre a h)
    simpa using this

/-- the table stays a map along every schedule -/
theorem run_wf (acts : List Act) : (run {} acts).vp.WF := by
  suffices h : ∀ (l : List Act) (s : State), s.vp.WF → (run s l).vp.WF from h acts {} trivial
  intro l
  induction l with
  | nil => intro s h; exact h
  | cons a l ih =>
    intro s h
    apply ih
    cases a <;> first
      | exact set_wf _ _ _ h
      | exact h
      | (simp only [step, upd_vp]; exact h)
      | (simp only [step]; split <;> exact h)

end Acc

/-- **any interleaving**: the server's goroutine of every accepted connection (identity, validity
test, registration, launch, receive loop — one act per lock region), the peers' writes and closes,
`SetValidPeers` calls and `Stop` scheduled in *any* order: whatever is handed to the dispatcher on
connection `c` with identity `p` attached, connection `c` went through the validity test at some
moment of the schedule, it had delivered exactly the identity `p` before, and at **that** moment the
key of `p` was valid (no set given yet, or in some set of the table as it was then). -/
theorem c17_accept_interleaved (acts : List Acc.Act) (c : Nat) (p : Ident) (m : Nat)
    (h : (c, p, m) ∈ (Acc.run {} acts).log) :
    ∃ pre post, acts = pre ++ .check c :: post ∧
      Acc.phaseOf (Acc.run {} pre) c = some (.gotId p) ∧ SpecValid (Acc.run {} pre).vp p.key := by
  obtain ⟨v, pre, post, he, hv, hval, hph⟩ := (Acc.inv_all acts).2 _ h
  refine ⟨pre, post, he, hph, ?_⟩
  have := (c17_valid_iff (Acc.run {} pre).vp (Acc.run_wf pre) p).mp (by rw [hv]; exact hval)
  exact this

/-- … read the other way round: **no message of a peer that was in no set at the time its
connection was checked is ever dispatched, for any interleaving** — whatever `SetValidPeers` calls
come later, also one that makes the peer a member before its first message arrives. -/
theorem c17_accept_never_unchecked (acts : List Acc.Act) (c : Nat) (p : Ident)
    (hno : ∀ pre post, acts = pre ++ .check c :: post →
      Acc.phaseOf (Acc.run {} pre) c = some (.gotId p) → ¬ SpecValid (Acc.run {} pre).vp p.key) :
    ∀ m, (c, p, m) ∉ (Acc.run {} acts).log := by
  intro m hm
  obtain ⟨pre, post, he, hph, hv⟩ := c17_accept_interleaved acts c p m hm
  exact hno pre post he hph hv

/-- … and its dual, **members are never refused, whatever the interleaving**: a connection that the
server closed as "invalid peer" failed the test at a moment of the schedule at which the key of the
identity it had delivered was in no set of the table as it was then. -/
theorem c17_accept_refusal_justified (acts : List Acc.Act) (c : Nat)
    (h : Acc.phaseOf (Acc.run {} acts) c = some (.closed .refused)) :
    ∃ pre post p, acts = pre ++ .check c :: post ∧
      Acc.phaseOf (Acc.run {} pre) c = some (.gotId p) ∧ ¬ SpecValid (Acc.run {} pre).vp p.key := by
  simp only [Acc.phaseOf, Option.map_eq_some_iff] at h
  obtain ⟨cn, hcn, hph⟩ := h
  have := (Acc.inv_all acts).1 c cn hcn
  rw [hph] at this
  obtain ⟨pre, post, p, he, hv, hp⟩ := this
  refine ⟨pre, post, p, he, hp, fun hs => ?_⟩
  have := (c17_valid_iff (Acc.run {} pre).vp (Acc.run_wf pre) p).mpr hs
  rw [hv] at this; cases this

/-- **progress**: an act of a server goroutine (`recvId`, `check`, `register`, `launch`, `recv` of any
connection) either is blocked / not due — it changes nothing — or strictly lowers the distance of
the state from rest (phases still to go plus unread messages, summed over the connections).  So no
schedule can keep the goroutines busy for ever without new input from the peers. -/
theorem c17_accept_progress (s : Acc.State) (c : Nat) (a : Acc.Act) (ha : a ∈ Acc.internal c) :
    Acc.step s a = s ∨ Acc.measure (Acc.step s a) < Acc.measure s :=
  Acc.internal_measure s c a ha

/-- no act of any server goroutine can change the state -/
def Acc.Quiescent (s : Acc.State) : Prop := ∀ c, ∀ a ∈ Acc.internal c, Acc.step s a = s

/-- **nothing is stuck when no step is enabled**: in a state where no server goroutine can move,
every accepted connection is in one of three situations — the server waits for the peer's identity
(the peer is connected and has written nothing), or the connection is served (`handleConn` runs, the
router is open, every message the peer wrote has been read) or it is closed.  No connection rests
between the identity and the receive loop, and no message rests unread behind an accepted identity. -/
theorem c17_accept_quiescent (s : Acc.State) (hq : Acc.Quiescent s) (c : Nat) (cn : Acc.Conn)
    (hc : s.conns[c]? = some cn) :
    (cn.phase = .waitId ∧ cn.inbox = [] ∧ cn.peerOpen = true) ∨
    (∃ p v, cn.phase = .running p v ∧ cn.inbox = [] ∧ cn.peerOpen = true ∧ s.closed = false) ∨
    (∃ w, cn.phase = .closed w) := by
  have hne : ∀ (w : Acc.Wire) (l : List Acc.Wire), l ≠ w :: l := by
    intro w l e
    have := congrArg List.length e
    simp at this
  cases hph : cn.phase with
  | closed w => exact .inr (.inr ⟨w, rfl⟩)
  | waitId =>
    left
    have h := Acc.upd_fix hc (hq c (.recvId c) (by simp [Acc.internal]))
    unfold Acc.recvIdConn at h
    rw [hph] at h
    simp only at h
    split at h
    · have := congrArg Acc.Conn.phase h; rw [hph] at this; cases this
    · have := congrArg Acc.Conn.phase h; rw [hph] at this; cases this
    · rename_i hi
      split at h
      · rename_i ho; exact ⟨rfl, hi, ho⟩
      · have := congrArg Acc.Conn.phase h; rw [hph] at this; cases this
  | gotId p =>
    exfalso
    have h := Acc.upd_fix hc (hq c (.check c) (by simp [Acc.internal]))
    unfold Acc.checkConn at h
    rw [hph] at h
    simp only at h
    split at h <;> (have := congrArg Acc.Conn.phase h; rw [hph] at this; cases this)
  | checked p v =>
    exfalso
    have h := Acc.upd_fix hc (hq c (.register c) (by simp [Acc.internal]))
    unfold Acc.registerConn at h
    rw [hph] at h
    simp only at h
    split at h <;> (have := congrArg Acc.Conn.phase h; rw [hph] at this; cases this)
  | registered p v =>
    exfalso
    have h := Acc.upd_fix hc (hq c (.launch c) (by simp [Acc.internal]))
    unfold Acc.launchConn at h
    rw [hph] at h
    simp only at h
    split at h <;> (have := congrArg Acc.Conn.phase h; rw [hph] at this; cases this)
  | running p v =>
    right; left
    have h0 := hq c (.recv c) (by simp [Acc.internal])
    simp only [Acc.step, hc] at h0
    have h1 := congrArg (fun t => t.conns[c]?) h0
    simp only [List.getElem?_set_self (List.getElem?_eq_some_iff.mp hc).1, hc, Option.some.injEq] at h1
    unfold Acc.recvConn at h1
    rw [hph] at h1
    simp only at h1
    split at h1
    · have := congrArg Acc.Conn.phase h1; rw [hph] at this; cases this
    · rename_i hcl
      split at h1
      · rename_i m rest hi
        have := congrArg Acc.Conn.inbox h1
        simp only [hi] at this
        exact absurd this (hne _ _)
      · rename_i q rest hi
        have := congrArg Acc.Conn.inbox h1
        simp only [hi] at this
        exact absurd this (hne _ _)
      · rename_i hi
        split at h1
        · rename_i ho; exact ⟨p, v, rfl, hi, ho, by simpa using hcl⟩
        · have := congrArg Acc.Conn.phase h1; rw [hph] at this; cases this

/-- **the sequential model is the transition system run without interleaving**: from any state whose
router is open, the acts of one connection attempt in a row — connect, the peer writes its identity
and a message, the server reads the identity, tests, registers, launches, reads the message — have
exactly the effect of `C17.step … (.offer p m)`: the table is untouched, the connection is registered
(with the table it was tested against) and `(p, m)` dispatched iff `isValid p`; otherwise nothing is
registered and nothing dispatched. -/
theorem c17_offer_is_uninterleaved_accept (s : Acc.State) (p : Ident) (m : Nat) (hopen : s.closed = false) :
    let c := s.conns.length
    let s' := Acc.run s (Acc.offerActs c p m)
    Acc.abs s' = (step (Acc.abs s) (.offer p m)).1 ∧
    s'.log = s.log ++ (if s.vp.isValid p then [(c, p, m)] else []) ∧
    ((step (Acc.abs s) (.offer p m)).2 = if s.vp.isValid p then .dispatched p m else .refused) := by
  intro c s'
  have hget : (s.conns ++ [({} : Acc.Conn)])[s.conns.length]? = some {} := by simp
  have key : s' = if s.vp.isValid p then
        { s with conns := s.conns ++ [{ phase := .running p s.vp, inbox := [], peerOpen := true }],
                 log := s.log ++ [(c, p, m)] }
      else { s with conns := s.conns ++ [{ phase := .closed .refused, inbox := [.msg m], peerOpen := true }] } := by
    simp only [s', c, Acc.offerActs, Acc.run, List.foldl_cons, List.foldl_nil]
    by_cases hv : s.vp.isValid p = true
    · simp [Acc.step, Acc.upd, Acc.recvIdConn, Acc.checkConn, Acc.registerConn, Acc.launchConn,
        Acc.recvConn, hv, hopen]
    · simp [Acc.step, Acc.upd, Acc.recvIdConn, Acc.checkConn, Acc.registerConn, Acc.launchConn,
        Acc.recvConn, hv, hopen]
  rw [key]
  by_cases hv : s.vp.isValid p = true
  · simp [hv, Acc.abs, Acc.absConns, step, List.filterMap_append]
  · simp [hv, Acc.abs, Acc.absConns, step, List.filterMap_append]

/-- **`Router.Stop` is final**: from a state in which the router is closed, whatever is scheduled afterwards —
identities arriving, tests, registrations, launches, turns of receive loops, `SetValidPeers` calls, peers
writing — nothing more is handed to the dispatcher and the router stays closed.  Together with
`c17_accept_interleaved`: everything ever dispatched was dispatched before the stop, over a connection that
had passed the test. -/
theorem c17_stop_final (s : Acc.State) (h : s.closed = true) (acts : List Acc.Act) :
    (Acc.run s acts).log = s.log ∧ (Acc.run s acts).closed = true := by
  induction acts generalizing s with
  | nil => exact ⟨rfl, h⟩
  | cons a l ih =>
    have hstep : (Acc.step s a).log = s.log ∧ (Acc.step s a).closed = true := by
      cases a <;> simp only [Acc.step, Acc.upd_log, Acc.upd_closed, h, and_self]
      case recv c =>
        cases hc : s.conns[c]? with
        | none => simp [h]
        | some cn =>
          simp only [and_true]
          have : (Acc.recvConn true cn).2 = none := by
            unfold Acc.recvConn; split <;> simp
          rw [this]
    obtain ⟨h1, h2⟩ := ih (Acc.step s a) hstep.2
    exact ⟨by rw [Acc.run_cons, h1, hstep.1], by rw [Acc.run_cons]; exact h2⟩

/-- … read over schedules: what a schedule dispatches after a `stop` act is nothing -/
theorem c17_nothing_after_stop (pre post : List Acc.Act) :
    (Acc.run {} (pre ++ .stop :: post)).log = (Acc.run {} pre).log := by
  rw [Acc.run_append, Acc.run_cons]
  exact (c17_stop_final _ rfl post).1

/-! ### the transition system: witnesses and non-vacuity -/

/-- the filter acts at the test, not afterwards — also inside the accept path: a `SetValidPeers` that
removes the peer between its test and its registration does not stop it (the first message is
dispatched) … -/
def Acc.exRemovedAfterCheck : List Acc.Act :=
  [.connect, .peerSend 0 (.ident (Ident.honest 1)), .setPeers setA [Ident.honest 1], .recvId 0, .check 0,
   .setPeers setA [], .register 0, .launch 0, .peerSend 0 (.msg 7), .recv 0]

theorem c17_accept_not_retroactive :
    (Acc.run {} Acc.exRemovedAfterCheck).log = [(0, Ident.honest 1, 7)] ∧
    (Acc.run {} Acc.exRemovedAfterCheck).vp.isValid (Ident.honest 1) = false := by decide

/-- … and a `SetValidPeers` that adds the peer after it was refused does not revive the connection:
what it wrote is never read -/
def Acc.exAddedAfterRefusal : List Acc.Act :=
  [.setPeers setA [Ident.honest 1], .connect, .peerSend 0 (.ident (Ident.honest 9)), .recvId 0, .check 0,
   .setPeers setA [Ident.honest 9], .peerSend 0 (.msg 7), .register 0, .launch 0, .recv 0]

theorem c17_accept_refusal_final :
    (Acc.run {} Acc.exAddedAfterRefusal).log = [] ∧
    Acc.phaseOf (Acc.run {} Acc.exAddedAfterRefusal) 0 = some (.closed .refused) ∧
    (Acc.run {} Acc.exAddedAfterRefusal).vp.isValid (Ident.honest 9) = true := by decide

/-- two connections interleaved with two calls: the member's message is dispatched, the
non-member's is not; a first message that is not an identity ends the connection -/
example :
    let s := Acc.run {} [.connect, .connect, .connect, .peerSend 1 (.ident (Ident.honest 9)),
      .peerSend 0 (.ident ⟨1, 5⟩), .peerSend 2 (.msg 3), .recvId 1, .setPeers setA [Ident.honest 1], .recvId 0,
      .recvId 2, .check 1, .check 0, .setPeers setB [Ident.honest 9], .register 0, .peerSend 0 (.msg 4),
      .peerSend 1 (.msg 5), .launch 0, .register 1, .recv 0, .recv 1, .recv 0]
    s.log = [(0, ⟨1, 5⟩, 4)] ∧ Acc.phaseOf s 1 = some (.closed .refused) ∧
      Acc.phaseOf s 2 = some (.closed .idErr) := by decide

/-- the hypotheses of `c17_accept_quiescent` are met by a state with a served connection -/
example : Acc.Quiescent (Acc.run {} Acc.exRemovedAfterCheck) := by
  intro c a ha
  simp only [Acc.internal, List.mem_cons, List.not_mem_nil, or_false] at ha
  cases c with
  | zero => rcases ha with rfl | rfl | rfl | rfl | rfl <;> decide
  | succ n => rcases ha with rfl | rfl | rfl | rfl | rfl <;> rfl

/-- `Router.Stop` between the test and the registration: the connection is closed, nothing dispatched -/
example :
    let s := Acc.run {} [.connect, .peerSend 0 (.ident (Ident.honest 1)), .peerSend 0 (.msg 7), .recvId 0,
      .check 0, .stop, .register 0, .launch 0, .recv 0]
    s.log = [] ∧ Acc.phaseOf s 0 = some (.closed .routerClosed) := by decide

/-! ### round 7 — who the peer is on a TLS listener (`Model/C17Tls.lean`) -/

/-- Over TLS the key the filter tests is a key whose private half the peer holds: whenever a connection
offered with certificate `c` and identity message `p` ends in a dispatch, the key that made the signature is
the key named in the CommonName, is the key of the identity message, and is valid.  A change of *any* of the
three sites (the verifier proving another name than the CommonName, `receiveServerIdentity` comparing another
name, `isPeerValid` testing another field) falsifies it. -/
theorem c17_tls_tested_key_is_held (vp : VP) (hwf : VP.WF vp) (c : Tls.Cert) (p : Ident)
    (h : Tls.offer false vp c p = .dispatched) :
    c.signer = p.key ∧ c.cn = p.key ∧ c.signedName = p.key ∧ SpecValid vp c.signer := by
  unfold Tls.offer at h
  split at h
  · cases h
  · rename_i hv
    split at h
    · cases h
    · rename_i hi
      split at h
      · rename_i hval
        simp only [Tls.verify, Tls.provenName, Bool.false_eq_true, if_false, Bool.not_eq_true] at hv
        simp only [Tls.identMatches, Bool.not_eq_true', beq_eq_false_iff_ne, ne_eq, Classical.not_not] at hi
        have h1 : c.signer = c.cn := by
          cases hs : (c.signer == c.cn) with
          | true => exact beq_iff_eq.mp hs
          | false =>
            have := hv
            simp [hs] at this
        have h2 : c.signedName = c.cn := by
          cases hs : (c.signedName == c.cn) with
          | true => exact beq_iff_eq.mp hs
          | false =>
            have := hv
            simp [hs, h1] at this
        refine ⟨by rw [h1, hi], hi.symm, by rw [h2, hi], ?_⟩
        rw [h1, ← hi]
        exact (c17_valid_iff vp hwf p).mp hval
      · cases h

/-- … hence the holder of a key that is in none of the current sets is never served, whatever certificate
and identity message it makes up -/
theorem c17_tls_non_member_never_served (vp : VP) (hwf : VP.WF vp) (c : Tls.Cert) (p : Ident)
    (hn : ¬ SpecValid vp c.signer) : Tls.offer false vp c p ≠ .dispatched := fun h =>
  hn (c17_tls_tested_key_is_held vp hwf c p h).2.2.2

/-- an honest peer's certificate adds nothing to the plain accept path: served iff its key is valid -/
theorem c17_tls_honest_is_plain_offer (vp : VP) (k : Key) (f : PeerId) :
    Tls.offer false vp (Tls.Cert.honest k) ⟨k, f⟩ = if vp.isValid ⟨k, f⟩ then .dispatched else .refused := by
  simp [Tls.offer, Tls.verify, Tls.provenName, Tls.identMatches, Tls.Cert.honest]

/-- witness for the variant whose verifier proves the key named in the URI (seeded change C17r6-A): the holder
of key 9 — in no set — names member 1 in the CommonName and itself in the URI, and is served as member 1 -/
theorem c17_tls_uri_key_must_not_be_the_proven_one :
    let vp : VP := VP.set none [1] [Ident.honest 1]
    let c : Tls.Cert := { cn := 1, uri := some 9, signer := 9, signedName := 9 }
    vp.isValid (Ident.honest 9) = false ∧
    Tls.offer true vp c (Ident.honest 1) = .dispatched ∧ Tls.offer false vp c (Ident.honest 1) = .handshakeRefused := by
  decide

example : Tls.offer false (VP.set none [1] [Ident.honest 1]) (Tls.Cert.honest 1) (Ident.honest 1) = .dispatched := by decide
example : Tls.offer false (VP.set none [1] [Ident.honest 1]) (Tls.Cert.honest 9) (Ident.honest 9) = .refused := by decide
example : Tls.offer false none { cn := 1, uri := none, signer := 1, signedName := 1 } (Ident.honest 2) = .identityRefused := by decide


/-! ### round 7 — dialling and accepting goroutines, `SetValidPeers` and `Stop` interleaved (`Model/C17Dial.lean`) -/


/-- **every dispatched message, whatever runs concurrently**: for every interleaving of accepting goroutines,
dialling goroutines (`Router.connect`), `SetValidPeers` calls, receive-loop turns, connections ending and
`Router.Stop` — a message is dispatched only over a connection the router dialled itself, or over an accepted
connection whose peer's key was valid against the table that `isPeerValid` looked at.  Falsified by a path into the
table that skips the test for an *accepted* connection (e.g. registering before the test and testing afterwards, or
a dialling goroutine's connection being reused for the identity of an accepting one). -/
theorem c17_concurrent_dial_accept (acts : List Dial.Act) :
    ∀ e ∈ (Dial.run {} acts).log,
      e.side = .dialled ∨ ∃ v, e.vpThen = some v ∧ v.isValid e.peer = true := by
  intro e he
  have h := (Dial.inv_run {} Dial.inv_init acts).2 e he
  cases hs : e.side
  · exact Or.inr (h.1 hs)
  · exact Or.inl rfl

/-- … and the same for what is in the table at any moment: an entry is a connection the router dialled, or one that
passed the test (against the table of that moment — later `SetValidPeers` calls do not take it out) -/
theorem c17_table_entries_justified (acts : List Dial.Act) :
    ∀ t ∈ (Dial.run {} acts).thrs, t.listed = true →
      t.side = .dialled ∨ ∃ v, t.vpThen = some v ∧ v.isValid t.peer = true := by
  intro t ht hl
  have h := (Dial.inv_run {} Dial.inv_init acts).1 t ht
  cases hs : t.side
  · refine Or.inr (h.1 hs ?_)
    simp only [Dial.Thr.listed, Bool.or_eq_true, beq_iff_eq] at hl
    rcases hl with hl | hl
    · exact Or.inr (Or.inl hl)
    · exact Or.inr (Or.inr hl)
  · exact Or.inl rfl

/-- the ghost table is the real one: the test of accepted connection `k` reads the table as it is at that moment -/
theorem c17_check_reads_the_current_table (s : Dial.State) (k : Nat) (t : Dial.Thr) (hk : s.thrs[k]? = some t)
    (ha : t.side = .accepted) (hf : t.ph = .fresh) :
    (Dial.step s (.check k)).thrs[k]? =
      some (if s.vp.isValid t.peer then { t with ph := .checked, vpThen := some s.vp } else { t with ph := .ended }) := by
  obtain ⟨hlt, he⟩ := List.getElem?_eq_some_iff.mp hk
  simp only [Dial.step, Dial.upd, hk, List.getElem?_set_self hlt, Dial.checkThr, ha, hf, and_self, if_true]

/-- **the dialling side is not filtered, whatever the sets become meanwhile**: on an open router a connection the
router opens itself goes from `connect` into the table and to its first dispatched message with `SetValidPeers`
calls at every point in between — no table makes a difference.  (The property's statement is about connections
*offered by* a peer; this records that the other direction is outside it.) -/
theorem c17_dialled_is_never_tested (s : Dial.State) (hopen : s.closed = false) (p : Ident) (m : Nat)
    (i1 i2 i3 : SetId) (l1 l2 l3 : List Ident) :
    let k := s.thrs.length
    let s' := Dial.run s [.dial p, .setPeers i1 l1, .register k, .setPeers i2 l2, .launch k, .setPeers i3 l3, .recv k m]
    s'.log = s.log ++ [{ peer := p, m := m, side := .dialled, vpThen := none }] ∧
    s'.thrs[k]? = some { side := .dialled, peer := p, ph := .running } := by
  simp [Dial.run, Dial.step, Dial.upd, Dial.registerThr, Dial.launchThr, hopen]

/-- witness: the peer with key 9 is in no set; the router dials it and serves its messages -/
theorem c17_dial_to_a_non_member_is_served :
    let s := Dial.run {} [.setPeers [1] [Ident.honest 1], .arrive (Ident.honest 9), .check 0, .dial (Ident.honest 9),
      .register 0, .register 1, .launch 1, .recv 1 7]
    s.vp.isValid (Ident.honest 9) = false ∧ (s.thrs.map (·.ph)) = [.ended, .running] ∧
    s.log = [{ peer := Ident.honest 9, m := 7, side := .dialled, vpThen := none }] := by
  decide

/-- non-vacuity: an accepted and a dialled connection set up in lock step with a replacement of the set in between;
the accepted one keeps the table it was tested against -/
example :
    let s := Dial.run {} [.setPeers [1] [Ident.honest 1], .arrive (Ident.honest 1), .dial (Ident.honest 2), .check 0,
      .setPeers [1] [], .register 1, .register 0, .launch 0, .launch 1, .recv 0 5, .recv 1 6]
    s.log.map (fun e => (e.peer.key, e.m, e.side)) = [(1, 5, .accepted), (2, 6, .dialled)] ∧
    s.vp.isValid (Ident.honest 1) = false := by
  decide


/-! ### the code regions the model stands for
Regenerated from /repo's source on every run (`harness/cmd/astfacts` → `OnetVerif/Shapes.lean`): the
calls that matter for synchronisation and data flow, the lock regions and (for decision logic) the
conditions, in source order.  A re-ordering, a dropped call or a changed condition breaks these
obligations even when no sampled input or schedule shows a difference; the check then searches for
a failing input. -/
theorem c17_shape_router_validPeers_set :
    Shapes.network_router_validPeers_set =
   ["peer.GetID", "lock.Lock", "defer:lock.Unlock"] := rfl

theorem c17_shape_router_validPeers_get :
    Shapes.network_router_validPeers_get =
   ["lock.Lock", "defer:lock.Unlock"] := rfl

theorem c17_shape_router_validPeers_isValid :
    Shapes.network_router_validPeers_isValid =
   ["lock.Lock", "defer:lock.Unlock", "if:(vp.peers==nil)", "return:true", "peer.GetID", "if:ok",
     "return:true", "return:false"] := rfl

theorem c17_shape_router_Router_SetValidPeers :
    Shapes.network_router_Router_SetValidPeers =
   ["validPeers.set"] := rfl

theorem c17_shape_router_Router_isPeerValid :
    Shapes.network_router_Router_isPeerValid =
   ["validPeers.isValid"] := rfl

theorem c17_shape_Context_SetValidPeers :
    Shapes.context_Context_SetValidPeers =
   ["server.SetValidPeers"] := rfl

theorem c17_shape_Context_GetValidPeers :
    Shapes.context_Context_GetValidPeers =
   ["server.GetValidPeers"] := rfl

theorem c17_shape_Context_NewPeerSetID :
    Shapes.context_Context_NewPeerSetID =
   ["sha256.New", "h.Write", "h.Write", "h.Sum", "network.NewPeerSetID"] := rfl

theorem c17_shape_struct_ServerIdentity_GetID :
    Shapes.network_struct_ServerIdentity_GetID =
   ["ServerIdentityID", "Public.String", "uuid.NewSHA1", "ServerIdentityID"] := rfl

theorem c17_shape_router_Router_GetValidPeers :
    Shapes.network_router_Router_GetValidPeers =
   ["validPeers.get"] := rfl

theorem c17_shape_router_Router_Start :
    Shapes.network_router_Router_Start =
   ["defer:verifC10Point", "r.receiveServerIdentity", "c.Close", "r.isPeerValid", "c.Close",
     "verifC10Point", "r.registerConnection", "c.Close", "verifC10Point",
     "r.launchHandleRoutine", "host.Listen"] := rfl

theorem c17_shape_router_Router_registerConnection :
    Shapes.network_router_Router_registerConnection =
   ["r.Lock", "defer:r.Unlock", "if:r.isClosed", "return:xerrors.Errorf(\"\",ErrClosed)",
     "remote.GetID", "if:okc", "remote.GetID", "remote.GetID", "return:nil"] := rfl

theorem c17_shape_router_Router_launchHandleRoutine :
    Shapes.network_router_Router_launchHandleRoutine =
   ["r.Lock", "defer:r.Unlock", "if:r.isClosed", "return:xerrors.Errorf(\"\",ErrClosed)",
     "wg.Add", "go{", "r.handleConn", "}", "return:nil"] := rfl

theorem c17_shape_router_validPeers_set_c17 :
    Shapes.network_router_validPeers_set_c17 =
   ["assign:newPeers:=make(peerSet)", "range:_,peer:=peers{",
     "assign:newPeers[peer.GetID()]=?{}", "}", "lock.Lock", "defer:lock.Unlock",
     "if:(vp.peers==nil)", "assign:vp.peers=make(conv)", "assign:vp.peers[peerSetID]=newPeers"] := rfl

theorem c17_shape_router_validPeers_get_c17 :
    Shapes.network_router_validPeers_get_c17 =
   ["lock.Lock", "defer:lock.Unlock", "if:(vp.peers==nil)", "return:nil",
     "assign:peerList:=conv{}", "range:peer,:=vp.peers[peerSetID]{",
     "assign:peerList=append(peerList,peer)", "}", "return:peerList"] := rfl

theorem c17_shape_router_validPeers_isValid_c17 :
    Shapes.network_router_validPeers_isValid_c17 =
   ["lock.Lock", "defer:lock.Unlock", "if:(vp.peers==nil)", "return:true", "peer.GetID",
     "assign:peerID:=peer.GetID()", "range:_,peers:=vp.peers{", "assign:_,ok:=peers[peerID]",
     "if:ok", "return:true", "}", "return:false"] := rfl

theorem c17_shape_router_Router_Start_c17 :
    Shapes.network_router_Router_Start_c17 =
   ["if:!r.Quiet", "defer:verifC10Point", "r.receiveServerIdentity",
     "assign:dst,err:=r.receiveServerIdentity(c)", "if:(err!=nil)",
     "if:!strings.Contains(err.Error(),\"\")", "c.Close", "assign:err:=c.Close()",
     "if:(err!=nil)", "return:", "if:!r.isPeerValid(dst)", "c.Close", "assign:err:=c.Close()",
     "if:(err!=nil)", "return:", "verifC10Point", "r.registerConnection",
     "assign:err:=r.registerConnection(dst,c)", "if:(err!=nil)", "c.Close",
     "assign:err:=c.Close()", "if:(err!=nil)", "return:", "verifC10Point",
     "r.launchHandleRoutine", "assign:err:=r.launchHandleRoutine(dst,c)", "if:(err!=nil)",
     "return:", "host.Listen", "assign:err:=r.host.Listen(func)", "if:(err!=nil)"] := rfl

theorem c17_shape_router_Router_registerConnection_c17 :
    Shapes.network_router_Router_registerConnection_c17 =
   ["r.Lock", "defer:r.Unlock", "if:r.isClosed", "return:xerrors.Errorf(\"\",ErrClosed)",
     "remote.GetID", "assign:_,okc:=r.connections[remote.GetID()]", "if:okc", "remote.GetID",
     "assign:r.connections[remote.GetID()]=append(r.connections[remote.GetID()],c)",
     "return:nil"] := rfl

theorem c17_shape_router_Router_handleConn_c17 :
    Shapes.network_router_Router_handleConn_c17 =
   ["defer{", "c.Close", "assign:err:=c.Close()", "if:(err!=nil)", "c.Rx", "c.Tx",
     "assign:rx,tx:=c.Rx(),c.Tx()", "traffic.updateRx", "traffic.updateTx", "wg.Done",
     "r.removeConnection", "verifC10Point", "}", "verifC10Point", "c.Remote",
     "assign:address:=c.Remote()", "for:{", "c.Receive", "assign:packet,err:=c.Receive()",
     "verifC10Point", "r.Lock", "assign:paused:=r.paused", "r.Unlock", "if:(paused!=nil)",
     "recv:paused", "return:", "if:r.Closed()",
     "return:", "if:(err!=nil)", "if:xerrors.Is(err,ErrTimeout)",
     "r.triggerConnectionErrorHandlers", "return:",
     "if:(xerrors.Is(err,ErrClosed)||xerrors.Is(err,ErrEOF))",
     "r.triggerConnectionErrorHandlers", "return:", "if:xerrors.Is(err,ErrUnknown)",
     "r.triggerConnectionErrorHandlers", "return:", "continue",
     "assign:packet.ServerIdentity=remote", "verifC10Point", "msgTraffic.updateRx", "r.Dispatch",
     "assign:err:=r.Dispatch(packet)", "if:(err!=nil)", "}"] := rfl

theorem c17_shape_Context_NewPeerSetID_c17 :
    Shapes.context_Context_NewPeerSetID_c17 =
   ["sha256.New", "assign:h:=sha256.New()", "h.Write", "h.Write",
     "return:network.NewPeerSetID(h.Sum(nil))"] := rfl


theorem c17_shape_router_Router_receiveServerIdentity_b7d :
    Shapes.network_router_Router_receiveServerIdentity_b7d =
   ["c.Receive", "assign:nm,err:=c.Receive()", "if:(err!=nil)",
     "return:nil,xerrors.Errorf(\"\",err)", "if:(nm.MsgType!=ServerIdentityType)",
     "return:nil,xerrors.Errorf(\"\",nm.MsgType.String())",
     "assign:dst:=nm.Msg.(ServerIdentity)", "assign:tcpConn,ok:=c.(TCPConn)", "if:ok",
     "assign:tlsConn,ok:=tcpConn.conn.(tls.Conn)", "if:ok", "tlsConn.ConnectionState",
     "assign:cs:=tlsConn.ConnectionState()", "if:(len(cs.PeerCertificates)==0)",
     "return:nil,xerrors.New(\"\")", "pubFromCN",
     "assign:pub,err:=pubFromCN(tcpConn.suite,cs.PeerCertificates[0].Subject.CommonName)",
     "if:(err!=nil)", "return:nil,xerrors.Errorf(\"\",err)", "if:!pub.Equal(dst.Public)",
     "return:nil,xerrors.New(\"\")", "else", "if:!r.UnauthOk", "return:dst,nil"] := rfl

end C17
