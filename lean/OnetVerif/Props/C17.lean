import OnetVerif.Model.C17
import OnetVerif.Shapes
/-! Property C17 — valid-peer sets decide exactly who may connect.
Property theorems (`c17_…`), the lemmas they need, witnesses and non-vacuity examples. -/
namespace C17

/-- the reference semantics: a map of sets. A peer — identified by its **key** — is valid while no
set was ever given, or when the id of its key is a member of some current set. -/
def SpecValid (vp : VP) (k : Key) : Prop :=
  vp = none ∨ ∃ id ps, vp.get id = some ps ∧ idOfKey k ∈ ps

/-- the Go map has one entry per key -/
def VP.WF (vp : VP) : Prop :=
  match vp with
  | none => True
  | some m => (m.map (·.1)).Nodup

/-! ### association-list facts -/

theorem lookup_mem {m : List (SetId × List PeerId)} {id : SetId} {ps : List PeerId}
    (h : m.lookup id = some ps) : (id, ps) ∈ m := by
  induction m with
  | nil => simp [List.lookup] at h
  | cons e m ih =>
    obtain ⟨a, b⟩ := e
    simp only [List.lookup] at h
    split at h
    · rename_i heq
      have : id = a := by simpa using heq
      cases h; subst this; simp
    · exact List.mem_cons_of_mem _ (ih h)

theorem lookup_of_mem_nodup {m : List (SetId × List PeerId)} {id : SetId} {ps : List PeerId}
    (hn : (m.map (·.1)).Nodup) (h : (id, ps) ∈ m) : m.lookup id = some ps := by
  induction m with
  | nil => simp at h
  | cons e m ih =>
    obtain ⟨a, b⟩ := e
    simp only [List.map_cons, List.nodup_cons] at hn
    rcases List.mem_cons.mp h with h1 | h2
    · cases h1; simp [List.lookup]
    · have hne : id ≠ a := by
        intro e
        exact hn.1 (List.mem_map.mpr ⟨(id, ps), h2, e⟩)
      have : (id == a) = false := by simpa using hne
      simp only [List.lookup, this]
      exact ih hn.2 h2

theorem lookup_filter_ne (m : List (SetId × List PeerId)) (id id' : SetId) (h : id' ≠ id) :
    (m.filter (fun e => e.1 != id)).lookup id' = m.lookup id' := by
  induction m with
  | nil => rfl
  | cons e m ih =>
    obtain ⟨a, b⟩ := e
    by_cases ha : a = id
    · subst ha
      have h1 : (id' == a) = false := by simpa using h
      simp [List.filter, List.lookup, h1, ih]
    · have h2 : (a != id) = true := by simpa using ha
      simp only [List.filter, h2, List.lookup]
      split <;> simp_all

/-! ### the table -/

theorem set_wf (vp : VP) (id : SetId) (peers : List Ident) (h : vp.WF) : (vp.set id peers).WF := by
  simp only [VP.set, VP.WF, List.map_cons, List.nodup_cons]
  constructor
  · intro hm
    obtain ⟨e, he, heq⟩ := List.mem_map.mp hm
    have := (List.mem_filter.mp he).2
    simp at this
    exact this heq
  · have hsub : ((vp.getD []).filter (fun e => e.1 != id)).map (·.1) |>.Sublist ((vp.getD []).map (·.1)) :=
      List.Sublist.map _ List.filter_sublist
    have hn : ((vp.getD []).map (·.1)).Nodup := by
      cases vp with
      | none => simp
      | some m => exact h
    exact hn.sublist hsub

/-- **`isValid` is the reference semantics, read on the key**: valid ↔ uninitialised ∨ the id of
the key is in some current set. The wire-supplied `ID` field plays no part. -/
theorem c17_valid_iff (vp : VP) (h : vp.WF) (p : Ident) :
    vp.isValid p = true ↔ SpecValid vp p.key := by
  cases vp with
  | none => simp [VP.isValid, SpecValid]
  | some m =>
    simp only [VP.isValid, SpecValid, List.any_eq_true, VP.get, Ident.getID]
    constructor
    · rintro ⟨⟨id, ps⟩, he, hc⟩
      refine .inr ⟨id, ps, ?_, by simpa using hc⟩
      rw [lookup_of_mem_nodup h he]; rfl
    · rintro (h0 | ⟨id, ps, hg, hin⟩)
      · cases h0
      · cases hl : m.lookup id with
        | none => rw [hl] at hg; cases hg; simp at hin
        | some ps' =>
          rw [hl] at hg; simp at hg; subst hg
          exact ⟨(id, ps'), lookup_mem hl, by simpa using hin⟩

/-- the answer of the filter does not depend on the `ID` field a peer declares -/
theorem c17_idfield_irrelevant (vp : VP) (k : Key) (f f' : PeerId) :
    vp.isValid ⟨k, f⟩ = vp.isValid ⟨k, f'⟩ := rfl

/-- **reading a set back returns exactly its members** (ids of the keys given) -/
theorem c17_get_exact (vp : VP) (id : SetId) (peers : List Ident) :
    (vp.set id peers).get id = some (peers.map Ident.getID) := by
  simp [VP.set, VP.get, List.lookup]

/-- **replacing one set changes only that set**: once the table exists, every other set reads
back unchanged -/
theorem c17_set_frame (vp : VP) (id id' : SetId) (peers : List Ident) (hinit : vp ≠ none)
    (hne : id' ≠ id) : (vp.set id peers).get id' = vp.get id' := by
  cases vp with
  | none => exact absurd rfl hinit
  | some m =>
    have h1 : (id' == id) = false := by simpa using hne
    simp only [VP.set, VP.get, List.lookup, h1, Option.getD_some]
    rw [lookup_filter_ne m id id' hne]

/-- the first set ever given initialises the table: every other id now reads as the empty set
(nobody), no longer as "uninitialised" (everybody) -/
theorem c17_first_set (id id' : SetId) (peers : List Ident) (hne : id' ≠ id) :
    (VP.set none id peers).get id' = some [] := by
  have h1 : (id' == id) = false := by simpa using hne
  simp [VP.set, VP.get, List.lookup, h1]

/-- members of the other sets stay valid when one set is replaced (also by the empty set) -/
theorem c17_set_keeps_others (vp : VP) (id id' : SetId) (peers : List Ident) (ps : List PeerId)
    (k : Key) (hne : id' ≠ id) (hg : vp.get id' = some ps) (hin : idOfKey k ∈ ps) :
    SpecValid (vp.set id peers) k := by
  have hinit : vp ≠ none := by intro e; subst e; simp [VP.get] at hg
  exact .inr ⟨id', ps, by rw [c17_set_frame vp id id' peers hinit hne]; exact hg, hin⟩

/-- after `set id peers`, exactly the peers given are valid through `id` -/
theorem c17_set_members (vp : VP) (id : SetId) (peers : List Ident) (p : Ident) (h : p ∈ peers) :
    SpecValid (vp.set id peers) p.key :=
  .inr ⟨id, _, c17_get_exact vp id peers, List.mem_map.mpr ⟨p, h, rfl⟩⟩

/-! ### histories -/

/-- what holds in every reachable state: the table is a map, and every registered connection was
either dialled by this router or offered by a peer whose **key** was valid at that moment -/
def Inv (s : State) : Prop :=
  s.vp.WF ∧ ∀ c ∈ s.conns, match c.origin with
    | .offered vp0 => SpecValid vp0 c.peer.key
    | .dialled => True

theorem inv_init : Inv {} := by simp [Inv, VP.WF]

theorem inv_step (s : State) (op : Op) (h : Inv s) : Inv (step s op).1 := by
  obtain ⟨hw, hc⟩ := h
  cases op with
  | setPeers id peers => exact ⟨set_wf _ _ _ hw, hc⟩
  | getPeers id => exact ⟨hw, hc⟩
  | offer p m =>
    simp only [step]
    split
    · rename_i hv
      refine ⟨hw, ?_⟩
      intro c hin
      rcases List.mem_append.mp hin with hin | hin
      · exact hc c hin
      · simp at hin; subst hin
        exact (c17_valid_iff s.vp hw p).mp hv
    · exact ⟨hw, hc⟩
  | msg k m =>
    simp only [step]
    split <;> exact ⟨hw, hc⟩
  | dial p =>
    refine ⟨hw, ?_⟩
    intro c hin
    simp only [step] at hin
    rcases List.mem_append.mp hin with hin | hin
    · exact hc c hin
    · simp at hin; subst hin; trivial
  | drop k =>
    refine ⟨hw, ?_⟩
    intro c hin
    simp only [step] at hin
    exact hc c (List.mem_filter.mp hin).1

theorem inv_run (s : State) (ops : List Op) (h : Inv s) : Inv (run s ops).1 := by
  induction ops generalizing s with
  | nil => exact h
  | cons op l ih => exact ih _ (inv_step s op h)

/-- **histories**: after *every* sequence of set / replace / read operations, connection attempts,
messages, dialled connections and drops,

* a connection offered by a peer is accepted — and its message dispatched — **iff** the peer's
  *key* is valid at that moment (no table yet, or in some current set): members are never refused,
  non-members never served, whatever `ID` field they declare;
* a refused offer leaves no trace (state unchanged, nothing dispatched);
* a message is dispatched only over a registered connection, and every registered connection was
  either opened by this router itself or accepted while its peer's key was valid. -/
theorem c17_history (ops : List Op) :
    let s := (run {} ops).1
    (∀ p m, ((step s (.offer p m)).2 = .dispatched p m ↔ SpecValid s.vp p.key) ∧
            (¬ SpecValid s.vp p.key → step s (.offer p m) = (s, .refused))) ∧
    (∀ k m q, (step s (.msg k m)).2 = .dispatched q m →
        ∃ c ∈ s.conns, c.peer = q ∧ q.key = k ∧
          (c.origin = .dialled ∨ ∃ vp0, c.origin = .offered vp0 ∧ SpecValid vp0 k)) := by
  intro s
  have hinv : Inv s := inv_run {} ops inv_init
  obtain ⟨hw, hc⟩ := hinv
  refine ⟨fun p m => ?_, fun k m q hd => ?_⟩
  · have hiff := c17_valid_iff s.vp hw p
    constructor
    · simp only [step]
      constructor
      · intro h
        split at h
        · rename_i hv; exact hiff.mp hv
        · cases h
      · intro h
        rw [if_pos (hiff.mpr h)]
    · intro hn
      have : ¬ s.vp.isValid p = true := fun hv => hn (hiff.mp hv)
      simp only [step]
      rw [if_neg this]
  · simp only [step] at hd
    split at hd
    · rename_i c hf
      have hq : c.peer = q := by simpa using congrArg (fun o => match o with | Obs.dispatched p _ => p | _ => q) hd
      have hmem := List.mem_of_find?_eq_some hf
      have hk : c.peer.key = k := by simpa using List.find?_some hf
      refine ⟨c, hmem, hq, by rw [← hq]; exact hk, ?_⟩
      have := hc c hmem
      cases ho : c.origin with
      | dialled => exact .inl rfl
      | offered vp0 =>
        rw [ho] at this
        exact .inr ⟨vp0, rfl, by rw [← hk]; exact this⟩
    · cases hd

/-! ### what the theorem does not say — recorded so nobody reads more into it -/

private def setA : SetId := newPeerSetID [1]
private def setB : SetId := newPeerSetID [2]

/-- connections this router opens itself are not filtered: after dialling a peer that is in none
of the sets, that peer's messages are dispatched -/
theorem c17_outgoing_unfiltered :
    (run {} [.setPeers setA [Ident.honest 1], .dial (Ident.honest 9), .msg 9 5]).2
      = [.done, .done, .dispatched (Ident.honest 9) 5] := by decide

/-- the filter acts when a connection is offered, not afterwards: a peer accepted while it was a
member keeps its connection when a later `set` removes it (a *new* connection is refused) -/
theorem c17_not_retroactive :
    (run {} [.setPeers setA [Ident.honest 1], .offer (Ident.honest 1) 1, .setPeers setA [],
             .msg 1 2, .offer (Ident.honest 1) 3]).2
      = [.done, .dispatched (Ident.honest 1) 1, .done, .dispatched (Ident.honest 1) 2, .refused] := by
  decide

/-- the defect that was repaired: tested on the wire-supplied field, a peer in none of the sets
that copies a member's id into its identity passes — its key is not valid. -/
theorem c17_forged_field_witness :
    let vp := VP.set none setA [Ident.honest 1]
    let forged : Ident := ⟨9, idOfKey 1⟩
    vp.isValidByField forged = true ∧ vp.isValid forged = false ∧ ¬ SpecValid vp forged.key := by
  intro vp forged
  have hw : vp.WF := set_wf none _ _ trivial
  refine ⟨by decide, by decide, fun h => ?_⟩
  have := (c17_valid_iff vp hw forged).mpr h
  exact absurd this (by decide)

/-- set ids derived by two services from the same bytes differ; one service's ids are injective
in the bytes (pre-image of the hash; service ids are 16 bytes) -/
theorem c17_ctx_setid_injective (sid sid' d d' : List Nat) (h : sid.length = 16) (h' : sid'.length = 16)
    (heq : ctxPeerSetID sid d = ctxPeerSetID sid' d') : sid = sid' ∧ d = d' :=
  List.append_inj heq (by omega)

/-- router-level ids are the bytes padded with zeros / cut to 32: `[1]` and `[1,0]` name the same set -/
theorem c17_raw_setid_padding : newPeerSetID [1] = newPeerSetID [1, 0] := by decide

/-! ### non-vacuity -/

/-- a history over three sets (one empty), replacement, members, an honest non-member and a
non-member with a forged `ID` field -/
example :
    (run {} [.offer (Ident.honest 7) 0,                       -- before any set: everybody
             .setPeers setA [Ident.honest 1, Ident.honest 2],
             .setPeers setB [],
             .offer (Ident.honest 1) 1, .offer (Ident.honest 9) 2, .offer ⟨9, idOfKey 1⟩ 3,
             .setPeers setA [⟨3, 0⟩],                          -- member given with an empty ID field
             .offer (Ident.honest 3) 4, .offer (Ident.honest 2) 5,
             .getPeers setA, .getPeers setB, .getPeers (newPeerSetID [3])]).2
      = [.dispatched (Ident.honest 7) 0, .done, .done,
         .dispatched (Ident.honest 1) 1, .refused, .refused,
         .done, .dispatched (Ident.honest 3) 4, .refused,
         .peers (some [3]), .peers (some []), .peers (some [])] := by decide

example : SpecValid (VP.set none setA [Ident.honest 1]) 1 :=
  c17_set_members none setA [Ident.honest 1] (Ident.honest 1) (by simp)

/-! ### the code regions the model stands for
Regenerated from /repo's source on every run (`harness/cmd/astfacts` → `OnetVerif/Shapes.lean`): the
calls that matter for synchronisation and data flow, the lock regions and (for decision logic) the
conditions, in source order.  A re-ordering, a dropped call or a changed condition breaks these
obligations even when no sampled input or schedule shows a difference; the check then searches for
a failing input. -/
theorem c17_shape_router_validPeers_set :
    Shapes.network_router_validPeers_set =
   ["peer.GetID", "lock.Lock", "defer:lock.Unlock"] := rfl

theorem c17_shape_router_validPeers_get :
    Shapes.network_router_validPeers_get =
   ["lock.Lock", "defer:lock.Unlock"] := rfl

theorem c17_shape_router_validPeers_isValid :
    Shapes.network_router_validPeers_isValid =
   ["lock.Lock", "defer:lock.Unlock", "if:(vp.peers==nil)", "return:true", "peer.GetID", "if:ok",
     "return:true", "return:false"] := rfl

theorem c17_shape_router_Router_SetValidPeers :
    Shapes.network_router_Router_SetValidPeers =
   ["validPeers.set"] := rfl

theorem c17_shape_router_Router_isPeerValid :
    Shapes.network_router_Router_isPeerValid =
   ["validPeers.isValid"] := rfl

theorem c17_shape_Context_SetValidPeers :
    Shapes.context_Context_SetValidPeers =
   ["server.SetValidPeers"] := rfl

theorem c17_shape_Context_GetValidPeers :
    Shapes.context_Context_GetValidPeers =
   ["server.GetValidPeers"] := rfl

theorem c17_shape_Context_NewPeerSetID :
    Shapes.context_Context_NewPeerSetID =
   ["sha256.New", "h.Write", "h.Write", "h.Sum", "network.NewPeerSetID"] := rfl

theorem c17_shape_struct_ServerIdentity_GetID :
    Shapes.network_struct_ServerIdentity_GetID =
   ["ServerIdentityID", "Public.String", "uuid.NewSHA1", "ServerIdentityID"] := rfl


end C17
