import OnetVerif.Model.C17
/-! Property C17 — property theorems, negation witnesses, `_partial` variants and non-vacuity
examples only (helper lemmas that need Mathlib go to OnetVerif/Proofs/). -/
namespace C17

end C17
