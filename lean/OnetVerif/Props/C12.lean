import OnetVerif.Model.C12
import OnetVerif.Shapes
/-! Property C12 — generated trees are well-formed and have the documented shape.
Property theorems, negation witness, `_partial` variants, non-vacuity examples and the lemmas they
need (core Lean only). -/
namespace C12

/-! ### arithmetic helpers -/

private theorem div_lo {N : Nat} (x : Nat) : N * (x / N) ≤ x := Nat.mul_div_le x N

private theorem div_hi {N : Nat} (hN : 0 < N) (x : Nat) : x < N * (x / N) + N := by
  have := Nat.lt_mul_div_succ x hN
  rwa [Nat.mul_add, Nat.mul_one] at this

private theorem div_eq_of_block {N : Nat} {x c : Nat} (lo : N * c ≤ x) (hi : x < N * c + N) : x / N = c := by
  apply Nat.div_eq_of_lt_le
  · rwa [Nat.mul_comm]
  · rw [Nat.add_mul, Nat.one_mul, Nat.mul_comm]; exact hi

/-! ### the n-ary generator equals the complete tree in breadth-first order -/

/-- the first `m` nodes of the closed form -/
def closedPrefix (N rootIdx n m : Nat) : Nodes :=
  (List.range m).map fun i => ((i + rootIdx) % n, (i - 1) / N)

/-- parents of nodes `1 … k` in the closed form -/
def closedParents (N k : Nat) : List Nat := (List.range' 1 k).map fun j => (j - 1) / N

private theorem closedPrefix_succ (N r n m : Nat) :
    closedPrefix N r n (m + 1) = closedPrefix N r n m ++ [((m + r) % n, (m - 1) / N)] := by
  simp [closedPrefix, List.range_succ]

private theorem closedPrefix_length (N r n m : Nat) : (closedPrefix N r n m).length = m := by
  simp [closedPrefix]

private theorem closedPrefix_parents (N r n k : Nat) :
    ((closedPrefix N r n (k + 1)).drop 1).map (·.2) = closedParents N k := by
  induction k with
  | zero => simp [closedPrefix, closedParents]
  | succ k ih =>
    rw [closedPrefix_succ, List.drop_append_of_le_length (by simp [closedPrefix_length]), List.map_append, ih]
    simp [closedParents, List.range'_1_concat, Nat.add_comm]

private theorem closedParents_succ (N k : Nat) : closedParents N (k + 1) = closedParents N k ++ [k / N] := by
  simp [closedParents, List.range'_1_concat, Nat.add_comm]

/-- how many of the nodes `1 … k` hang below position `c`, as long as `c`'s block is not yet over -/
private theorem count_closed {N : Nat} (_hN : 0 < N) (c : Nat) :
    ∀ k, k ≤ N * c + N → (closedParents N k).count c = k - N * c := by
  intro k
  induction k with
  | zero => intro _; simp [closedParents]
  | succ k ih =>
    intro hk
    rw [closedParents_succ, List.count_append, ih (by omega), List.count_singleton]
    by_cases h : N * c ≤ k
    · have : k / N = c := div_eq_of_block h (by omega)
      simp [this]; omega
    · have : k / N ≠ c := by
        intro e
        have := div_lo (N := N) k
        rw [e] at this
        exact h this
      simp [this]; omega

/-- in general a position never gets more than `N` children -/
private theorem count_closed_le {N : Nat} (hN : 0 < N) (c k : Nat) : (closedParents N k).count c ≤ N := by
  induction k with
  | zero => simp [closedParents]
  | succ k ih =>
    by_cases hk : k + 1 ≤ N * c + N
    · rw [count_closed hN c (k + 1) hk]; omega
    · rw [closedParents_succ, List.count_append, List.count_singleton]
      have : k / N ≠ c := by
        intro e
        have := div_hi hN k
        rw [e] at this
        omega
      simp [this]; exact ih

/-- when every recorded parent is at most `p` and precedes its child, the descendants of `p` are
exactly its children -/
private theorem descendants_length (p : Nat) :
    ∀ (ps : List Nat) (j : Nat) (acc : List Nat), (∀ x ∈ acc, p < x) → (∀ q ∈ ps, q ≤ p) →
      (∀ i q, ps[i]? = some q → q < j + i) →
      (descendants p ps j acc).length = acc.length + ps.count p := by
  intro ps
  induction ps with
  | nil => intro j acc _ _ _; simp [descendants]
  | cons q rest ih =>
    intro j acc hacc hle hlt
    have hq : q ≤ p := hle q (by simp)
    have hrest : ∀ i q', rest[i]? = some q' → q' < (j + 1) + i := by
      intro i q' h
      have := hlt (i + 1) q' (by simpa using h)
      omega
    have hle' : ∀ q' ∈ rest, q' ≤ p := fun q' h => hle q' (by simp [h])
    unfold descendants
    by_cases hqp : q = p
    · have hj : p < j := by
        have := hlt 0 q (by simp)
        omega
      rw [if_pos (Or.inl hqp), ih (j + 1) (acc ++ [j]) _ hle' hrest]
      · simp [hqp]; omega
      · intro x hx
        simp only [List.mem_append, List.mem_singleton] at hx
        rcases hx with hx | hx
        · exact hacc x hx
        · omega
    · have : ¬ (q = p ∨ q ∈ acc) := by
        intro h
        rcases h with h | h
        · exact hqp h
        · have := hacc q h; omega
      rw [if_neg this, ih (j + 1) acc hacc hle' hrest]
      have : (q == p) = false := by simpa using hqp
      simp [List.count_cons, this]

private theorem subtreeCount_closed {N : Nat} (hN : 0 < N) (r n k : Nat) :
    subtreeCount (closedPrefix N r n (k + 1)) ((k - 1) / N) = k - N * ((k - 1) / N) := by
  unfold subtreeCount
  rw [closedPrefix_parents, descendants_length]
  · simp only [List.length_nil, Nat.zero_add]
    apply count_closed hN
    have := div_hi hN (k - 1)
    omega
  · intro x hx; simp at hx
  · intro q hq
    simp only [closedParents, List.mem_map, List.mem_range'_1] at hq
    obtain ⟨j, hj, rfl⟩ := hq
    exact Nat.div_le_div_right (by omega)
  · intro i q h
    simp only [closedParents, List.getElem?_map, Option.map_eq_some_iff] at h
    obtain ⟨a, ha, rfl⟩ := h
    have ha' : a = 1 + i := by
      rw [List.getElem?_range'] at ha
      · have := Option.some.inj ha; omega
      · have := (List.getElem?_eq_some_iff.mp ha).1; simpa using this
    subst ha'
    have := Nat.div_le_self (1 + i - 1) N
    omega

/-- loop invariant of `GenerateNaryTreeWithRoot` after node `k` was added -/
private def NaryInv (N r n k : Nat) (s : NarySt) : Prop :=
  s.nodes = closedPrefix N r n (k + 1) ∧ s.parents ≠ [] ∧
    s.parents ++ s.children = List.range' ((k - 1) / N) (k + 1 - (k - 1) / N)

private theorem range'_head (a m : Nat) : List.range' a (m + 1) = a :: List.range' (a + 1) m := by
  simp [List.range'_succ]

private theorem naryStep_inv {N : Nat} (hN : 0 < N) (r n k : Nat) (s : NarySt) (h : NaryInv N r n k s) :
    ∃ s', naryStep N r n s (k + 1) = some s' ∧ NaryInv N r n (k + 1) s' := by
  obtain ⟨hnodes, hne, hq⟩ := h
  have hc_lo := div_lo (N := N) (k - 1)
  have hc_hi := div_hi hN (k - 1)
  have hck : (k - 1) / N ≤ k := Nat.le_trans (Nat.div_le_self _ _) (by omega)
  generalize hc : (k - 1) / N = c at *
  -- the queue starts with c
  have hlen : k + 1 - c = (k - c) + 1 := by omega
  rw [hlen, range'_head] at hq
  obtain ⟨p0, prest, hp⟩ : ∃ p0 prest, s.parents = p0 :: prest := by
    cases hs : s.parents with
    | nil => exact absurd hs hne
    | cons a b => exact ⟨a, b, rfl⟩
  rw [hp, List.cons_append, List.cons.injEq] at hq
  obtain ⟨hp0, hrest⟩ := hq
  subst hp0
  have hcount : subtreeCount s.nodes p0 = k - N * p0 := by
    rw [hnodes, ← hc]; exact subtreeCount_closed hN r n k
  have hlen' : s.nodes.length = k + 1 := by rw [hnodes, closedPrefix_length]
  have hnew : ∀ q, s.nodes ++ [((k + 1 + r) % n, q)] = closedPrefix N r n (k + 2) → True := fun _ _ => trivial
  unfold naryStep
  simp only [hp, hcount]
  by_cases hfull : k - N * p0 = N
  · -- the current parent is full: it leaves the queue
    have hk : k = N * p0 + N := by omega
    have hnext : k / N = p0 + 1 := div_eq_of_block (by rw [Nat.mul_add]; omega) (by rw [Nat.mul_add]; omega)
    have hpos : 1 ≤ k - p0 := by
      have : p0 + 1 ≤ N * p0 + N := by
        have := Nat.mul_le_mul_right (p0 + 1) hN
        rw [Nat.one_mul, Nat.mul_add, Nat.mul_one] at this
        exact this
      omega
    obtain ⟨m, hm⟩ : ∃ m, k - p0 = m + 1 := ⟨k - p0 - 1, by omega⟩
    rw [hm, range'_head] at hrest
    simp only [hfull, if_true]
    cases hpr : prest with
    | nil =>
      rw [hpr, List.nil_append] at hrest
      simp only [List.isEmpty_nil, if_true, hrest]
      refine ⟨_, rfl, ?_, by simp, ?_⟩
      · rw [hnodes, show k + 1 + 1 = (k + 1) + 1 from rfl, closedPrefix_succ N r n (k + 1)]
        simp [hnext]
      · simp only [Nat.add_sub_cancel, hnext, hlen', List.nil_append]
        rw [show k + 1 + 1 - (p0 + 1) = (m + 1) + 1 by omega, List.range'_1_concat (n := m + 1), range'_head]
        simp; omega
    | cons a b =>
      rw [hpr] at hrest
      simp only [List.cons_append, List.cons.injEq] at hrest
      simp only [List.isEmpty_cons, Bool.false_eq_true, if_false]
      refine ⟨_, rfl, ?_, by simp, ?_⟩
      · rw [hnodes, show k + 1 + 1 = (k + 1) + 1 from rfl, closedPrefix_succ N r n (k + 1)]
        simp [hnext, hrest.1]
      · simp only [Nat.add_sub_cancel, hnext, hlen']
        rw [show k + 1 + 1 - (p0 + 1) = (m + 1) + 1 by omega, List.range'_1_concat (n := m + 1), range'_head]
        simp only [List.cons_append, List.cons.injEq, hrest.1, true_and]
        rw [← List.append_assoc, hrest.2]
        simp; omega
  · -- the current parent takes the new node
    have hk : k < N * p0 + N := by omega
    have hnext : k / N = p0 := div_eq_of_block (by omega) hk
    simp only [hfull, if_false, List.isEmpty_cons, Bool.false_eq_true]
    refine ⟨_, rfl, ?_, by simp, ?_⟩
    · rw [hnodes, show k + 1 + 1 = (k + 1) + 1 from rfl, closedPrefix_succ N r n (k + 1)]
      simp [hnext]
    · simp only [Nat.add_sub_cancel, hnext, hlen']
      rw [show k + 1 + 1 - p0 = (k - p0 + 1) + 1 by omega, List.range'_1_concat (n := k - p0 + 1), range'_head]
      simp only [List.cons_append, List.cons.injEq, true_and]
      rw [← List.append_assoc, hrest]
      simp; omega

private theorem naryLoop_inv {N : Nat} (hN : 0 < N) (r n : Nat) :
    ∀ (m k : Nat) (s : NarySt), NaryInv N r n k s →
      ∃ s', naryLoop N r n (List.range' (k + 1) m) s = some s' ∧ NaryInv N r n (k + m) s' := by
  intro m
  induction m with
  | zero => intro k s h; exact ⟨s, by simp [naryLoop], h⟩
  | succ m ih =>
    intro k s h
    obtain ⟨s1, hs1, h1⟩ := naryStep_inv hN r n k s h
    obtain ⟨s2, hs2, h2⟩ := ih (k + 1) s1 h1
    refine ⟨s2, ?_, by rw [show k + (m + 1) = k + 1 + m by omega]; exact h2⟩
    rw [range'_head]
    simp only [naryLoop, hs1]
    exact hs2

/-- **the n-ary generator builds the complete N-ary tree in breadth-first order**: for every
branching factor `N ≥ 1`, roster size `n ≥ 1` and root position, the node created `i`-th hosts
roster member `(i + root) mod n` and hangs below the node created `(i − 1)/N`-th. -/
theorem c12_nary_is_complete (N n rootIdx : Nat) (hN : 1 ≤ N) (hn : 1 ≤ n) (hr : rootIdx < n) :
    genNary N (some rootIdx) n = .tree (naryClosed N rootIdx n) := by
  have h0 : NaryInv N rootIdx n 0 { nodes := [(rootIdx, 0)], parents := [0], children := [] } := by
    refine ⟨?_, by simp, ?_⟩
    · simp [closedPrefix, Nat.mod_eq_of_lt hr]
    · simp
  obtain ⟨s, hs, hinv⟩ := naryLoop_inv hN rootIdx n (n - 1) 0 _ h0
  simp only [genNary, Nat.zero_add] at hs ⊢
  rw [hs]
  simp only [Outcome.tree.injEq]
  rw [hinv.1, show 0 + (n - 1) + 1 = n by omega]
  rfl

/-- asking for a root that is not in the roster yields no tree -/
theorem c12_unknown_root_none (N n : Nat) : genNary N none n = .noTree := rfl

/-- the closed form: size, root, roster positions, parent links -/
theorem c12_nary_shape (N n rootIdx : Nat) (hn : 1 ≤ n) (hr : rootIdx < n) :
    (naryClosed N rootIdx n).length = n ∧
    (naryClosed N rootIdx n)[0]? = some (rootIdx, 0) ∧
    (∀ i, i < n → (naryClosed N rootIdx n)[i]? = some ((i + rootIdx) % n, (i - 1) / N)) ∧
    (∀ i m p, 1 ≤ i → (naryClosed N rootIdx n)[i]? = some (m, p) → p < i) := by
  have h3 : ∀ i, i < n → (naryClosed N rootIdx n)[i]? = some ((i + rootIdx) % n, (i - 1) / N) := by
    intro i hi
    simp [naryClosed, hi]
  refine ⟨by simp [naryClosed], ?_, h3, ?_⟩
  · rw [h3 0 (by omega)]
    simp [Nat.mod_eq_of_lt hr]
  · intro i m p hi h
    simp only [naryClosed, List.getElem?_map, Option.map_eq_some_iff] at h
    obtain ⟨a, ha, he⟩ := h
    have : a = i := by
      rw [List.getElem?_range] at ha
      · exact (Option.some.inj ha).symm
      · have := (List.getElem?_eq_some_iff.mp ha).1; simpa using this
    subst this
    simp only [Prod.mk.injEq] at he
    have := Nat.div_le_self (a - 1) N
    omega

/-- **levels are filled breadth-first, at most `N` children per node**: the children of the node
at position `p` are exactly the positions `N·p+1 … N·p+N` (as far as they exist) -/
theorem c12_nary_children_block (N : Nat) (hN : 1 ≤ N) (i p : Nat) (hi : 1 ≤ i) :
    (i - 1) / N = p ↔ N * p + 1 ≤ i ∧ i ≤ N * p + N := by
  constructor
  · intro h
    have h1 := div_lo (N := N) (i - 1)
    have h2 := div_hi hN (i - 1)
    rw [h] at h1 h2
    omega
  · intro ⟨h1, h2⟩
    exact div_eq_of_block (by omega) (by omega)

theorem c12_nary_branching (N n rootIdx : Nat) (hN : 1 ≤ N) (p : Nat) :
    (((naryClosed N rootIdx n).drop 1).map (·.2)).count p ≤ N := by
  cases n with
  | zero => simp [naryClosed]
  | succ k =>
    have : naryClosed N rootIdx (k + 1) = closedPrefix N rootIdx (k + 1) (k + 1) := rfl
    rw [this, closedPrefix_parents]
    exact count_closed_le hN p k

private theorem rot_mod {n r i : Nat} (hi : i < n) (hr : r < n) :
    (i + r) % n = if i + r < n then i + r else i + r - n := by
  split
  · next h => exact Nat.mod_eq_of_lt h
  · next h =>
    rw [Nat.mod_eq_sub_mod (by omega)]
    exact Nat.mod_eq_of_lt (by omega)

/-- **exactly one node per roster member** (hence pairwise distinct node identifiers when the
servers' keys are pairwise distinct): the positions ↦ members map is a bijection of `0 … n−1` -/
theorem c12_nary_one_node_per_member (n rootIdx : Nat) (hr : rootIdx < n) :
    (∀ i j, i < n → j < n → (i + rootIdx) % n = (j + rootIdx) % n → i = j) ∧
    (∀ m, m < n → ∃ i, i < n ∧ (i + rootIdx) % n = m) := by
  constructor
  · intro i j hi hj h
    rw [rot_mod hi hr, rot_mod hj hr] at h
    split at h <;> split at h <;> omega
  · intro m hm
    by_cases h : rootIdx ≤ m
    · exact ⟨m - rootIdx, by omega, by rw [rot_mod (by omega) hr]; split <;> omega⟩
    · exact ⟨m + n - rootIdx, by omega, by rw [rot_mod (by omega) hr]; split <;> omega⟩

/-- **binary and star are the special cases** `N = 2` and `N = n − 1` with the first server as root;
the star is the root with every other server as its child, in roster order -/
theorem c12_binary_star_special (n : Nat) (hn : 1 ≤ n) :
    genBinary n = .tree (naryClosed 2 0 n) ∧
    genStar n = .tree ((List.range n).map fun i => (i, 0)) := by
  constructor
  · exact c12_nary_is_complete 2 n 0 (by omega) hn (by omega)
  · by_cases h1 : n = 1
    · subst h1; rfl
    · unfold genStar genNaryFirst
      rw [c12_nary_is_complete (n - 1) n 0 (by omega) hn (by omega)]
      simp only [naryClosed, Outcome.tree.injEq]
      apply List.map_congr_left
      intro i hi
      have hi' : i < n := by simpa using hi
      simp only [Nat.add_zero, Prod.mk.injEq]
      exact ⟨Nat.mod_eq_of_lt hi', Nat.div_eq_of_lt (by omega)⟩

/-- non-vacuity / sanity: seven servers, binary, root 3 -/
example : genNary 2 (some 3) 7 = .tree [(3, 0), (4, 0), (5, 0), (6, 1), (0, 1), (1, 2), (2, 2)] := by decide

/-- outside the domain of the statements above: a branching factor 0 with more than one server
makes the loop index an empty slice -/
example : genNary 0 (some 0) 3 = .panic := by decide

/-! ### the big generator: shape -/

/-- parent indices of the nodes of a new level: the `i`-th parent of a level of `L` parents appears
`min N (rem·(i+1)/L)` times, where `rem` is what is left to create when its turn comes -/
def levelParents (N L : Nat) : (i todo rem : Nat) → List Nat
  | _, 0, _ => []
  | i, todo + 1, rem =>
    List.replicate (min N (rem * (i + 1) / L)) i ++ levelParents N L (i + 1) todo (rem - min N (rem * (i + 1) / L))

/-- the documented level sizes after a level of `prev` nodes with `rem` nodes left: `N` times the
previous level, or what is left -/
def levelSizes (N : Nat) : (fuel prev rem : Nat) → List Nat
  | 0, _, _ => []
  | fuel + 1, prev, rem => if rem = 0 then [] else
    min (N * prev) rem :: levelSizes N fuel (min (N * prev) rem) (rem - min (N * prev) rem)

/-- the same, written with powers: level `k` holds `min (N^k) remaining` nodes -/
def levelSizesPow (N : Nat) : (fuel k rem : Nat) → List Nat
  | 0, _, _ => []
  | fuel + 1, k, rem => if rem = 0 then [] else
    min (N ^ k) rem :: levelSizesPow N fuel (k + 1) (rem - min (N ^ k) rem)

private theorem lp_mem (N L : Nat) : ∀ todo i rem x, x ∈ levelParents N L i todo rem → i ≤ x ∧ x < i + todo := by
  intro todo
  induction todo with
  | zero => intro i rem x h; simp [levelParents] at h
  | succ t ih =>
    intro i rem x h
    simp only [levelParents, List.mem_append, List.mem_replicate] at h
    rcases h with h | h
    · omega
    · have := ih _ _ _ h; omega

private theorem lp_count_le (N L : Nat) : ∀ todo i rem p, (levelParents N L i todo rem).count p ≤ N := by
  intro todo
  induction todo with
  | zero => intro i rem p; simp [levelParents]
  | succ t ih =>
    intro i rem p
    simp only [levelParents, List.count_append, List.count_replicate]
    by_cases h : i = p
    · subst h
      have : (levelParents N L (i + 1) t (rem - min N (rem * (i + 1) / L))).count i = 0 := by
        apply List.count_eq_zero.mpr
        intro hm
        have := lp_mem N L _ _ _ _ hm
        omega
      simp [this]; omega
    · have : (i == p) = false := by simpa using h
      simp [this]; exact ih _ _ _

private theorem lp_len_full (N L : Nat) (hL : 0 < L) : ∀ todo i rem, i + todo = L → N * todo ≤ rem →
    (levelParents N L i todo rem).length = N * todo := by
  intro todo
  induction todo with
  | zero => intro i rem _ _; simp [levelParents]
  | succ t ih =>
    intro i rem hiL hrem
    have hNt : N * (t + 1) = N * t + N := Nat.mul_succ N t
    have hq : N ≤ rem * (i + 1) / L := by
      apply (Nat.le_div_iff_mul_le hL).mpr
      have h1 : L ≤ (t + 1) * (i + 1) := by
        have : t ≤ t * (i + 1) := Nat.le_mul_of_pos_right t (by omega)
        rw [Nat.add_mul, Nat.one_mul]; omega
      calc N * L ≤ N * ((t + 1) * (i + 1)) := Nat.mul_le_mul_left N h1
        _ = (N * (t + 1)) * (i + 1) := (Nat.mul_assoc _ _ _).symm
        _ ≤ rem * (i + 1) := Nat.mul_le_mul_right _ hrem
    have hk : min N (rem * (i + 1) / L) = N := Nat.min_eq_left hq
    simp only [levelParents, hk, List.length_append, List.length_replicate]
    rw [ih (i + 1) (rem - N) (by omega) (by omega)]
    omega

private theorem lp_len_part (N L : Nat) (hL : 0 < L) : ∀ todo i rem, i + todo = L → rem ≤ N * todo →
    (levelParents N L i todo rem).length = rem := by
  intro todo
  induction todo with
  | zero => intro i rem _ h; simp [levelParents]; omega
  | succ t ih =>
    intro i rem hiL hrem
    have hNt : N * (t + 1) = N * t + N := Nat.mul_succ N t
    have hqle : rem * (i + 1) / L ≤ rem := by
      apply Nat.div_le_of_le_mul
      rw [Nat.mul_comm L rem]
      exact Nat.mul_le_mul_left rem (by omega)
    have hdiv : ∀ d, d * L ≤ rem * (i + 1) → d ≤ rem * (i + 1) / L := fun d h => (Nat.le_div_iff_mul_le hL).mpr h
    have hd : ¬ rem ≤ N * t → rem - N * t ≤ rem * (i + 1) / L := by
      intro htriv
      -- d = rem − N·t lies in 1 … N and d·L ≤ rem·(i+1)
      apply hdiv
      generalize hdd : rem - N * t = d
      have hremd : rem = N * t + d := by omega
      have hdN : d ≤ N := by omega
      have hL' : L = (i + 1) + t := by omega
      rw [hremd, hL', Nat.mul_add, Nat.add_mul]
      have h1 : d * t ≤ N * t := Nat.mul_le_mul_right t hdN
      have h2 : N * t ≤ N * t * (i + 1) := Nat.le_mul_of_pos_right _ (by omega)
      omega
    simp only [levelParents, List.length_append, List.length_replicate]
    generalize rem * (i + 1) / L = q at *
    have hnext : rem - min N q ≤ N * t := by
      by_cases hcase : N ≤ q
      · rw [Nat.min_eq_left hcase]; omega
      · rw [Nat.min_eq_right (by omega)]
        by_cases htriv : rem ≤ N * t
        · omega
        · have := hd htriv; omega
    rw [ih (i + 1) _ (by omega) hnext]
    have : min N q ≤ rem := Nat.le_trans (Nat.min_le_right _ _) hqle
    omega

/-- a level of `L ≥ 1` parents with `rem` nodes left gets `min (N·L) rem` children -/
private theorem lp_len (N L rem : Nat) (hL : 0 < L) : (levelParents N L 0 L rem).length = min (N * L) rem := by
  by_cases h : N * L ≤ rem
  · rw [lp_len_full N L hL L 0 rem (by omega) h, Nat.min_eq_left h]
  · rw [lp_len_part N L hL L 0 rem (by omega) (by omega), Nat.min_eq_right (by omega)]

/-! the loops of the generator, as far as the shape goes (whatever servers `pick` chooses) -/

private theorem addChildren_spec (c : BigCfg) (pIdx m : Nat) :
    ∀ k st acc st' acc', addChildren c pIdx m k st acc = some (st', acc') →
      st'.total = st.total + k ∧ acc'.map (·.2) = acc.map (·.2) ++ List.replicate k pIdx := by
  intro k
  induction k with
  | zero => intro st acc st' acc' h; simp [addChildren] at h; simp [h.1, h.2]
  | succ k ih =>
    intro st acc st' acc' h
    simp only [addChildren] at h
    split at h
    · simp at h
    · next r _ =>
      obtain ⟨h1, h2⟩ := ih _ _ _ _ h
      refine ⟨by simp [h1]; omega, ?_⟩
      rw [h2]; simp [List.replicate_succ]

private theorem addLevel_spec (c : BigCfg) (L : Nat) :
    ∀ parents i st acc st' acc', addLevel c L parents i st acc = some (st', acc') →
      st'.total = st.total + (levelParents c.N L i parents.length (c.nodes - st.total)).length ∧
      acc'.map (·.2) = acc.map (·.2) ++ levelParents c.N L i parents.length (c.nodes - st.total) := by
  intro parents
  induction parents with
  | nil => intro i st acc st' acc' h; simp [addLevel] at h; simp [levelParents, h.1, h.2]
  | cons p rest ih =>
    intro i st acc st' acc' h
    obtain ⟨m, x⟩ := p
    simp only [addLevel] at h
    split at h
    · simp at h
    · next st1 acc1 h1 =>
      obtain ⟨a1, a2⟩ := addChildren_spec c i m _ _ _ _ _ h1
      obtain ⟨b1, b2⟩ := ih _ _ _ _ _ h
      have hrem : c.nodes - st1.total = c.nodes - st.total - childCount c L i st.total := by rw [a1]; omega
      simp only [List.length_cons, levelParents, List.length_append, List.length_replicate]
      rw [hrem] at b1 b2
      unfold childCount at a1 a2 b1 b2
      refine ⟨by rw [b1, a1]; omega, ?_⟩
      rw [b2, a2, List.append_assoc]

/-- what `c12_big_*` say about the levels below a level `prev` -/
def LevelsOK (N : Nat) : (prev : Level) → List Level → Prop
  | _, [] => True
  | prev, l :: ls => (∀ x ∈ l, x.2 < prev.length) ∧ (∀ p, (l.map (·.2)).count p ≤ N) ∧ LevelsOK N l ls

private theorem bigLoop_spec (c : BigCfg) (hN : 1 ≤ c.N) :
    ∀ fuel levels cur st out, bigLoop c fuel levels cur st = .tree out → st.total ≤ c.nodes → 1 ≤ cur.length →
      ∃ more, out = levels ++ more ∧
        more.map List.length = levelSizes c.N fuel cur.length (c.nodes - st.total) ∧
        LevelsOK c.N cur more ∧ st.total + (more.map List.length).sum = c.nodes := by
  intro fuel
  induction fuel with
  | zero =>
    intro levels cur st out h htot _
    simp only [bigLoop] at h
    split at h
    · simp at h
    · simp only [Outcome.tree.injEq] at h
      exact ⟨[], by simp [h], by simp [levelSizes], trivial, by simp; omega⟩
  | succ fuel ih =>
    intro levels cur st out h htot hcur
    simp only [bigLoop] at h
    split at h
    · next hlt =>
      split at h
      · simp at h
      · next st' nl hl =>
        obtain ⟨a1, a2⟩ := addLevel_spec c cur.length cur 0 st [] st' nl hl
        have hlen : nl.length = min (c.N * cur.length) (c.nodes - st.total) := by
          have := congrArg List.length a2
          simp only [List.map_nil, List.nil_append, List.length_map] at this
          rw [this, lp_len c.N cur.length _ (by omega)]
        rw [lp_len c.N cur.length _ (by omega)] at a1
        have hpos : 1 ≤ c.N * cur.length := Nat.mul_le_mul hN hcur
        obtain ⟨more, m1, m2, m3, m4⟩ := ih _ _ _ _ h (by rw [a1]; omega) (by rw [hlen]; omega)
        refine ⟨nl :: more, by rw [m1]; simp, ?_, ⟨?_, ?_, m3⟩, ?_⟩
        · have hne : c.nodes - st.total ≠ 0 := by omega
          simp only [List.map_cons, levelSizes, hne, if_false, m2, hlen, a1]
          congr 2; omega
        · intro x hx
          have : x.2 ∈ nl.map (·.2) := List.mem_map_of_mem hx
          rw [a2] at this
          have := lp_mem _ _ _ _ _ _ (by simpa using this)
          omega
        · intro p
          rw [a2]; simp only [List.map_nil, List.nil_append]
          exact lp_count_le _ _ _ _ _ _
        · simp only [List.map_cons, List.sum_cons]
          rw [a1] at m4; rw [hlen]; omega
    · simp only [Outcome.tree.injEq] at h
      have hz : c.nodes - st.total = 0 := by omega
      exact ⟨[], by simp [h], by simp [levelSizes, hz], trivial, by simp; omega⟩

private theorem levelSizes_pow (N : Nat) : ∀ fuel k rem,
    levelSizes N fuel (N ^ k) rem = levelSizesPow N fuel (k + 1) rem := by
  intro fuel
  induction fuel with
  | zero => intro k rem; rfl
  | succ fuel ih =>
    intro k rem
    simp only [levelSizes, levelSizesPow]
    have hp : N * N ^ k = N ^ (k + 1) := by rw [Nat.pow_succ, Nat.mul_comm]
    rw [hp]
    split
    · rfl
    · congr 1
      by_cases h : N ^ (k + 1) ≤ rem
      · rw [Nat.min_eq_left h]; exact ih _ _
      · rw [Nat.min_eq_right (by omega)]
        have : rem - rem = 0 := by omega
        rw [this]
        cases fuel <;> simp [levelSizes, levelSizesPow]

/-- **shape of the big tree, whatever the hosts**: if `GenerateBigNaryTree(N, nodes)` returns
(`N ≥ 1`, `nodes ≥ 1`) then the result is the root — the first server — followed by levels whose
sizes are `min (N^k) remaining`, `nodes` nodes in all, every node's parent index lies in the
previous level and no parent index occurs more than `N` times. -/
theorem c12_big_shape (c : BigCfg) (hN : 1 ≤ c.N) (hnodes : 1 ≤ c.nodes) (lv : List Level)
    (h : genBig c = .tree lv) :
    ∃ more, lv = [(0, 0)] :: more ∧
      more.map List.length = levelSizesPow c.N c.nodes 1 (c.nodes - 1) ∧
      LevelsOK c.N [(0, 0)] more ∧ 1 + (more.map List.length).sum = c.nodes := by
  unfold genBig at h
  split at h
  · simp at h
  · obtain ⟨more, m1, m2, m3, m4⟩ := bigLoop_spec c hN _ _ _ _ _ h (by simpa using hnodes) (by simp)
    refine ⟨more, by simpa using m1, ?_, m3, by simpa using m4⟩
    have := levelSizes_pow c.N c.nodes 0 (c.nodes - 1)
    simp only [Nat.pow_zero] at this
    simpa [this] using m2

/-- exactly `nodes` nodes -/
theorem c12_big_size (c : BigCfg) (hN : 1 ≤ c.N) (hnodes : 1 ≤ c.nodes) (lv : List Level)
    (h : genBig c = .tree lv) : (lv.map List.length).sum = c.nodes := by
  obtain ⟨more, rfl, _, _, h4⟩ := c12_big_shape c hN hnodes lv h
  simpa using h4

/-- the root is the first server of the roster -/
theorem c12_big_root (c : BigCfg) (hN : 1 ≤ c.N) (hnodes : 1 ≤ c.nodes) (lv : List Level)
    (h : genBig c = .tree lv) : lv.head? = some [(0, 0)] := by
  obtain ⟨more, rfl, _, _, _⟩ := c12_big_shape c hN hnodes lv h
  rfl

/-- at most `N` children per node, and every parent link points into the previous level -/
theorem c12_big_branching (c : BigCfg) (hN : 1 ≤ c.N) (hnodes : 1 ≤ c.nodes) (lv : List Level)
    (h : genBig c = .tree lv) : ∃ more, lv = [(0, 0)] :: more ∧ LevelsOK c.N [(0, 0)] more := by
  obtain ⟨more, h1, _, h3, _⟩ := c12_big_shape c hN hnodes lv h
  exact ⟨more, h1, h3⟩

/-- level `k` holds `min (N^k) remaining` nodes -/
theorem c12_big_levels (c : BigCfg) (hN : 1 ≤ c.N) (hnodes : 1 ≤ c.nodes) (lv : List Level)
    (h : genBig c = .tree lv) : lv.map List.length = 1 :: levelSizesPow c.N c.nodes 1 (c.nodes - 1) := by
  obtain ⟨more, rfl, h2, _, _⟩ := c12_big_shape c hN hnodes lv h
  simp [h2]

/-! ### the host-avoidance / use-all loop always ends; use-all uses every server once -/

private theorem getD_set (l : List Bool) (i j : Nat) (v : Bool) :
    (l.set i v).getD j false = if i = j ∧ i < l.length then v else l.getD j false := by
  simp only [List.getD_eq_getElem?_getD, List.getElem?_set]
  by_cases h : i = j
  · subst h
    by_cases h2 : i < l.length
    · simp [h2]
    · have : l[i]? = none := by simp; omega
      simp [h2]
  · simp [h]

section pick
variable (c : BigCfg) (used : List Bool) (ph first : Nat)

private theorem pl_stop (fuel ro ch : Nat) (ns : Bool)
    (h : ((ns && ch == ph && decide (c.ilLen > 1)) || (c.useAll && used.getD ro false)) = false) :
    pickLoop c used ph first (fuel + 1) ro ch ns = some ro := by
  simp only [pickLoop, h, Bool.false_eq_true, if_false]

private theorem pl_go (fuel ro ch : Nat) (ns : Bool)
    (h : ((ns && ch == ph && decide (c.ilLen > 1)) || (c.useAll && used.getD ro false)) = true) :
    pickLoop c used ph first (fuel + 1) ro ch ns =
      if (c.useAll && used.getD ((ro + 1) % c.ilLen) false) = true then
        pickLoop c used ph first fuel ((ro + 1) % c.ilLen) ch (if (ro + 1) % c.ilLen == first then false else ns)
      else if ((ro + 1) % c.ilLen == first) = true then some ((ro + 1) % c.ilLen)
      else pickLoop c used ph first fuel ((ro + 1) % c.ilLen) (c.hosts.getD ((ro + 1) % c.ilLen) 0) ns := by
  simp only [pickLoop, h, if_true]

/-- phase 2 (same-host avoidance given up): walks to the next unused server -/
private theorem pl_phase2 (hU : c.useAll = true) (hn : 0 < c.ilLen) :
    ∀ j fuel ro ch, ro < c.ilLen → used.getD ((ro + j) % c.ilLen) false = false → j + 2 ≤ fuel →
      ∃ r, pickLoop c used ph first fuel ro ch false = some r ∧ r < c.ilLen ∧ used.getD r false = false := by
  intro j
  induction j with
  | zero =>
    intro fuel ro ch hro hu hf
    obtain ⟨f, rfl⟩ : ∃ f, fuel = f + 1 := ⟨fuel - 1, by omega⟩
    rw [Nat.add_zero, Nat.mod_eq_of_lt hro] at hu
    exact ⟨ro, pl_stop c used ph first f ro ch false (by rw [hU, hu]; rfl), hro, hu⟩
  | succ j ih =>
    intro fuel ro ch hro hu hf
    obtain ⟨f, rfl⟩ : ∃ f, fuel = f + 1 := ⟨fuel - 1, by omega⟩
    cases h0 : used.getD ro false with
    | false => exact ⟨ro, pl_stop c used ph first f ro ch false (by rw [hU, h0]; rfl), hro, h0⟩
    | true =>
      have hro' : (ro + 1) % c.ilLen < c.ilLen := Nat.mod_lt _ hn
      have hu' : used.getD (((ro + 1) % c.ilLen + j) % c.ilLen) false = false := by
        rw [Nat.mod_add_mod, show ro + 1 + j = ro + (j + 1) by omega]; exact hu
      rw [pl_go c used ph first f ro ch false (by rw [hU, h0]; rfl)]
      have hns : (if (ro + 1) % c.ilLen == first then false else false) = false := by split <;> rfl
      rw [hns]
      cases h1 : used.getD ((ro + 1) % c.ilLen) false with
      | true =>
        rw [if_pos (by rw [hU]; rfl)]
        exact ih f _ ch hro' hu' (by omega)
      | false =>
        rw [if_neg (by rw [hU]; simp)]
        by_cases h2 : ((ro + 1) % c.ilLen == first) = true
        · rw [if_pos h2]; exact ⟨_, rfl, hro', h1⟩
        · rw [if_neg h2]; exact ih f _ _ hro' hu' (by omega)

/-- phase 1 in use-all mode -/
private theorem pl_phase1_all (hU : c.useAll = true) (hn : 0 < c.ilLen)
    (hex : ∃ u, u < c.ilLen ∧ used.getD u false = false) :
    ∀ k fuel ro ch, ro < c.ilLen → first = (ro + k) % c.ilLen → 1 ≤ k → k + c.ilLen + 3 ≤ fuel →
      ∃ r, pickLoop c used ph first fuel ro ch true = some r ∧ r < c.ilLen ∧ used.getD r false = false := by
  intro k
  induction k with
  | zero => intro _ _ _ _ _ h _; omega
  | succ k ih =>
    intro fuel ro ch hro hfirst _ hf
    obtain ⟨f, rfl⟩ : ∃ f, fuel = f + 1 := ⟨fuel - 1, by omega⟩
    have hro' : (ro + 1) % c.ilLen < c.ilLen := Nat.mod_lt _ hn
    have hfirst' : first = ((ro + 1) % c.ilLen + k) % c.ilLen := by
      rw [Nat.mod_add_mod, show ro + 1 + k = ro + (k + 1) by omega]; exact hfirst
    have hk : ¬ ((ro + 1) % c.ilLen == first) = true → 1 ≤ k := by
      intro hne
      cases k with
      | zero => rw [Nat.add_zero, Nat.mod_mod] at hfirst'; simp [hfirst'] at hne
      | succ _ => omega
    cases hc : ((true && ch == ph && decide (c.ilLen > 1)) || (c.useAll && used.getD ro false)) with
    | true =>
      rw [pl_go c used ph first f ro ch true hc]
      cases h1 : used.getD ((ro + 1) % c.ilLen) false with
      | true =>
        rw [if_pos (by rw [hU]; rfl)]
        by_cases h2 : ((ro + 1) % c.ilLen == first) = true
        · rw [if_pos h2]
          obtain ⟨u, hu, huu⟩ := hex
          have hj : ∃ j, j < c.ilLen ∧ ((ro + 1) % c.ilLen + j) % c.ilLen = u := by
            generalize (ro + 1) % c.ilLen = r' at hro'
            by_cases hle : r' ≤ u
            · exact ⟨u - r', by omega, by rw [show r' + (u - r') = u by omega]; exact Nat.mod_eq_of_lt hu⟩
            · exact ⟨u + c.ilLen - r', by omega, by
                rw [show r' + (u + c.ilLen - r') = u + c.ilLen by omega, Nat.add_mod_right]
                exact Nat.mod_eq_of_lt hu⟩
          obtain ⟨j, hjlt, hju⟩ := hj
          exact pl_phase2 c used ph first hU hn j f _ ch hro' (by rw [hju]; exact huu) (by omega)
        · rw [if_neg h2]
          exact ih f _ ch hro' hfirst' (hk h2) (by omega)
      | false =>
        rw [if_neg (by rw [hU]; simp)]
        by_cases h2 : ((ro + 1) % c.ilLen == first) = true
        · rw [if_pos h2]; exact ⟨_, rfl, hro', h1⟩
        · rw [if_neg h2]
          exact ih f _ _ hro' hfirst' (hk h2) (by omega)
    | false =>
      have : used.getD ro false = false := by
        cases hx : used.getD ro false with
        | false => rfl
        | true => rw [hU, hx] at hc; simp at hc
      exact ⟨ro, pl_stop c used ph first f ro ch true hc, hro, this⟩

/-- without use-all the loop comes back to where it started at the latest -/
private theorem pl_phase1_nouse (hU : c.useAll = false) (hn : 0 < c.ilLen) :
    ∀ k fuel ro ch, ro < c.ilLen → first = (ro + k) % c.ilLen → 1 ≤ k → k + 1 ≤ fuel →
      ∃ r, pickLoop c used ph first fuel ro ch true = some r ∧ r < c.ilLen := by
  intro k
  induction k with
  | zero => intro _ _ _ _ _ h _; omega
  | succ k ih =>
    intro fuel ro ch hro hfirst _ hf
    obtain ⟨f, rfl⟩ : ∃ f, fuel = f + 1 := ⟨fuel - 1, by omega⟩
    have hro' : (ro + 1) % c.ilLen < c.ilLen := Nat.mod_lt _ hn
    have hfirst' : first = ((ro + 1) % c.ilLen + k) % c.ilLen := by
      rw [Nat.mod_add_mod, show ro + 1 + k = ro + (k + 1) by omega]; exact hfirst
    have hk : ¬ ((ro + 1) % c.ilLen == first) = true → 1 ≤ k := by
      intro hne
      cases k with
      | zero => rw [Nat.add_zero, Nat.mod_mod] at hfirst'; simp [hfirst'] at hne
      | succ _ => omega
    cases hc : ((true && ch == ph && decide (c.ilLen > 1)) || (c.useAll && used.getD ro false)) with
    | true =>
      rw [pl_go c used ph first f ro ch true hc, if_neg (by rw [hU]; simp)]
      by_cases h2 : ((ro + 1) % c.ilLen == first) = true
      · rw [if_pos h2]; exact ⟨_, rfl, hro'⟩
      · rw [if_neg h2]
        exact ih f _ _ hro' hfirst' (hk h2) (by omega)
    | false => exact ⟨ro, pl_stop c used ph first f ro ch true hc, hro⟩

end pick

/-- what the loops keep true about `used`, `roIndex`, `totalNodes`; `M` are the servers of all
nodes created so far -/
private def StOK (c : BigCfg) (st : BigSt) (M : List Nat) : Prop :=
  st.used.length = c.ilLen ∧ st.roIndex < c.ilLen ∧ (∀ r ∈ M, r < c.ilLen) ∧
  (c.useAll = true → st.used.count true = st.total ∧ M.Nodup ∧ ∀ r, r ∈ M ↔ st.used.getD r false = true)

private theorem exists_unused : ∀ (l : List Bool), l.count true < l.length → ∃ u, u < l.length ∧ l.getD u false = false := by
  intro l
  induction l with
  | nil => intro h; simp at h
  | cons b bs ih =>
    intro h
    cases b with
    | false => exact ⟨0, by simp, by simp⟩
    | true =>
      simp only [List.count_cons_self, List.length_cons] at h
      obtain ⟨u, hu, hv⟩ := ih (by omega)
      exact ⟨u + 1, by simp; omega, by simpa using hv⟩

private theorem count_set_true : ∀ (l : List Bool) (r : Nat), r < l.length → l.getD r false = false →
    (l.set r true).count true = l.count true + 1 := by
  intro l r hr h
  rw [List.count_set hr]
  have : l[r] = false := by
    rw [List.getD_eq_getElem?_getD, List.getElem?_eq_getElem hr] at h
    simpa using h
  simp [this]

private theorem pick_ok (c : BigCfg) (st : BigSt) (M : List Nat) (ph : Nat) (hn : 0 < c.ilLen)
    (hst : StOK c st M) (htot : st.total < c.nodes) :
    ∃ r, pick c st ph = some r ∧ r < c.ilLen ∧ (c.useAll = true → st.used.getD r false = false) := by
  obtain ⟨h1, h2, _, h3⟩ := hst
  have hfirst : st.roIndex = (st.roIndex + c.ilLen) % c.ilLen := by
    rw [Nat.add_mod_right, Nat.mod_eq_of_lt h2]
  unfold pick
  cases hU : c.useAll with
  | true =>
    obtain ⟨hc, _, _⟩ := h3 hU
    have hlen : c.ilLen = c.nodes := by simpa [BigCfg.useAll] using hU
    obtain ⟨u, hu, hv⟩ := exists_unused st.used (by omega)
    obtain ⟨r, hr, hr1, hr2⟩ := pl_phase1_all c st.used ph st.roIndex hU hn ⟨u, by omega, hv⟩ c.ilLen (2 * c.ilLen + 3) st.roIndex
      (c.hosts.getD st.roIndex 0) h2 hfirst (by omega) (by omega)
    exact ⟨r, hr, hr1, fun _ => hr2⟩
  | false =>
    obtain ⟨r, hr, hr1⟩ := pl_phase1_nouse c st.used ph st.roIndex hU hn c.ilLen (2 * c.ilLen + 3) st.roIndex
      (c.hosts.getD st.roIndex 0) h2 hfirst (by omega) (by omega)
    exact ⟨r, hr, hr1, fun h => by simp at h⟩

private theorem addChildren_ok (c : BigCfg) (pIdx m : Nat) (hn : 0 < c.ilLen) :
    ∀ k st acc M, StOK c st M → st.total + k ≤ c.nodes →
      ∃ st' acc', addChildren c pIdx m k st acc = some (st', acc') ∧
        ∃ new, acc'.map (·.1) = acc.map (·.1) ++ new ∧ StOK c st' (M ++ new) := by
  intro k
  induction k with
  | zero => intro st acc M h _; exact ⟨st, acc, rfl, [], by simp, by simpa using h⟩
  | succ k ih =>
    intro st acc M h htot
    obtain ⟨r, hr, hr1, hr2⟩ := pick_ok c st M (c.hosts.getD m 0) hn h (by omega)
    obtain ⟨h1, h2, hM, h3⟩ := h
    have hst1 : StOK c { used := st.used.set r true, roIndex := (r + 1) % c.ilLen, total := st.total + 1 } (M ++ [r]) := by
      refine ⟨by simp [h1], Nat.mod_lt _ hn, ?_, ?_⟩
      · intro x hx
        simp only [List.mem_append, List.mem_singleton] at hx
        rcases hx with hx | hx
        · exact hM x hx
        · subst hx; exact hr1
      intro hU
      obtain ⟨a1, a2, a3⟩ := h3 hU
      have hunused := hr2 hU
      refine ⟨?_, ?_, ?_⟩
      · simp only; rw [count_set_true _ _ (by omega) hunused, a1]
      · rw [List.nodup_append]
        refine ⟨a2, by simp, ?_⟩
        intro a ha b hb
        simp only [List.mem_singleton] at hb
        subst hb
        intro e; subst e
        have := (a3 a).mp ha
        rw [hunused] at this; simp at this
      · intro x
        simp only [List.mem_append, List.mem_singleton, getD_set]
        by_cases hx : r = x
        · subst hx; simp [show r < st.used.length by omega]
        · have : ¬ (r = x ∧ r < st.used.length) := fun h => hx h.1
          simp only [this, if_false, ← a3 x]
          constructor
          · rintro (h | h)
            · exact h
            · exact absurd h.symm hx
          · exact Or.inl
    obtain ⟨st', acc', hs, new, hn1, hn2⟩ := ih _ (acc ++ [(r, pIdx)]) (M ++ [r]) hst1 (by simp; omega)
    refine ⟨st', acc', by simp only [addChildren, hr]; exact hs, r :: new, ?_, ?_⟩
    · rw [hn1]; simp
    · simpa [List.append_assoc] using hn2

private theorem childCount_le (c : BigCfg) (L i total : Nat) (hi : i + 1 ≤ L) :
    childCount c L i total ≤ c.nodes - total := by
  unfold childCount
  apply Nat.le_trans (Nat.min_le_right _ _)
  apply Nat.div_le_of_le_mul
  rw [Nat.mul_comm L]
  exact Nat.mul_le_mul_left _ hi

private theorem addLevel_ok (c : BigCfg) (L : Nat) (hn : 0 < c.ilLen) :
    ∀ parents i st acc M, StOK c st M → i + parents.length = L → st.total ≤ c.nodes →
      ∃ st' acc', addLevel c L parents i st acc = some (st', acc') ∧
        ∃ new, acc'.map (·.1) = acc.map (·.1) ++ new ∧ StOK c st' (M ++ new) := by
  intro parents
  induction parents with
  | nil => intro i st acc M h _ _; exact ⟨st, acc, rfl, [], by simp, by simpa using h⟩
  | cons p rest ih =>
    intro i st acc M h hiL htot
    obtain ⟨m, x⟩ := p
    have hcc := childCount_le c L i st.total (by simp at hiL; omega)
    obtain ⟨st1, acc1, h1, new1, hn1, hs1⟩ := addChildren_ok c i m hn (childCount c L i st.total) st acc M h (by omega)
    have htot1 : st1.total ≤ c.nodes := by
      have := (addChildren_spec c i m _ _ _ _ _ h1).1
      omega
    obtain ⟨st2, acc2, h2, new2, hn2, hs2⟩ := ih (i + 1) st1 acc1 (M ++ new1) hs1 (by simp at hiL; omega) htot1
    refine ⟨st2, acc2, by simp only [addLevel, h1]; exact h2, new1 ++ new2, ?_, ?_⟩
    · rw [hn2, hn1, List.append_assoc]
    · simpa [List.append_assoc] using hs2

/-- all servers placed on the nodes of these levels, in creation order -/
def membersOf (lv : List Level) : List Nat := lv.flatten.map (·.1)


private theorem getD_replicate_false (n i : Nat) : (List.replicate n false).getD i false = false := by
  simp only [List.getD_eq_getElem?_getD, List.getElem?_replicate]
  split <;> rfl

private theorem init_ok (c : BigCfg) (hil : 0 < c.ilLen) :
    StOK c { used := (List.replicate c.ilLen false).set 0 true, roIndex := 1 % c.ilLen, total := 1 }
      (membersOf [[(0, 0)]]) := by
  refine ⟨by simp, Nat.mod_lt _ hil, ?_, ?_⟩
  · intro r hr
    simp only [membersOf, List.flatten_cons, List.flatten_nil, List.append_nil, List.map_cons, List.map_nil,
      List.mem_singleton] at hr
    subst hr; exact hil
  intro _
  refine ⟨?_, by simp [membersOf], ?_⟩
  · rw [count_set_true _ _ (by simpa using hil) (getD_replicate_false _ _)]
    simp [List.count_replicate]
  · intro r
    simp only [membersOf, List.flatten_cons, List.flatten_nil, List.append_nil, List.map_cons, List.map_nil,
      List.mem_singleton, getD_set, List.length_replicate]
    by_cases hr : 0 = r
    · subst hr; simp [hil]
    · have : ¬ (0 = r ∧ 0 < c.ilLen) := fun h => hr h.1
      simp only [this, if_false, getD_replicate_false]
      constructor
      · intro h; exact absurd h.symm hr
      · intro h; simp at h

private theorem bigLoop_ok (c : BigCfg) (hN : 1 ≤ c.N) (hn : 0 < c.ilLen) :
    ∀ fuel levels cur st, StOK c st (membersOf levels) → st.total ≤ c.nodes → 1 ≤ cur.length →
      c.nodes - st.total ≤ fuel →
      ∃ out st', bigLoop c fuel levels cur st = .tree out ∧ StOK c st' (membersOf out) ∧ st'.total = c.nodes := by
  intro fuel
  induction fuel with
  | zero =>
    intro levels cur st h htot _ hf
    have : ¬ st.total < c.nodes := by omega
    exact ⟨levels, st, by simp [bigLoop, this], h, by omega⟩
  | succ fuel ih =>
    intro levels cur st h htot hcur hf
    by_cases hlt : st.total < c.nodes
    · obtain ⟨st1, nl, h1, new, hn1, hs1⟩ := addLevel_ok c cur.length hn cur 0 st [] _ h (by omega) htot
      obtain ⟨a1, a2⟩ := addLevel_spec c cur.length cur 0 st [] st1 nl h1
      rw [lp_len c.N cur.length _ (by omega)] at a1
      have hlen : nl.length = min (c.N * cur.length) (c.nodes - st.total) := by
        have := congrArg List.length a2
        simp only [List.map_nil, List.nil_append, List.length_map] at this
        rw [this, lp_len c.N cur.length _ (by omega)]
      have hpos : 1 ≤ c.N * cur.length := Nat.mul_le_mul hN hcur
      have hmem : membersOf (levels ++ [nl]) = membersOf levels ++ new := by
        simp only [membersOf, List.flatten_append, List.map_append, List.flatten_cons, List.flatten_nil,
          List.append_nil]
        simpa using hn1
      obtain ⟨out, st', ho, hso, hto⟩ := ih (levels ++ [nl]) nl st1 (by rw [hmem]; exact hs1) (by omega)
        (by rw [hlen]; omega) (by omega)
      exact ⟨out, st', by simp only [bigLoop, hlt, if_true, h1]; exact ho, hso, hto⟩
    · exact ⟨levels, st, by simp [bigLoop, hlt], h, by omega⟩

/-- **the big generator always returns**: for `N ≥ 1` and a non-empty roster neither the
host-avoidance loop nor the level loop can run for ever (and nothing indexes out of range) -/
theorem c12_big_terminates (c : BigCfg) (hN : 1 ≤ c.N) (hn : 1 ≤ c.hosts.length) (hnodes : 1 ≤ c.nodes) :
    ∃ lv, genBig c = .tree lv := by
  have hil : 0 < c.ilLen := hn
  have h0 := init_ok c hil
  obtain ⟨out, _, ho, _, _⟩ := bigLoop_ok c hN hil c.nodes [[(0, 0)]] [(0, 0)] _ h0 (by simpa using hnodes) (Nat.le_refl 1) (Nat.sub_le _ _)
  refine ⟨out, ?_⟩
  unfold genBig
  rw [if_neg (by omega)]
  exact ho

/-- **use-all**: when the requested number of nodes equals the roster size, every roster member is
placed on exactly one node (whatever the hosts — use-all has preference over host avoidance) -/
theorem c12_big_use_all (c : BigCfg) (hN : 1 ≤ c.N) (hall : c.nodes = c.hosts.length) (hnodes : 1 ≤ c.nodes)
    (lv : List Level) (h : genBig c = .tree lv) :
    (membersOf lv).Nodup ∧ (membersOf lv).length = c.hosts.length ∧ ∀ m, m < c.hosts.length → m ∈ membersOf lv := by
  have hil : 0 < c.ilLen := by unfold BigCfg.ilLen; omega
  have hU : c.useAll = true := by simp [BigCfg.useAll, BigCfg.ilLen, hall]
  have h0 := init_ok c hil
  obtain ⟨out, st', ho, hso, hto⟩ := bigLoop_ok c hN hil c.nodes [[(0, 0)]] [(0, 0)] _ h0 (by simpa using hnodes) (Nat.le_refl 1) (Nat.sub_le _ _)
  have hlv : lv = out := by
    unfold genBig at h
    rw [if_neg (by omega)] at h
    rw [ho] at h
    exact (Outcome.tree.inj h).symm
  subst hlv
  obtain ⟨s1, _, _, s3⟩ := hso
  obtain ⟨a1, a2, a3⟩ := s3 hU
  have hsize := c12_big_size c hN hnodes lv h
  have hlen : (membersOf lv).length = c.nodes := by
    rw [← hsize, membersOf, List.length_map, List.length_flatten]
  refine ⟨a2, by rw [hlen, hall], ?_⟩
  intro m hm
  -- all entries of `used` are true: their number equals the length
  have hfull : st'.used.count true = st'.used.length := by rw [a1, hto, s1]; exact hall
  apply (a3 m).mpr
  have hmlt : m < st'.used.length := by rw [s1]; exact hm
  cases hx : st'.used.getD m false with
  | true => rfl
  | false =>
    exfalso
    have := exists_unused st'.used
    -- a false entry would make the count smaller than the length
    have hcnt : st'.used.count true < st'.used.length := by
      have hle := List.count_le_length (a := true) (l := st'.used)
      have hm' : st'.used[m] = false := by
        rw [List.getD_eq_getElem?_getD, List.getElem?_eq_getElem hmlt] at hx; simpa using hx
      have : st'.used.count true ≠ st'.used.length := by
        intro e
        have := List.count_eq_length.mp e
        have := this _ (List.getElem_mem hmlt)
        rw [hm'] at this; simp at this
      omega
    omega

/-! ### the known finding: the big generator places one server on several nodes -/

/-- the node-identifier clause for the big generator.  A node id is a hash of its server's public
key alone (`tree.go:893-903`, `C13.nodePre`), so the nodes of a tree have pairwise distinct ids
exactly when no server hosts two of them.  With more nodes than servers that is impossible (and
documented); the clause is stated for the case where it could hold. -/
def C12_big_full : Prop :=
  ∀ c : BigCfg, 1 ≤ c.N → 1 ≤ c.nodes → c.nodes ≤ c.hosts.length →
    ∀ lv, genBig c = .tree lv → (membersOf lv).Nodup

/-- **it fails**: five servers on two alternating hosts, `N = 3`, four nodes — host avoidance skips
servers without the use-all bookkeeping, server 1 is placed twice, server 2 and 4 never.
Replayed against `GenerateBigNaryTree` by the harness (`witness`). -/
theorem c12_big_full_fails : ¬ C12_big_full := by
  intro h
  have := h { N := 3, nodes := 4, hosts := [0, 1, 0, 1, 0] } (by decide) (by decide) (by decide)
    [[(0, 0)], [(1, 0), (3, 0), (1, 0)]] (by decide)
  exact absurd this (by decide)

/-- the design-phase witness: three servers, `N = 2`, seven nodes — three distinct node ids -/
theorem c12_big_repeats_servers :
    genBig { N := 2, nodes := 7, hosts := [0, 0, 0] } =
      .tree [[(0, 0)], [(1, 0), (2, 0)], [(0, 0), (1, 0), (2, 1), (0, 1)]] := by decide

/-- what holds instead (`_partial`): distinct node ids when the tree has exactly one node per
server (`c12_big_use_all`), for every host layout -/
theorem c12_big_distinct_partial (c : BigCfg) (hN : 1 ≤ c.N) (hall : c.nodes = c.hosts.length) (hnodes : 1 ≤ c.nodes)
    (lv : List Level) (h : genBig c = .tree lv) : (membersOf lv).Nodup :=
  (c12_big_use_all c hN hall hnodes lv h).1

/-- non-vacuity of the big-generator theorems: the hypotheses are satisfiable and the call returns -/
example : ∃ lv, genBig { N := 3, nodes := 13, hosts := [0, 1, 2, 0, 1] } = .tree lv :=
  c12_big_terminates _ (by decide) (by decide) (by decide)
/-! ### members, root lookup, node identifiers and levels of the n-ary tree -/

theorem nodup_map_inj_on {α β : Type} (f : α → β) : ∀ (l : List α), l.Nodup →
    (∀ a ∈ l, ∀ b ∈ l, f a = f b → a = b) → (l.map f).Nodup := by
  intro l
  induction l with
  | nil => intro _ _; simp
  | cons x xs ih =>
    intro hnd hinj
    rw [List.nodup_cons] at hnd
    rw [List.map_cons, List.nodup_cons]
    refine ⟨?_, ih hnd.2 (fun a ha b hb => hinj a (by simp [ha]) b (by simp [hb]))⟩
    intro hm
    obtain ⟨y, hy, hxy⟩ := List.mem_map.mp hm
    have := hinj y (by simp [hy]) x (by simp) hxy
    subst this
    exact hnd.1 hy

/-- **one node per roster member, on the generated tree itself**: the servers on the nodes of the
complete tree are pairwise distinct, there are `n` of them, and every roster position occurs -/
theorem c12_nary_members (N n rootIdx : Nat) (hr : rootIdx < n) :
    ((naryClosed N rootIdx n).map (·.1)).Nodup ∧ ((naryClosed N rootIdx n).map (·.1)).length = n ∧
    (∀ m, m ∈ (naryClosed N rootIdx n).map (·.1) ↔ m < n) := by
  have hb := c12_nary_one_node_per_member n rootIdx hr
  have hm : (naryClosed N rootIdx n).map (·.1) = (List.range n).map fun i => (i + rootIdx) % n := by
    simp [naryClosed]
  rw [hm]
  refine ⟨?_, by simp, ?_⟩
  · apply nodup_map_inj_on _ _ List.nodup_range
    intro a ha b hb' h
    exact hb.1 a b (List.mem_range.mp ha) (List.mem_range.mp hb') h
  · intro m
    constructor
    · intro h
      obtain ⟨i, _, rfl⟩ := List.mem_map.mp h
      exact Nat.mod_lt _ (by omega)
    · intro h
      obtain ⟨i, hi, he⟩ := hb.2 m h
      exact List.mem_map.mpr ⟨i, List.mem_range.mpr hi, he⟩



theorem nodup_getD_inj (d : Nat) : ∀ (l : List Nat), l.Nodup → ∀ i j, i < l.length → j < l.length →
    l.getD i d = l.getD j d → i = j := by
  intro l
  induction l with
  | nil => intro _ i j hi; simp at hi
  | cons x xs ih =>
    intro hnd i j hi hj h
    rw [List.nodup_cons] at hnd
    have hmem : ∀ k, k < xs.length → xs.getD k d ∈ xs := by
      intro k hk
      rw [List.getD_eq_getElem?_getD, List.getElem?_eq_getElem hk]
      exact List.getElem_mem hk
    cases i with
    | zero =>
      cases j with
      | zero => rfl
      | succ j =>
        exfalso
        simp only [List.getD_cons_zero, List.getD_cons_succ] at h
        exact hnd.1 (h ▸ hmem j (by simpa using hj))
    | succ i =>
      cases j with
      | zero =>
        exfalso
        simp only [List.getD_cons_zero, List.getD_cons_succ] at h
        exact hnd.1 (h ▸ hmem i (by simpa using hi))
      | succ j =>
        simp only [List.getD_cons_succ] at h
        have := ih hnd.2 i j (by simpa using hi) (by simpa using hj) h
        omega

theorem search_none {keys : List Nat} {k : Nat} (h : k ∉ keys) : search keys k = none := by
  unfold search
  rw [List.findIdx?_eq_none_iff]
  intro x hx
  simp only [beq_eq_false_iff_ne]
  intro e; subst e; exact h hx

theorem search_some {keys : List Nat} {k : Nat} (h : k ∈ keys) :
    ∃ r, search keys k = some r ∧ r < keys.length ∧ keys.getD r 0 = k ∧ ∀ j, j < r → keys.getD j 0 ≠ k := by
  unfold search
  cases hs : keys.findIdx? (· == k) with
  | none =>
    rw [List.findIdx?_eq_none_iff] at hs
    have := hs k h
    simp at this
  | some r =>
    rw [List.findIdx?_eq_some_iff_getElem] at hs
    obtain ⟨hr, hk, hbefore⟩ := hs
    refine ⟨r, rfl, hr, ?_, ?_⟩
    · rw [List.getD_eq_getElem?_getD, List.getElem?_eq_getElem hr]
      simpa using hk
    · intro j hj
      have := hbefore j hj
      rw [List.getD_eq_getElem?_getD, List.getElem?_eq_getElem (by omega)]
      simpa using this

/-- **the requested root, or no tree**: a root that is not a member of the roster yields no tree; a
root that is one yields the complete tree rooted at its (first) position in the roster; no root
given means the first server.  For every branching factor `N ≥ 1` and every roster. -/
theorem c12_root_lookup (N : Nat) (keys : List Nat) (k : Nat) (hN : 1 ≤ N) :
    (k ∉ keys → genNaryKeys N keys (some k) = .noTree) ∧
    (k ∈ keys → ∃ r, r < keys.length ∧ keys.getD r 0 = k ∧ (∀ j, j < r → keys.getD j 0 ≠ k) ∧
        genNaryKeys N keys (some k) = .tree (naryClosed N r keys.length)) ∧
    (keys ≠ [] → genNaryKeys N keys none = .tree (naryClosed N 0 keys.length)) := by
  refine ⟨?_, ?_, ?_⟩
  · intro h
    simp [genNaryKeys, search_none h, genNary]
  · intro h
    obtain ⟨r, hs, hr, hk, hb⟩ := search_some h
    refine ⟨r, hr, hk, hb, ?_⟩
    simp only [genNaryKeys, hs]
    exact c12_nary_is_complete N keys.length r hN (by omega) hr
  · intro h
    have : 1 ≤ keys.length := by
      cases keys with
      | nil => exact absurd rfl h
      | cons _ _ => simp
    simp only [genNaryKeys, h, if_false]
    exact c12_nary_is_complete N keys.length 0 hN this (by omega)

/-- what `swapAt keys 0 r` is, entry by entry -/
private theorem swapAt_zero_getD (keys : List Nat) (r : Nat) (hr : r < keys.length) :
    (swapAt keys 0 r).length = keys.length ∧ (swapAt keys 0 r).getD 0 0 = keys.getD r 0 ∧
    (swapAt keys 0 r).getD r 0 = keys.getD 0 0 ∧
    ∀ p, p ≠ 0 → p ≠ r → (swapAt keys 0 r).getD p 0 = keys.getD p 0 := by
  have h0 : 0 < keys.length := by omega
  refine ⟨by simp [swapAt], ?_, ?_, ?_⟩
  · by_cases h : r = 0
    · subst h; simp [swapAt, List.getD_eq_getElem?_getD, h0]
    · have : ¬ (r = 0) := h
      simp [swapAt, List.getD_eq_getElem?_getD, h0, hr, this]
  · simp [swapAt, List.getD_eq_getElem?_getD, h0, hr]
  · intro p hp0 hpr
    simp [swapAt, List.getD_eq_getElem?_getD, Ne.symm hp0, Ne.symm hpr]

/-- **`ro.NewRosterWithRoot(root)` followed by `GenerateNaryTree(N)`** (the documented way to a tree whose root is the
roster's first entry): a root outside the roster yields no roster and no tree; a member root yields the list with the
entries 0 and `r` (the root's first position) exchanged — same length, the root first, the old first entry at `r`,
every other entry in place — and the complete `N`-ary tree over it rooted at its first entry.  Falsified by: a guard
that lets a non-member through (seed C12r7-A: the old order, a tree rooted at the old first member), a rotation instead
of the exchange, an exchange with the last match. -/
theorem c12_withroot_tree (N : Nat) (keys : List Nat) (k : Nat) (hN : 1 ≤ N) :
    (k ∉ keys → withRootKeys keys k = none ∧ genWithRootRoster N keys k = .noTree) ∧
    (k ∈ keys → ∃ r keys', r < keys.length ∧ keys.getD r 0 = k ∧ (∀ j, j < r → keys.getD j 0 ≠ k) ∧
        withRootKeys keys k = some keys' ∧ keys'.length = keys.length ∧ keys'.getD 0 0 = k ∧
        keys'.getD r 0 = keys.getD 0 0 ∧ (∀ p, p ≠ 0 → p ≠ r → keys'.getD p 0 = keys.getD p 0) ∧
        genWithRootRoster N keys k = .tree (naryClosed N 0 keys.length)) := by
  constructor
  · intro h
    simp [withRootKeys, genWithRootRoster, search_none h]
  · intro h
    obtain ⟨r, hs, hr, hk, hb⟩ := search_some h
    obtain ⟨l1, l2, l3, l4⟩ := swapAt_zero_getD keys r hr
    refine ⟨r, swapAt keys 0 r, hr, hk, hb, by simp [withRootKeys, hs], l1, by rw [l2, hk], l3, l4, ?_⟩
    have hne : swapAt keys 0 r ≠ [] := by
      intro h0; rw [h0] at l1; simp at l1; omega
    have := (c12_root_lookup N (swapAt keys 0 r) 0 hN).2.2 hne
    simp only [genWithRootRoster, withRootKeys, hs, this, l1]

/-- non-vacuity, and the negation witness for the seeded variant: servers 5, 6, 7 with root 7 give the list 7, 6, 5;
with the stranger 9 there is no roster — not the old list -/
example : withRootKeys [5, 6, 7] 7 = some [7, 6, 5] ∧ withRootKeys [5, 6, 7] 9 = none ∧
    withRootKeys [5, 6, 7] 9 ≠ some [5, 6, 7] ∧ genWithRootRoster 2 [5, 6, 7] 9 = .noTree := by decide

/-- **pairwise distinct node identifiers**: over a roster of pairwise distinct servers the nodes of
the generated tree carry pairwise distinct ids, and the ids are exactly the servers' (every server
hosts one node) -/
theorem c12_nary_distinct_ids (N : Nat) (keys : List Nat) (r : Nat) (hnd : keys.Nodup) (hr : r < keys.length) :
    (nodeIds keys (naryClosed N r keys.length)).Nodup ∧
    (nodeIds keys (naryClosed N r keys.length)).length = keys.length ∧
    (∀ k, k ∈ nodeIds keys (naryClosed N r keys.length) ↔ k ∈ keys) := by
  obtain ⟨m1, m2, m3⟩ := c12_nary_members N keys.length r hr
  have hid : nodeIds keys (naryClosed N r keys.length) =
      ((naryClosed N r keys.length).map (·.1)).map fun i => keys.getD i 0 := by
    simp [nodeIds, List.map_map, Function.comp_def]
  rw [hid]
  refine ⟨?_, by simpa using m2, ?_⟩
  · apply nodup_map_inj_on _ _ m1
    intro a ha b hb h
    exact nodup_getD_inj 0 keys hnd a b ((m3 a).mp ha) ((m3 b).mp hb) h
  · intro k
    constructor
    · intro h
      obtain ⟨i, hi, rfl⟩ := List.mem_map.mp h
      have hlt := (m3 i).mp hi
      rw [List.getD_eq_getElem?_getD, List.getElem?_eq_getElem hlt]
      exact List.getElem_mem hlt
    · intro h
      obtain ⟨i, hi, he⟩ := List.getElem_of_mem h
      refine List.mem_map.mpr ⟨i, (m3 i).mpr hi, ?_⟩
      rw [List.getD_eq_getElem?_getD, List.getElem?_eq_getElem hi]
      simpa using he

/-- outside the domain (a roster that lists a server twice): two nodes with the same id -/
example : genNaryKeys 2 [7, 8, 7] (some 7) = .tree [(0, 0), (1, 0), (2, 0)] ∧
    ¬ (nodeIds [7, 8, 7] [(0, 0), (1, 0), (2, 0)]).Nodup := by decide



/-- position of the first node of depth `k` in the complete `N`-ary tree: 0, 1, N+1, N²+N+1, … -/
def levelStart (N : Nat) : Nat → Nat
  | 0 => 0
  | k + 1 => N * levelStart N k + 1

/-- depth of the node at position `i` of the generated tree (walk up the parent links `(i−1)/N`) -/
def depthOf (N : Nat) : (fuel i : Nat) → Nat
  | 0, _ => 0
  | fuel + 1, i => if i = 0 then 0 else depthOf N fuel ((i - 1) / N) + 1

theorem levelStart_succ (N k : Nat) : levelStart N (k + 1) = levelStart N k + N ^ k := by
  induction k with
  | zero => simp [levelStart]
  | succ k ih =>
    have h1 : levelStart N (k + 2) = N * levelStart N (k + 1) + 1 := rfl
    have h2 : levelStart N (k + 1) = N * levelStart N k + 1 := rfl
    rw [h1, ih, Nat.mul_add, Nat.pow_succ, Nat.mul_comm (N ^ k) N]
    omega

/-- the parent of a node of level `k+1` lies in level `k`, and only those do -/
theorem c12_nary_level_parent (N : Nat) (hN : 1 ≤ N) (i k : Nat) (hi : 1 ≤ i) :
    (levelStart N (k + 1) ≤ i ∧ i < levelStart N (k + 2)) ↔
      (levelStart N k ≤ (i - 1) / N ∧ (i - 1) / N < levelStart N (k + 1)) := by
  have h1 : levelStart N (k + 2) = N * levelStart N (k + 1) + 1 := rfl
  have h2 : levelStart N (k + 1) = N * levelStart N k + 1 := rfl
  rw [Nat.le_div_iff_mul_le (by omega), Nat.div_lt_iff_lt_mul (by omega), h1]
  generalize levelStart N (k + 1) = b at *
  generalize levelStart N k = a at *
  rw [Nat.mul_comm a N, Nat.mul_comm b N]
  omega

/-- **levels are filled breadth-first**: the nodes of depth `k` of the generated tree are exactly
the positions `levelStart k … levelStart (k+1) − 1` (as far as they exist) — a level is begun only
when all levels above it are full — … -/
theorem c12_nary_depth_block (N : Nat) (hN : 1 ≤ N) : ∀ (fuel i : Nat), i ≤ fuel →
    levelStart N (depthOf N fuel i) ≤ i ∧ i < levelStart N (depthOf N fuel i + 1) := by
  intro fuel
  induction fuel with
  | zero => intro i hi; simp [depthOf, levelStart]; omega
  | succ f ih =>
    intro i hi
    by_cases h0 : i = 0
    · subst h0; simp [depthOf, levelStart]
    · simp only [depthOf, h0, if_false]
      have hp : (i - 1) / N ≤ f := Nat.le_trans (Nat.div_le_self _ _) (by omega)
      exact (c12_nary_level_parent N hN i _ (by omega)).mpr (ih _ hp)

/-- … and level `k` therefore holds `min (N^k) (what is left after the levels above)` nodes of a
tree with `n` nodes -/
theorem c12_nary_level_sizes (N n k : Nat) :
    min (levelStart N (k + 1)) n - min (levelStart N k) n = min (N ^ k) (n - levelStart N k) := by
  rw [levelStart_succ]
  generalize N ^ k = p
  generalize levelStart N k = s
  omega

/-! ### the big generator: every clause at once; simulations -/

/-- **consistent roster positions**: every node of the big tree sits on a roster position that exists -/
theorem c12_big_members_in_range (c : BigCfg) (hN : 1 ≤ c.N) (hn : 1 ≤ c.hosts.length) (hnodes : 1 ≤ c.nodes)
    (lv : List Level) (h : genBig c = .tree lv) : ∀ m ∈ membersOf lv, m < c.hosts.length := by
  have hil : 0 < c.ilLen := hn
  have h0 := init_ok c hil
  obtain ⟨out, st', ho, hso, _⟩ := bigLoop_ok c hN hil c.nodes [[(0, 0)]] [(0, 0)] _ h0 (by simpa using hnodes) (Nat.le_refl 1) (Nat.sub_le _ _)
  have hlv : lv = out := by
    unfold genBig at h
    rw [if_neg (by omega), ho] at h
    exact (Outcome.tree.inj h).symm
  subst hlv
  exact hso.2.2.1

/-- **every clause at once, for every roster, branching factor, node count and host layout**: on a
non-empty roster, with `N ≥ 1` and `nodes ≥ 1`, `GenerateBigNaryTree(N, nodes)` returns a tree — the
first server as root, exactly `nodes` nodes, level `k` holding `min (N^k) remaining` of them, every
parent link pointing into the previous level, no node with more than `N` children, every node on an
existing roster position — and when `nodes` equals the roster size every server hosts exactly one node -/
theorem c12_big_wellformed (c : BigCfg) (hN : 1 ≤ c.N) (hn : 1 ≤ c.hosts.length) (hnodes : 1 ≤ c.nodes) :
    ∃ more, genBig c = .tree ([(0, 0)] :: more) ∧
      (([(0, 0)] :: more).map List.length).sum = c.nodes ∧
      ([(0, 0)] :: more).map List.length = 1 :: levelSizesPow c.N c.nodes 1 (c.nodes - 1) ∧
      LevelsOK c.N [(0, 0)] more ∧
      (∀ m ∈ membersOf ([(0, 0)] :: more), m < c.hosts.length) ∧
      (c.nodes = c.hosts.length →
        (membersOf ([(0, 0)] :: more)).Nodup ∧ ∀ m, m < c.hosts.length → m ∈ membersOf ([(0, 0)] :: more)) := by
  obtain ⟨lv, h⟩ := c12_big_terminates c hN hn hnodes
  obtain ⟨more, rfl, _, h3, _⟩ := c12_big_shape c hN hnodes lv h
  refine ⟨more, h, c12_big_size c hN hnodes _ h, c12_big_levels c hN hnodes _ h, h3,
    c12_big_members_in_range c hN hn hnodes _ h, ?_⟩
  intro hall
  obtain ⟨u1, _, u3⟩ := c12_big_use_all c hN hall hnodes _ h
  exact ⟨u1, u3⟩

/-! ### simulations: `CreateRoster` + `CreateTree` -/

theorem simHosts_length (hosts nbrAddr : Nat) : (simHosts hosts nbrAddr).length = hosts := by
  simp [simHosts]

/-- **the tree of a simulation** (`SimulationBFTree.CreateRoster` then `CreateTree`, for every
branching factor `BF ≥ 1`, number of hosts `Hosts ≥ 1` and number of host names): a well-formed big
tree of exactly `Hosts` nodes in which every server just created hosts exactly one node — so its
node ids are pairwise distinct — whatever servers share a host name -/
theorem c12_sim_tree (bf hosts nbrAddr : Nat) (hbf : 1 ≤ bf) (hh : 1 ≤ hosts) :
    ∃ more, genSim bf hosts nbrAddr = .tree ([(0, 0)] :: more) ∧
      (([(0, 0)] :: more).map List.length).sum = hosts ∧
      ([(0, 0)] :: more).map List.length = 1 :: levelSizesPow bf hosts 1 (hosts - 1) ∧
      LevelsOK bf [(0, 0)] more ∧
      (membersOf ([(0, 0)] :: more)).Nodup ∧
      (∀ m, m ∈ membersOf ([(0, 0)] :: more) ↔ m < hosts) := by
  have hl := simHosts_length hosts nbrAddr
  obtain ⟨more, w1, w2, w3, w4, w5, w6⟩ :=
    c12_big_wellformed { N := bf, nodes := hosts, hosts := simHosts hosts nbrAddr } hbf (by simpa [hl] using hh) hh
  simp only [hl] at w5 w6
  obtain ⟨u1, u2⟩ := w6 trivial
  exact ⟨more, w1, w2, w3, w4, u1, fun m => ⟨w5 m, u2 m⟩⟩

/-- the host of server `c` is `c mod nbrAddr`, its port offset `2·(c / nbrAddr)`: two servers of a
simulation never share an address -/
theorem c12_sim_addresses_distinct (nbrAddr a b : Nat)
    (hh : a % nbrAddr = b % nbrAddr) (hp : simPort nbrAddr a = simPort nbrAddr b) : a = b := by
  unfold simPort at hp
  have h1 := Nat.div_add_mod a nbrAddr
  have h2 := Nat.div_add_mod b nbrAddr
  have : a / nbrAddr = b / nbrAddr := by omega
  rw [this, hh] at h1
  omega

/-! ### when the node-id clause does hold for the big generator: uniform host layouts -/

/-- the host-avoidance loop never skips a server: asked for the next child of a parent that sits on
an earlier roster position, it hands out the server `roIndex` points at -/
def PickSeq (c : BigCfg) : Prop :=
  ∀ (st : BigSt) (pm r : Nat), pm < st.roIndex → st.roIndex < c.ilLen →
    pick c st (c.hosts.getD pm 0) = some r → r = st.roIndex

/-- all servers on one host: the loop walks once round the roster and comes back to where it started -/
theorem pickSeq_one_host (c : BigCfg) (hU : c.useAll = false) (hsame : ∀ i j, i < c.ilLen → j < c.ilLen →
    c.hosts.getD i 0 = c.hosts.getD j 0) : PickSeq c := by
  intro st pm r hpm hro hp
  have hn : 0 < c.ilLen := by omega
  have key : ∀ fuel ro r, ro < c.ilLen →
      pickLoop c st.used (c.hosts.getD pm 0) st.roIndex fuel ro (c.hosts.getD pm 0) true = some r → r = st.roIndex := by
    intro fuel
    induction fuel with
    | zero => intro ro r _ h; simp [pickLoop] at h
    | succ f ih =>
      intro ro r hro' h
      by_cases h1 : c.ilLen > 1
      · have hro2 : (ro + 1) % c.ilLen < c.ilLen := Nat.mod_lt _ hn
        simp only [pickLoop, hU, Bool.false_and, Bool.or_false, BEq.rfl, Bool.true_and, Bool.and_true,
          decide_eq_true_eq, h1, if_true, Bool.false_eq_true, if_false] at h
        split at h
        · next he => simp only [Option.some.injEq] at h; rw [← h]; simpa using he
        · rw [hsame ((ro + 1) % c.ilLen) pm hro2 (by omega)] at h
          exact ih _ _ hro2 h
      · omega
  unfold pick at hp
  rw [hsame st.roIndex pm hro (by omega)] at hp
  exact key _ _ _ hro hp

/-- every server on a host of its own: the server `roIndex` points at is never on the parent's host -/
theorem pickSeq_distinct_hosts (c : BigCfg) (hU : c.useAll = false) (hd : c.hosts.Nodup) : PickSeq c := by
  intro st pm r hpm hro hp
  have hne : c.hosts.getD st.roIndex 0 ≠ c.hosts.getD pm 0 := by
    intro e
    have := nodup_getD_inj 0 c.hosts hd st.roIndex pm hro (by unfold BigCfg.ilLen at hro; omega) e
    omega
  unfold pick at hp
  have hf : 2 * c.ilLen + 3 = (2 * c.ilLen + 2) + 1 := rfl
  rw [hf] at hp
  have hb : (c.hosts.getD st.roIndex 0 == c.hosts.getD pm 0) = false := by simpa using hne
  simp only [pickLoop, hU, hb, Bool.false_and, Bool.and_false, Bool.or_false, Bool.false_eq_true, if_false,
    Option.some.injEq] at hp
  exact hp.symm

private theorem addChildren_seq (c : BigCfg) (hP : PickSeq c) (pIdx m : Nat) :
    ∀ k st acc st' acc', addChildren c pIdx m k st acc = some (st', acc') →
      st.roIndex = st.total → m < st.total → st.total + k < c.ilLen →
      st'.roIndex = st'.total ∧ st'.total = st.total + k ∧
        acc'.map (·.1) = acc.map (·.1) ++ List.range' st.total k := by
  intro k
  induction k with
  | zero =>
    intro st acc st' acc' h hro _ _
    simp only [addChildren, Option.some.injEq, Prod.mk.injEq] at h
    obtain ⟨rfl, rfl⟩ := h
    simp [hro]
  | succ k ih =>
    intro st acc st' acc' h hro hm hlt
    simp only [addChildren] at h
    split at h
    · simp at h
    · next r hr =>
      have hr' : r = st.roIndex := hP st m r (by omega) (by omega) hr
      subst hr'
      have hmod : (st.roIndex + 1) % c.ilLen = st.total + 1 := by rw [hro]; exact Nat.mod_eq_of_lt (by omega)
      obtain ⟨a1, a2, a3⟩ := ih _ _ _ _ h (by simp [hmod]) (by simp; omega) (by simp; omega)
      refine ⟨a1, by rw [a2]; simp; omega, ?_⟩
      rw [a3]
      simp [List.range'_succ, hro]

private theorem addLevel_seq (c : BigCfg) (hP : PickSeq c) (hlt : c.nodes < c.ilLen) (L : Nat) :
    ∀ parents i st acc st' acc', addLevel c L parents i st acc = some (st', acc') →
      st.roIndex = st.total → (∀ x ∈ parents, x.1 < st.total) → i + parents.length = L → st.total ≤ c.nodes →
      st'.roIndex = st'.total ∧ st.total ≤ st'.total ∧ st'.total ≤ c.nodes ∧
        acc'.map (·.1) = acc.map (·.1) ++ List.range' st.total (st'.total - st.total) := by
  intro parents
  induction parents with
  | nil =>
    intro i st acc st' acc' h hro _ _ htot
    simp only [addLevel, Option.some.injEq, Prod.mk.injEq] at h
    obtain ⟨rfl, rfl⟩ := h
    simp [hro, htot]
  | cons p rest ih =>
    intro i st acc st' acc' h hro hpar hiL htot
    obtain ⟨m, x⟩ := p
    simp only [addLevel] at h
    split at h
    · simp at h
    · next st1 acc1 h1 =>
      have hcc := childCount_le c L i st.total (by simp at hiL; omega)
      obtain ⟨a1, a2, a3⟩ := addChildren_seq c hP i m _ _ _ _ _ h1 hro (hpar (m, x) (by simp)) (by omega)
      obtain ⟨b1, b2, b3, b4⟩ := ih _ _ _ _ _ h a1
        (fun y hy => by have := hpar y (by simp [hy]); omega) (by simp at hiL; omega) (by omega)
      refine ⟨b1, by omega, b3, ?_⟩
      rw [b4, a3, List.append_assoc, a2]
      congr 1
      rw [show st'.total - st.total = childCount c L i st.total + (st'.total - (st.total + childCount c L i st.total)) by omega,
        List.range'_append_1 (s := st.total)]

private theorem bigLoop_seq (c : BigCfg) (hP : PickSeq c) (hlt : c.nodes < c.ilLen) :
    ∀ fuel levels cur st out, bigLoop c fuel levels cur st = .tree out →
      st.roIndex = st.total → st.total ≤ c.nodes → membersOf levels = List.range st.total →
      (∀ x ∈ cur, x.1 < st.total) → membersOf out = List.range c.nodes := by
  intro fuel
  induction fuel with
  | zero =>
    intro levels cur st out h _ htot hm _
    simp only [bigLoop] at h
    split at h
    · simp at h
    · simp only [Outcome.tree.injEq] at h
      rw [← h, hm, show st.total = c.nodes by omega]
  | succ fuel ih =>
    intro levels cur st out h hro htot hm hcur
    simp only [bigLoop] at h
    split at h
    · split at h
      · simp at h
      · next st' nl hl =>
        obtain ⟨a1, a2, a3, a4⟩ := addLevel_seq c hP hlt cur.length cur 0 st [] st' nl hl hro hcur (by omega) htot
        simp only [List.map_nil, List.nil_append] at a4
        refine ih _ _ _ _ h a1 a3 ?_ ?_
        · have : membersOf (levels ++ [nl]) = membersOf levels ++ nl.map (·.1) := by
            simp [membersOf, List.flatten_append]
          have e := @List.range'_append_1 0 st.total (st'.total - st.total)
          rw [Nat.zero_add] at e
          rw [this, hm, a4, List.range_eq_range', List.range_eq_range', e]
          congr 1; omega
        · intro x hx
          have : x.1 ∈ nl.map (·.1) := List.mem_map_of_mem hx
          rw [a4] at this
          have := List.mem_range'_1.mp this
          omega
    · simp only [Outcome.tree.injEq] at h
      rw [← h, hm, show st.total = c.nodes by omega]

/-- **the node-id clause holds for the two uniform host layouts** (`_partial`, second part): when
the tree is to have at most as many nodes as there are servers and the servers are all on one host
or all on hosts of their own, no server hosts two nodes — below the roster size the servers are
simply taken in roster order.  Only a mixed layout (some servers sharing a host, others not) can
make the generator repeat a server while others are left out: that is the known finding. -/
theorem c12_big_distinct_uniform_partial (c : BigCfg) (hN : 1 ≤ c.N) (hnodes : 1 ≤ c.nodes)
    (hle : c.nodes ≤ c.hosts.length)
    (hu : (∀ i j, i < c.hosts.length → j < c.hosts.length → c.hosts.getD i 0 = c.hosts.getD j 0) ∨ c.hosts.Nodup)
    (lv : List Level) (h : genBig c = .tree lv) :
    (membersOf lv).Nodup ∧ (c.nodes < c.hosts.length → membersOf lv = List.range c.nodes) := by
  by_cases hall : c.nodes = c.hosts.length
  · exact ⟨(c12_big_use_all c hN hall hnodes lv h).1, fun hlt => by omega⟩
  · have hlt : c.nodes < c.ilLen := by unfold BigCfg.ilLen; omega
    have hU : c.useAll = false := by
      simp only [BigCfg.useAll, BigCfg.ilLen, beq_eq_false_iff_ne]; omega
    have hP : PickSeq c := by
      rcases hu with hu | hu
      · exact pickSeq_one_host c hU hu
      · exact pickSeq_distinct_hosts c hU hu
    have hm : membersOf lv = List.range c.nodes := by
      unfold genBig at h
      rw [if_neg (by omega)] at h
      have h1 : 1 % c.ilLen = 1 := Nat.mod_eq_of_lt (by omega)
      exact bigLoop_seq c hP hlt _ _ _ _ _ h (by simp [h1]) (by simpa using hnodes) (by simp [membersOf, List.range_succ])
        (by simp)
    exact ⟨by rw [hm]; exact List.nodup_range, fun _ => hm⟩

/-- non-vacuity: both layouts occur, with fewer nodes than servers -/
example : genBig { N := 2, nodes := 4, hosts := [0, 0, 0, 0, 0, 0] } = .tree [[(0, 0)], [(1, 0), (2, 0)], [(3, 1)]] ∧
    genBig { N := 2, nodes := 4, hosts := [0, 1, 2, 3, 4, 5] } = .tree [[(0, 0)], [(1, 0), (2, 0)], [(3, 1)]] := by decide

/-! ### onet's own predicates on the generated trees (round 5)

`Tree.IsNary` / `IsBinary` / `Size` / `UsesList` and `len(Children)` (tree.go:232-278) are the predicates
onet's tests and users judge a tree by.  On the trees the generators return they are closed forms of
`(N, n)`: node `p` has `min N (n − 1 − N·p)` children, the tree passes `IsNary(N)` exactly when
`N ∣ n − 1` (a binary tree exactly for odd `n`), `Size` is `n`, every member is used. -/

private theorem count_closed_full {N : Nat} (hN : 0 < N) (c : Nat) :
    ∀ k, N * c + N ≤ k → (closedParents N k).count c = N := by
  intro k
  induction k with
  | zero => intro h; omega
  | succ k ih =>
    intro hk
    by_cases h : N * c + N ≤ k
    · rw [closedParents_succ, List.count_append, ih h, List.count_singleton]
      have : k / N ≠ c := by
        intro e
        have := div_hi hN k
        rw [e] at this
        omega
      simp [this]
    · rw [count_closed hN c (k + 1) (by omega)]; omega

private theorem closed_count {N : Nat} (hN : 0 < N) (c k : Nat) :
    (closedParents N k).count c = min N (k - N * c) := by
  by_cases h : k ≤ N * c + N
  · rw [count_closed hN c k h]; omega
  · rw [count_closed_full hN c k (by omega)]; omega

/-- **arity of every node** of the generated n-ary tree: position `p` has `min N (n − 1 − N·p)`
children — `N` while the remaining nodes last, then the rest, then none -/
theorem c12_nary_arity (N n r : Nat) (hN : 1 ≤ N) (hn : 1 ≤ n) (p : Nat) :
    arity (naryClosed N r n) p = min N (n - 1 - N * p) := by
  have h : naryClosed N r n = closedPrefix N r n ((n - 1) + 1) := by
    rw [Nat.sub_add_cancel hn]; rfl
  unfold arity
  rw [h, closedPrefix_parents, closed_count hN]

/-- **`IsNary(N)` of the generated tree** holds exactly when the last parent is full: `N ∣ n − 1` -/
theorem c12_nary_isNary_iff (N n r : Nat) (hN : 1 ≤ N) (hn : 1 ≤ n) :
    isNary (naryClosed N r n) N = true ↔ (n - 1) % N = 0 := by
  have hlen : (naryClosed N r n).length = n := by simp [naryClosed]
  unfold isNary
  rw [hlen, List.all_eq_true]
  constructor
  · intro h
    have hp := h ((n - 1) / N) (List.mem_range.mpr (by have := Nat.div_le_self (n - 1) N; omega))
    rw [c12_nary_arity N n r hN hn] at hp
    have hm : n - 1 - N * ((n - 1) / N) = (n - 1) % N := by
      have := Nat.div_add_mod (n - 1) N; omega
    have hlt := Nat.mod_lt (n - 1) hN
    simp only [Bool.or_eq_true, beq_iff_eq] at hp
    omega
  · intro h p _
    rw [c12_nary_arity N n r hN hn]
    simp only [Bool.or_eq_true, beq_iff_eq]
    by_cases hp : N * p + N ≤ n - 1
    · left; omega
    · right
      have hdm := Nat.div_add_mod (n - 1) N
      rw [h] at hdm
      have hq : (n - 1) / N ≤ p := by
        apply Nat.le_of_lt_succ
        apply Nat.lt_of_mul_lt_mul_left (a := N)
        rw [Nat.mul_succ]
        omega
      have := Nat.mul_le_mul_left N hq
      omega

/-- the binary generator returns a tree that passes `IsBinary` exactly for an odd number of servers -/
theorem c12_binary_isBinary_iff (n : Nat) (hn : 1 ≤ n) :
    genBinary n = .tree (naryClosed 2 0 n) ∧ (isBinary (naryClosed 2 0 n) = true ↔ n % 2 = 1) := by
  refine ⟨c12_nary_is_complete 2 n 0 (by omega) hn (by omega), ?_⟩
  unfold isBinary
  rw [c12_nary_isNary_iff 2 n 0 (by omega) hn]; omega

/-- the star generator: the root has all other servers as children and the tree passes `IsNary(n − 1)` -/
theorem c12_star_isNary (n : Nat) (hn : 2 ≤ n) :
    genStar n = .tree (naryClosed (n - 1) 0 n) ∧ isNary (naryClosed (n - 1) 0 n) (n - 1) = true ∧
      arity (naryClosed (n - 1) 0 n) 0 = n - 1 := by
  refine ⟨c12_nary_is_complete (n - 1) n 0 (by omega) (by omega) (by omega), ?_, ?_⟩
  · rw [c12_nary_isNary_iff (n - 1) n 0 (by omega) (by omega)]; exact Nat.mod_self _
  · rw [c12_nary_arity (n - 1) n 0 (by omega) (by omega)]; simp

/-- from the root `Visit` reaches every node: each node's parent is the root or was reached before -/
private theorem descendants_root : ∀ (ps : List Nat) (j : Nat) (acc : List Nat), 1 ≤ j →
    (∀ x, x ∈ acc ↔ 1 ≤ x ∧ x < j) → (∀ i q, ps[i]? = some q → q < j + i) →
    (descendants 0 ps j acc).length = acc.length + ps.length := by
  intro ps
  induction ps with
  | nil => intro j acc _ _ _; simp [descendants]
  | cons q rest ih =>
    intro j acc hj hacc hlt
    have hq : q < j := by have := hlt 0 q (by simp); omega
    have hc : q = 0 ∨ q ∈ acc := by
      by_cases h0 : q = 0
      · exact Or.inl h0
      · exact Or.inr ((hacc q).mpr ⟨by omega, hq⟩)
    unfold descendants
    rw [if_pos hc, ih (j + 1) (acc ++ [j]) (by omega)]
    · simp; omega
    · intro x
      simp only [List.mem_append, List.mem_singleton, hacc x]
      omega
    · intro i q' h
      have := hlt (i + 1) q' (by simpa using h)
      omega

/-- **`Size()` of the generated n-ary tree is the roster size** (computed as the code does, by the walk
from the root) -/
theorem c12_nary_size (N n r : Nat) (hn : 1 ≤ n) : size (naryClosed N r n) = n := by
  have h : naryClosed N r n = closedPrefix N r n ((n - 1) + 1) := by
    rw [Nat.sub_add_cancel hn]; rfl
  unfold size subtreeCount
  rw [h, closedPrefix_parents, descendants_root _ 1 [] (Nat.le_refl 1)]
  · simp [closedParents]; omega
  · intro x; simp; omega
  · intro i q hq
    simp only [closedParents, List.getElem?_map, Option.map_eq_some_iff] at hq
    obtain ⟨a, ha, rfl⟩ := hq
    have ha' : a = 1 + i := by
      rw [List.getElem?_range'] at ha
      · have := Option.some.inj ha; omega
      · have := (List.getElem?_eq_some_iff.mp ha).1; simpa using this
    subst ha'
    have := Nat.div_le_self (1 + i - 1) N
    omega

/-- **`UsesList()` of the generated n-ary tree is true**: every roster member is on a node -/
theorem c12_nary_usesList (N n r : Nat) (hr : r < n) : usesList (naryClosed N r n) n = true := by
  unfold usesList
  rw [List.all_eq_true]
  intro m hm
  have hmem := ((c12_nary_members N n r hr).2.2 m).mpr (List.mem_range.mp hm)
  obtain ⟨x, hx, hxe⟩ := List.mem_map.mp hmem
  exact List.any_eq_true.mpr ⟨x, hx, by simp [hxe]⟩

private theorem flatten_go_members : ∀ (ls : List Level) (a b : Nat),
    (Drv.flatten.go ls a b).map (·.1) = ls.flatten.map (·.1) := by
  intro ls
  induction ls with
  | nil => intro a b; simp [Drv.flatten.go]
  | cons l rest ih =>
    intro a b
    simp only [Drv.flatten.go, List.map_append, List.map_map, List.flatten_cons, ih]
    congr 1

private theorem filter_ge_length (c : Nat) : ∀ n, ((List.range n).filter fun p => decide (c ≤ p)).length = n - c := by
  intro n
  induction n with
  | zero => simp
  | succ k ih =>
    rw [List.range_succ, List.filter_append, List.length_append, ih]
    by_cases h : c ≤ k
    · simp [h]; omega
    · simp [h]; omega

/-- **number of leaves** of the generated n-ary tree: all nodes but the `⌈(n−1)/N⌉` parents -/
theorem c12_nary_leaves (N n r : Nat) (hN : 1 ≤ N) (hn : 1 ≤ n) :
    leaves (naryClosed N r n) = n - (n - 1 + N - 1) / N := by
  have hlen : (naryClosed N r n).length = n := by simp [naryClosed]
  unfold leaves
  rw [hlen, ← filter_ge_length ((n - 1 + N - 1) / N) n]
  congr 1
  apply List.filter_congr
  intro p _
  rw [c12_nary_arity N n r hN hn]
  -- min N (n-1-N*p) = 0  ↔  ⌈(n-1)/N⌉ ≤ p
  have key : (n - 1 + N - 1) / N ≤ p ↔ n - 1 ≤ N * p := by
    constructor
    · intro h
      have h1 := Nat.mul_le_mul_left N h
      have h2 := div_hi hN (n - 1 + N - 1)
      omega
    · intro h
      apply Nat.le_of_lt_succ
      apply Nat.lt_of_mul_lt_mul_left (a := N)
      rw [Nat.mul_succ]
      have h2 := div_lo (N := N) (n - 1 + N - 1)
      omega
  by_cases hp : n - 1 ≤ N * p
  · have : min N (n - 1 - N * p) = 0 := by omega
    simp [this, key.mpr hp]
  · have h0 : ¬ min N (n - 1 - N * p) = 0 := by omega
    have h1 : ¬ (n - 1 + N - 1) / N ≤ p := fun h => hp (key.mp h)
    simp [h0, h1]

/-- the big generator with as many nodes as servers returns a tree that passes `UsesList()`
(stated on the creation-order form the driver prints) -/
theorem c12_big_usesList (c : BigCfg) (hN : 1 ≤ c.N) (hall : c.nodes = c.hosts.length) (hnodes : 1 ≤ c.nodes)
    (lv : List Level) (h : genBig c = .tree lv) : usesList (Drv.flatten lv) c.hosts.length = true := by
  unfold usesList
  rw [List.all_eq_true]
  intro m hm
  have hmem := (c12_big_use_all c hN hall hnodes lv h).2.2 m (List.mem_range.mp hm)
  have hf : (Drv.flatten lv).map (·.1) = membersOf lv := by
    unfold Drv.flatten membersOf; exact flatten_go_members lv 0 0
  rw [← hf] at hmem
  obtain ⟨x, hx, hxe⟩ := List.mem_map.mp hmem
  exact List.any_eq_true.mpr ⟨x, hx, by simp [hxe]⟩

/-- non-vacuity: 7 servers / binary passes `IsBinary`, 6 servers does not; a star of 5 -/
example : isBinary (naryClosed 2 3 7) = true ∧ isBinary (naryClosed 2 0 6) = false ∧
    size (naryClosed 2 3 7) = 7 ∧ usesList (naryClosed 2 3 7) 7 = true ∧ leaves (naryClosed 2 3 7) = 4 ∧
    isNary (naryClosed 4 0 5) 4 = true := by decide

/-- **the root is looked up in the roster as it is at the time of the call**: after two entries of the
list were exchanged in place (same length, same members) a root that moved is found at its new
position — the tree is rooted there, and rooted at the old position only if the same server is still
(first) there.  (`c12_root_lookup` is for every list; this is its instance for a changed one.) -/
theorem c12_root_lookup_after_swap (N : Nat) (keys : List Nat) (i j k : Nat) (hN : 1 ≤ N)
    (hk : k ∈ swapAt keys i j) :
    (swapAt keys i j).length = keys.length ∧
    ∃ r, r < keys.length ∧ (swapAt keys i j).getD r 0 = k ∧ (∀ q, q < r → (swapAt keys i j).getD q 0 ≠ k) ∧
      genNaryKeys N (swapAt keys i j) (some k) = .tree (naryClosed N r keys.length) := by
  have hl : (swapAt keys i j).length = keys.length := by simp [swapAt]
  refine ⟨hl, ?_⟩
  obtain ⟨r, h1, h2, h3, h4⟩ := (c12_root_lookup N (swapAt keys i j) k hN).2.1 hk
  rw [hl] at h1 h4
  exact ⟨r, h1, h2, h3, h4⟩

/-- non-vacuity: the root 7 moves from position 0 to position 2 -/
example : genNaryKeys 2 (swapAt [7, 8, 9] 0 2) (some 7) = .tree (naryClosed 2 2 3) ∧
    genNaryKeys 2 [7, 8, 9] (some 7) = .tree (naryClosed 2 0 3) := by decide

/-- **how the big generator spreads an incomplete last level over its parents** has no closed form worth the
name: parent `i` of `L` gets `min N ((rest so far)·(i+1)/L)` children, where "rest so far" already shrinks
inside the level.  Twelve nodes with `N = 4`: the four parents of the last level get 1, 3, 2 and 1 children —
neither packed to the left (as the n-ary generator does) nor balanced.  What *is* proved for every
configuration: the level sizes (`c12_big_levels`), at most `N` per parent (`c12_big_branching`), nothing lost
(`c12_big_size`). -/
example : genBig { N := 4, nodes := 12, hosts := List.replicate 12 0 } =
    .tree [[(0, 0)], [(1, 0), (2, 0), (3, 0), (4, 0)],
           [(5, 0), (6, 1), (7, 1), (8, 1), (9, 2), (10, 2), (11, 3)]] := by decide

/-! ### the code regions the model stands for
Regenerated from /repo's source on every run (`harness/cmd/astfacts` → `OnetVerif/Shapes.lean`): the
calls that matter for synchronisation and data flow, the lock regions and (for decision logic) the
conditions, in source order.  A re-ordering, a dropped call or a changed condition breaks these
obligations even when no sampled input or schedule shows a difference; the check then searches for
a failing input. -/
theorem c12_shape_Roster_GenerateBigNaryTree :
    Shapes.tree_Roster_GenerateBigNaryTree =
   ["if:(len(ro.List)==0)", "assign:used:=make(conv,len(ro.List))", "assign:ilLen:=len(ro.List)",
     "assign:useAll:=(ilLen==nodes)", "NewTreeNode", "assign:root:=NewTreeNode(0,ro.List[0])",
     "assign:used[0]=true", "assign:levelNodes:=conv{root}", "assign:totalNodes:=1",
     "assign:roIndex:=(1%ilLen)", "for:(totalNodes<nodes){",
     "assign:newLevelNodes:=make(conv,(len(levelNodes)*N))", "assign:newLevelNodesCounter:=0",
     "range:i,parent:=levelNodes{",
     "assign:children:=(((nodes-totalNodes)*(i+1))/len(levelNodes))", "if:(children>N)",
     "assign:children=N", "assign:parent.Children=make(conv,children)", "Address.Host",
     "assign:parentHost:=parent.ServerIdentity.Address.Host()", "assign:n:=0",
     "for:(n<children){", "Address.Host", "assign:childHost:=ro.List[].Address.Host()",
     "assign:roIndexFirst:=roIndex", "assign:notSameHost:=true",
     "for:(((notSameHost&&(childHost==parentHost))&&(ilLen>1))||(useAll&&used[roIndex])){",
     "assign:roIndex=((roIndex+1)%ilLen)", "if:(useAll&&used[roIndex])",
     "if:(roIndex==roIndexFirst)", "assign:notSameHost=false", "continue",
     "if:(roIndex==roIndexFirst)", "break", "Address.Host",
     "assign:childHost=ro.List[].Address.Host()", "}", "NewTreeNode",
     "assign:child:=NewTreeNode(roIndex,ro.List[roIndex])", "assign:used[roIndex]=true",
     "assign:roIndex=((roIndex+1)%ilLen)", "assign:totalNodes++",
     "assign:parent.Children[n]=child", "assign:child.Parent=parent",
     "assign:newLevelNodes[newLevelNodesCounter]=child", "assign:newLevelNodesCounter++",
     "assign:n++", "}", "}", "assign:levelNodes=newLevelNodes[:newLevelNodesCounter]", "}",
     "return:NewTree(ro,root)"] := rfl

theorem c12_shape_Roster_GenerateNaryTreeWithRoot :
    Shapes.tree_Roster_GenerateNaryTreeWithRoot =
   ["assign:rootIndex:=0", "if:(root!=nil)", "root.GetID", "ro.searchByKey",
     "assign:rootIndex,_=ro.searchByKey(root.GetID())", "if:(rootIndex<0)", "return:nil", "else",
     "assign:root=ro.List[0]", "NewTreeNode", "assign:rootNode:=NewTreeNode(rootIndex,root)",
     "assign:parents:=conv{rootNode}", "assign:children:=conv{}", "assign:i:=1",
     "for:(i<len(ro.List)){", "assign:index:=((i+rootIndex)%len(ro.List))",
     "if:(parents[].SubtreeCount()==N)", "assign:parents=parents[1:]", "if:(len(parents)==0)",
     "assign:parents=children", "assign:children=conv{}", "NewTreeNode",
     "assign:newChild:=NewTreeNode(index,ro.List[index])",
     "assign:children=append(children,newChild)", "parents[].AddChild", "assign:i++", "}",
     "return:NewTree(ro,rootNode)"] := rfl

theorem c12_shape_Roster_GenerateNaryTree :
    Shapes.tree_Roster_GenerateNaryTree =
   ["return:ro.GenerateNaryTreeWithRoot(N,nil)"] := rfl

theorem c12_shape_Roster_GenerateBinaryTree :
    Shapes.tree_Roster_GenerateBinaryTree =
   ["return:ro.GenerateNaryTree(2)"] := rfl

theorem c12_shape_Roster_GenerateStar :
    Shapes.tree_Roster_GenerateStar =
   ["return:ro.GenerateNaryTree((len(ro.List)-1))"] := rfl

theorem c12_shape_NewTreeNode :
    Shapes.tree_NewTreeNode =
   ["Public.String", "uuid.NewSHA1", "TreeNodeID",
     "assign:tn:=&TreeNode{ServerIdentity:ni,RosterIndex:entityIdx,Parent:nil,Children:make(conv,0),ID:TreeNodeID(uuid.NewSHA1(uuid.NameSpaceURL,conv(ni.Public.String())))}",
     "return:tn"] := rfl

theorem c12_shape_LocalTest_GenTree :
    Shapes.local_LocalTest_GenTree =
   ["l.panicClosed", "l.GenServers", "assign:servers:=l.GenServers(n)", "l.GenRosterFromHost",
     "assign:list:=l.GenRosterFromHost(servers)", "list.GenerateBinaryTree",
     "assign:tree:=list.GenerateBinaryTree()", "assign:l.Trees[tree.ID]=tree", "if:register",
     "overlay.RegisterTree", "return:servers,list,tree"] := rfl

theorem c12_shape_LocalTest_GenBigTree :
    Shapes.local_LocalTest_GenBigTree =
   ["l.panicClosed", "l.GenServers", "assign:servers:=l.GenServers(nbrServers)",
     "l.GenRosterFromHost", "assign:list:=l.GenRosterFromHost(servers)",
     "list.GenerateBigNaryTree", "assign:tree:=list.GenerateBigNaryTree(bf,nbrTreeNodes)",
     "assign:l.Trees[tree.ID]=tree", "if:register", "overlay.RegisterTree",
     "return:servers,list,tree"] := rfl

theorem c12_shape_LocalTest_GenRosterFromHost :
    Shapes.local_LocalTest_GenRosterFromHost =
   ["l.panicClosed", "NewRoster"] := rfl

theorem c12_shape_SimulationBFTree_CreateTree :
    Shapes.simulation_SimulationBFTree_CreateTree =
   ["time.Now", "assign:start:=time.Now()", "if:(sc.Roster==nil)", "return:xerrors.New(\"\")",
     "Roster.GenerateBigNaryTree", "assign:sc.Tree=sc.Roster.GenerateBigNaryTree(s.BF,s.Hosts)",
     "return:nil"] := rfl

theorem c12_shape_Roster_Search :
    Shapes.tree_Roster_Search =
   ["range:i,e:=ro.List{", "if:e.ID.Equal(eID)", "return:i,e", "}", "return:-1,nil"] := rfl

theorem c12_shape_TreeNode_AddChild :
    Shapes.tree_TreeNode_AddChild =
   ["assign:t.Children=append(t.Children,c)", "assign:c.Parent=t"] := rfl

theorem c12_shape_TreeNode_SubtreeCount :
    Shapes.tree_TreeNode_SubtreeCount =
   ["assign:ret:=-1", "assign:ret++", "t.Visit", "return:ret"] := rfl


end C12
