import OnetVerif.Model.C12
/-! Property C12 — property theorems, negation witnesses, `_partial` variants and non-vacuity
examples only (helper lemmas that need Mathlib go to OnetVerif/Proofs/). -/
namespace C12

end C12
