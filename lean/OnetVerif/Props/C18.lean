import OnetVerif.Model.C18
import OnetVerif.Proofs.C18Lemmas
import OnetVerif.Proofs.C18Text
import OnetVerif.Proofs.C18Slices
import OnetVerif.Shapes
/-! Property C18 — configuration files round-trip and always yield the same identities.

Property theorems over the model of `app/config.go` from the decoded TOML structures onwards
(`Model/C18.lean`); helper lemmas in `Proofs/C18Lemmas.lean`.  A Go map is the list of its
entries in iteration order; "whatever the iteration order" is a statement about all permutations. -/
namespace C18

/-- two decoded server entries that differ at most in the iteration order of their `Services` map -/
def SameUpToOrder (s s' : ServerToml) : Prop :=
  s.address = s'.address ∧ s.suite = s'.suite ∧ s.pub = s'.pub ∧ s.description = s'.description ∧
    s.url = s'.url ∧ s.services.Perm s'.services

/-- element-wise relation of two lists of the same length -/
inductive Forall2 {α β : Type} (R : α → β → Prop) : List α → List β → Prop
  | nil : Forall2 R [] []
  | cons {a b l l'} : R a b → Forall2 R l l' → Forall2 R (a :: l) (b :: l')

/-- the keys of a map are distinct -/
def DistinctNames (l : List SvcCfg) : Prop := (l.map (·.name)).Nodup

/-! ### hex -/

/-- **hex round trip**: a key of `l > 0` bytes written by `hex.EncodeToString` is read back by
`getHex(_, l)` as exactly those bytes — whatever follows it in the text — and what `getHex`
returns always has the requested length. -/
theorem c18_hex_roundtrip (b : Bytes) (junk : Str) (hne : b ≠ []) (hb : ∀ x ∈ b, x < 256) :
    getHex (hexEncode b ++ junk) b.length = some b ∧
    (∀ (s : Str) (l : Nat) (b' : Bytes), getHex s l = some b' → b'.length = l ∧ ∀ x ∈ b', x < 256) :=
  ⟨getHex_hexEncode junk hne hb, fun _ _ _ h => getHex_some h⟩

/-! ### independence of the map iteration order -/

theorem toServerIdentity_order {suites : List Suite} {reg : List (Str × Suite)} {s s' : ServerToml}
    (h : SameUpToOrder s s') (hn : DistinctNames s.services) :
    toServerIdentity suites reg s = toServerIdentity suites reg s' := by
  obtain ⟨h1, h2, h3, h4, h5, h6⟩ := h
  unfold toServerIdentity
  rw [← h1, ← h2, ← h3, ← h4, ← h5, ← parseServices_perm h6 hn]

/-- **the identities read from a group file, hence the roster id, do not depend on the iteration
order of any `Services` map** (nor on the order of the service entries in the file): two decoded
structures that agree up to the order of the map entries give the same result — the same list of
identities with the same keys, addresses, URLs, descriptions and service identities in the same
order, the same error, or the same panic. -/
theorem c18_order_independent (suites : List Suite) (reg : List (Str × Suite))
    (cfg cfg' : List ServerToml) (h : Forall2 SameUpToOrder cfg cfg')
    (hn : ∀ s ∈ cfg, DistinctNames s.services) :
    readGroup suites reg cfg = readGroup suites reg cfg' := by
  have hs : readServers suites reg cfg = readServers suites reg cfg' := by
    induction h with
    | nil => rfl
    | @cons a b l l' hh _ ih =>
      simp only [readServers]
      rw [toServerIdentity_order hh (hn a (by simp)), ih (fun s hs => hn s (by simp [hs]))]
  unfold readGroup
  rw [hs]

/-- in particular the roster id (its SHA-256 pre-image) is the same -/
theorem c18_roster_id_order_independent (suites : List Suite) (reg : List (Str × Suite))
    (cfg cfg' : List ServerToml) (h : Forall2 SameUpToOrder cfg cfg')
    (hn : ∀ s ∈ cfg, DistinctNames s.services) (g g' : List ServerId)
    (hg : readGroup suites reg cfg = .ok g) (hg' : readGroup suites reg cfg' = .ok g') :
    rosterPre g = rosterPre g' := by
  rw [c18_order_independent suites reg cfg cfg' h hn, hg'] at hg
  simp only [Res.ok.injEq] at hg
  rw [hg]

/-- the same for a private configuration -/
theorem c18_private_order_independent (suites : List Suite) (reg : List (Str × Suite))
    (hc : PrivCfg) (svcs' : List SvcCfg) (hp : hc.services.Perm svcs') (hn : DistinctNames hc.services) :
    getServerIdentity suites reg (loadCothority { hc with services := svcs' }) =
      getServerIdentity suites reg (loadCothority hc) := by
  unfold getServerIdentity loadCothority
  simp only
  rw [← parseServices_perm hp hn]

/-- the service identities of every server read are sorted by service name -/
theorem c18_services_sorted (reg : List (Str × Suite)) (entries : List SvcCfg) (svcs : List SvcId)
    (h : parseServices reg entries = some svcs) : svcs.Pairwise (fun a b => a.name ≤ b.name) := by
  unfold parseServices at h
  cases hc : collectServices reg entries with
  | none => simp [hc] at h
  | some l =>
    simp only [hc, Option.map_some, Option.some.injEq] at h
    subst h
    have := sortServices_sorted l
    simpa [nameLe] using this

/-- the full statement for the code *before* the repair (identities collected in map order) -/
def C18_order_full_old : Prop :=
  ∀ (reg : List (Str × Suite)) (l l' : List SvcCfg), l.Perm l' → DistinctNames l →
    parseServicesOld reg l = parseServicesOld reg l'

/-- **negation witness**: two services `a`, `b`, two iteration orders, two different slices (and the
roster id covers the service keys in slice order) -/
theorem c18_order_full_old_fails : ¬ C18_order_full_old := by
  intro hall
  let S : Suite := { name := [69], psize := 1, ssize := 1, ptype := 0 }
  let ea : SvcCfg := { name := [97], suite := [69], pub := { s := [48, 49], ok := true }, priv := [] }
  let eb : SvcCfg := { name := [98], suite := [69], pub := { s := [48, 50], ok := true }, priv := [] }
  have := hall [([97], S), ([98], S)] [ea, eb] [eb, ea] (List.Perm.swap eb ea []) (by unfold DistinctNames; decide)
  revert this
  decide

/-- on the repaired code the same two orders give the same slice (non-vacuity of the premises of
`parseServices_perm`: a permutation with distinct names) -/
example :
    let S : Suite := { name := [69], psize := 1, ssize := 1, ptype := 0 }
    let ea : SvcCfg := { name := [97], suite := [69], pub := { s := [48, 49], ok := true }, priv := [] }
    let eb : SvcCfg := { name := [98], suite := [69], pub := { s := [48, 50], ok := true }, priv := [] }
    parseServices [([97], S), ([98], S)] [ea, eb] = parseServices [([97], S), ([98], S)] [eb, ea] :=
  parseServices_perm (List.Perm.swap _ _ []) (by decide)

/-! ### write-out and re-read -/

theorem fillDesc_idem (si : ServerId) : fillDesc (fillDesc si) = fillDesc si := by
  unfold fillDesc
  by_cases h : si.description = []
  · simp [h, placeholder]
  · simp [h]

theorem rosterPre_fillDesc (g : List ServerId) : rosterPre (g.map fillDesc) = rosterPre g := by
  induction g with
  | nil => rfl
  | cons s r ih => simp [rosterPre, ih, fillDesc]

theorem sameType_fillDesc (g : List ServerId) : sameType (g.map fillDesc) = sameType g := by
  cases g with
  | nil => rfl
  | cons s r => simp [sameType, fillDesc, List.all_map, Function.comp_def]

theorem write_read_servers {suites : List Suite} {reg : List (Str × Suite)} {S : Suite}
    (hS : findSuite suites (defaultSuite S.name) = some S) (hpos : 0 < S.psize)
    (hreg : ∀ e ∈ reg, 0 < e.2.psize) :
    ∀ (cfg : List ServerToml) (g : List ServerId),
      (∀ s ∈ cfg, findSuite suites (defaultSuite s.suite) = some S) →
      (∀ s ∈ cfg, ∀ c ∈ s.services, c.priv = []) →
      readServers suites reg cfg = .ok g →
      ∃ ts, writeGroup S reg g = some ts ∧ readServers suites reg ts = .ok (g.map fillDesc)
  | [], g, _, _, h => by
    simp only [readServers, Res.ok.injEq] at h
    subst h
    exact ⟨[], rfl, rfl⟩
  | s :: r, g, hsu, hpr, h => by
    simp only [readServers] at h
    cases ht : toServerIdentity suites reg s with
    | err => simp [ht] at h
    | panic => simp [ht] at h
    | ok si =>
      simp only [ht] at h
      cases hr : readServers suites reg r with
      | err => simp [hr] at h
      | panic => simp [hr] at h
      | ok l =>
        simp only [hr, Res.ok.injEq] at h
        subst h
        obtain ⟨t, hw, hrd⟩ := write_read_server hS hpos hreg (hsu s (by simp)) (hpr s (by simp)) ht
        obtain ⟨ts, hws, hrds⟩ := write_read_servers hS hpos hreg r l
          (fun x hx => hsu x (by simp [hx])) (fun x hx => hpr x (by simp [hx])) hr
        refine ⟨t :: ts, ?_, ?_⟩
        · unfold writeGroup at hws ⊢
          simp [List.mapM_cons, hw, hws]
        · simp [readServers, hrd, hrds]

/-- **writing out what was read and reading it again yields the same identities and the same roster
id**: a group read from a file whose servers all use suite `S`, written with `Group.Toml(S)` /
`GroupToml.String` and read again, gives exactly the identities of the first read — same keys,
addresses, URLs, service identities in the same order — with the one documented difference that an
empty description comes back as the placeholder text; the roster-id pre-image is unchanged and a
second round changes nothing any more.  Hypotheses: the written suite name finds the suite again,
key sizes are positive, group files carry no private service keys; the TOML library returns the
structure it was given (modelling assumption). -/
theorem c18_write_read_same (suites : List Suite) (reg : List (Str × Suite)) (S : Suite)
    (hS : findSuite suites (defaultSuite S.name) = some S) (hpos : 0 < S.psize)
    (hreg : ∀ e ∈ reg, 0 < e.2.psize)
    (cfg : List ServerToml) (g : List ServerId)
    (hsuite : ∀ s ∈ cfg, findSuite suites (defaultSuite s.suite) = some S)
    (hpriv : ∀ s ∈ cfg, ∀ c ∈ s.services, c.priv = [])
    (h : readGroup suites reg cfg = .ok g) :
    ∃ ts, writeGroup S reg g = some ts ∧
      readGroup suites reg ts = .ok (g.map fillDesc) ∧
      rosterPre (g.map fillDesc) = rosterPre g ∧
      (∀ si ∈ g, si.description ≠ [] → fillDesc si = si) ∧
      (g.map fillDesc).map fillDesc = g.map fillDesc := by
  unfold readGroup at h
  cases hr : readServers suites reg cfg with
  | err => simp [hr] at h
  | panic => simp [hr] at h
  | ok g0 =>
    simp only [hr] at h
    by_cases hst : sameType g0 = true
    · simp only [hst, if_true, Res.ok.injEq] at h
      subst h
      obtain ⟨ts, hw, hrd⟩ := write_read_servers hS hpos hreg cfg g0 hsuite hpriv hr
      refine ⟨ts, hw, ?_, rosterPre_fillDesc g0, ?_, ?_⟩
      · unfold readGroup
        simp [hrd, sameType_fillDesc, hst]
      · intro si _ hd
        unfold fillDesc
        simp [hd]
      · simp [List.map_map, Function.comp_def, fillDesc_idem]
    · simp [hst] at h

/-- saving a private configuration that was loaded and loading it again (with the `Services` map
in any iteration order) yields the same server identity -/
theorem c18_private_write_read_same (suites : List Suite) (reg : List (Str × Suite))
    (hc : PrivCfg) (svcs' : List SvcCfg) (hp : hc.services.Perm svcs') (hn : DistinctNames hc.services) :
    getServerIdentity suites reg (loadCothority { loadCothority hc with services := svcs' }) =
      getServerIdentity suites reg (loadCothority hc) := by
  have hidem : defaultSuite (defaultSuite hc.suite) = defaultSuite hc.suite := by
    unfold defaultSuite
    by_cases h : hc.suite = []
    · simp [h, ed25519]
    · simp [h]
  unfold getServerIdentity loadCothority
  simp only [hidem]
  rw [← parseServices_perm hp hn]

/-! ### non-vacuity of the hypotheses of `c18_write_read_same` -/

/-- a suite table, a registry and a one-server group file (suite name omitted, key `"01"`, empty
description) that satisfy every hypothesis; the file reads as one identity with key `[1]` -/
example :
    let S : Suite := { name := ed25519, psize := 1, ssize := 1, ptype := 0 }
    let cfg : List ServerToml :=
      [{ address := [], suite := [], pub := { s := [48, 49], ok := true }, description := [], url := [],
         services := [] }]
    findSuite [S] (defaultSuite S.name) = some S ∧ 0 < S.psize ∧
    (∀ s ∈ cfg, findSuite [S] (defaultSuite s.suite) = some S) ∧
    (∀ s ∈ cfg, ∀ c ∈ s.services, c.priv = []) ∧
    readGroup [S] [] cfg = .ok [{ pub := [1], ptype := 0, services := [], address := [],
                                  description := [], url := [], priv := none }] := by
  refine ⟨by decide, by decide, by decide, by decide, ?_⟩
  simp [readGroup, readServers, toServerIdentity, parseServices, collectServices, sortServices, sameType]
  decide


/-! ### registering / unregistering services a file does not mention -/

theorem regSuite_regAdd_other (reg : List (Str × Suite)) (n m : Str) (S : Suite) (h : m ≠ n) :
    regSuite (regAdd reg n S) m = regSuite reg m := by
  unfold regSuite regAdd
  rw [List.find?_append]
  cases hf : reg.find? (fun e => e.1 == m) with
  | some e => simp
  | none =>
    have : (n == m) = false := by simpa using fun e => h e.symm
    simp [this]

theorem regSuite_regDel_other (reg : List (Str × Suite)) (n m : Str) (h : m ≠ n) :
    regSuite (regDel reg n) m = regSuite reg m := by
  unfold regSuite regDel
  induction reg with
  | nil => rfl
  | cons e r ih =>
    by_cases he : (e.1 == n) = true
    · -- the entry cut out is not one `m` could have found
      have hne : (e.1 == m) = false := by
        have : e.1 = n := by simpa using he
        simpa [this] using fun e' => h e'.symm
      simp [he, hne]
    · have he' : (e.1 == n) = false := by simpa using he
      rw [List.eraseP_cons, he', cond_false]
      by_cases hm : (e.1 == m) = true
      · simp [hm]
      · have hm' : (e.1 == m) = false := by simpa using hm
        simp only [List.find?_cons, hm']
        exact ih

/-- two registries that give every service named in the entries the same suite read them alike -/
theorem parseServices_congr_reg {reg reg' : List (Str × Suite)} :
    ∀ (entries : List SvcCfg), (∀ c ∈ entries, regSuite reg' c.name = regSuite reg c.name) →
      parseServices reg' entries = parseServices reg entries := by
  intro entries h
  have hc : collectServices reg' entries = collectServices reg entries := by
    induction entries with
    | nil => rfl
    | cons c r ih =>
      have h1 : parseServiceIdentity reg' c = parseServiceIdentity reg c := by
        unfold parseServiceIdentity
        rw [h c (by simp)]
      simp only [collectServices, h1, ih (fun x hx => h x (by simp [hx]))]
  unfold parseServices
  rw [hc]

/-- **the registry history does not matter**: whatever services were registered or unregistered
between two reads — as long as every service *named in the file* is registered with the same suite
as before — a group file reads as the same identities (hence the same roster id) -/
theorem c18_registry_change_irrelevant (suites : List Suite) (reg reg' : List (Str × Suite))
    (cfg : List ServerToml)
    (h : ∀ s ∈ cfg, ∀ c ∈ s.services, regSuite reg' c.name = regSuite reg c.name) :
    readGroup suites reg' cfg = readGroup suites reg cfg := by
  have hs : readServers suites reg' cfg = readServers suites reg cfg := by
    induction cfg with
    | nil => rfl
    | cons s r ih =>
      have h1 : toServerIdentity suites reg' s = toServerIdentity suites reg s := by
        unfold toServerIdentity
        rw [parseServices_congr_reg s.services (h s (by simp))]
      simp only [readServers, h1, ih (fun x hx => h x (by simp [hx]))]
  unfold readGroup
  rw [hs]

/-- in particular for one `Register` / `Unregister` of a service the file does not mention, and the
same for a private configuration -/
theorem c18_unrelated_service_irrelevant (suites : List Suite) (reg : List (Str × Suite)) (n : Str) (S : Suite)
    (cfg : List ServerToml) (hc : PrivCfg)
    (h : ∀ s ∈ cfg, ∀ c ∈ s.services, c.name ≠ n) (hp : ∀ c ∈ hc.services, c.name ≠ n) :
    readGroup suites (regAdd reg n S) cfg = readGroup suites reg cfg ∧
    readGroup suites (regDel reg n) cfg = readGroup suites reg cfg ∧
    getServerIdentity suites (regAdd reg n S) (loadCothority hc) = getServerIdentity suites reg (loadCothority hc) ∧
    getServerIdentity suites (regDel reg n) (loadCothority hc) = getServerIdentity suites reg (loadCothority hc) := by
  refine ⟨?_, ?_, ?_, ?_⟩
  · exact c18_registry_change_irrelevant _ _ _ _ fun s hs c hc' => regSuite_regAdd_other _ _ _ _ (h s hs c hc')
  · exact c18_registry_change_irrelevant _ _ _ _ fun s hs c hc' => regSuite_regDel_other _ _ _ (h s hs c hc')
  · unfold getServerIdentity loadCothority
    simp only
    rw [parseServices_congr_reg hc.services fun c hc' => regSuite_regAdd_other _ _ _ _ (hp c hc')]
  · unfold getServerIdentity loadCothority
    simp only
    rw [parseServices_congr_reg hc.services fun c hc' => regSuite_regDel_other _ _ _ (hp c hc')]

/-! ### the text of the files: what the writer emits is what the reader reads
(`Model/C18Toml.lean`: the encoder of BurntSushi/toml v0.3.1 for `GroupToml` / `CothorityConfig`
and the reader for that subset; lemmas in `Proofs/C18Toml.lean`, `Proofs/C18Text.lean`) -/

/-- **every string survives the writer's quoting** — descriptions, URLs, addresses, key texts with
quotes, backslashes, line breaks, tabs, control characters, any bytes: the reader, started behind
the opening quote of what `writeQuoted` wrote, returns exactly the string and stops behind the
closing quote -/
theorem c18_toml_string_roundtrip (s acc rest : Str) :
    Toml.unq (s.flatMap Toml.esc ++ 34 :: rest) acc = .ok (acc ++ s, rest) :=
  Toml.unq_quote s acc rest

/-- the full statement for table names (service names are the keys of the `Services` tables) … -/
def C18_key_full : Prop :=
  ∀ k : Str, k ≠ [] → Toml.pathComp (Toml.quoteKey k ++ [93]) = .ok (k, [93])

/-- … **fails**: `Key.maybeQuoted` escapes only `"`, so a name with a backslash comes back as
another name (`a\tb` ↦ `a<TAB>b`) or makes the file unreadable.  Observed on the real library by the
harness (class service-names); no registered service of onet has such a name. -/
theorem c18_key_full_fails : ¬ C18_key_full := by
  intro h
  have := h [97, 92, 116, 98] (by decide)
  revert this
  decide

/-- what holds (`_partial`): names without backslash and line break are read back -/
theorem c18_key_roundtrip_partial (k : Str) (hk : Toml.KeyOK k) (d : Nat) (rest : Str) (hd : d = 46 ∨ d = 93) :
    Toml.pathComp (Toml.quoteKey k ++ d :: rest) = .ok (k, d :: rest) :=
  Toml.pathComp_quoteKey k hk d rest hd

/-- **a document the writer emits is read back as the same document** (tables in order, keys and
values, indentation and blank lines included) -/
theorem c18_toml_doc_roundtrip (root : Toml.Table) (tables : List Toml.Table) (hr : Toml.WFRoot root)
    (ht : ∀ t ∈ tables, Toml.WFTable t) : Toml.parseDoc (Toml.emitDoc (root :: tables)) = .ok (root :: tables) :=
  Toml.parseDoc_emitDoc root tables hr ht

/-- **`GroupToml.String()` read back** as the same `GroupToml`, the entries of every `Services`
map in the byte order of their names -/
theorem c18_group_text_roundtrip (g : List Toml.TServer) (h : Toml.GroupTextOK g) :
    Toml.readGroupText (Toml.emitGroup g) = .ok (g.map Toml.normServer) :=
  Toml.readGroupText_emitGroup g h

/-- **`CothorityConfig.Save` read back** as the same `CothorityConfig` -/
theorem c18_private_text_roundtrip (p : Toml.TPriv)
    (hn : ∀ l, p.services = some l → (l.map (·.name)).Nodup ∧ ∀ e ∈ l, Toml.KeyOK e.name) :
    Toml.readPrivateText (Toml.emitPrivate p) = .ok (Toml.normPriv p) :=
  Toml.readPrivateText_emitPrivate p hn

/-- **keys that differ only in case are rejected** (repaired code, `app.ambiguousKeys`): a table
that holds two keys the decoder would store into the same field never yields an identity — for
group files, for private configurations, whatever else the file holds -/
theorem c18_ambiguous_keys_rejected :
    (∀ (st : Toml.GSt) (t : Toml.Table), Toml.ambiguous (t.kvs.map (·.1)) = true → Toml.groupStep st t = .err) ∧
    (∀ (st : Toml.PSt) (t : Toml.Table), t.array = false → Toml.ambiguous (t.kvs.map (·.1)) = true →
        Toml.privStep st t = .err) := by
  constructor
  · intro st t h; simp [Toml.groupStep, h]
  · intro st t ha h; simp [Toml.privStep, ha, h]

/-! the array of tables itself spelled in two ways (`[[servers]]` … `[[Servers]]`): the TOML library keeps two
arrays, the decoder stores both into the one field in map order — such a file never yields identities -/

theorem svcTable_spell {st st' : Toml.GSt} {a b : Str} {k : Option Str} {kvs : List (Str × Str)}
    (h : Toml.svcTable st a b k kvs = .ok st') : st'.spell = st.spell := by
  unfold Toml.svcTable at h
  split at h; · cases h
  split at h; · cases h
  split at h
  · cases h
  · split at h; · cases h
    split at h; · cases h
    split at h; · cases h
    split at h
    · split at h; · cases h
      split at h; · cases h
      split at h; · cases h
      cases h; rfl
    · split at h; · cases h
      cases h; rfl

theorem groupStep_spell_keep {st st' : Toml.GSt} {t : Toml.Table} {a : Str}
    (h : Toml.groupStep st t = .ok st') (hs : st.spell = some a) : st'.spell = some a := by
  unfold Toml.groupStep at h
  split at h
  · cases h
  · split at h
    · rename_i x hx
      split at h
      · cases h
      · split at h
        · cases h
        · rename_i hsp
          split at h
          · cases h
          · cases h
            simp only
            rw [hs] at hsp
            simp only [Option.isSome_some, true_and, ne_eq, Option.some.injEq, Decidable.not_not] at hsp
            rw [hsp]
    · rw [svcTable_spell h]; exact hs
    · rw [svcTable_spell h]; exact hs
    · cases h

theorem groupStep_spell_set {st st' : Toml.GSt} {t : Toml.Table} {a : Str}
    (h : Toml.groupStep st t = .ok st') (ha : t.array = true) (hp : t.path = [a]) : st'.spell = some a := by
  unfold Toml.groupStep at h
  split at h
  · cases h
  · rw [ha, hp] at h
    simp only at h
    split at h; · cases h
    split at h; · cases h
    split at h; · cases h
    cases h; rfl

theorem groupLoop_spell_keep (tables : List Toml.Table) :
    ∀ (st st' : Toml.GSt) (a : Str), Toml.groupLoop tables st = .ok st' → st.spell = some a → st'.spell = some a := by
  induction tables with
  | nil => intro st st' a h hs; simp only [Toml.groupLoop] at h; cases h; exact hs
  | cons t r ih =>
    intro st st' a h hs
    simp only [Toml.groupLoop] at h
    split at h
    · rename_i st1 h1; exact ih st1 st' a h (groupStep_spell_keep h1 hs)
    · cases h
    · cases h

/-- **every array-of-tables header of a group file that is read is spelled the same way**: if the tables of a
document are accepted, each `[[…]]` header in it is, letter for letter, the spelling the reader ends with — so a file
that holds `[[servers]]` and `[[Servers]]` (any two spellings, anywhere, any number of elements) is not read -/
theorem c18_array_spelled_one_way (tables : List Toml.Table) :
    ∀ (st st' : Toml.GSt), Toml.groupLoop tables st = .ok st' →
      ∀ t ∈ tables, t.array = true → ∀ a, t.path = [a] → st'.spell = some a := by
  induction tables with
  | nil => intro st st' _ t ht; cases ht
  | cons t0 r ih =>
    intro st st' h t ht harr a hp
    simp only [Toml.groupLoop] at h
    split at h
    · rename_i st1 h1
      rcases List.mem_cons.mp ht with e | hin
      · subst e
        exact groupLoop_spell_keep r st1 st' a h (groupStep_spell_set h1 harr hp)
      · exact ih st1 st' h t hin harr a hp
    · cases h
    · cases h

theorem c18_array_spelled_twice_rejected (tables : List Toml.Table) (st : Toml.GSt) (t₁ t₂ : Toml.Table) (a b : Str)
    (h₁ : t₁ ∈ tables) (h₂ : t₂ ∈ tables) (ha₁ : t₁.array = true) (ha₂ : t₂.array = true)
    (hp₁ : t₁.path = [a]) (hp₂ : t₂.path = [b]) (hne : a ≠ b) :
    ∀ st', Toml.groupLoop tables st ≠ .ok st' := by
  intro st' h
  have e1 := c18_array_spelled_one_way tables st st' h t₁ h₁ ha₁ a hp₁
  have e2 := c18_array_spelled_one_way tables st st' h t₂ h₂ ha₂ b hp₂
  rw [e1] at e2
  exact hne (Option.some.inj e2)

/-- the seeder's file in small: two spellings, different servers -/
example : Toml.readGroupText
    ([91, 91, 115, 101, 114, 118, 101, 114, 115, 93, 93, 10, 80, 117, 98, 108, 105, 99, 32, 61, 32, 34, 97, 34, 10] ++
     [91, 91, 83, 101, 114, 118, 101, 114, 115, 93, 93, 10, 80, 117, 98, 108, 105, 99, 32, 61, 32, 34, 98, 34, 10]) = .err := by decide

/-- the design of the witness file of the finding: `Public` and `public` in one `[[servers]]` table -/
example : Toml.readGroupText
    [91, 91, 115, 101, 114, 118, 101, 114, 115, 93, 93, 10, 80, 117, 98, 108, 105, 99, 32, 61, 32, 34, 97, 34, 10,
     112, 117, 98, 108, 105, 99, 32, 61, 32, 34, 98, 34, 10] = .err := by decide

/-- a file that merely spells its keys in lower case is read -/
example : Toml.readGroupText
    [91, 91, 115, 101, 114, 118, 101, 114, 115, 93, 93, 10, 112, 117, 98, 108, 105, 99, 32, 61, 32, 34, 98, 34, 10] =
    .ok [{ address := [], suite := [], pub := [98], description := [], url := [], services := none }] := by decide

/-- **writing out what was read and reading it again, over the text**: a group read from a file
whose servers all use suite `S` is written by `Group.Save(S)`; the *text* that is written — every
string quoted, every service table under its quoted name — is read by `ReadGroupDescToml` as exactly
the identities of the first read (an empty description as the placeholder), whatever the
descriptions, URLs and addresses contain.  Hypotheses of `c18_write_read_same`, plus: the keys of
every `Services` map are distinct (it is a map), registered service names contain no backslash or
line break (`c18_key_full_fails`), and kyber accepts the keys it wrote itself (`NotBad`). -/
theorem c18_write_read_text (suites : List Suite) (reg : List (Str × Suite)) (S : Suite)
    (hS : findSuite suites (defaultSuite S.name) = some S) (hpos : 0 < S.psize)
    (hreg : ∀ e ∈ reg, 0 < e.2.psize) (hkeys : RegKeysOK reg)
    (cfg : List ServerToml) (g : List ServerId)
    (hsuite : ∀ s ∈ cfg, findSuite suites (defaultSuite s.suite) = some S)
    (hpriv : ∀ s ∈ cfg, ∀ c ∈ s.services, c.priv = [])
    (hdist : ∀ s ∈ cfg, DistinctNames s.services)
    (bad : List Str) (hbad : NotBad bad g)
    (h : readGroup suites reg cfg = .ok g) :
    ∃ txt, saveGroupText S reg g = some txt ∧
      readGroupFile suites reg bad txt = .ok (.ok (g.map fillDesc)) := by
  obtain ⟨ts, hw, hrd, _, _, _⟩ := c18_write_read_same suites reg S hS hpos hreg cfg g hsuite hpriv h
  obtain ⟨t1, t2⟩ := write_group_text hreg hkeys cfg g ts hsuite hpriv hdist (readServers_of_readGroup h) hbad hw
  refine ⟨Toml.emitGroup (ts.map tserverOf), by simp [saveGroupText, hw], ?_⟩
  unfold readGroupFile
  rw [Toml.readGroupText_emitGroup _ t2]
  simp only [t1, hrd]

/-- **a private configuration saved and loaded again, over the text**: `LoadCothority`, then
`CothorityConfig.Save`, then `LoadCothority` + `GetServerIdentity` on the file that was written gives
the identity of the first load -/
theorem c18_private_save_load_text (suites : List Suite) (reg : List (Str × Suite)) (bad : List Str) (p : Toml.TPriv)
    (hn : ∀ l, p.services = some l → (l.map (·.name)).Nodup ∧ ∀ e ∈ l, Toml.KeyOK e.name) :
    readPrivateFile suites reg bad (savePrivateText p) =
      .ok (getServerIdentity suites reg (loadCothority (privCfgOf bad p))) := by
  have hidem : defaultSuite (defaultSuite p.suite) = defaultSuite p.suite := by
    unfold defaultSuite
    by_cases h : p.suite = []
    · simp [h, ed25519]
    · simp [h]
  unfold readPrivateFile savePrivateText
  rw [Toml.readPrivateText_emitPrivate _ (by simpa using hn)]
  simp only
  congr 1
  cases hsv : p.services with
  | none =>
    simp [privCfgOf, Toml.normPriv, hsv, loadCothority, hidem]
  | some l =>
    have hperm : ((Toml.sortSvcs l).map (svcCfgOf bad)).Perm (l.map (svcCfgOf bad)) := (Toml.sortSvcs_perm l).map _
    have hnd : (((Toml.sortSvcs l).map (svcCfgOf bad)).map (·.name)).Nodup := by
      have : ((Toml.sortSvcs l).map (svcCfgOf bad)).map (·.name) = (Toml.sortSvcs l).map (·.name) := by
        rw [List.map_map]; rfl
      rw [this]
      exact Toml.sortSvcs_names_nodup (hn l hsv).1
    unfold getServerIdentity
    simp only [privCfgOf, Toml.normPriv, hsv, loadCothority, hidem, Option.map_some, Option.getD_some]
    rw [parseServices_perm hperm hnd]

/-- **the URL a server announces** (`GetServerIdentity`): the configured URL when there is one or when the
configuration has no WebSocket TLS **key**; else `https://<host>:<port+1>` of its address.  The certificate entry plays
no part (it is not even a field of the model's configuration): a key without certificate still derives the URL. -/
theorem c18_url_rule (suites : List Suite) (reg : List (Str × Suite)) (hc : PrivCfg) (si : ServerId)
    (h : getServerIdentity suites reg hc = .ok si) :
    ((hc.url ≠ [] ∨ hc.wsKey = []) → si.url = hc.url) ∧
    (hc.url = [] → hc.wsKey ≠ [] → ∃ p, C20.atoi ((C20.port hc.address).getD []) = some p ∧
        si.url = httpsPrefix ++ (C20.host hc.address).getD [] ++ 58 :: fmtInt (p + 1)) := by
  unfold getServerIdentity at h
  split at h; · cases h
  split at h; · cases h
  split at h; · cases h
  split at h; · cases h
  simp only at h
  split at h
  · rename_i hk
    split at h
    · rename_i hu
      cases h
      exact ⟨fun _ => rfl, fun e => absurd e hu⟩
    · rename_i hu
      have hu' : hc.url = [] := by simpa using hu
      split at h
      · cases h
      · rename_i p hp
        cases h
        refine ⟨fun c => ?_, fun _ _ => ⟨p, hp, rfl⟩⟩
        rcases c with c | c
        · exact absurd hu' c
        · exact absurd c hk
  · rename_i hk
    cases h
    have hk' : hc.wsKey = [] := by simpa using hk
    exact ⟨fun _ => rfl, fun _ c => absurd hk' c⟩

/-! ### the text may arrive in any chunking -/

private theorem readAllFrom_eq : ∀ (chunks : List Str) (buf : Str), readAllFrom chunks buf = buf ++ chunks.flatten
  | [], buf => by simp [readAllFrom]
  | c :: cs, buf => by simp [readAllFrom, readAllFrom_eq cs, List.append_assoc]

/-- **c18_reader_chunking_irrelevant**: reading a group definition is a function of the text alone — however the
reader cuts it into chunks (one byte per `Read`, half reads, a pipe written table by table, everything at once),
the result is that of the whole text; two deliveries of the same text give the same identities and roster
identifier.  Falsified by a reader loop that stops early: one `Read` into a fixed buffer, a loop that ends at the
first short read. -/
theorem c18_reader_chunking_irrelevant (suites : List Suite) (reg : List (Str × Suite)) (bad : List Str)
    (chunks chunks' : List Str) (text : Str) (h : chunks.flatten = text) (h' : chunks'.flatten = text) :
    readGroupReader suites reg bad chunks = readGroupFile suites reg bad text ∧
    readGroupReader suites reg bad chunks = readGroupReader suites reg bad chunks' := by
  have e : ∀ c : List Str, readAll c = c.flatten := fun c => by simp [readAll, readAllFrom_eq]
  simp only [readGroupReader, e, h, h', and_self]

/-- a reader that takes the first chunk for the whole text loses the rest whenever there is a rest -/
theorem c18_single_read_loses_text (a b : Str) (hb : b ≠ []) : readOnce [a, b] ≠ readAll [a, b] := by
  simp only [readOnce, readAll, readAllFrom, List.head?_cons, Option.getD_some, List.nil_append]
  intro h
  have := congrArg List.length h
  simp only [List.length_append] at this
  have hl : 0 < b.length := List.length_pos_iff.mpr hb
  omega

/-- … and what it reads may still be a well-formed group definition — with fewer servers (another roster
identifier, no error): two `[[servers]]` tables delivered table by table -/
example :
    let t1 : Str := [91, 91, 115, 101, 114, 118, 101, 114, 115, 93, 93, 10, 80, 117, 98, 108, 105, 99, 32, 61, 32, 34, 97, 34, 10]
    let t2 : Str := [91, 91, 115, 101, 114, 118, 101, 114, 115, 93, 93, 10, 80, 117, 98, 108, 105, 99, 32, 61, 32, 34, 98, 34, 10]
    Toml.readGroupText (readOnce [t1, t2]) =
      .ok [{ address := [], suite := [], pub := [97], description := [], url := [], services := none }] ∧
    Toml.readGroupText (readAll [t1, t2]) =
      .ok [{ address := [], suite := [], pub := [97], description := [], url := [], services := none },
           { address := [], suite := [], pub := [98], description := [], url := [], services := none }] := by
  decide

/-! ### the per-service keys of an identity, asked for by name (network/struct.go:213-258) -/

private theorem find_of_mem_nodup : ∀ {l : List SvcId}, (l.map (·.name)).Nodup → ∀ {s : SvcId}, s ∈ l →
    l.find? (fun x => x.name == s.name) = some s
  | [], _, _, hs => by cases hs
  | x :: r, hn, s, hs => by
    simp only [List.map_cons, List.nodup_cons, List.mem_map, not_exists, not_and] at hn
    rcases List.mem_cons.mp hs with rfl | hs'
    · simp
    · have hne : (x.name == s.name) = false := by
        simp only [beq_eq_false_iff_ne, ne_eq]; exact fun e => hn.1 s hs' e.symm
      rw [List.find?_cons, hne]
      exact find_of_mem_nodup hn.2 hs'

private theorem find_none_of_absent {l : List SvcId} {name : Str} (h : ∀ s ∈ l, s.name ≠ name) :
    l.find? (fun x => x.name == name) = none := by
  simp only [List.find?_eq_none, beq_iff_eq]
  exact h

private theorem any_of_mem {l : List SvcId} {s : SvcId} (hs : s ∈ l) : l.any (fun x => x.name == s.name) = true := by
  simp only [List.any_eq_true, beq_iff_eq]
  exact ⟨s, hs, rfl⟩

private theorem any_false_of_absent {l : List SvcId} {name : Str} (h : ∀ s ∈ l, s.name ≠ name) :
    l.any (fun x => x.name == name) = false := by
  simp only [List.any_eq_false, beq_iff_eq]
  exact h

/-- **c18_accessor_entry**: in an identity whose service entries have distinct names — any number of entries, in
any order — asking for the name of an entry gives exactly that entry's keys, and both `Has…` functions say yes.
Falsified by a look-up that compares something else than the exact name (folded case, a prefix, the suite), that
returns the server's own key for the last entry (loop bound), or that returns the neighbour's key. -/
theorem c18_accessor_entry (si : ServerId) (hn : (si.services.map (·.name)).Nodup) (s : SvcId) (hs : s ∈ si.services) :
    si.servicePublic s.name = s.pub ∧ si.servicePrivate s.name = some s.priv ∧
    si.hasServicePublic s.name = true ∧ si.hasServiceKeyPair s.name = true := by
  simp only [ServerId.servicePublic, ServerId.servicePrivate, ServerId.hasServicePublic, ServerId.hasServiceKeyPair,
    find_of_mem_nodup hn hs, any_of_mem hs, and_self]

/-- **c18_accessor_absent**: a name that is not the name of an entry gets the server's own keys (its private key
where one is known), and both `Has…` functions say no — in particular for names that differ from an entry's name
only in letter case or are a prefix of it. -/
theorem c18_accessor_absent (si : ServerId) (name : Str) (h : ∀ s ∈ si.services, s.name ≠ name) :
    si.servicePublic name = si.pub ∧ si.servicePrivate name = si.priv ∧
    si.hasServicePublic name = false ∧ si.hasServiceKeyPair name = false := by
  simp only [ServerId.servicePublic, ServerId.servicePrivate, ServerId.hasServicePublic, ServerId.hasServiceKeyPair,
    find_none_of_absent h, any_false_of_absent h, and_self]

/-- **c18_accessor_order_independent**: what the accessors answer does not depend on the order of the entries
(distinct names): two identities that differ only in that order answer every question alike.  (This is why the
map-order defect changed roster identifiers but never a key handed to a service.) -/
theorem c18_accessor_order_independent (si si' : ServerId) (hp : si.services.Perm si'.services)
    (hn : (si.services.map (·.name)).Nodup) (hpub : si.pub = si'.pub) (hpriv : si.priv = si'.priv) (name : Str) :
    si.servicePublic name = si'.servicePublic name ∧ si.servicePrivate name = si'.servicePrivate name ∧
    si.hasServicePublic name = si'.hasServicePublic name ∧ si.hasServiceKeyPair name = si'.hasServiceKeyPair name := by
  have hn' : (si'.services.map (·.name)).Nodup := (hp.map _).nodup_iff.mp hn
  by_cases hex : ∃ s ∈ si.services, s.name = name
  · obtain ⟨s, hs, rfl⟩ := hex
    have h1 := c18_accessor_entry si hn s hs
    have h2 := c18_accessor_entry si' hn' s (hp.subset hs)
    simp only [h1, h2, and_self]
  · have ha : ∀ s ∈ si.services, s.name ≠ name := fun s hs e => hex ⟨s, hs, e⟩
    have ha' : ∀ s ∈ si'.services, s.name ≠ name := fun s hs e => hex ⟨s, hp.symm.subset hs, e⟩
    have h1 := c18_accessor_absent si name ha
    have h2 := c18_accessor_absent si' name ha'
    simp only [h1, h2, hpub, hpriv, and_self]

/-- the entries the readers produce: every entry of the file that yields an identity, each once -/
private theorem parseServices_mem {reg : List (Str × Suite)} {entries : List SvcCfg} {svcs : List SvcId}
    (hd : DistinctNames entries) (h : parseServices reg entries = some svcs) :
    (svcs.map (·.name)).Nodup ∧ ∀ sid, sid ∈ svcs ↔ ∃ c ∈ entries, parseServiceIdentity reg c = .ok sid := by
  unfold parseServices at h
  rw [collect_eq] at h
  by_cases ha : entries.any (panics reg) = true
  · simp [ha] at h
  · simp only [ha, Bool.false_eq_true, if_false, Option.map_some, Option.some.injEq] at h
    subst h
    refine ⟨((sortServices_perm _).map _).nodup_iff.mpr (filterMap_names_nodup hd), fun sid => ?_⟩
    rw [(sortServices_perm _).mem_iff, List.mem_filterMap]
    constructor
    · rintro ⟨c, hc, hok⟩; exact ⟨c, hc, okOf_some hok⟩
    · rintro ⟨c, hc, hok⟩; exact ⟨c, hc, by simp [okOf, hok]⟩

/-- **c18_service_keys_from_file** (group files and private configurations alike): when the `Services` tables of a
server (distinct table names — they are map keys) yield the identity's service entries, then for every table `c`
that is accepted (`parseServiceIdentity` = the registered suite, a decodable key pair) `ServicePublic(c.name)` /
`ServicePrivate(c.name)` are the keys that table carries, and a name no accepted table has gets the server's own
keys — whatever the iteration order of the map was, however many tables there are. -/
theorem c18_service_keys_from_file (reg : List (Str × Suite)) (entries : List SvcCfg) (si : ServerId)
    (hd : DistinctNames entries) (h : parseServices reg entries = some si.services) :
    (∀ c ∈ entries, ∀ sid, parseServiceIdentity reg c = .ok sid →
        si.servicePublic c.name = sid.pub ∧ si.servicePrivate c.name = some sid.priv ∧ si.hasServiceKeyPair c.name = true) ∧
    (∀ name, (∀ c ∈ entries, c.name = name → ∀ sid, parseServiceIdentity reg c ≠ .ok sid) →
        si.servicePublic name = si.pub ∧ si.servicePrivate name = si.priv ∧ si.hasServicePublic name = false) := by
  obtain ⟨hn, hm⟩ := parseServices_mem hd h
  constructor
  · intro c hc sid hok
    have hs : sid ∈ si.services := (hm sid).mpr ⟨c, hc, hok⟩
    have hname : sid.name = c.name := okOf_name (reg := reg) (by simp [okOf, hok])
    have := c18_accessor_entry si hn sid hs
    rw [hname] at this
    exact ⟨this.1, this.2.1, this.2.2.2⟩
  · intro name hno
    have ha : ∀ s ∈ si.services, s.name ≠ name := by
      intro s hs e
      obtain ⟨c, hc, hok⟩ := (hm s).mp hs
      have hname : s.name = c.name := okOf_name (reg := reg) (by simp [okOf, hok])
      exact hno c hc (by rw [← hname, e]) s hok
    have := c18_accessor_absent si name ha
    exact ⟨this.1, this.2.1, this.2.2.1⟩

/-- the premise of `c18_service_keys_from_file` holds for what the two readers return -/
theorem c18_readers_services (suites : List Suite) (reg : List (Str × Suite)) :
    (∀ (s : ServerToml) (si : ServerId), toServerIdentity suites reg s = .ok si → parseServices reg s.services = some si.services) ∧
    (∀ (hc : PrivCfg) (si : ServerId), getServerIdentity suites reg hc = .ok si → parseServices reg hc.services = some si.services) := by
  constructor
  · intro s si h
    obtain ⟨S, svcs, _, _, hp, hsi⟩ := tsi_ok h
    rw [hsi]; exact hp
  · intro hc si h
    unfold getServerIdentity at h
    split at h; · cases h
    split at h; · cases h
    split at h; · cases h
    split at h; · cases h
    rename_i svcs hp
    simp only at h
    split at h
    · split at h
      · cases h; exact hp
      · split at h
        · cases h
        · cases h; exact hp
    · cases h; exact hp

/-- non-vacuity and the premise: with two entries of one name (not a map) the second is invisible -/
example :
    let a : SvcId := { name := [97], suite := [], pub := [1], priv := [2] }
    let b : SvcId := { name := [98], suite := [], pub := [3], priv := [4] }
    let a2 : SvcId := { name := [97], suite := [], pub := [5], priv := [6] }
    let si : ServerId := { pub := [9], ptype := 0, services := [a, b], address := [], description := [], url := [], priv := none }
    si.servicePublic [98] = [3] ∧ si.servicePublic [66] = [9] ∧ si.servicePrivate [66] = none ∧ si.hasServiceKeyPair [98] = true ∧
    ({ si with services := [a, b, a2] } : ServerId).servicePublic [97] = [1] := by
  decide

/-! ### what was read stays what was read: rosters made from parts of a group's list

`Model/C18Slices.lean`: slices over a heap of arrays, `onet.NewRoster` (copies its argument into a fresh array) and
`Roster.Concat` (appends to a roster made by `NewRoster`). -/

/-- **whatever a consumer does with rosters made from (parts of) the lists of existing rosters — any number of
`NewRoster(list[lo:hi])` and `Concat(…)` calls, on the group's roster or on rosters made before, in any order —
every slice that existed before shows what it showed before.**  In particular the group returned by the reader
keeps the identities of the file, and so its roster identifier. -/
theorem c18_uses_leave_group {α : Type} [DecidableEq α] (pad : α) (st : Sl.St α) (us : List (Sl.Use α)) (s : Sl.Slice)
    (hs : s.arr < st.heap.length) :
    Sl.read (Sl.runWith Sl.newRoster pad st us).heap s = Sl.read st.heap s :=
  Sl.read_below (Sl.run_below pad us st) s hs

/-- … for a group as the reader leaves it -/
theorem c18_group_list_kept {α : Type} [DecidableEq α] (pad : α) (l : List α) (us : List (Sl.Use α)) :
    Sl.read (Sl.runWith Sl.newRoster pad (Sl.ofList l) us).heap { arr := 0, off := 0, len := l.length, cap := l.length } = l := by
  rw [c18_uses_leave_group pad (Sl.ofList l) us _ (by simp [Sl.ofList])]
  simp [Sl.read, Sl.ofList]

/-- what the driver answers to `uses` is the group itself -/
theorem c18_after_uses (g : List ServerId) (k : Nat) : Drv.afterUses g k = g :=
  c18_group_list_kept _ g _

/-- **the copy in `NewRoster` is what this rests on**: with a `NewRoster` that keeps the caller's slice
(`&Roster{List: ids[:]}`), a roster made from the first two of four servers and extended by one server overwrites
the third server of the group. -/
theorem c18_shared_list_witness :
    Sl.read (Sl.runWith Sl.newRosterShared 0 (Sl.ofList [1, 2, 3, 4]) [.part 0 0 2, .concat 1 [9]]).heap
        { arr := 0, off := 0, len := 4, cap := 4 } = [1, 2, 9, 4] ∧
    Sl.read (Sl.runWith Sl.newRoster 0 (Sl.ofList [1, 2, 3, 4]) [.part 0 0 2, .concat 1 [9]]).heap
        { arr := 0, off := 0, len := 4, cap := 4 } = [1, 2, 3, 4] := by
  constructor <;> decide

/-- the uses are not empty and do append in place somewhere: the roster `Concat` returns holds the added server -/
example :
    let st := Sl.runWith Sl.newRoster 0 (Sl.ofList [1, 2, 3, 4]) [.part 0 0 2, .concat 1 [9, 2, 8]]
    st.rosters.map (Sl.read st.heap) = [[1, 2, 3, 4], [1, 2], [1, 2, 9, 8]] := by decide

/-! ### the code regions the model stands for
Regenerated from /repo's source on every run (`harness/cmd/astfacts` → `OnetVerif/Shapes.lean`): the
calls that matter for synchronisation and data flow, the lock regions and (for decision logic) the
conditions, in source order.  A re-ordering, a dropped call or a changed condition breaks these
obligations even when no sampled input or schedule shows a difference; the check then searches for
a failing input. -/
theorem c18_shape_config_parseServiceConfig :
    Shapes.app_config_parseServiceConfig =
   ["parseServiceIdentity", "network.ServiceIdentities", "sort.Sort"] := rfl

theorem c18_shape_config_parseServerServiceConfig :
    Shapes.app_config_parseServerServiceConfig =
   ["parseServiceIdentity", "network.ServiceIdentities", "sort.Sort"] := rfl

theorem c18_shape_config_parseServiceIdentity :
    Shapes.app_config_parseServiceIdentity =
   ["ServiceFactory.Suite", "suite.String", "suite.Scalar", "encoding.StringHexToScalar",
     "encoding.StringHexToPoint", "network.NewServiceIdentity"] := rfl

theorem c18_shape_config_LoadCothority :
    Shapes.app_config_LoadCothority =
   ["toml.DecodeFile", "ambiguousKeys"] := rfl

theorem c18_shape_config_CothorityConfig_Save :
    Shapes.app_config_CothorityConfig_Save =
   ["os.OpenFile", "defer:fd.Close", "fd.WriteString", "fd.WriteString", "toml.NewEncoder",
     "NewEncoder().Encode"] := rfl

theorem c18_shape_config_CothorityConfig_GetServerIdentity :
    Shapes.app_config_CothorityConfig_GetServerIdentity =
   ["suites.Find", "encoding.StringHexToScalar", "encoding.StringHexToPoint",
     "network.NewServerIdentity", "si.SetPrivate", "parseServiceConfig", "Address.Port",
     "strconv.Atoi"] := rfl

theorem c18_shape_config_ReadGroupDescToml :
    Shapes.app_config_ReadGroupDescToml =
   ["toml.DecodeReader", "ambiguousKeys", "s.ToServerIdentity", "onet.NewRoster"] := rfl

theorem c18_shape_config_Group_Toml :
    Shapes.app_config_Group_Toml =
   ["encoding.PointToStringHex", "ServiceFactory.Suite", "encoding.PointToStringHex",
     "suite.String", "suite.String"] := rfl

theorem c18_shape_NewRoster :
    Shapes.tree_NewRoster =
   ["if:((len(ids)<1)||(ids[].Public==nil))", "return:nil", "sha256.New", "Public.MarshalTo",
     "if:(err!=nil)", "Public.MarshalTo", "if:(err!=nil)", "h.Sum", "hex.EncodeToString",
     "uuid.NewSHA1", "RosterID", "if:(len(ids)!=0)", "if:(e.Public==nil)", "if:(agg==nil)",
     "Public.Clone", "else", "agg.Add", "return:r"] := rfl

theorem c18_shape_config_ambiguousKeys :
    Shapes.app_config_ambiguousKeys =
   ["md.Keys", "if:(i==mapLevel)", "else", "if:((n==len(key))&&(md.Type(key)==\"\"))",
     "if:strings.HasPrefix(k,(f+\"\"))", "if:(ok&&(prev!=exact))",
     "return:xerrors.Errorf(\"\",strings.Replace(prev,\"\",\"\",-1),strings.Replace(exact,\"\",\"\",-1))",
     "return:nil"] := rfl

theorem c18_shape_config_GroupToml_String :
    Shapes.app_config_GroupToml_String =
   ["if:(s.Description==\"\")", "toml.NewEncoder", "enc.Encode", "if:(err!=nil)",
     "return:(\"\"+err.Error())", "return:buff.String()"] := rfl

theorem c18_shape_config_GroupToml_Save :
    Shapes.app_config_GroupToml_Save =
   ["os.Create", "defer:file.Close", "gt.String", "file.WriteString"] := rfl

theorem c18_shape_config_Group_Save :
    Shapes.app_config_Group_Save =
   ["g.Toml", "gt.Save"] := rfl

theorem c18_shape_config_ServerToml_ToServerIdentity :
    Shapes.app_config_ServerToml_ToServerIdentity =
   ["suites.Find", "encoding.ReadHexPoint", "network.NewServerIdentity",
     "parseServerServiceConfig"] := rfl

theorem c18_shape_config_NewServerToml :
    Shapes.app_config_NewServerToml =
   ["encoding.WriteHexPoint", "suite.String", "buff.String"] := rfl

theorem c18_shape_config_ServerToml_String :
    Shapes.app_config_ServerToml_String =
   ["if:(s.Description==\"\")", "toml.NewEncoder", "enc.Encode", "if:(err!=nil)",
     "return:(\"\"+err.Error())", "return:buff.String()"] := rfl

theorem c18_shape_struct_ServerIdentity_Toml :
    Shapes.network_struct_ServerIdentity_Toml =
   ["encoding.WriteHexPoint", "buf.String"] := rfl

theorem c18_shape_struct_ServerIdentityToml_ServerIdentity :
    Shapes.network_struct_ServerIdentityToml_ServerIdentity =
   ["encoding.ReadHexPoint"] := rfl

theorem c18_shape_Roster_Toml :
    Shapes.tree_Roster_Toml =
   ["List[].Toml"] := rfl

theorem c18_shape_RosterToml_Roster :
    Shapes.tree_RosterToml_Roster =
   ["List[].ServerIdentity"] := rfl

theorem c18_shape_config_parseServiceConfig_c18 :
    Shapes.app_config_parseServiceConfig_c18 =
   ["assign:si:=conv{}", "range:name,sc:=configs{", "parseServiceIdentity",
     "assign:sid,err:=parseServiceIdentity(name,sc.Suite,sc.Public,sc.Private)", "if:(err!=nil)",
     "else", "assign:si=append(si,sid)", "}", "network.ServiceIdentities", "sort.Sort",
     "return:si"] := rfl

theorem c18_shape_config_parseServerServiceConfig_c18 :
    Shapes.app_config_parseServerServiceConfig_c18 =
   ["assign:si:=conv{}", "range:name,sc:=configs{", "parseServiceIdentity",
     "assign:sid,err:=parseServiceIdentity(name,sc.Suite,sc.Public,\"\")", "if:(err!=nil)",
     "else", "assign:si=append(si,sid)", "}", "network.ServiceIdentities", "sort.Sort",
     "return:si"] := rfl

theorem c18_shape_config_parseServiceIdentity_c18 :
    Shapes.app_config_parseServiceIdentity_c18 =
   ["ServiceFactory.Suite", "assign:suite:=onet.ServiceFactory.Suite(name)", "if:(suite==nil)",
     "return:srvid,xerrors.Errorf(\"\",name)", "else", "if:(suite.String()!=suiteName)",
     "suite.Scalar", "assign:private:=suite.Scalar()", "if:(priv!=\"\")",
     "encoding.StringHexToScalar", "assign:private,err=encoding.StringHexToScalar(suite,priv)",
     "if:(err!=nil)", "return:srvid,xerrors.Errorf(\"\",name,err.Error())",
     "encoding.StringHexToPoint", "assign:public,err:=encoding.StringHexToPoint(suite,pub)",
     "if:(err!=nil)", "return:srvid,xerrors.Errorf(\"\",name,err.Error())",
     "network.NewServiceIdentity",
     "assign:si:=network.NewServiceIdentity(name,suite,public,private)", "return:si,nil"] := rfl

theorem c18_shape_config_CothorityConfig_GetServerIdentity_c18 :
    Shapes.app_config_CothorityConfig_GetServerIdentity_c18 =
   ["suites.Find", "assign:suite,err:=suites.Find(hc.Suite)", "if:(err!=nil)",
     "return:nil,xerrors.Errorf(\"\",err)", "encoding.StringHexToScalar",
     "assign:private,err:=encoding.StringHexToScalar(suite,hc.Private)", "if:(err!=nil)",
     "return:nil,xerrors.Errorf(\"\",err)", "encoding.StringHexToPoint",
     "assign:point,err:=encoding.StringHexToPoint(suite,hc.Public)", "if:(err!=nil)",
     "return:nil,xerrors.Errorf(\"\",err)", "network.NewServerIdentity",
     "assign:si:=network.NewServerIdentity(point,hc.Address)", "si.SetPrivate",
     "assign:si.Description=hc.Description", "parseServiceConfig",
     "assign:si.ServiceIdentities=parseServiceConfig(hc.Services)",
     "if:(hc.WebSocketTLSCertificateKey!=\"\")", "if:(hc.URL!=\"\")",
     "assign:si.URL=strings.Replace(hc.URL,\"\",\"\",0)", "else", "Address.Port", "strconv.Atoi",
     "assign:p,err:=strconv.Atoi(si.Address.Port())", "if:(err!=nil)",
     "return:nil,xerrors.Errorf(\"\")",
     "assign:si.URL=fmt.Sprintf(\"\",si.Address.Host(),(p+1))", "else", "assign:si.URL=hc.URL",
     "return:si,nil"] := rfl

theorem c18_shape_config_ServerToml_ToServerIdentity_c18 :
    Shapes.app_config_ServerToml_ToServerIdentity_c18 =
   ["suites.Find", "assign:suite,err:=suites.Find(s.Suite)", "if:(err!=nil)",
     "return:nil,xerrors.Errorf(\"\",err)", "assign:pubR:=strings.NewReader(s.Public)",
     "encoding.ReadHexPoint", "assign:public,err:=encoding.ReadHexPoint(suite,pubR)",
     "if:(err!=nil)", "return:nil,xerrors.Errorf(\"\",err)", "network.NewServerIdentity",
     "assign:si:=network.NewServerIdentity(public,s.Address)", "assign:si.URL=s.URL",
     "assign:si.Description=s.Description", "parseServerServiceConfig",
     "assign:si.ServiceIdentities=parseServerServiceConfig(s.Services)", "return:si,err"] := rfl

theorem c18_shape_config_Group_Toml_c18 :
    Shapes.app_config_Group_Toml_c18 =
   ["assign:servers:=make(conv,len(g.Roster.List))", "range:i,si:=g.Roster.List{",
     "encoding.PointToStringHex", "assign:pub,err:=encoding.PointToStringHex(suite,si.Public)",
     "if:(err!=nil)", "return:nil,xerrors.Errorf(\"\",err)", "assign:services:=make(conv)",
     "range:_,sid:=si.ServiceIdentities{", "ServiceFactory.Suite",
     "assign:suite:=onet.ServiceFactory.Suite(sid.Name)", "encoding.PointToStringHex",
     "assign:pub,err:=encoding.PointToStringHex(suite,sid.Public)", "if:(err!=nil)",
     "return:nil,xerrors.Errorf(\"\",err)", "suite.String",
     "assign:services[sid.Name]=ServerServiceConfig{Public:pub,Suite:suite.String()}", "}",
     "suite.String",
     "assign:servers[i]=&ServerToml{Address:si.Address,Suite:suite.String(),Public:pub,Description:si.Description,Services:services,URL:si.URL}",
     "}", "return:&GroupToml{Servers:servers},nil"] := rfl

theorem c18_shape_config_ReadGroupDescToml_c18 :
    Shapes.app_config_ReadGroupDescToml_c18 =
   ["assign:group:=&GroupToml{}", "toml.DecodeReader",
     "assign:md,err:=toml.DecodeReader(f,group)", "if:(err!=nil)",
     "return:nil,xerrors.Errorf(\"\",err)", "ambiguousKeys", "assign:err:=ambiguousKeys(md,2)",
     "if:(err!=nil)", "return:nil,xerrors.Errorf(\"\",err)", "range:i,s:=group.Servers{",
     "if:(s.Suite==\"\")", "assign:s.Suite=\"\"", "s.ToServerIdentity",
     "assign:en,err:=s.ToServerIdentity()", "if:(err!=nil)",
     "return:nil,xerrors.Errorf(\"\",err)", "assign:entities[i]=en",
     "assign:descs[en]=s.Description", "}", "onet.NewRoster",
     "assign:el:=onet.NewRoster(entities)", "return:&Group{el,descs},nil"] := rfl

theorem c18_shape_struct_ServiceIdentities_Less_c18 :
    Shapes.network_struct_ServiceIdentities_Less_c18 =
   ["return:(strings.Compare(srvids[i].Name,srvids[j].Name)==-1)"] := rfl

theorem c18_shape_struct_ServiceIdentities_Swap_c18 :
    Shapes.network_struct_ServiceIdentities_Swap_c18 =
   ["assign:srvids[i],srvids[j]=srvids[j],srvids[i]"] := rfl


end C18
