import OnetVerif.Model.C18
/-! Property C18 — property theorems, negation witnesses, `_partial` variants and non-vacuity
examples only (helper lemmas that need Mathlib go to OnetVerif/Proofs/). -/
namespace C18

end C18
