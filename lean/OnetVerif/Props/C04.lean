import OnetVerif.Model.C04
import OnetVerif.Shapes
/-! Property C04 — aggregated message types are delivered as one complete batch per round.
Only property theorems, their non-vacuity examples and the lemmas they need. -/
namespace C04

/-- the observable projection on one aggregated type `t`: the aggregated batches of type `t` that
were dispatched, in order, and what is still queued for `t` -/
def proj (cfg : Cfg) (t : Nat) (r : Queues × List (List Msg)) : List (List Msg) × List Msg :=
  (r.2.filter (isAggBatch cfg t), r.1 t)

theorem run_append (cfg : Cfg) (q : Queues) (l₁ l₂ : List Msg) :
    run cfg q (l₁ ++ l₂) =
      ((run cfg (run cfg q l₁).1 l₂).1, (run cfg q l₁).2 ++ (run cfg (run cfg q l₁).1 l₂).2) := by
  induction l₁ generalizing q with
  | nil => simp [run]
  | cons m l ih => simp [run, ih, List.append_assoc]

/-- **bypass**: a message from the parent, or of a type not registered in slice form, is
dispatched alone and immediately, and leaves every queue untouched. -/
theorem c04_bypass (cfg : Cfg) (q : Queues) (m : Msg) (h : bypass cfg m = true) :
    aggregate cfg q m = (q, some [m]) := by
  simp [aggregate, h]

private theorem kid_not_bypass {cfg : Cfg} {t : Nat} {m : Msg} (h : kid cfg t m = true) :
    bypass cfg m = false ∧ m.ty = t := by
  simp [kid] at h; exact ⟨h.2, h.1⟩

private theorem singleton_not_agg {cfg : Cfg} {t : Nat} {m : Msg} (h : bypass cfg m = true) :
    isAggBatch cfg t [m] = false := by
  simp [isAggBatch, kid, h]

private theorem other_not_agg {cfg : Cfg} {t : Nat} {m : Msg} (pre : List Msg) (h : m.ty ≠ t) :
    isAggBatch cfg t (pre ++ [m]) = false := by
  simp [isAggBatch, kid, h]

private theorem agg_full (cfg : Cfg) (q : Queues) (m : Msg) (hb : bypass cfg m = false)
    (h : (q m.ty).length + 1 = cfg.nChildren) :
    aggregate cfg q m = (fun t => if t = m.ty then [] else q t, some (q m.ty ++ [m])) := by
  simp [aggregate, hb, h]

private theorem agg_part (cfg : Cfg) (q : Queues) (m : Msg) (hb : bypass cfg m = false)
    (h : ¬ (q m.ty).length + 1 = cfg.nChildren) :
    aggregate cfg q m = (fun t => if t = m.ty then q m.ty ++ [m] else q t, none) := by
  simp [aggregate, hb, h]

/-- one step of `aggregate`, seen through the projection on type `t`, for a message that is not
a collected child message of type `t`: nothing changes. -/
private theorem step_irrelevant (cfg : Cfg) (t : Nat) (q : Queues) (m : Msg)
    (h : kid cfg t m = false) :
    (aggregate cfg q m).1 t = q t ∧ (aggregate cfg q m).2.toList.filter (isAggBatch cfg t) = [] := by
  cases hb : bypass cfg m
  · have hty : m.ty ≠ t := by
      intro e; simp [kid, e, hb] at h
    have hty' : t ≠ m.ty := fun e => hty e.symm
    by_cases hf : (q m.ty).length + 1 = cfg.nChildren
    · rw [agg_full cfg q m hb hf]; simp [hty', other_not_agg (q m.ty) hty]
    · rw [agg_part cfg q m hb hf]; simp [hty']
  · rw [c04_bypass cfg q m hb]; simp [singleton_not_agg hb]

/-- **types, parent traffic and other runs never mix**: what the node sees for aggregated type
`t` depends only on what was queued for `t` and on the children's messages of type `t`, in their
arrival order — not on parent messages, other types, or their interleaving. -/
theorem c04_types_independent (cfg : Cfg) (t : Nat) (q q' : Queues) (l : List Msg)
    (hq : q t = q' t) :
    proj cfg t (run cfg q l) = proj cfg t (run cfg q' (l.filter (kid cfg t))) := by
  induction l generalizing q q' with
  | nil => simp [run, proj, hq]
  | cons m l ih =>
    by_cases hk : kid cfg t m = true
    · have ⟨hb, hty⟩ := kid_not_bypass hk
      simp only [List.filter_cons, hk, if_true, run]
      have hstep : (aggregate cfg q m).1 t = (aggregate cfg q' m).1 t ∧
          (aggregate cfg q m).2 = (aggregate cfg q' m).2 := by
        by_cases hf : (q m.ty).length + 1 = cfg.nChildren
        · rw [agg_full cfg q m hb hf, agg_full cfg q' m hb (by rw [hty, ← hq, ← hty]; exact hf)]
          simp [hty, hq]
        · rw [agg_part cfg q m hb hf, agg_part cfg q' m hb (by rw [hty, ← hq, ← hty]; exact hf)]
          simp [hty, hq]
      have := ih (aggregate cfg q m).1 (aggregate cfg q' m).1 hstep.1
      simp only [proj, Prod.mk.injEq] at this ⊢
      simp only [List.filter_append, hstep.2, this.1, this.2, and_self]
    · have hk' : kid cfg t m = false := by simpa using hk
      have hs := step_irrelevant cfg t q m hk'
      simp only [List.filter_cons, hk', run]
      have := ih (aggregate cfg q m).1 q' (hs.1.trans hq)
      simp only [proj, Prod.mk.injEq] at this ⊢
      simp [List.filter_append, hs.2, this.1, this.2]

/-- **nothing before the last child message has arrived** (and nothing is lost meanwhile): as
long as fewer than `nChildren` messages of type `t` are there, no batch of type `t` is dispatched
and all of them are still queued, in arrival order. -/
theorem c04_nothing_before_complete (cfg : Cfg) (t : Nat) (q : Queues) (l : List Msg)
    (hlt : (q t).length + (l.filter (kid cfg t)).length < cfg.nChildren) :
    proj cfg t (run cfg q l) = ([], q t ++ l.filter (kid cfg t)) := by
  induction l generalizing q with
  | nil => simp [run, proj]
  | cons m l ih =>
    by_cases hk : kid cfg t m = true
    · have ⟨hb, hty⟩ := kid_not_bypass hk
      simp only [List.filter_cons, hk, if_true, List.length_cons] at hlt ⊢
      have hne : ¬ ((q t).length + 1 = cfg.nChildren) := by omega
      have hagg := agg_part cfg q m hb (by rw [hty]; exact hne)
      have hq1 : (aggregate cfg q m).1 t = q t ++ [m] := by simp [hagg, hty]
      have := ih (aggregate cfg q m).1 (by rw [hq1]; simp; omega)
      simp only [proj, run] at this ⊢
      rw [hagg] at this ⊢
      simp [hty] at this ⊢
      exact this
    · have hk' : kid cfg t m = false := by simpa using hk
      have hs := step_irrelevant cfg t q m hk'
      simp only [List.filter_cons, hk'] at hlt ⊢
      have := ih (aggregate cfg q m).1 (by rw [hs.1]; simpa using hlt)
      simp only [proj, run] at this ⊢
      simp [List.filter_append, hs.2, this, hs.1]

/-- **exactly one complete batch, at the arrival of the last child message**: when the queued and
arriving children's messages of type `t` number exactly `nChildren` (≥ 1 arriving), exactly one
batch of type `t` is dispatched; it holds exactly those messages in arrival order, and the queue
for `t` is empty afterwards — whatever else is interleaved. -/
theorem c04_one_batch (cfg : Cfg) (t : Nat) (q : Queues) (l : List Msg)
    (hq : ∀ m ∈ q t, kid cfg t m = true)
    (hpos : l.filter (kid cfg t) ≠ [])
    (hn : (q t).length + (l.filter (kid cfg t)).length = cfg.nChildren) :
    proj cfg t (run cfg q l) = ([q t ++ l.filter (kid cfg t)], []) := by
  induction l generalizing q with
  | nil => simp at hpos
  | cons m l ih =>
    by_cases hk : kid cfg t m = true
    · have ⟨hb, hty⟩ := kid_not_bypass hk
      simp only [List.filter_cons, hk, if_true, List.length_cons] at hn hpos ⊢
      by_cases hrest : l.filter (kid cfg t) = []
      · -- m is the last one: the batch is emitted now
        have hlen : (q t).length + 1 = cfg.nChildren := by simpa [hrest] using hn
        have hagg := agg_full cfg q m hb (by rw [hty]; exact hlen)
        have hnb := c04_nothing_before_complete cfg t (aggregate cfg q m).1 l (by
          rw [hagg]; simp [hty, hrest]; omega)
        simp only [proj, run] at hnb ⊢
        rw [hagg] at hnb ⊢
        have hb' : isAggBatch cfg t (q t ++ [m]) = true := by
          simp only [isAggBatch, List.all_append, List.all_cons, List.all_nil, hk, Bool.and_true]
          simp
          exact hq
        simp [hty, hrest] at hnb ⊢
        simp [hnb.2, hb']
        exact hnb.1
      · have hne : ¬ ((q t).length + 1 = cfg.nChildren) := by
          have : 0 < (l.filter (kid cfg t)).length := List.length_pos_iff.mpr hrest
          omega
        have hagg : aggregate cfg q m = (fun t' => if t' = m.ty then q m.ty ++ [m] else q t', none) := by
          simp [aggregate, hb, hty, hne]
        have hq1 : (aggregate cfg q m).1 t = q t ++ [m] := by simp [hagg, hty]
        have := ih (aggregate cfg q m).1 (by
            rw [hq1]; intro x hx; simp at hx; rcases hx with hx | hx
            · exact hq x hx
            · rw [hx]; exact hk) hrest (by rw [hq1]; simp; omega)
        simp only [proj, run] at this ⊢
        rw [hagg] at this ⊢
        simp [hty] at this ⊢
        exact this
    · have hk' : kid cfg t m = false := by simpa using hk
      have hs := step_irrelevant cfg t q m hk'
      simp only [List.filter_cons, hk'] at hn hpos ⊢
      have := ih (aggregate cfg q m).1 (by rw [hs.1]; exact hq) hpos (by rw [hs.1]; simpa using hn)
      simp only [proj, run] at this ⊢
      simp [List.filter_append, hs.2, this, hs.1]

/-- **consecutive rounds**: if the children's messages of type `t` arrive as `k` consecutive
rounds of `nChildren ≥ 1` messages each (arbitrarily interleaved with parent messages and other
types), the node dispatches exactly `k` batches of type `t`, the i-th holding exactly round i. -/
theorem c04_rounds (cfg : Cfg) (t : Nat) (q : Queues) (l : List Msg) (rounds : List (List Msg))
    (hq : q t = []) (hn : 1 ≤ cfg.nChildren)
    (hr : ∀ r ∈ rounds, r.length = cfg.nChildren)
    (hl : l.filter (kid cfg t) = rounds.flatten) :
    proj cfg t (run cfg q l) = (rounds, []) := by
  rw [c04_types_independent cfg t q q l rfl, hl]
  have hkid : ∀ r ∈ rounds, ∀ m ∈ r, kid cfg t m = true := by
    intro r hr' m hm
    have : m ∈ l.filter (kid cfg t) := by rw [hl]; exact List.mem_flatten.mpr ⟨r, hr', hm⟩
    exact (List.mem_filter.mp this).2
  clear hl
  induction rounds generalizing q with
  | nil => simp [run, proj, hq]
  | cons r rs ih =>
    have hrk : r.filter (kid cfg t) = r := List.filter_eq_self.mpr (hkid r (by simp))
    have hrl : r.length = cfg.nChildren := hr r (by simp)
    have h1 := c04_one_batch cfg t q r (by simp [hq]) (by
      rw [hrk]; intro e; simp [e] at hrl; omega) (by simp [hq, hrk, hrl])
    simp only [List.flatten_cons, run_append]
    have h2 := ih (run cfg q r).1 (by simpa [proj] using congrArg Prod.snd h1)
      (fun r' h' => hr r' (by simp [h'])) (fun r' h' => hkid r' (by simp [h']))
    simp only [proj] at h1 h2 ⊢
    simp [List.filter_append, hq, hrk] at h1 h2 ⊢
    simp [h1.1, h2.1, h2.2]

/-! ### non-vacuity: concrete runs that meet the hypotheses -/

private def cfg3 : Cfg := { isRoot := false, nChildren := 3, agg := fun t => t == 1 }
private def k (i v : Nat) : Msg := { ty := 1, src := some i, val := v }
private def par (v : Nat) : Msg := { ty := 1, src := none, val := v }
private def oth (i v : Nat) : Msg := { ty := 2, src := some i, val := v }

/-- three children, arrival order 2,0,1, interleaved with a parent message of the same type and a
message of another type: one batch, after the last child -/
example : proj cfg3 1 (run cfg3 emptyQ [k 2 7, par 9, k 0 8, oth 1 5, k 1 6]) = ([[k 2 7, k 0 8, k 1 6]], []) := by
  decide
example : ([k 2 7, par 9, k 0 8, oth 1 5, k 1 6].filter (kid cfg3 1)) = [k 2 7, k 0 8, k 1 6] := by decide
example : (run cfg3 emptyQ [k 2 7, par 9, k 0 8, oth 1 5, k 1 6]).2
    = [[par 9], [oth 1 5], [k 2 7, k 0 8, k 1 6]] := by decide

/-- the documented boundary (outside the property's premise "every child sends one message"): the
completion test counts messages, so a child that sends twice before a sibling sent once fills the
batch with two of its own messages. -/
theorem c04_counts_messages_not_children :
    proj cfg3 1 (run cfg3 emptyQ [k 0 1, k 0 2, k 1 3]) = ([[k 0 1, k 0 2, k 1 3]], []) := by decide

/-! ### the code regions the model stands for
Regenerated from /repo's source on every run (`harness/cmd/astfacts` → `OnetVerif/Shapes.lean`): the
calls that matter for synchronisation and data flow, the lock regions and (for decision logic) the
conditions, in source order.  A re-ordering, a dropped call or a changed condition breaks these
obligations even when no sampled input or schedule shows a difference; the check then searches for
a failing input. -/
theorem c04_shape_TreeNodeInstance_aggregate :
    Shapes.treenode_TreeNodeInstance_aggregate =
   ["n.IsRoot", "n.Parent", "TreeNodeID.Equal",
     "if:(fromParent||!n.hasFlag(mt,AggregateMessages))", "return:mt,?,true", "if:!ok",
     "if:(len(msgs)==len(n.Children()))", "return:mt,msgs,true", "return:mt,nil,false"] := rfl

theorem c04_shape_TreeNodeInstance_dispatchMsgToProtocol :
    Shapes.treenode_TreeNodeInstance_dispatchMsgToProtocol =
   ["rx.add", "n.aggregate", "n.dispatchChannel", "n.dispatchHandler"] := rfl


end C04
