import OnetVerif.Model.C04
import OnetVerif.Props.C05
import OnetVerif.Props.C01
import OnetVerif.Shapes
/-! Property C04 — aggregated message types are delivered as one complete batch per round.
Only property theorems, their non-vacuity examples and the lemmas they need. -/
namespace C04

/-- the observable projection on one aggregated type `t`: the aggregated batches of type `t` that
were dispatched, in order, and what is still queued for `t` -/
def proj (cfg : Cfg) (t : Nat) (r : Queues × List (List Msg)) : List (List Msg) × List Msg :=
  (r.2.filter (isAggBatch cfg t), r.1 t)

theorem run_append (cfg : Cfg) (q : Queues) (l₁ l₂ : List Msg) :
    run cfg q (l₁ ++ l₂) =
      ((run cfg (run cfg q l₁).1 l₂).1, (run cfg q l₁).2 ++ (run cfg (run cfg q l₁).1 l₂).2) := by
  induction l₁ generalizing q with
  | nil => simp [run]
  | cons m l ih => simp [run, ih, List.append_assoc]

/-- **bypass**: a message from the parent, or of a type not registered in slice form, is
dispatched alone and immediately, and leaves every queue untouched. -/
theorem c04_bypass (cfg : Cfg) (q : Queues) (m : Msg) (h : bypass cfg m = true) :
    aggregate cfg q m = (q, some [m]) := by
  simp [aggregate, h]

private theorem kid_not_bypass {cfg : Cfg} {t : Nat} {m : Msg} (h : kid cfg t m = true) :
    bypass cfg m = false ∧ m.ty = t := by
  simp [kid] at h; exact ⟨h.2, h.1⟩

private theorem singleton_not_agg {cfg : Cfg} {t : Nat} {m : Msg} (h : bypass cfg m = true) :
    isAggBatch cfg t [m] = false := by
  simp [isAggBatch, kid, h]

private theorem other_not_agg {cfg : Cfg} {t : Nat} {m : Msg} (pre : List Msg) (h : m.ty ≠ t) :
    isAggBatch cfg t (pre ++ [m]) = false := by
  simp [isAggBatch, kid, h]

private theorem agg_full (cfg : Cfg) (q : Queues) (m : Msg) (hb : bypass cfg m = false)
    (h : (q m.ty).length + 1 = cfg.nChildren) :
    aggregate cfg q m = (fun t => if t = m.ty then [] else q t, some (q m.ty ++ [m])) := by
  simp [aggregate, hb, h]

private theorem agg_part (cfg : Cfg) (q : Queues) (m : Msg) (hb : bypass cfg m = false)
    (h : ¬ (q m.ty).length + 1 = cfg.nChildren) :
    aggregate cfg q m = (fun t => if t = m.ty then q m.ty ++ [m] else q t, none) := by
  simp [aggregate, hb, h]

/-- one step of `aggregate`, seen through the projection on type `t`, for a message that is not
a collected child message of type `t`: nothing changes. -/
private theorem step_irrelevant (cfg : Cfg) (t : Nat) (q : Queues) (m : Msg)
    (h : kid cfg t m = false) :
    (aggregate cfg q m).1 t = q t ∧ (aggregate cfg q m).2.toList.filter (isAggBatch cfg t) = [] := by
  cases hb : bypass cfg m
  · have hty : m.ty ≠ t := by
      intro e; simp [kid, e, hb] at h
    have hty' : t ≠ m.ty := fun e => hty e.symm
    by_cases hf : (q m.ty).length + 1 = cfg.nChildren
    · rw [agg_full cfg q m hb hf]; simp [hty', other_not_agg (q m.ty) hty]
    · rw [agg_part cfg q m hb hf]; simp [hty']
  · rw [c04_bypass cfg q m hb]; simp [singleton_not_agg hb]

/-- **types, parent traffic and other runs never mix**: what the node sees for aggregated type
`t` depends only on what was queued for `t` and on the children's messages of type `t`, in their
arrival order — not on parent messages, other types, or their interleaving. -/
theorem c04_types_independent (cfg : Cfg) (t : Nat) (q q' : Queues) (l : List Msg)
    (hq : q t = q' t) :
    proj cfg t (run cfg q l) = proj cfg t (run cfg q' (l.filter (kid cfg t))) := by
  induction l generalizing q q' with
  | nil => simp [run, proj, hq]
  | cons m l ih =>
    by_cases hk : kid cfg t m = true
    · have ⟨hb, hty⟩ := kid_not_bypass hk
      simp only [List.filter_cons, hk, if_true, run]
      have hstep : (aggregate cfg q m).1 t = (aggregate cfg q' m).1 t ∧
          (aggregate cfg q m).2 = (aggregate cfg q' m).2 := by
        by_cases hf : (q m.ty).length + 1 = cfg.nChildren
        · rw [agg_full cfg q m hb hf, agg_full cfg q' m hb (by rw [hty, ← hq, ← hty]; exact hf)]
          simp [hty, hq]
        · rw [agg_part cfg q m hb hf, agg_part cfg q' m hb (by rw [hty, ← hq, ← hty]; exact hf)]
          simp [hty, hq]
      have := ih (aggregate cfg q m).1 (aggregate cfg q' m).1 hstep.1
      simp only [proj, Prod.mk.injEq] at this ⊢
      simp only [List.filter_append, hstep.2, this.1, this.2, and_self]
    · have hk' : kid cfg t m = false := by simpa using hk
      have hs := step_irrelevant cfg t q m hk'
      simp only [List.filter_cons, hk', run]
      have := ih (aggregate cfg q m).1 q' (hs.1.trans hq)
      simp only [proj, Prod.mk.injEq] at this ⊢
      simp [List.filter_append, hs.2, this.1, this.2]

/-- **nothing before the last child message has arrived** (and nothing is lost meanwhile): as
long as fewer than `nChildren` messages of type `t` are there, no batch of type `t` is dispatched
and all of them are still queued, in arrival order. -/
theorem c04_nothing_before_complete (cfg : Cfg) (t : Nat) (q : Queues) (l : List Msg)
    (hlt : (q t).length + (l.filter (kid cfg t)).length < cfg.nChildren) :
    proj cfg t (run cfg q l) = ([], q t ++ l.filter (kid cfg t)) := by
  induction l generalizing q with
  | nil => simp [run, proj]
  | cons m l ih =>
    by_cases hk : kid cfg t m = true
    · have ⟨hb, hty⟩ := kid_not_bypass hk
      simp only [List.filter_cons, hk, if_true, List.length_cons] at hlt ⊢
      have hne : ¬ ((q t).length + 1 = cfg.nChildren) := by omega
      have hagg := agg_part cfg q m hb (by rw [hty]; exact hne)
      have hq1 : (aggregate cfg q m).1 t = q t ++ [m] := by simp [hagg, hty]
      have := ih (aggregate cfg q m).1 (by rw [hq1]; simp; omega)
      simp only [proj, run] at this ⊢
      rw [hagg] at this ⊢
      simp [hty] at this ⊢
      exact this
    · have hk' : kid cfg t m = false := by simpa using hk
      have hs := step_irrelevant cfg t q m hk'
      simp only [List.filter_cons, hk'] at hlt ⊢
      have := ih (aggregate cfg q m).1 (by rw [hs.1]; simpa using hlt)
      simp only [proj, run] at this ⊢
      simp [List.filter_append, hs.2, this, hs.1]

/-- **exactly one complete batch, at the arrival of the last child message**: when the queued and
arriving children's messages of type `t` number exactly `nChildren` (≥ 1 arriving), exactly one
batch of type `t` is dispatched; it holds exactly those messages in arrival order, and the queue
for `t` is empty afterwards — whatever else is interleaved. -/
theorem c04_one_batch (cfg : Cfg) (t : Nat) (q : Queues) (l : List Msg)
    (hq : ∀ m ∈ q t, kid cfg t m = true)
    (hpos : l.filter (kid cfg t) ≠ [])
    (hn : (q t).length + (l.filter (kid cfg t)).length = cfg.nChildren) :
    proj cfg t (run cfg q l) = ([q t ++ l.filter (kid cfg t)], []) := by
  induction l generalizing q with
  | nil => simp at hpos
  | cons m l ih =>
    by_cases hk : kid cfg t m = true
    · have ⟨hb, hty⟩ := kid_not_bypass hk
      simp only [List.filter_cons, hk, if_true, List.length_cons] at hn hpos ⊢
      by_cases hrest : l.filter (kid cfg t) = []
      · -- m is the last one: the batch is emitted now
        have hlen : (q t).length + 1 = cfg.nChildren := by simpa [hrest] using hn
        have hagg := agg_full cfg q m hb (by rw [hty]; exact hlen)
        have hnb := c04_nothing_before_complete cfg t (aggregate cfg q m).1 l (by
          rw [hagg]; simp [hty, hrest]; omega)
        simp only [proj, run] at hnb ⊢
        rw [hagg] at hnb ⊢
        have hb' : isAggBatch cfg t (q t ++ [m]) = true := by
          simp only [isAggBatch, List.all_append, List.all_cons, List.all_nil, hk, Bool.and_true]
          simp
          exact hq
        simp [hty, hrest] at hnb ⊢
        simp [hnb.2, hb']
        exact hnb.1
      · have hne : ¬ ((q t).length + 1 = cfg.nChildren) := by
          have : 0 < (l.filter (kid cfg t)).length := List.length_pos_iff.mpr hrest
          omega
        have hagg : aggregate cfg q m = (fun t' => if t' = m.ty then q m.ty ++ [m] else q t', none) := by
          simp [aggregate, hb, hty, hne]
        have hq1 : (aggregate cfg q m).1 t = q t ++ [m] := by simp [hagg, hty]
        have := ih (aggregate cfg q m).1 (by
            rw [hq1]; intro x hx; simp at hx; rcases hx with hx | hx
            · exact hq x hx
            · rw [hx]; exact hk) hrest (by rw [hq1]; simp; omega)
        simp only [proj, run] at this ⊢
        rw [hagg] at this ⊢
        simp [hty] at this ⊢
        exact this
    · have hk' : kid cfg t m = false := by simpa using hk
      have hs := step_irrelevant cfg t q m hk'
      simp only [List.filter_cons, hk'] at hn hpos ⊢
      have := ih (aggregate cfg q m).1 (by rw [hs.1]; exact hq) hpos (by rw [hs.1]; simpa using hn)
      simp only [proj, run] at this ⊢
      simp [List.filter_append, hs.2, this, hs.1]

/-- **consecutive rounds**: if the children's messages of type `t` arrive as `k` consecutive
rounds of `nChildren ≥ 1` messages each (arbitrarily interleaved with parent messages and other
types), the node dispatches exactly `k` batches of type `t`, the i-th holding exactly round i. -/
theorem c04_rounds (cfg : Cfg) (t : Nat) (q : Queues) (l : List Msg) (rounds : List (List Msg))
    (hq : q t = []) (hn : 1 ≤ cfg.nChildren)
    (hr : ∀ r ∈ rounds, r.length = cfg.nChildren)
    (hl : l.filter (kid cfg t) = rounds.flatten) :
    proj cfg t (run cfg q l) = (rounds, []) := by
  rw [c04_types_independent cfg t q q l rfl, hl]
  have hkid : ∀ r ∈ rounds, ∀ m ∈ r, kid cfg t m = true := by
    intro r hr' m hm
    have : m ∈ l.filter (kid cfg t) := by rw [hl]; exact List.mem_flatten.mpr ⟨r, hr', hm⟩
    exact (List.mem_filter.mp this).2
  clear hl
  induction rounds generalizing q with
  | nil => simp [run, proj, hq]
  | cons r rs ih =>
    have hrk : r.filter (kid cfg t) = r := List.filter_eq_self.mpr (hkid r (by simp))
    have hrl : r.length = cfg.nChildren := hr r (by simp)
    have h1 := c04_one_batch cfg t q r (by simp [hq]) (by
      rw [hrk]; intro e; simp [e] at hrl; omega) (by simp [hq, hrk, hrl])
    simp only [List.flatten_cons, run_append]
    have h2 := ih (run cfg q r).1 (by simpa [proj] using congrArg Prod.snd h1)
      (fun r' h' => hr r' (by simp [h'])) (fun r' h' => hkid r' (by simp [h']))
    simp only [proj] at h1 h2 ⊢
    simp [List.filter_append, hq, hrk] at h1 h2 ⊢
    simp [h1.1, h2.1, h2.2]

/-! ### non-vacuity: concrete runs that meet the hypotheses -/

private def cfg3 : Cfg := { isRoot := false, nChildren := 3, agg := fun t => t == 1 }
private def k (i v : Nat) : Msg := { ty := 1, src := some i, val := v }
private def par (v : Nat) : Msg := { ty := 1, src := none, val := v }
private def oth (i v : Nat) : Msg := { ty := 2, src := some i, val := v }

/-- three children, arrival order 2,0,1, interleaved with a parent message of the same type and a
message of another type: one batch, after the last child -/
example : proj cfg3 1 (run cfg3 emptyQ [k 2 7, par 9, k 0 8, oth 1 5, k 1 6]) = ([[k 2 7, k 0 8, k 1 6]], []) := by
  decide
example : ([k 2 7, par 9, k 0 8, oth 1 5, k 1 6].filter (kid cfg3 1)) = [k 2 7, k 0 8, k 1 6] := by decide
example : (run cfg3 emptyQ [k 2 7, par 9, k 0 8, oth 1 5, k 1 6]).2
    = [[par 9], [oth 1 5], [k 2 7, k 0 8, k 1 6]] := by decide

/-- the documented boundary (outside the property's premise "every child sends one message"): the
completion test counts messages, so a child that sends twice before a sibling sent once fills the
batch with two of its own messages. -/
theorem c04_counts_messages_not_children :
    proj cfg3 1 (run cfg3 emptyQ [k 0 1, k 0 2, k 1 3]) = ([[k 0 1, k 0 2, k 1 3]], []) := by decide

/-! ### statements without a premise on the arrivals: every schedule, every fan-out -/

/-- what the queues of an instance hold: children's messages of the queue's own type -/
def QInv (cfg : Cfg) (q : Queues) : Prop := ∀ t, ∀ m ∈ q t, kid cfg t m = true

theorem qinv_empty (cfg : Cfg) : QInv cfg emptyQ := by intro t m hm; simp [emptyQ] at hm

private theorem step_kid (cfg : Cfg) (t : Nat) (q : Queues) (m : Msg) (hk : kid cfg t m = true) :
    ((q t).length + 1 = cfg.nChildren ∧
        aggregate cfg q m = (fun t' => if t' = t then [] else q t', some (q t ++ [m]))) ∨
    (¬ (q t).length + 1 = cfg.nChildren ∧
        aggregate cfg q m = (fun t' => if t' = t then q t ++ [m] else q t', none)) := by
  have ⟨hb, hty⟩ := kid_not_bypass hk
  by_cases hf : (q t).length + 1 = cfg.nChildren
  · left; refine ⟨hf, ?_⟩
    rw [agg_full cfg q m hb (by rw [hty]; exact hf), hty]
  · right; refine ⟨hf, ?_⟩
    rw [agg_part cfg q m hb (by rw [hty]; exact hf), hty]

private theorem kid_of_not_bypass {cfg : Cfg} {m : Msg} (h : bypass cfg m = false) : kid cfg m.ty m = true := by
  simp [kid, h]

theorem qinv_step (cfg : Cfg) (q : Queues) (m : Msg) (hq : QInv cfg q) : QInv cfg (aggregate cfg q m).1 := by
  cases hb : bypass cfg m
  · have hk := kid_of_not_bypass hb
    rcases step_kid cfg m.ty q m hk with ⟨_, h⟩ | ⟨_, h⟩
    · rw [h]; intro t x hx
      by_cases e : t = m.ty
      · simp [e] at hx
      · simp [e] at hx; exact hq t x hx
    · rw [h]; intro t x hx
      by_cases e : t = m.ty
      · subst e; simp at hx; rcases hx with hx | hx
        · exact hq _ x hx
        · rw [hx]; exact hk
      · simp [e] at hx; exact hq t x hx
  · rw [c04_bypass cfg q m hb]; exact hq

theorem qinv_run (cfg : Cfg) (q : Queues) (l : List Msg) (hq : QInv cfg q) : QInv cfg (run cfg q l).1 := by
  induction l generalizing q with
  | nil => exact hq
  | cons m l ih => simp only [run]; exact ih _ (qinv_step cfg q m hq)

/-- **a batch never mixes**: whatever arrives in whatever order, everything the node dispatches is either one
message that bypasses aggregation (from the parent, or of a type not registered in slice form), or exactly
`nChildren` collected messages that are all of one and the same aggregated type. -/
theorem c04_batch_shape (cfg : Cfg) (q : Queues) (l : List Msg) (hq : QInv cfg q) :
    ∀ b ∈ (run cfg q l).2,
      (∃ m, b = [m] ∧ bypass cfg m = true) ∨
      (∃ t, b.length = cfg.nChildren ∧ ∀ m ∈ b, kid cfg t m = true) := by
  induction l generalizing q with
  | nil => simp [run]
  | cons m l ih =>
    intro b hb
    simp only [run, List.mem_append] at hb
    rcases hb with hb | hb
    · cases hbp : bypass cfg m
      · have hk := kid_of_not_bypass hbp
        rcases step_kid cfg m.ty q m hk with ⟨hf, h⟩ | ⟨_, h⟩
        · rw [h] at hb; simp at hb; subst hb
          right; refine ⟨m.ty, by simp [hf], ?_⟩
          intro x hx; simp at hx; rcases hx with hx | hx
          · exact hq _ x hx
          · rw [hx]; exact hk
        · rw [h] at hb; simp at hb
      · rw [c04_bypass cfg q m hbp] at hb; simp at hb
        left; exact ⟨m, hb, hbp⟩
    · exact ih _ (qinv_step cfg q m hq) b hb

/-- **nothing lost, nothing duplicated, nothing re-ordered, for every schedule**: the children's messages of
aggregated type `t` (queued before, then arriving) are, in arrival order, exactly the concatenation of the
batches of type `t` that were dispatched followed by what is still queued. -/
theorem c04_conservation (cfg : Cfg) (t : Nat) (q : Queues) (l : List Msg) (hq : QInv cfg q) :
    ((run cfg q l).2.filter (isAggBatch cfg t)).flatten ++ (run cfg q l).1 t
      = q t ++ l.filter (kid cfg t) := by
  induction l generalizing q with
  | nil => simp [run]
  | cons m l ih =>
    have ih' := ih (aggregate cfg q m).1 (qinv_step cfg q m hq)
    by_cases hk : kid cfg t m = true
    · simp only [List.filter_cons, hk, if_true, run, List.filter_append, List.flatten_append,
        List.append_assoc]
      rw [ih']
      rcases step_kid cfg t q m hk with ⟨_, h⟩ | ⟨_, h⟩
      · have hb' : isAggBatch cfg t (q t ++ [m]) = true := by
          simp only [isAggBatch, List.all_append, List.all_cons, List.all_nil, hk, Bool.and_true]
          simp
          exact hq t
        rw [h]; simp [hb']
      · rw [h]; simp
    · have hk' : kid cfg t m = false := by simpa using hk
      have hs := step_irrelevant cfg t q m hk'
      simp only [List.filter_cons, hk', run, List.filter_append, List.flatten_append, List.append_assoc]
      rw [ih', hs.1, hs.2]; simp

/-- a dispatched batch that is a single message which bypassed aggregation -/
def isBypassBatch (cfg : Cfg) (b : List Msg) : Bool :=
  match b with
  | [m] => bypass cfg m
  | _ => false

/-- **one by one**: the messages from the parent and of non-aggregated types are dispatched each alone, all of
them, in arrival order — whatever is interleaved. -/
theorem c04_bypass_conservation (cfg : Cfg) (q : Queues) (l : List Msg) (hq : QInv cfg q) :
    ((run cfg q l).2.filter (isBypassBatch cfg)) = (l.filter (bypass cfg)).map fun m => [m] := by
  induction l generalizing q with
  | nil => simp [run]
  | cons m l ih =>
    have ih' := ih (aggregate cfg q m).1 (qinv_step cfg q m hq)
    simp only [run, List.filter_append, ih']
    cases hbp : bypass cfg m
    · have hk := kid_of_not_bypass hbp
      simp only [List.filter_cons, hbp]
      rcases step_kid cfg m.ty q m hk with ⟨hf, h⟩ | ⟨_, h⟩
      · rw [h]
        have : isBypassBatch cfg (q m.ty ++ [m]) = false := by
          cases hq' : q m.ty with
          | nil => simp [isBypassBatch, hbp]
          | cons a r =>
            cases r with
            | nil =>
              have := hq m.ty a (by simp [hq'])
              simp [isBypassBatch]
            | cons b r' => simp [isBypassBatch]
        simp [this]
      · rw [h]; simp
    · rw [c04_bypass cfg q m hbp]
      simp [hbp, isBypassBatch]

/-- **a complete batch is never held back**: with at least one child, fewer than `nChildren` messages of any
type are ever waiting — when no message is in flight, what is queued is an incomplete round. -/
theorem c04_queue_bound (cfg : Cfg) (q : Queues) (l : List Msg) (hn : 1 ≤ cfg.nChildren)
    (hq : ∀ t, (q t).length < cfg.nChildren) :
    ∀ t, ((run cfg q l).1 t).length < cfg.nChildren := by
  induction l generalizing q with
  | nil => exact hq
  | cons m l ih =>
    simp only [run]
    apply ih
    intro t
    cases hbp : bypass cfg m
    · have hk := kid_of_not_bypass hbp
      rcases step_kid cfg m.ty q m hk with ⟨_, h⟩ | ⟨hf, h⟩
      · rw [h]; by_cases e : t = m.ty
        · simp [e]; omega
        · simp [e]; exact hq t
      · rw [h]; by_cases e : t = m.ty
        · subst e; simp; have := hq m.ty; omega
        · simp [e]; exact hq t
    · rw [c04_bypass cfg q m hbp]; exact hq t

private theorem length_flatten_const {α : Type} (n : Nat) (L : List (List α)) (h : ∀ b ∈ L, b.length = n) :
    L.flatten.length = n * L.length := by
  induction L with
  | nil => simp
  | cons b L ih =>
    simp only [List.flatten_cons, List.length_append, List.length_cons]
    rw [h b (by simp), ih (fun b' hb' => h b' (by simp [hb'])), Nat.mul_succ]; omega

/-- **how many batches, for every schedule**: starting from a fresh instance with `n ≥ 1` children, after any
sequence of arrivals the number of batches of type `t` is the number of children's messages of type `t`
divided by `n`, and the remainder is what waits. -/
theorem c04_batch_count (cfg : Cfg) (t : Nat) (l : List Msg) (hn : 1 ≤ cfg.nChildren) :
    ((run cfg emptyQ l).2.filter (isAggBatch cfg t)).length = (l.filter (kid cfg t)).length / cfg.nChildren ∧
    ((run cfg emptyQ l).1 t).length = (l.filter (kid cfg t)).length % cfg.nChildren := by
  have hc := congrArg List.length (c04_conservation cfg t emptyQ l (qinv_empty cfg))
  have hb := c04_queue_bound cfg emptyQ l hn (by intro t; simp [emptyQ]; omega) t
  have hlen : ((run cfg emptyQ l).2.filter (isAggBatch cfg t)).flatten.length
      = cfg.nChildren * ((run cfg emptyQ l).2.filter (isAggBatch cfg t)).length := by
    apply length_flatten_const
    intro b hb'
    have hm := List.mem_filter.mp hb'
    rcases c04_batch_shape cfg emptyQ l (qinv_empty cfg) b hm.1 with ⟨m, rfl, hbp⟩ | ⟨t', hl, _⟩
    · have := hm.2; simp [isAggBatch, kid, hbp] at this
    · exact hl
  simp only [List.length_append, emptyQ, List.length_nil, Nat.zero_add] at hc
  rw [hlen] at hc
  generalize ((run cfg emptyQ l).2.filter (isAggBatch cfg t)).length = k at hc
  generalize ((run cfg emptyQ l).1 t).length = r at hc hb
  generalize (l.filter (kid cfg t)).length = N at hc
  generalize cfg.nChildren = n at hc hb hn
  subst hc
  constructor
  · rw [Nat.mul_add_div (by omega : 0 < n) k r, Nat.div_eq_of_lt hb]; omega
  · rw [Nat.mul_add_mod, Nat.mod_eq_of_lt hb]

/-- the documented boundary for a leaf: a node without children never dispatches an aggregated type's message
that does not come from its parent (the completion test `len(msgs) == 0` cannot hold) — such messages wait
for ever. Outside the property's premise (a leaf has no child that could send). -/
theorem c04_leaf_never_dispatches (cfg : Cfg) (t : Nat) (q : Queues) (l : List Msg) (h0 : cfg.nChildren = 0) :
    (run cfg q l).2.filter (isAggBatch cfg t) = [] ∧ (run cfg q l).1 t = q t ++ l.filter (kid cfg t) := by
  induction l generalizing q with
  | nil => simp [run]
  | cons m l ih =>
    have ih' := ih (aggregate cfg q m).1
    simp only [run, List.filter_append, ih'.1, ih'.2, List.append_nil]
    by_cases hk : kid cfg t m = true
    · rcases step_kid cfg t q m hk with ⟨hf, _⟩ | ⟨_, h⟩
      · omega
      · rw [h]; simp [hk]
    · have hk' : kid cfg t m = false := by simpa using hk
      have hs := step_irrelevant cfg t q m hk'
      simp [hk', hs.1, hs.2]

/-! ### several instances on one server, several types, several rounds — at once -/

/-- the messages handed to instance `i`, in order -/
def evOf (i : Nat) (l : List (Nat × Msg)) : List Msg := (l.filter fun e => e.1 = i).map Prod.snd

/-- the batches instance `i` dispatched, in order -/
def outOf (i : Nat) (o : List (Nat × List Msg)) : List (List Msg) := (o.filter fun e => e.1 = i).map Prod.snd

/-- **instances never mix**: in any interleaving of the traffic of any number of instances (runs of the same or
of different protocols, over the same or different trees) on one server, what instance `i` queues and
dispatches is exactly what it would queue and dispatch if its own messages were the only traffic. -/
theorem c04_instances_independent (s : Sys) (i : Nat) (l : List (Nat × Msg)) :
    (sysRun s l).1.cfg = s.cfg ∧
    (sysRun s l).1.q i = (run (s.cfg i) (s.q i) (evOf i l)).1 ∧
    outOf i (sysRun s l).2 = (run (s.cfg i) (s.q i) (evOf i l)).2 := by
  induction l generalizing s with
  | nil => simp [sysRun, evOf, outOf, run]
  | cons e l ih =>
    obtain ⟨j, m⟩ := e
    have ih' := ih (sysStep s j m).1
    have hcfg : (sysStep s j m).1.cfg = s.cfg := rfl
    simp only [sysRun]
    refine ⟨by rw [ih'.1, hcfg], ?_, ?_⟩
    · rw [ih'.2.1, hcfg]
      by_cases hj : j = i
      · subst hj; simp [evOf, run, sysStep]
      · have : (sysStep s j m).1.q i = s.q i := by
          have hne : ¬ i = j := fun h => hj h.symm
          simp [sysStep, hne]
        rw [this]; simp [evOf, hj]
    · simp only [outOf, List.filter_append, List.map_append]
      have h2 := ih'.2.2
      simp only [outOf] at h2
      rw [h2, hcfg]
      by_cases hj : j = i
      · subst hj
        have : ((sysStep s j m).2.toList.map fun b => (j, b)).filter (fun e => e.1 = j) =
            (sysStep s j m).2.toList.map fun b => (j, b) := by
          apply List.filter_eq_self.mpr; intro a ha; simp at ha; obtain ⟨_, _, rfl⟩ := ha; simp
        rw [this]; simp [evOf, run, sysStep, List.map_map, Function.comp_def]
      · have : (sysStep s j m).1.q i = s.q i := by
          have hne : ¬ i = j := fun h => hj h.symm
          simp [sysStep, hne]
        rw [this]
        have : ((sysStep s j m).2.toList.map fun b => (j, b)).filter (fun e => e.1 = i) = [] := by
          apply List.filter_eq_nil_iff.mpr; intro a ha; simp at ha; obtain ⟨_, _, rfl⟩ := ha; simpa using hj
        rw [this]; simp [evOf, hj]

/-- **batches of different instances, types and rounds never mix, all at once**: take any schedule over any
number of instances.  For every instance `i` and every aggregated type `t` whose children's messages arrive
as consecutive rounds of one message per child (interleaved in any way with the other instances' traffic, the
other types, parent messages, and the rounds of the other (instance, type) pairs), instance `i` dispatches for
`t` exactly those rounds, one batch per round, and keeps nothing. -/
theorem c04_sys_rounds (s : Sys) (l : List (Nat × Msg)) (i t : Nat) (rounds : List (List Msg))
    (hq : s.q i t = []) (hn : 1 ≤ (s.cfg i).nChildren)
    (hr : ∀ r ∈ rounds, r.length = (s.cfg i).nChildren)
    (hl : (evOf i l).filter (kid (s.cfg i) t) = rounds.flatten) :
    (outOf i (sysRun s l).2).filter (isAggBatch (s.cfg i) t) = rounds ∧ (sysRun s l).1.q i t = [] := by
  have hi := c04_instances_independent s i l
  have := c04_rounds (s.cfg i) t (s.q i) (evOf i l) rounds hq hn hr hl
  simp only [proj, Prod.mk.injEq] at this
  rw [hi.2.2, hi.2.1]; exact this

/-- every batch any instance dispatches is homogeneous: one bypassing message, or `nChildren` (of that
instance) children's messages of one aggregated type — whatever the interleaving with other instances -/
theorem c04_sys_batch_shape (s : Sys) (l : List (Nat × Msg)) (hq : ∀ i, QInv (s.cfg i) (s.q i)) :
    ∀ e ∈ (sysRun s l).2,
      (∃ m, e.2 = [m] ∧ bypass (s.cfg e.1) m = true) ∨
      (∃ t, e.2.length = (s.cfg e.1).nChildren ∧ ∀ m ∈ e.2, kid (s.cfg e.1) t m = true) := by
  intro e he
  have hi := c04_instances_independent s e.1 l
  have : e.2 ∈ outOf e.1 (sysRun s l).2 := by
    simp only [outOf, List.mem_map, List.mem_filter]
    exact ⟨e, ⟨he, by simp⟩, rfl⟩
  rw [hi.2.2] at this
  exact c04_batch_shape (s.cfg e.1) (s.q e.1) _ (hq e.1) e.2 this

private def sys2 : Sys :=
  { cfg := fun i => if i = 0 then { isRoot := false, nChildren := 2, agg := fun t => t == 1 || t == 2 }
                    else { isRoot := true, nChildren := 3, agg := fun t => t == 1 },
    q := fun _ => emptyQ }

/-- two instances (fan-outs 2 and 3), two aggregated types in the first one, two rounds of type 1 in the first
instance, everything interleaved, a parent message and a plain message in between -/
example : (sysRun sys2
    [(0, k 0 1), (1, k 2 2), (0, ⟨2, some 1, 3⟩), (0, par 4), (1, k 0 5), (0, k 1 6), (1, oth 0 7), (0, ⟨2, some 0, 8⟩),
     (0, k 1 9), (1, k 1 10), (0, k 0 11)]).2
    = [(0, [par 4]), (0, [k 0 1, k 1 6]), (1, [oth 0 7]), (0, [⟨2, some 1, 3⟩, ⟨2, some 0, 8⟩]),
       (1, [k 2 2, k 0 5, k 1 10]), (0, [k 1 9, k 0 11])] := by decide

/-! ### registration: the flag is the form of what was registered (treenode.go:226-261, 294-328) -/

private theorem checkStruct_ok {g : GoTy} {mt : Nat} (h : checkStruct g = .ok mt) : g = .strct 2 true mt := by
  cases g with
  | strct n first mt' =>
    simp only [checkStruct] at h
    split at h
    · simp at h
    · split at h
      · simp at h
      · rename_i h1 h2
        simp at h; simp at h1 h2; subst h; simp [h1, h2]
  | slice e => simp [checkStruct] at h
  | err => simp [checkStruct] at h
  | other => simp [checkStruct] at h

/-- **what a successful registration does, and only that**: it concerns one message type `mt`, it stores the
handler or the channel for `mt`, and it sets the aggregation flag of `mt` to "the argument has slice form" —
nothing else changes. (In particular the flag of `mt` is overwritten whatever was registered for `mt` before.) -/
theorem c04_reg_effect {r r' : Reg} {c : RegCall} (h : regCall r c = .ok r') :
    ∃ mt f, formOf c = some (mt, f) ∧
      r'.flags = (fun t => if t = mt then f == .slice else r.flags t) ∧
      ((∃ cap, r'.channels = (fun t => if t = mt then some (f, cap) else r.channels t) ∧ r'.handlers = r.handlers) ∨
       (r'.handlers = (fun t => if t = mt then some f else r.handlers t) ∧ r'.channels = r.channels)) := by
  cases c with
  | handler a =>
    cases a with
    | fn inp outs =>
      simp only [regCall, registerHandler] at h
      split at h
      · simp at h
      · split at h
        · simp at h
        · split at h
          · simp at h
          · rename_i mt hc
            have hs := checkStruct_ok hc
            simp at h; subst h
            exact ⟨mt, (splitForm inp).1, by simp [formOf, hs], rfl, Or.inr ⟨rfl, rfl⟩⟩
    | chanVal e c n => simp [regCall, registerHandler] at h
    | chanPtr e => simp [regCall, registerHandler] at h
    | other => simp [regCall, registerHandler] at h
  | channel a n =>
    have key : ∀ e cap, registerChanValue r e cap = .ok r' →
        ∃ mt, (splitForm e).2 = .strct 2 true mt ∧
          r'.flags = (fun t => if t = mt then (splitForm e).1 == .slice else r.flags t) ∧
          r'.channels = (fun t => if t = mt then some ((splitForm e).1, cap) else r.channels t) ∧
          r'.handlers = r.handlers := by
      intro e cap h
      simp only [registerChanValue] at h
      split at h
      · simp at h
      · rename_i mt hc
        simp at h; subst h
        exact ⟨mt, checkStruct_ok hc, rfl, rfl, rfl⟩
    cases a with
    | fn inp outs => simp [regCall, registerChannelLength] at h
    | chanVal e c isNil =>
      simp only [regCall, registerChannelLength] at h
      split at h
      · simp at h
      · obtain ⟨mt, hs, h1, h2, h3⟩ := key e c h
        exact ⟨mt, (splitForm e).1, by simp [formOf, hs], h1, Or.inl ⟨c, h2, h3⟩⟩
    | chanPtr e =>
      simp only [regCall, registerChannelLength] at h
      obtain ⟨mt, hs, h1, h2, h3⟩ := key e n h
      exact ⟨mt, (splitForm e).1, by simp [formOf, hs], h1, Or.inl ⟨n, h2, h3⟩⟩
    | other => simp [regCall, registerChannelLength] at h

/-- **a refused registration changes nothing** (all checks precede the stores) — by construction of `regCall`,
stated for the variadic calls: what `RegisterHandlers`/`RegisterChannels` registered before the first refused
argument stays registered, nothing after it is looked at. -/
theorem c04_reg_many_prefix (r : Reg) (pre post : List RegCall) (c : RegCall) (e : RegErr)
    (hpre : (regMany r pre).2 = true) (hc : regCall (regMany r pre).1 c = .error e) :
    regMany r (pre ++ c :: post) = ((regMany r pre).1, false) := by
  induction pre generalizing r with
  | nil => simp [regMany] at hc ⊢; simp [hc]
  | cons a pre ih =>
    simp only [List.cons_append, regMany] at hpre hc ⊢
    split
    · rename_i e' he; simp [he] at hpre
    · rename_i r' hr; simp only [hr] at hpre hc; exact ih r' hpre hc

/-- handlers that are dispatch targets always agree with the flag -/
def HInv (r : Reg) : Prop := ∀ t f, r.channels t = none → r.handlers t = some f → r.flags t = (f == .slice)

private theorem hinv_call {r r' : Reg} {c : RegCall} (hr : HInv r) (h : regCall r c = .ok r') : HInv r' := by
  obtain ⟨mt, f, _, hf, hcase⟩ := c04_reg_effect h
  intro t f' hc hh
  rcases hcase with ⟨cap, hch, hha⟩ | ⟨hha, hch⟩
  · rw [hch] at hc; rw [hha] at hh; rw [hf]
    by_cases e : t = mt
    · simp [e] at hc
    · simp [e] at hc ⊢; exact hr t f' hc hh
  · rw [hch] at hc; rw [hha] at hh; rw [hf]
    by_cases e : t = mt
    · simp [e] at hh ⊢; rw [hh]
    · simp [e] at hh ⊢; exact hr t f' hc hh

private theorem hinv_many {r : Reg} (hr : HInv r) (cs : List RegCall) : HInv (regMany r cs).1 := by
  induction cs generalizing r with
  | nil => exact hr
  | cons c cs ih =>
    simp only [regMany]
    split
    · exact hr
    · rename_i r' h; exact ih (hinv_call hr h)

/-- **whatever a constructor registers, in whatever order, well-formed or not: a handler that is the dispatch
target of its type takes a slice exactly when the type's flag says "aggregated"** — the reflection calls of
`dispatchHandler` can never meet a form they do not expect. -/
theorem c04_reg_handler_target_consistent (gs : List (List RegCall)) : HInv (regScript Reg.empty gs).1 := by
  have : ∀ r, HInv r → HInv (regScript r gs).1 := by
    induction gs with
    | nil => intro r hr; exact hr
    | cons g gs ih => intro r hr; simp only [regScript]; exact ih _ (hinv_many hr g)
  exact this _ (by intro t f _ h; simp [Reg.empty] at h)

/-- every registered thing of type `t` has form `F t`, and the flag of a registered type says so -/
def FInv (F : Nat → Form) (r : Reg) : Prop :=
  ∀ t, (∀ f, r.handlers t = some f → f = F t) ∧ (∀ f c, r.channels t = some (f, c) → f = F t) ∧
       ((r.handlers t ≠ none ∨ r.channels t ≠ none) → r.flags t = (F t == .slice))

private theorem finv_call {F : Nat → Form} {r r' : Reg} {c : RegCall} (hr : FInv F r)
    (hF : ∀ t f, formOf c = some (t, f) → f = F t) (h : regCall r c = .ok r') : FInv F r' := by
  obtain ⟨mt, f, hfo, hf, hcase⟩ := c04_reg_effect h
  have hfF := hF mt f hfo
  intro t
  rcases hcase with ⟨cap, hch, hha⟩ | ⟨hha, hch⟩
  · rw [hch, hha, hf]
    by_cases e : t = mt
    · subst e
      refine ⟨(hr t).1, ?_, ?_⟩
      · intro f' c' h1; simp at h1; rw [← h1.1]; exact hfF
      · intro _; simp [hfF]
    · simp only [e, if_false]; exact hr t
  · rw [hch, hha, hf]
    by_cases e : t = mt
    · subst e
      refine ⟨?_, (hr t).2.1, ?_⟩
      · intro f' h1; simp at h1; rw [← h1]; exact hfF
      · intro _; simp [hfF]
    · simp only [e, if_false]; exact hr t

private theorem finv_many {F : Nat → Form} {r : Reg} (hr : FInv F r) (cs : List RegCall)
    (hF : ∀ c ∈ cs, ∀ t f, formOf c = some (t, f) → f = F t) : FInv F (regMany r cs).1 := by
  induction cs generalizing r with
  | nil => exact hr
  | cons c cs ih =>
    simp only [regMany]
    split
    · exact hr
    · rename_i r' h
      exact ih (finv_call hr (hF c (by simp)) h) (fun c' hc' => hF c' (by simp [hc']))

/-- **the flag is derived from the registered Go type**: if a constructor registers every message type in one
form only (`F t`: slice or plain — as every protocol does that registers a type once), then after the whole
script, for every type, the flag `aggregate` consults equals "the handler / channel that will receive the type
takes a slice". -/
theorem c04_reg_consistent (F : Nat → Form) (gs : List (List RegCall))
    (hF : ∀ g ∈ gs, ∀ c ∈ g, ∀ t f, formOf c = some (t, f) → f = F t) :
    (regScript Reg.empty gs).1.consistent ∧ FInv F (regScript Reg.empty gs).1 := by
  have : ∀ r, FInv F r → (∀ g ∈ gs, ∀ c ∈ g, ∀ t f, formOf c = some (t, f) → f = F t) → FInv F (regScript r gs).1 := by
    induction gs with
    | nil => intro r hr _; exact hr
    | cons g gs ih =>
      intro r hr hF
      simp only [regScript]
      exact ih (fun g' hg' => hF g' (by simp [hg'])) _ (finv_many hr g (hF g (by simp)))
        (fun g' hg' => hF g' (by simp [hg']))
  have hfin := this Reg.empty (by intro t; simp [Reg.empty]) hF
  refine ⟨?_, hfin⟩
  intro t
  have ht := hfin t
  unfold Reg.target
  cases hc : (regScript Reg.empty gs).1.channels t with
  | some fc =>
    obtain ⟨f, c⟩ := fc
    simp only
    rw [ht.2.2 (Or.inr (by simp [hc])), ht.2.1 f c hc]
  | none =>
    cases hh : (regScript Reg.empty gs).1.handlers t with
    | some f => simp only; rw [ht.2.2 (Or.inl (by simp [hh])), ht.1 f hh]
    | none => simp

/-- the boundary: a message type registered as a slice channel and later as a plain handler keeps the channel
as its target but carries the handler's flag — flag and target disagree (the code then recovers from a
reflection panic in `dispatchChannel` and delivers nothing, see `c04_dispatch_mismatch_dropped`) -/
theorem c04_reg_mixed_forms_inconsistent :
    ¬ (regScript Reg.empty [[.channel (.chanPtr (.slice (.strct 2 true 1))) 10],
                            [.handler (.fn (.strct 2 true 1) [.err])]]).1.consistent := by
  intro h
  have := h 1
  simp [regScript, regMany, regCall, registerChannelLength, registerChanValue, registerHandler, splitForm,
    checkStruct, Reg.target, Reg.empty] at this

/-- the two accepted argument types for message type `mt` -/
def formTy (f : Form) (mt : Nat) : GoTy :=
  match f with
  | .plain => .strct 2 true mt
  | .slice => .slice (.strct 2 true mt)

/-- **registration accepts exactly the documented shapes**: a handler is accepted iff it is a function with the
single result `error` whose parameter is `struct{*TreeNode; M}` or a slice of it. -/
theorem c04_reg_handler_accepts_iff (r : Reg) (a : Arg) :
    (∃ r', registerHandler r a = .ok r') ↔ ∃ f mt, a = .fn (formTy f mt) [.err] := by
  constructor
  · rintro ⟨r', h⟩
    cases a with
    | fn inp outs =>
      simp only [registerHandler] at h
      split at h
      · simp at h
      · split at h
        · simp at h
        · rename_i h1 h2
          split at h
          · simp at h
          · rename_i mt hc
            have hs := checkStruct_ok hc
            have ho : outs = [.err] := by simpa using h2
            cases inp with
            | slice e => simp [splitForm] at hs; exact ⟨Form.slice, mt, by simp [hs, ho, formTy]⟩
            | strct n fi m => simp [splitForm] at hs; exact ⟨Form.plain, mt, by simp [hs, ho, formTy]⟩
            | err => simp [splitForm] at hs
            | other => simp [splitForm] at hs
    | chanVal e c n => simp [registerHandler] at h
    | chanPtr e => simp [registerHandler] at h
    | other => simp [registerHandler] at h
  · rintro ⟨f, mt, rfl⟩
    cases f <;> simp [registerHandler, splitForm, checkStruct, formTy]

/-- a channel is accepted iff it is a non-nil channel (or the address of a channel variable) whose elements are
`struct{*TreeNode; M}` or slices of it -/
theorem c04_reg_channel_accepts_iff (r : Reg) (a : Arg) (n : Nat) :
    (∃ r', registerChannelLength r a n = .ok r') ↔
      ∃ f mt, a = .chanPtr (formTy f mt) ∨ ∃ cap, a = .chanVal (formTy f mt) cap false := by
  have key : ∀ e cap, (∃ r', registerChanValue r e cap = .ok r') ↔ ∃ f mt, e = formTy f mt := by
    intro e cap
    constructor
    · rintro ⟨r', h⟩
      simp only [registerChanValue] at h
      split at h
      · simp at h
      · rename_i mt hc
        have hs := checkStruct_ok hc
        cases e with
        | slice e => simp [splitForm] at hs; exact ⟨Form.slice, mt, by simp [hs, formTy]⟩
        | strct n fi m => simp [splitForm] at hs; exact ⟨Form.plain, mt, by simp [hs, formTy]⟩
        | err => simp [splitForm] at hs
        | other => simp [splitForm] at hs
    · rintro ⟨f, mt, rfl⟩
      cases f <;> simp [registerChanValue, splitForm, checkStruct, formTy]
  cases a with
  | fn inp outs => simp [registerChannelLength]
  | other => simp [registerChannelLength]
  | chanPtr e =>
    simp only [registerChannelLength, key]
    constructor
    · rintro ⟨f, mt, rfl⟩; exact ⟨f, mt, Or.inl rfl⟩
    · rintro ⟨f, mt, h | ⟨cap, h⟩⟩
      · simp at h; exact ⟨f, mt, h⟩
      · simp at h
  | chanVal e c isNil =>
    cases isNil
    · have hu : registerChannelLength r (.chanVal e c false) n = registerChanValue r e c := by
        simp [registerChannelLength]
      rw [hu, key]
      constructor
      · rintro ⟨f, mt, rfl⟩; exact ⟨f, mt, Or.inr ⟨c, rfl⟩⟩
      · rintro ⟨f, mt, h | ⟨cap, h⟩⟩
        · simp at h
        · simp at h; exact ⟨f, mt, h.1⟩
    · simp [registerChannelLength]

/-! ### dispatch: what the handler or channel receives (treenode.go:387-424, 447-496, 577-586) -/

private theorem target_handler {r : Reg} {t : Nat} {f : Form} (h : r.target t = .handler f) :
    r.channels t = none ∧ r.handlers t = some f := by
  unfold Reg.target at h
  cases hc : r.channels t with
  | some fc => simp [hc] at h
  | none =>
    cases hh : r.handlers t with
    | some f' => simp [hc, hh] at h; simp [h]
    | none => simp [hc, hh] at h

/-- **registration can never make the reader goroutine crash in `dispatchHandler`**: with the invariant every
registration script establishes, no batch meets a handler of the wrong form. -/
theorem c04_no_crash (s : IState) (mt : Nat) (b : List Msg) (h : HInv s.reg) : (dispatch s mt b).2 ≠ .crash := by
  unfold dispatch
  cases ht : s.reg.target mt with
  | none => simp
  | chan f cap =>
    simp only
    cases s.reg.flags mt <;> cases f <;> simp <;> split <;> simp
  | handler f =>
    have ⟨h1, h2⟩ := target_handler ht
    have := h mt f h1 h2
    simp only [this]
    cases f <;> simp

/-- a handler registered in slice form is called once, with the whole batch -/
theorem c04_dispatch_handler_slice (s : IState) (mt : Nat) (b : List Msg) (hi : HInv s.reg)
    (ht : s.reg.target mt = .handler .slice) : dispatch s mt b = (s, .calls [b]) := by
  have ⟨h1, h2⟩ := target_handler ht
  have := hi mt .slice h1 h2
  simp [dispatch, ht, this]

/-- a handler registered in plain form is called once per message -/
theorem c04_dispatch_handler_plain (s : IState) (mt : Nat) (b : List Msg) (hi : HInv s.reg)
    (ht : s.reg.target mt = .handler .plain) : dispatch s mt b = (s, .calls (b.map fun m => [m])) := by
  have ⟨h1, h2⟩ := target_handler ht
  have := hi mt .plain h1 h2
  simp [dispatch, ht, this]

/-- a channel registered in slice form receives the whole batch as one item, behind what it already holds -/
theorem c04_dispatch_chan_slice (s : IState) (mt cap : Nat) (b : List Msg)
    (ht : s.reg.target mt = .chan .slice cap) (hf : s.reg.flags mt = true) (hroom : (s.chans mt).length < cap) :
    dispatch s mt b = ({ s with chans := fun t => if t = mt then s.chans mt ++ [b] else s.chans t }, .sent [b]) := by
  simp [dispatch, ht, hf, hroom]

private theorem sendPlain_room (cap : Nat) (buf : List (List Msg)) (b : List Msg)
    (h : buf.length + b.length ≤ cap) :
    sendPlain cap buf b = (buf ++ b.map (fun m => [m]), b.map fun m => [m]) := by
  induction b generalizing buf with
  | nil => simp [sendPlain]
  | cons m ms ih =>
    simp only [List.length_cons] at h
    have : buf.length < cap := by omega
    simp only [sendPlain, this, if_true]
    rw [ih (buf ++ [[m]]) (by simp; omega)]
    simp

/-- a channel registered in plain form receives the messages one by one, as long as it has room -/
theorem c04_dispatch_chan_plain (s : IState) (mt cap : Nat) (b : List Msg) (hb : b ≠ [])
    (ht : s.reg.target mt = .chan .plain cap) (hf : s.reg.flags mt = false)
    (hroom : (s.chans mt).length + b.length ≤ cap) :
    dispatch s mt b = ({ s with chans := fun t => if t = mt then s.chans mt ++ b.map (fun m => [m]) else s.chans t },
                       .sent (b.map fun m => [m])) := by
  simp [dispatch, ht, hf, sendPlain_room cap (s.chans mt) b hroom, hb]

/-- **a slow reader loses nothing**: a complete batch for a slice-form channel is either put into the channel or
— when the channel has no room (always, for an unbuffered one) — kept by the reader goroutine, which waits
inside `Send`; it is never dropped … -/
theorem c04_slice_channel_never_drops (s : IState) (mt cap : Nat) (b : List Msg)
    (ht : s.reg.target mt = .chan .slice cap) (hf : s.reg.flags mt = true) :
    ((dispatch s mt b).2 = .sent [b] ∧ (dispatch s mt b).1.chans mt = s.chans mt ++ [b] ∧
        (dispatch s mt b).1.stuck = s.stuck) ∨
    ((dispatch s mt b).2 = .blocked ∧ (dispatch s mt b).1.chans = s.chans ∧
        (dispatch s mt b).1.stuck = some (mt, b)) := by
  by_cases hroom : (s.chans mt).length < cap
  · left; simp [dispatch, ht, hf, hroom]
  · right; simp [dispatch, ht, hf, hroom]

/-- … and the protocol receives it, behind everything that was in the channel, as soon as it reads. -/
theorem c04_blocked_batch_received (s : IState) (mt : Nat) (b : List Msg) (h : s.stuck = some (mt, b)) :
    (irecv s mt).2 = s.chans mt ++ [b] ∧ (irecv s mt).1.stuck = none ∧ (irecv s mt).1.chans mt = [] := by
  simp [irecv, h]

/-- the documented boundary of plain channels: a message that finds the channel full (`out.Len() == out.Cap()`,
always the case for an unbuffered channel) is not delivered — `dispatchChannel` returns "channel too small" -/
theorem c04_plain_channel_full_drops (s : IState) (mt cap : Nat) (m : Msg)
    (ht : s.reg.target mt = .chan .plain cap) (hf : s.reg.flags mt = false) (hfull : cap ≤ (s.chans mt).length) :
    (dispatch s mt [m]).2 = .dropped ∧ (dispatch s mt [m]).1.chans = s.chans := by
  have : ¬ (s.chans mt).length < cap := by omega
  simp only [dispatch, ht, hf, sendPlain, this]
  constructor
  · simp
  · funext t; by_cases e : t = mt <;> simp [e]

/-- a type nobody registered, or a channel whose form contradicts the flag: nothing is delivered, nothing changes -/
theorem c04_dispatch_mismatch_dropped (s : IState) (mt : Nat) (b : List Msg)
    (h : s.reg.target mt = .none ∨ ∃ f cap, s.reg.target mt = .chan f cap ∧ s.reg.flags mt ≠ (f == .slice)) :
    dispatch s mt b = (s, .dropped) := by
  rcases h with h | ⟨f, cap, h, hne⟩
  · simp [dispatch, h]
  · cases f <;> cases hf : s.reg.flags mt <;> simp [hf] at hne <;> simp [dispatch, h, hf]

/-! ### from the registered Go type to the batches the handler sees -/

private theorem dispatch_frame (s : IState) (mt : Nat) (b : List Msg) :
    (dispatch s mt b).1.q = s.q ∧ (dispatch s mt b).1.reg = s.reg ∧
    (dispatch s mt b).1.isRoot = s.isRoot ∧ (dispatch s mt b).1.nChildren = s.nChildren := by
  unfold dispatch
  cases s.reg.target mt with
  | none => simp
  | handler f => simp only; cases s.reg.flags mt <;> cases f <;> simp
  | chan f cap =>
    simp only
    cases s.reg.flags mt <;> cases f <;> simp
    split <;> simp

private theorem istep_frame (s : IState) (m : Msg) :
    (istep s m).1.q = (aggregate s.cfg s.q m).1 ∧ (istep s m).1.reg = s.reg ∧
    (istep s m).1.isRoot = s.isRoot ∧ (istep s m).1.nChildren = s.nChildren := by
  unfold istep
  simp only
  split
  · simp
  · rename_i b _
    have := dispatch_frame { s with q := (aggregate s.cfg s.q m).1 } m.ty b
    simp only at this ⊢
    exact this

private theorem istep_cfg (s : IState) (m : Msg) : (istep s m).1.cfg = s.cfg := by
  have := istep_frame s m
  simp [IState.cfg, this.2.1, this.2.2.1, this.2.2.2]

/-- the registration-and-dispatch layer sits on top of `aggregate` without touching it: queues and
configuration evolve exactly as in `run` -/
theorem c04_irun_refines (s : IState) (l : List Msg) :
    (irun s l).1.q = (run s.cfg s.q l).1 ∧ (irun s l).1.cfg = s.cfg ∧ (irun s l).1.reg = s.reg := by
  induction l generalizing s with
  | nil => simp [irun, run]
  | cons m l ih =>
    have hf := istep_frame s m
    have hc := istep_cfg s m
    have := ih (istep s m).1
    simp only [irun, run]
    rw [this.1, this.2.1, this.2.2, hc, hf.1, hf.2.1]
    exact ⟨rfl, rfl, rfl⟩

/-- **end to end, from the Go type to the batches**: let a constructor run *any* registration script, and let
message type `t` end up with a slice-form handler as its dispatch target.  Then for every schedule the calls of
that handler with collected batches of `t` are exactly the batches `aggregate` releases for `t`. -/
theorem c04_handler_calls (s : IState) (l : List Msg) (t : Nat) (hq : QInv s.cfg s.q) (hi : HInv s.reg)
    (ht : s.reg.target t = .handler .slice) :
    (callsOf (irun s l).2).filter (isAggBatch s.cfg t) = (run s.cfg s.q l).2.filter (isAggBatch s.cfg t) := by
  induction l generalizing s with
  | nil => simp [irun, run, callsOf]
  | cons m l ih =>
    have hf := istep_frame s m
    have hc := istep_cfg s m
    have ih' := ih (istep s m).1 (by rw [hc, hf.1]; exact qinv_step s.cfg s.q m hq) (by rw [hf.2.1]; exact hi)
      (by rw [hf.2.1]; exact ht)
    rw [hc, hf.1] at ih'
    simp only [irun, run, List.filter_append]
    have hco : ∀ (a b : List Outcome), callsOf (a ++ b) = callsOf a ++ callsOf b := by
      intro a b; induction a with
      | nil => rfl
      | cons o a iha => cases o <;> simp [callsOf, iha]
    rw [hco, List.filter_append, ih']
    congr 1
    -- the step itself
    unfold istep
    cases hb : bypass s.cfg m
    · have hk := kid_of_not_bypass hb
      rcases step_kid s.cfg m.ty s.q m hk with ⟨_, h⟩ | ⟨_, h⟩
      · rw [h]
        simp only [Option.toList]
        by_cases e : m.ty = t
        · have ht' : s.reg.target m.ty = .handler .slice := by rw [e]; exact ht
          rw [c04_dispatch_handler_slice _ _ _ (by exact hi) (by exact ht')]
          simp [callsOf]
        · have hna : isAggBatch s.cfg t (s.q m.ty ++ [m]) = false := other_not_agg _ e
          have hfl : s.reg.flags m.ty = true := by
            have : s.cfg.agg m.ty = true := by
              simp [bypass] at hb; exact hb.2
            exact this
          -- whatever the target of m.ty is, no call is an aggregated batch of t
          simp only [hna, List.filter_cons, List.filter_nil]
          unfold dispatch
          cases s.reg.target m.ty with
          | none => simp [callsOf]
          | handler f => simp only [hfl]; cases f <;> simp [callsOf, hna]
          | chan f cap =>
            simp only [hfl]
            cases f <;> simp [callsOf]
            split <;> simp [callsOf]
      · rw [h]; simp [callsOf]
    · rw [c04_bypass s.cfg s.q m hb]
      have hna : isAggBatch s.cfg t [m] = false := singleton_not_agg hb
      simp only [Option.toList, hna, List.filter_cons, List.filter_nil]
      unfold dispatch
      cases s.reg.target m.ty with
      | none => simp [callsOf]
      | handler f =>
        simp only
        cases s.reg.flags m.ty <;> cases f <;> simp [callsOf, hna]
      | chan f cap =>
        simp only
        cases s.reg.flags m.ty <;> cases f <;> simp [callsOf]
        · split <;> simp [callsOf]
        · split <;> simp [callsOf]

/-- **the property for a handler registered in slice form**: whatever else the constructor registers, if the
children's messages of type `t` arrive as consecutive rounds of one per child (interleaved with anything), the
handler is called exactly once per round, with exactly that round. -/
theorem c04_registered_rounds (gs : List (List RegCall)) (isRoot : Bool) (n t : Nat) (l : List Msg)
    (rounds : List (List Msg))
    (ht : (regScript Reg.empty gs).1.target t = .handler .slice)
    (hn : 1 ≤ n) (hr : ∀ r ∈ rounds, r.length = n)
    (hl : l.filter (kid { isRoot := isRoot, nChildren := n, agg := (regScript Reg.empty gs).1.flags } t) = rounds.flatten) :
    (callsOf (irun { isRoot := isRoot, nChildren := n, reg := (regScript Reg.empty gs).1 } l).2).filter
      (isAggBatch { isRoot := isRoot, nChildren := n, agg := (regScript Reg.empty gs).1.flags } t) = rounds := by
  have hi := c04_reg_handler_target_consistent gs
  have h1 := c04_handler_calls { isRoot := isRoot, nChildren := n, reg := (regScript Reg.empty gs).1 } l t
    (qinv_empty _) hi ht
  have h2 := c04_rounds { isRoot := isRoot, nChildren := n, agg := (regScript Reg.empty gs).1.flags } t emptyQ l rounds
    rfl hn hr hl
  simp only [proj, Prod.mk.injEq] at h2
  exact h1.trans h2.1

private theorem dispatch_chans_other (s : IState) (mt : Nat) (b : List Msg) (t : Nat) (h : ¬ t = mt) :
    (dispatch s mt b).1.chans t = s.chans t := by
  unfold dispatch
  cases s.reg.target mt with
  | none => rfl
  | handler f => simp only; cases s.reg.flags mt <;> cases f <;> rfl
  | chan f c =>
    simp only
    cases s.reg.flags mt <;> cases f <;> simp [h]
    split <;> simp [h]

/-- a released batch of message type `t` (collected or bypassing) -/
def ofType (t : Nat) (b : List Msg) : Bool := !b.isEmpty && b.all (fun m => m.ty == t)

private theorem released_type (cfg : Cfg) (q : Queues) (m : Msg) (hq : QInv cfg q) (b : List Msg)
    (h : (aggregate cfg q m).2 = some b) : ∀ t, ofType t b = (m.ty == t) := by
  intro t
  cases hb : bypass cfg m
  · have hk := kid_of_not_bypass hb
    rcases step_kid cfg m.ty q m hk with ⟨_, h'⟩ | ⟨_, h'⟩
    · rw [h'] at h; simp at h; subst h
      have hall : ∀ x ∈ q m.ty, x.ty = m.ty := fun x hx => (kid_not_bypass (hq m.ty x hx)).2
      by_cases e : m.ty = t
      · subst e
        simp only [ofType, List.all_append, List.all_cons, List.all_nil, beq_self_eq_true, Bool.and_true]
        simp
        intro x hx; exact hall x hx
      · have hne : (m.ty == t) = false := by simp [e]
        simp [ofType, hne]
    · rw [h'] at h; simp at h
  · rw [c04_bypass cfg q m hb] at h; simp at h; subst h
    simp [ofType]

/-- **the property for a channel registered in slice form**: as long as the channel has room (the protocol reads
often enough, or the channel is long enough — otherwise the reader waits, `c04_slice_channel_never_drops`), the
channel of type `t` receives, in order, exactly the batches `aggregate` releases for `t`: behind what it already
held, one item per batch. -/
theorem c04_chan_contents (s : IState) (l : List Msg) (t cap : Nat) (hq : QInv s.cfg s.q)
    (ht : s.reg.target t = .chan .slice cap) (hf : s.reg.flags t = true)
    (hroom : (s.chans t).length + ((run s.cfg s.q l).2.filter (ofType t)).length ≤ cap) :
    (irun s l).1.chans t = s.chans t ++ (run s.cfg s.q l).2.filter (ofType t) := by
  induction l generalizing s with
  | nil => simp [irun, run]
  | cons m l ih =>
    have hfr := istep_frame s m
    have hc := istep_cfg s m
    simp only [run, List.filter_append, List.length_append] at hroom
    -- what the step does to the channel of t
    have hstep : (istep s m).1.chans t = s.chans t ++ (aggregate s.cfg s.q m).2.toList.filter (ofType t) := by
      unfold istep
      cases hb : (aggregate s.cfg s.q m).2 with
      | none => simp [hb]
      | some b =>
        simp only [hb, Option.toList]
        have hty := released_type s.cfg s.q m hq b hb t
        by_cases e : m.ty = t
        · have ht' : ({ s with q := (aggregate s.cfg s.q m).1 } : IState).reg.target m.ty = .chan .slice cap := by
            rw [e]; exact ht
          have hroom' : (s.chans t).length < cap := by
            have : ofType t b = true := by rw [hty]; simp [e]
            simp [hb, this] at hroom; omega
          rw [c04_dispatch_chan_slice { s with q := (aggregate s.cfg s.q m).1 } m.ty cap b ht' (by rw [e]; exact hf)
            (by rw [e]; exact hroom')]
          have : ofType t b = true := by rw [hty]; simp [e]
          simp [e, this]
        · have : ofType t b = false := by rw [hty]; simp [e]
          simp only [List.filter_cons, this, List.filter_nil]
          have hne : ¬ t = m.ty := fun h => e h.symm
          have := dispatch_chans_other { s with q := (aggregate s.cfg s.q m).1 } m.ty b t hne
          simpa using this
    have ih' := ih (istep s m).1 (by rw [hc, hfr.1]; exact qinv_step s.cfg s.q m hq) (by rw [hfr.2.1]; exact ht)
      (by rw [hfr.2.1]; exact hf) (by rw [hc, hfr.1, hstep]; simp; omega)
    simp only [irun, run, List.filter_append]
    rw [ih', hc, hfr.1, hstep, List.append_assoc]

/-- the rounds arrive in the channel: one item per round, exactly the round, when the children's messages of
type `t` come as consecutive rounds and the channel is long enough for what is not read meanwhile -/
theorem c04_registered_rounds_chan (s : IState) (l : List Msg) (t cap : Nat) (rounds : List (List Msg))
    (hfresh : s.q = emptyQ) (hempty : s.chans t = [])
    (ht : s.reg.target t = .chan .slice cap) (hf : s.reg.flags t = true)
    (hn : 1 ≤ s.nChildren) (hr : ∀ r ∈ rounds, r.length = s.nChildren)
    (hl : l.filter (kid s.cfg t) = rounds.flatten)
    (hroom : ((run s.cfg s.q l).2.filter (ofType t)).length ≤ cap) :
    ((irun s l).1.chans t).filter (isAggBatch s.cfg t) = rounds := by
  have hq : QInv s.cfg s.q := by rw [hfresh]; exact qinv_empty _
  rw [c04_chan_contents s l t cap hq ht hf (by rw [hempty]; simpa using hroom), hempty, List.nil_append]
  have h2 := c04_rounds s.cfg t s.q l rounds (by rw [hfresh]; rfl) hn hr hl
  simp only [proj, Prod.mk.injEq] at h2
  rw [List.filter_filter]
  have : (fun b => isAggBatch s.cfg t b && ofType t b) = isAggBatch s.cfg t := by
    funext b
    by_cases hb : isAggBatch s.cfg t b = true
    · have : ofType t b = true := by
        simp only [isAggBatch, Bool.and_eq_true, List.all_eq_true] at hb
        simp only [ofType, Bool.and_eq_true, List.all_eq_true]
        refine ⟨hb.1, fun x hx => ?_⟩
        have := (kid_not_bypass (hb.2 x hx)).2
        simp [this]
      simp [hb, this]
    · simp at hb; simp [hb]
  rw [this]; exact h2.1

/-- **registered one by one ⇒ delivered one by one**: a message type whose dispatch target is a plain-form
handler reaches it message by message, all of them, in arrival order — whatever else is interleaved. -/
theorem c04_registered_plain_one_by_one (s : IState) (l : List Msg) (t : Nat) (hi : HInv s.reg)
    (ht : s.reg.target t = .handler .plain) :
    (callsOf (irun s l).2).filter (ofType t) = (l.filter (fun m => m.ty == t)).map fun m => [m] := by
  have hflag : s.reg.flags t = false := by
    have ⟨h1, h2⟩ := target_handler ht
    have := hi t .plain h1 h2
    rw [this]; rfl
  induction l generalizing s with
  | nil => simp [irun, callsOf]
  | cons m l ih =>
    have hfr := istep_frame s m
    have ih' := ih (istep s m).1 (by rw [hfr.2.1]; exact hi) (by rw [hfr.2.1]; exact ht) (by rw [hfr.2.1]; exact hflag)
    have hco : ∀ (a b : List Outcome), callsOf (a ++ b) = callsOf a ++ callsOf b := by
      intro a b; induction a with
      | nil => rfl
      | cons o a iha => cases o <;> simp [callsOf, iha]
    simp only [irun, hco, List.filter_append, ih']
    by_cases e : m.ty = t
    · -- the message bypasses aggregation and is handed to the plain handler alone
      have hb : bypass s.cfg m = true := by
        simp [bypass, IState.cfg, e, hflag]
      have hstep : (istep s m).2 = some (.calls [[m]]) := by
        unfold istep
        rw [c04_bypass s.cfg s.q m hb]
        simp only
        rw [c04_dispatch_handler_plain _ _ _ (by exact hi) (by rw [e]; exact ht)]
        simp
      simp [hstep, callsOf, ofType, e]
    · -- another type: whatever is called holds no message of type t
      have hne : (m.ty == t) = false := by simp [e]
      simp only [List.filter_cons, hne]
      suffices h : (callsOf (istep s m).2.toList).filter (ofType t) = [] by simp [h]
      unfold istep
      cases hb : (aggregate s.cfg s.q m).2 with
      | none => simp [hb, callsOf]
      | some b =>
        simp only [hb, Option.toList]
        -- every message of a released batch has the type of the message that released it only if queued ones
        -- do; without the queue invariant we argue on the calls directly: they are [b] or singletons of b's
        -- elements, and b = queue of m.ty ++ [m] or [m]
        have hbm : ∀ x ∈ b, x = m ∨ x ∈ s.q m.ty := by
          intro x hx
          unfold aggregate at hb
          split at hb
          · simp at hb; subst hb; simp at hx; exact Or.inl hx
          · simp only at hb
            split at hb
            · simp at hb; subst hb; simp at hx; rcases hx with hx | hx
              · exact Or.inr hx
              · exact Or.inl hx
            · simp at hb
        have hlast : m ∈ b := by
          unfold aggregate at hb
          split at hb
          · simp at hb; subst hb; simp
          · simp only at hb
            split at hb
            · simp at hb; subst hb; simp
            · simp at hb
        have hnot : ofType t b = false := by
          simp only [ofType, Bool.and_eq_false_iff]
          right
          simp only [List.all_eq_false]
          exact ⟨m, hlast, by simp [e]⟩
        unfold dispatch
        cases ({ s with q := (aggregate s.cfg s.q m).1 } : IState).reg.target m.ty with
        | none => simp [callsOf]
        | chan f c =>
          simp only
          cases ({ s with q := (aggregate s.cfg s.q m).1 } : IState).reg.flags m.ty <;> cases f <;> simp [callsOf]
          · split <;> simp [callsOf]
          · split <;> simp [callsOf]
        | handler f =>
          simp only
          cases hfl : ({ s with q := (aggregate s.cfg s.q m).1 } : IState).reg.flags m.ty <;> cases f <;>
            simp [callsOf, hnot]
          -- plain handler, flag not set: the batch is [m] itself
          have hbp : bypass s.cfg m = true := by
            have : s.reg.flags m.ty = false := hfl
            simp [bypass, IState.cfg, this]
          rw [c04_bypass s.cfg s.q m hbp] at hb
          simp at hb; subst hb
          simp [ofType, e]

/-- non-vacuity: the standard recording protocol's registrations (M1 slice handler, M3 plain handler, M2 slice
channel, M4 plain channel) meet the hypotheses for type 1 -/
example : (regScript Reg.empty Drv.stdScript).1.target 1 = .handler .slice := by decide
example : (regScript Reg.empty Drv.stdScript).1.target 2 = .chan .slice 1000 := by decide
example : (regScript Reg.empty Drv.stdScript).2 = [true, true] := by decide

/-! ### non-vacuity of the registration / dispatch / several-instances statements -/

/-- the hypotheses of `c04_sys_rounds` are met by the interleaved schedule of the example above, for instance 0
and type 1 (two rounds) and, at once, for instance 1 and type 1 (one round of three) -/
example :
    let l : List (Nat × Msg) := [(0, k 0 1), (1, k 2 2), (0, ⟨2, some 1, 3⟩), (0, par 4), (1, k 0 5), (0, k 1 6), (1, oth 0 7),
      (0, ⟨2, some 0, 8⟩), (0, k 1 9), (1, k 1 10), (0, k 0 11)]
    (evOf 0 l).filter (kid (sys2.cfg 0) 1) = [[k 0 1, k 1 6], [k 1 9, k 0 11]].flatten ∧
    (evOf 1 l).filter (kid (sys2.cfg 1) 1) = [[k 2 2, k 0 5, k 1 10]].flatten := by decide

/-- the standard protocol's script registers every type in one form: the premise of `c04_reg_consistent` -/
example : ∀ g ∈ Drv.stdScript, ∀ c ∈ g, ∀ t f, formOf c = some (t, f) →
    f = (fun t => if t = 1 ∨ t = 2 then Form.slice else Form.plain) t := by
  intro g hg c hc t f h
  simp [Drv.stdScript] at hg
  rcases hg with rfl | rfl <;> simp at hc <;> rcases hc with rfl | rfl <;>
    simp [formOf, splitForm, Drv.good] at h <;> obtain ⟨rfl, rfl⟩ := h <;> simp

example : (regScript Reg.empty Drv.stdScript).1.flags 2 = true ∧
    (regScript Reg.empty Drv.stdScript).1.target 3 = .handler .plain ∧
    (regScript Reg.empty Drv.stdScript).1.target 4 = .chan .plain 1000 := by decide

/-- a slice channel of capacity 1: the first batch goes in, the second waits with the reader, one read receives both -/
example :
    let r : Reg := (regScript Reg.empty [[.channel (.chanPtr (.slice (.strct 2 true 1))) 1]]).1
    let s0 : IState := { isRoot := true, nChildren := 1, reg := r }
    let s1 := (istep s0 (k 0 1)).1
    let s2 := (istep s1 (k 0 2)).1
    (istep s0 (k 0 1)).2 = some (.sent [[k 0 1]]) ∧ (istep s1 (k 0 2)).2 = some .blocked ∧
    s2.stuck = some (1, [k 0 2]) ∧ (irecv s2 1).2 = [[k 0 1], [k 0 2]] := by decide

/-- a plain channel of capacity 1 that is not read: the second message is refused -/
example :
    let r : Reg := (regScript Reg.empty [[.channel (.chanPtr (.strct 2 true 3)) 1]]).1
    let s0 : IState := { isRoot := true, nChildren := 2, reg := r }
    (irun s0 [⟨3, some 0, 1⟩, ⟨3, some 1, 2⟩]).2 = [.sent [[⟨3, some 0, 1⟩]], .dropped] := by decide

/-! ### the code regions the model stands for
Regenerated from /repo's source on every run (`harness/cmd/astfacts` → `OnetVerif/Shapes.lean`): the
calls that matter for synchronisation and data flow, the lock regions and (for decision logic) the
conditions, in source order.  A re-ordering, a dropped call or a changed condition breaks these
obligations even when no sampled input or schedule shows a difference; the check then searches for
a failing input. -/
theorem c04_shape_TreeNodeInstance_aggregate :
    Shapes.treenode_TreeNodeInstance_aggregate =
   ["n.IsRoot", "n.Parent", "TreeNodeID.Equal",
     "if:(fromParent||!n.hasFlag(mt,AggregateMessages))", "return:mt,?,true", "if:!ok",
     "if:(len(msgs)==len(n.Children()))", "return:mt,msgs,true", "return:mt,nil,false"] := rfl

theorem c04_shape_TreeNodeInstance_dispatchMsgToProtocol :
    Shapes.treenode_TreeNodeInstance_dispatchMsgToProtocol =
   ["rx.add", "n.aggregate", "n.dispatchChannel", "n.dispatchHandler"] := rfl

theorem c04_shape_TreeNodeInstance_dispatchHandler :
    Shapes.treenode_TreeNodeInstance_dispatchHandler =
   ["n.hasFlag", "to.Elem", "n.createValueAndVerify", "msgs.Index", "Index().Set", "f.Call",
     "errV.IsValid", "errV.IsNil", "n.createValueAndVerify", "f.Call", "errV.IsNil"] := rfl

theorem c04_shape_TreeNodeInstance_dispatchChannel :
    Shapes.treenode_TreeNodeInstance_dispatchChannel =
   ["defer{", "}", "n.hasFlag", "to.Elem", "to.Elem", "n.createValueAndVerify", "out.Index",
     "Index().Set", "to.Elem", "n.createValueAndVerify", "out.Len", "out.Cap",
     "msgDispatchQueueMutex.Lock", "msgDispatchQueueMutex.Unlock", "out.Send"] := rfl

theorem c04_shape_TreeNodeInstance_RegisterHandler :
    Shapes.treenode_TreeNodeInstance_RegisterHandler =
   ["uint32", "if:(cr.Kind()!=reflect.Func)", "return:xerrors.New(\"\")", "if:(cr.NumOut()!=1)",
     "return:xerrors.New(\"\")", "if:(cr.Out(0)!=reflect.TypeOf().Elem())",
     "return:xerrors.New(\"\")", "cr.In", "if:(ci.Kind()==reflect.Slice)", "ci.Elem",
     "if:(ci.Kind()!=reflect.Struct)", "return:xerrors.New(\"\")", "if:(ci.NumField()!=2)",
     "return:xerrors.New(\"\")", "if:(ci.Field().Type!=reflect.TypeOf(&?))",
     "return:xerrors.New(\"\")", "ptr.Interface", "network.RegisterMessage", "return:nil"] := rfl

theorem c04_shape_TreeNodeInstance_RegisterChannelLength :
    Shapes.treenode_TreeNodeInstance_RegisterChannelLength =
   ["uint32", "if:(cr.Kind()==reflect.Ptr)", "val.Set",
     "return:n.RegisterChannel(reflect.Indirect().Interface())", "else",
     "if:reflect.ValueOf().IsNil()", "return:xerrors.New(\"\")", "if:(cr.Kind()!=reflect.Chan)",
     "return:xerrors.New(\"\")", "if:(cr.Elem().Kind()==reflect.Slice)", "cr.Elem",
     "if:(cr.Elem().Kind()!=reflect.Struct)", "return:xerrors.New(\"\")",
     "if:(cr.Elem().NumField()!=2)", "return:xerrors.New(\"\")",
     "if:(cr.Elem().Field().Type!=reflect.TypeOf(&?))", "return:xerrors.New(\"\")",
     "m.Interface", "network.RegisterMessage", "return:nil"] := rfl

theorem c04_shape_TreeNodeInstance_RegisterChannel :
    Shapes.treenode_TreeNodeInstance_RegisterChannel =
   ["n.RegisterChannelLength", "if:(err!=nil)", "return:xerrors.Errorf(\"\",err)", "return:nil"] := rfl

theorem c04_shape_TreeNodeInstance_RegisterHandlers :
    Shapes.treenode_TreeNodeInstance_RegisterHandlers =
   ["n.RegisterHandler", "if:(err!=nil)", "return:xerrors.Errorf(\"\",h,err.Error())",
     "return:nil"] := rfl

theorem c04_shape_TreeNodeInstance_RegisterChannels :
    Shapes.treenode_TreeNodeInstance_RegisterChannels =
   ["n.RegisterChannel", "if:(err!=nil)", "return:xerrors.Errorf(\"\",ch,err.Error())",
     "return:nil"] := rfl

theorem c04_shape_TreeNodeInstance_RegisterChannelsLength :
    Shapes.treenode_TreeNodeInstance_RegisterChannelsLength =
   ["n.RegisterChannelLength", "if:(err!=nil)", "return:xerrors.Errorf(\"\",ch,err.Error())",
     "return:nil"] := rfl

theorem c04_shape_TreeNodeInstance_hasFlag :
    Shapes.treenode_TreeNodeInstance_hasFlag =
   ["return:((n.messageTypeFlags[]&f)!=0)"] := rfl

theorem c04_shape_TreeNodeInstance_aggregate_b2 :
    Shapes.treenode_TreeNodeInstance_aggregate_b2 =
   ["assign:mt:=onetMsg.MsgType", "n.IsRoot", "n.Parent", "TreeNodeID.Equal",
     "assign:fromParent:=(!n.IsRoot()&&onetMsg.From.TreeNodeID.Equal(n.Parent().ID))",
     "if:(fromParent||!n.hasFlag(mt,AggregateMessages))", "return:mt,conv{onetMsg},true",
     "assign:_,ok:=n.msgQueue[mt]", "if:!ok", "assign:n.msgQueue[mt]=make(conv,0)",
     "assign:msgs:=append(n.msgQueue[mt],onetMsg)", "assign:n.msgQueue[mt]=msgs",
     "if:(len(msgs)==len(n.Children()))", "return:mt,msgs,true", "return:mt,nil,false"] := rfl

theorem c04_shape_TreeNodeInstance_setFlag_b2 :
    Shapes.treenode_TreeNodeInstance_setFlag_b2 =
   ["assign:n.messageTypeFlags[mt]|=f"] := rfl

theorem c04_shape_TreeNodeInstance_clearFlag_b2 :
    Shapes.treenode_TreeNodeInstance_clearFlag_b2 =
   ["assign:n.messageTypeFlags[mt]&^=f"] := rfl

theorem c04_shape_TreeNodeInstance_hasFlag_b2 :
    Shapes.treenode_TreeNodeInstance_hasFlag_b2 =
   ["return:((n.messageTypeFlags[mt]&f)!=0)"] := rfl

theorem c04_shape_TreeNodeInstance_dispatchHandler_b2 :
    Shapes.treenode_TreeNodeInstance_dispatchHandler_b2 =
   ["assign:mt:=msgSlice[0].MsgType", "assign:to:=reflect.TypeOf().In(0)",
     "assign:f:=reflect.ValueOf(n.handlers[mt])", "if:n.hasFlag(mt,AggregateMessages)",
     "assign:msgs:=reflect.MakeSlice(to,len(msgSlice),len(msgSlice))", "range:i,msg:=msgSlice{",
     "to.Elem", "n.createValueAndVerify", "assign:m,err:=n.createValueAndVerify(to.Elem(),msg)",
     "if:(err!=nil)", "return:xerrors.Errorf(\"\",err)", "msgs.Index", "Index().Set", "}",
     "f.Call", "assign:errV=f.Call(conv{msgs})[0]", "else", "range:_,msg:=msgSlice{",
     "if:(errV.IsValid()&&!errV.IsNil())", "n.createValueAndVerify",
     "assign:m,err:=n.createValueAndVerify(to,msg)", "if:(err!=nil)",
     "return:xerrors.Errorf(\"\",err)", "f.Call", "assign:errV=f.Call(conv{m})[0]", "}",
     "if:!errV.IsNil()", "return:xerrors.Errorf(\"\",errV.Interface())", "return:nil"] := rfl

theorem c04_shape_TreeNodeInstance_dispatchChannel_b2 :
    Shapes.treenode_TreeNodeInstance_dispatchChannel_b2 =
   ["assign:mt:=msgSlice[0].MsgType", "defer{", "assign:r:=recover()", "if:(r!=nil)", "}",
     "assign:to:=reflect.TypeOf(n.channels[mt])", "if:n.hasFlag(mt,AggregateMessages)",
     "to.Elem", "assign:to=to.Elem()",
     "assign:out:=reflect.MakeSlice(to,len(msgSlice),len(msgSlice))", "range:i,msg:=msgSlice{",
     "to.Elem", "n.createValueAndVerify", "assign:m,err:=n.createValueAndVerify(to.Elem(),msg)",
     "if:(err!=nil)", "return:xerrors.Errorf(\"\",err)", "out.Index", "Index().Set", "}", "else",
     "range:_,msg:=msgSlice{", "assign:out:=reflect.ValueOf(n.channels[mt])", "to.Elem",
     "n.createValueAndVerify", "assign:m,err:=n.createValueAndVerify(to.Elem(),msg)",
     "if:(err!=nil)", "return:xerrors.Errorf(\"\",err)", "if:(out.Len()<out.Cap())",
     "msgDispatchQueueMutex.Lock", "assign:closing:=n.closing", "msgDispatchQueueMutex.Unlock",
     "if:!closing", "out.Send", "else", "return:xerrors.Errorf((\"\"+\"\"),mt,n.ProtocolName())",
     "}", "return:nil"] := rfl

theorem c04_shape_TreeNodeInstance_dispatchMsgToProtocol_b2 :
    Shapes.treenode_TreeNodeInstance_dispatchMsgToProtocol_b2 =
   ["rx.add", "if:(onetMsg.From==nil)", "return:xerrors.New(\"\")", "n.aggregate",
     "assign:msgType,msgs,done:=n.aggregate(onetMsg)", "if:!done", "return:nil", "switch:{",
     "case:(n.channels[msgType]!=nil)", "n.dispatchChannel",
     "assign:err=n.dispatchChannel(msgs)", "case:(n.handlers[msgType]!=nil)",
     "n.dispatchHandler", "assign:err=n.dispatchHandler(msgs)", "default",
     "return:xerrors.Errorf(\"\",reflect.TypeOf(onetMsg.Msg))", "}", "if:(err!=nil)",
     "return:xerrors.Errorf(\"\",err)", "return:nil"] := rfl

theorem c04_shape_TreeNodeInstance_RegisterHandler_b2 :
    Shapes.treenode_TreeNodeInstance_RegisterHandler_b2 =
   ["uint32", "assign:flags:=uint32(0)", "assign:cr:=reflect.TypeOf(c)",
     "if:(cr.Kind()!=reflect.Func)", "return:xerrors.New(\"\")", "if:(cr.NumOut()!=1)",
     "return:xerrors.New(\"\")", "if:(cr.Out(0)!=reflect.TypeOf().Elem())",
     "return:xerrors.New(\"\")", "cr.In", "assign:ci:=cr.In(0)", "if:(ci.Kind()==reflect.Slice)",
     "assign:flags+=AggregateMessages", "ci.Elem", "assign:ci=ci.Elem()",
     "if:(ci.Kind()!=reflect.Struct)", "return:xerrors.New(\"\")", "if:(ci.NumField()!=2)",
     "return:xerrors.New(\"\")", "if:(ci.Field(0).Type!=reflect.TypeOf(&TreeNode{}))",
     "return:xerrors.New(\"\")", "assign:ptr:=reflect.New(ci.Field(1).Type)", "ptr.Interface",
     "network.RegisterMessage", "assign:typ:=network.RegisterMessage(ptr.Interface())",
     "assign:n.handlers[typ]=c", "assign:n.messageTypeFlags[typ]=flags", "return:nil"] := rfl

theorem c04_shape_TreeNodeInstance_RegisterChannelLength_b2 :
    Shapes.treenode_TreeNodeInstance_RegisterChannelLength_b2 =
   ["uint32", "assign:flags:=uint32(0)", "assign:cr:=reflect.TypeOf(c)",
     "if:(cr.Kind()==reflect.Ptr)", "assign:val:=reflect.ValueOf().Elem()", "val.Set",
     "return:n.RegisterChannel(reflect.Indirect().Interface())", "else",
     "if:reflect.ValueOf().IsNil()", "return:xerrors.New(\"\")", "if:(cr.Kind()!=reflect.Chan)",
     "return:xerrors.New(\"\")", "if:(cr.Elem().Kind()==reflect.Slice)",
     "assign:flags+=AggregateMessages", "cr.Elem", "assign:cr=cr.Elem()",
     "if:(cr.Elem().Kind()!=reflect.Struct)", "return:xerrors.New(\"\")",
     "if:(cr.Elem().NumField()!=2)", "return:xerrors.New(\"\")",
     "if:(cr.Elem().Field(0).Type!=reflect.TypeOf(&TreeNode{}))", "return:xerrors.New(\"\")",
     "assign:m:=reflect.New(cr.Elem().Field(1).Type)", "m.Interface", "network.RegisterMessage",
     "assign:typ:=network.RegisterMessage(m.Interface())", "assign:n.channels[typ]=c",
     "assign:n.messageTypeFlags[typ]=flags", "return:nil"] := rfl


/-! ## Composition with the instance's reader (property C05's model and theorems, imported) -/
namespace Comp

/-- one instance as the code runs it: C05's state machine of `ProcessProtocolMsg` / `dispatchMsgReader` /
`closeDispatch` (queue, wake-up token, reader), plus `msgQueue` and the batches handed to `dispatchMsgToProtocol`'s
second half so far.  `aggregate` runs where the code calls it: on the reader goroutine, when it takes a message off
the queue and enters `dispatchMsgToProtocol` (C05's step `top → handling m`). -/
structure St where
  inst : C05.St := {}
  q    : Queues := emptyQ
  out  : List (List Msg) := []

/-- what the reader's step adds: the message it has just entered the handler with, if any -/
def entered (s s' : C05.St) : Option Nat :=
  match s.pc, s'.pc with
  | .top, .handling m => some m
  | _, _ => none

def step (cfg : Cfg) (μ : Nat → Msg) (s : St) (a : C05.Act) : Option St :=
  match C05.step s.inst a with
  | none => none
  | some i' =>
    match entered s.inst i' with
    | some m =>
      let r := aggregate cfg s.q (μ m)
      some { inst := i', q := r.1, out := s.out ++ r.2.toList }
    | none => some { s with inst := i' }

/-- any schedule of feeders (`accept`), reader steps and `close`; a blocked thread does not move -/
def run (cfg : Cfg) (μ : Nat → Msg) (s : St) : List C05.Act → Option St
  | [] => some s
  | a :: as => match step cfg μ s a with
      | some s' => run cfg μ s' as
      | none => run cfg μ s as

theorem run_snoc (cfg : Cfg) (q : Queues) (l : List Msg) (m : Msg) :
    C04.run cfg q (l ++ [m]) =
      ((aggregate cfg (C04.run cfg q l).1 m).1, (C04.run cfg q l).2 ++ (aggregate cfg (C04.run cfg q l).1 m).2.toList) := by
  rw [run_append]; simp [C04.run]

/-- the glue invariant: the queues and the dispatched batches are `C04.run` over the handlers started so far -/
def Glue (cfg : Cfg) (μ : Nat → Msg) (s : St) : Prop :=
  C04.run cfg emptyQ (s.inst.started.map μ) = (s.q, s.out)

theorem started_step (s s' : C05.St) (a : C05.Act) (h : C05.step s a = some s') :
    s'.started = s.started ++ (entered s s').toList := by
  cases a with
  | accept m =>
    simp only [C05.step] at h
    split at h <;> simp at h <;> subst h <;> simp [entered] <;> cases s.pc <;> simp
  | close => simp [C05.step] at h; subst h; simp [entered]; cases s.pc <;> simp
  | reader =>
    simp only [C05.step] at h
    split at h
    · rename_i hpc
      split at h
      · simp at h; subst h; simp [entered, hpc]
      · split at h <;> simp at h <;> subst h <;> simp [entered, hpc]
    · rename_i hpc; simp at h; subst h; simp [entered, hpc]
    · rename_i hpc; split at h <;> simp at h; subst h; simp [entered, hpc]
    · simp at h

theorem glue_step (cfg : Cfg) (μ : Nat → Msg) (s s' : St) (a : C05.Act) (hg : Glue cfg μ s)
    (h : step cfg μ s a = some s') : Glue cfg μ s' ∧ C05.step s.inst a = some s'.inst := by
  unfold step at h
  cases hi : C05.step s.inst a with
  | none => simp [hi] at h
  | some i' =>
    have hs := started_step _ _ _ hi
    simp only [hi] at h
    cases he : entered s.inst i' with
    | none =>
      simp [he] at h; subst h
      simp [he] at hs
      exact ⟨by unfold Glue at hg ⊢; simp [hs, hg], rfl⟩
    | some m =>
      simp [he] at h; subst h
      simp [he] at hs
      refine ⟨?_, rfl⟩
      unfold Glue at hg ⊢
      simp only [hs, List.map_append, List.map_cons, List.map_nil, run_snoc, hg]

theorem glue_run (cfg : Cfg) (μ : Nat → Msg) (as : List C05.Act) (s s' : St) (hg : Glue cfg μ s)
    (h : run cfg μ s as = some s') : Glue cfg μ s' ∧ C05.run s.inst as = some s'.inst := by
  induction as generalizing s with
  | nil => simp [run] at h; subst h; exact ⟨hg, rfl⟩
  | cons a as ih =>
    simp only [run] at h
    cases hs : step cfg μ s a with
    | some s1 =>
      simp only [hs] at h
      have h1 := glue_step cfg μ s s1 a hg hs
      have h2 := ih s1 h1.1 h
      exact ⟨h2.1, by simp [C05.run, h1.2, h2.2]⟩
    | none =>
      simp only [hs] at h
      have h2 := ih s hg h
      have : C05.step s.inst a = none := by
        unfold step at hs
        cases hi : C05.step s.inst a with
        | none => rfl
        | some i' => simp [hi] at hs; split at hs <;> simp at hs
      exact ⟨h2.1, by simp [C05.run, this, h2.2]⟩


/-- **the batches follow the acceptance order, under every schedule** (C05's `c05_fifo`, instantiated): whatever
the interleaving of any number of feeding goroutines, reader steps and `closeDispatch`, the queues and the batches
dispatched are those of `C04.run` — the sequential model every C04 theorem is about — over a *prefix of the accepted
messages in acceptance order*.  `aggregate` never sees a message twice, out of order, or two at once. -/
theorem c04_comp_batches_follow_acceptance (cfg : Cfg) (μ : Nat → Msg) (as : List C05.Act) (s : St)
    (h : run cfg μ {} as = some s) :
    ∃ pre, pre <+: s.inst.accepted ∧ C04.run cfg emptyQ (pre.map μ) = (s.q, s.out) := by
  have hg := glue_run cfg μ as {} s (by simp [Glue, C04.run]) h
  exact ⟨s.inst.started, C05.c05_fifo as s.inst hg.2, hg.1⟩

/-- **at quiescence every accepted message went through `aggregate`, once, in acceptance order** (C05's
`c05_quiescent_all_handled` + `c05_serial` + `c05_fifo`, instantiated): when the reader can do nothing more and the
instance was not closed, the state is exactly `C04.run` over ALL accepted messages. -/
theorem c04_comp_quiescent (cfg : Cfg) (μ : Nat → Msg) (as : List C05.Act) (s : St)
    (h : run cfg μ {} as = some s) (hb : C05.step s.inst .reader = none) (hc : s.inst.closing = false) :
    C04.run cfg emptyQ (s.inst.accepted.map μ) = (s.q, s.out) := by
  have hg := glue_run cfg μ as {} s (by simp [Glue, C04.run]) h
  have hq := C05.c05_quiescent_all_handled as s.inst hg.2 hb hc
  obtain ⟨r, hr, _⟩ := C05.c05_serial as s.inst hg.2
  have hf := C05.c05_fifo as s.inst hg.2
  have : s.inst.started = s.inst.accepted := by
    have hl := hf.length_le
    rw [hr, hq.1] at hl ⊢
    have : r = [] := by
      cases r with
      | nil => rfl
      | cons x xs => simp at hl; omega
    simp [this]
  have hg1 := hg.1
  unfold Glue at hg1
  rw [this] at hg1
  exact hg1

/-- **the property's batch clause, end to end from the hand-over**: if the messages handed to the instance
(`ProcessProtocolMsg`, by any number of goroutines in any interleaving with the reader) contain the children's
messages of aggregated type `t` as `k` consecutive rounds of one message per child, then at quiescence exactly
those `k` batches have been dispatched for `t`, each holding its round, and nothing of `t` waits — `c04_rounds`
with its hypothesis "arrival order" discharged by C05's theorems instead of assumed. -/
theorem c04_comp_rounds (cfg : Cfg) (μ : Nat → Msg) (as : List C05.Act) (s : St) (t : Nat) (rounds : List (List Msg))
    (h : run cfg μ {} as = some s) (hb : C05.step s.inst .reader = none) (hc : s.inst.closing = false)
    (hn : 1 ≤ cfg.nChildren) (hr : ∀ r ∈ rounds, r.length = cfg.nChildren)
    (hl : (s.inst.accepted.map μ).filter (kid cfg t) = rounds.flatten) :
    proj cfg t (s.q, s.out) = (rounds, []) := by
  rw [← c04_comp_quiescent cfg μ as s h hb hc]
  exact c04_rounds cfg t emptyQ _ rounds rfl hn hr hl

/-- **nothing before the last child, under every schedule**: as long as fewer than `nChildren` children's
messages of type `t` have been *accepted*, no batch of type `t` has been dispatched — whatever the reader has or
has not done yet. -/
theorem c04_comp_nothing_before_complete (cfg : Cfg) (μ : Nat → Msg) (as : List C05.Act) (s : St) (t : Nat)
    (h : run cfg μ {} as = some s) (hn : 1 ≤ cfg.nChildren)
    (hlt : ((s.inst.accepted.map μ).filter (kid cfg t)).length < cfg.nChildren) :
    s.out.filter (isAggBatch cfg t) = [] := by
  obtain ⟨pre, hp, hrun⟩ := c04_comp_batches_follow_acceptance cfg μ as s h
  have hc := (c04_batch_count cfg t (pre.map μ) hn).1
  rw [hrun] at hc
  have hsub : ((pre.map μ).filter (kid cfg t)).length ≤ ((s.inst.accepted.map μ).filter (kid cfg t)).length := by
    obtain ⟨suf, hs⟩ := hp
    rw [← hs]; simp [List.filter_append]
  have : ((pre.map μ).filter (kid cfg t)).length / cfg.nChildren = 0 := Nat.div_eq_of_lt (by omega)
  simp only at hc
  rw [this] at hc
  exact List.eq_nil_of_length_eq_zero hc

/-- **`closing`**: a message handed over after `closeDispatch` never reaches `aggregate` (C05's `accept` on a
closing instance changes nothing): the state is that of the schedule without it. -/
theorem c04_comp_closed_takes_nothing (cfg : Cfg) (μ : Nat → Msg) (s : St) (m : Nat) (hc : s.inst.closing = true) :
    step cfg μ s (.accept m) = some s := by
  simp [step, C05.step, hc, entered]
  cases s.inst.pc <;> simp

/-! non-vacuity: two feeders and the reader interleaved, two children, one aggregated type; and the variant the
serialisation rules out -/
private def cfg2 : Cfg := { isRoot := true, nChildren := 2, agg := fun t => t == 1 }
private def mu (i : Nat) : Msg := { ty := 1, src := some (i % 2), val := i }

example : (run cfg2 mu {} [.accept 0, .reader, .accept 1, .reader, .reader, .reader, .reader, .reader, .reader]).map
    (fun s => (s.out, s.inst.accepted, decide (C05.step s.inst .reader = none), s.inst.closing))
    = some ([[mu 0, mu 1]], [0, 1], true, false) := by decide

/-- **negation witness for the variant without the single reader** (the hand-over goroutines call `aggregate`
themselves, as `ProcessProtocolMsg` would without queue and reader): two children's messages arriving on two
connections both read `msgQueue[t]` before either writes it back — the second write wins, the first child's
message is gone and the batch is never dispatched, although every child has sent. -/
theorem c04_comp_unserialised_loses_batch :
    let q0 := emptyQ
    let serial := aggregate cfg2 (aggregate cfg2 q0 (mu 0)).1 (mu 1)
    let racy := aggregate cfg2 q0 (mu 1)      -- computed from the queues as they were BEFORE `mu 0` was stored
    serial.2 = some [mu 0, mu 1] ∧ racy.2 = none ∧ racy.1 1 = [mu 1] := by decide

end Comp
namespace Comp

/-! ### … and with the overlay's hand-over (property C01's model of the `transmitMux` region, imported) -/

/-- **routing by token, composed**: take ANY schedule of the overlay's region — arrivals for any tokens from any number
of connections, their threads taking `transmitMux` in any order, constructors of any duration (`C01.Inst`) — and feed its
hand-over log, in hand-over order, to the instance table (`sysRun`: the instance a message is handed to is the one its
token names, C01's `c01_handed_to_its_instance`).  Then for every token (1) what its instance queues and dispatches is
`C04.run` over the messages handed to IT alone, in that order — whatever was handed to other instances in between —, and
(2) once every arrival thread is through and no instance has finished, those messages are exactly the arrivals for that
token, each handed over exactly once (`c01_region_exactly_once`, instantiated).  With `c04_comp_rounds` behind it (the
reader), C04's batch theorems hold from the moment a message leaves the connection's goroutine. -/
theorem c04_comp_routing (s : Sys) (μ : Nat → Msg) (as : List C01.Inst.Act) (tok : Nat)
    (hq : ∀ t ∈ (C01.Inst.run {} as).thr, t.pc = .fin) (hd : (C01.Inst.run {} as).doneToks = []) :
    let handed := (C01.Inst.run {} as).handed
    let evs : List (Nat × Msg) := handed.map fun p => (p.1, μ p.2)
    (sysRun s evs).1.q tok = (C04.run (s.cfg tok) (s.q tok) (evOf tok evs)).1 ∧
    outOf tok (sysRun s evs).2 = (C04.run (s.cfg tok) (s.q tok) (evOf tok evs)).2 ∧
    (∀ p ∈ handed, p.1 ∈ (C01.Inst.run {} as).inst ∧ p.1 ∈ (C01.Inst.run {} as).created) ∧
    ∀ m, handed.count (tok, m) = (C01.Inst.run {} as).arrived.count (tok, m) := by
  intro handed evs
  have hi := c04_instances_independent s tok evs
  refine ⟨hi.2.1, hi.2.2, ?_, ?_⟩
  · intro p hp
    have h := C01.Inst.c01_handed_to_its_instance as p hp
    rcases h.1 with h1 | h1
    · exact ⟨h1, h.2⟩
    · rw [hd] at h1; simp at h1
  · intro m
    have h := C01.Inst.c01_region_exactly_once as hq tok m
    have hdrop : (C01.Inst.run {} as).dropped.count (tok, m) = 0 := by
      rw [List.count_eq_zero]
      intro hm
      have := C01.Inst.c01_dropped_only_finished as (tok, m) hm
      rw [hd] at this; simp at this
    show (C01.Inst.run {} as).handed.count (tok, m) = _
    omega

/-- non-vacuity: two tokens, three arrivals, the constructor of token 7 still running when the second message for it
arrives -/
example :
    let as : List C01.Inst.Act := [.arrive 7 1, .arrive 9 2, .thread 0, .arrive 7 3, .thread 2, .thread 1, .thread 0, .thread 1, .thread 2, .thread 1, .thread 2]
    (C01.Inst.run {} as).handed = [(7, 1), (9, 2), (7, 3)] ∧ (C01.Inst.run {} as).doneToks = [] ∧
    ∀ t ∈ (C01.Inst.run {} as).thr, t.pc = .fin := by
  decide

end Comp
end C04
