import OnetVerif.Model.C11
/-! Property C11 — property theorems, negation witnesses, `_partial` variants and non-vacuity
examples only (helper lemmas that need Mathlib go to OnetVerif/Proofs/). -/
namespace C11

end C11
